// Package c01 decides property C01: every outgoing call of a client or server
// session completes exactly once, with its own response or an error. The peer
// is a fully scripted connection (memio.ScriptConn): the script decides when
// each write completes and how, which responses arrive and when the reader
// fails; virtual time and quiescence come from synctest.
package c01

import (
	"context"
	"encoding/json"
	"errors"
	"fmt"
	"io"
	"math"
	"reflect"
	"strings"
	"testing"
	"testing/synctest"
	"time"

	"github.com/modelcontextprotocol/go-sdk/internal/jsonrpc2"
	"github.com/modelcontextprotocol/go-sdk/jsonrpc"
	"github.com/modelcontextprotocol/go-sdk/mcp"
	"github.com/modelcontextprotocol/go-sdk/verif/memio"
	"github.com/modelcontextprotocol/go-sdk/verif/vt"
	"pgregory.net/rapid"
)

func TestMain(m *testing.M) { vt.Main(m) }

type Event struct {
	Kind string `json:"kind"` // call relwrite respond readfail cancel close failwrites sleep
	// call
	Ctx     string `json:"ctx,omitempty"` // "bg" | "cancel" | "deadline"
	Timeout int    `json:"timeout_ms,omitempty"`
	// relwrite: I selects among parked writes (mod), Outcome ok|broken|rejected
	I       int    `json:"i,omitempty"`
	Outcome string `json:"outcome,omitempty"`
	// respond: I selects among issued calls (mod); Resp result|error|wrongtype|unknown
	Resp    string          `json:"resp,omitempty"`
	Payload json.RawMessage `json:"payload,omitempty"`
	Code    int64           `json:"code,omitempty"`
	// readfail: Err "eof"|"err"
	Err string `json:"err,omitempty"`
	// sleep
	Ms int `json:"ms,omitempty"`
	// NoWait: do not wait for quiescence after this event (next event races with it)
	NoWait bool `json:"nowait,omitempty"`
}

type Script struct {
	Side   string  `json:"side"` // client | server
	Gate   bool    `json:"gate"` // writes are gated (else complete immediately)
	Events []Event `json:"events"`
}

func genPayload(rt *rapid.T) json.RawMessage {
	switch rapid.IntRange(0, 5).Draw(rt, "pk") {
	case 0:
		return json.RawMessage(`null`)
	case 1:
		return json.RawMessage(fmt.Sprintf(`%d`, rapid.Int64().Draw(rt, "n")))
	case 2:
		b, _ := json.Marshal(rapid.String().Draw(rt, "s"))
		return b
	case 3:
		b, _ := json.Marshal(map[string]any{"a": rapid.IntRange(0, 9).Draw(rt, "a"), "b": []any{rapid.Bool().Draw(rt, "b"), nil, 1.5}})
		return b
	default:
		return json.RawMessage(fmt.Sprintf(`{"tag":%d}`, rapid.IntRange(0, 1000).Draw(rt, "tag")))
	}
}

func genScript(rt *rapid.T, allowNoWait bool) Script {
	var s Script
	s.Side = rapid.SampledFrom([]string{"client", "server"}).Draw(rt, "side")
	s.Gate = rapid.IntRange(0, 3).Draw(rt, "gate") != 0
	n := rapid.IntRange(1, 40).Draw(rt, "n")
	calls := 0
	for i := 0; i < n; i++ {
		kinds := []string{"call", "call", "badcall", "relwrite", "relwrite", "relwrite", "respond", "respond", "respond", "cancel", "sleep", "readfail", "close", "failwrites"}
		if calls >= 12 {
			kinds = kinds[3:]
		} else {
			kinds = append(kinds, "call")
		}
		e := Event{Kind: rapid.SampledFrom(kinds).Draw(rt, "kind")}
		switch e.Kind {
		case "call":
			calls++
			e.Ctx = rapid.SampledFrom([]string{"bg", "cancel", "cancel", "deadline"}).Draw(rt, "ctx")
			if e.Ctx == "deadline" {
				e.Timeout = rapid.SampledFrom([]int{1, 50, 5000, 60000}).Draw(rt, "timeout")
			}
		case "relwrite":
			e.I = rapid.IntRange(0, 11).Draw(rt, "i")
			e.Outcome = rapid.SampledFrom([]string{"ok", "ok", "ok", "ok", "broken", "rejected"}).Draw(rt, "outcome")
		case "respond":
			e.I = rapid.IntRange(0, 11).Draw(rt, "i")
			e.Resp = rapid.SampledFrom([]string{"result", "result", "result", "error", "wrongtype", "unknown"}).Draw(rt, "resp")
			e.Payload = genPayload(rt)
			e.Code = rapid.SampledFrom([]int64{-32000, -32601, -32602, 0, 1, 7}).Draw(rt, "code")
		case "cancel":
			e.I = rapid.IntRange(0, 11).Draw(rt, "i")
		case "readfail":
			e.Err = rapid.SampledFrom([]string{"eof", "err"}).Draw(rt, "err")
		case "sleep":
			e.Ms = rapid.SampledFrom([]int{1, 49, 50, 51, 4999, 5000, 5001, 70000}).Draw(rt, "ms")
		}
		if allowNoWait {
			e.NoWait = rapid.IntRange(0, 2).Draw(rt, "nowait") == 0
		}
		s.Events = append(s.Events, e)
	}
	return s
}

// badRec is a call that cannot be encoded: it must fail at once, exactly once, and leave the session intact.
type badRec struct {
	done      chan struct{}
	err       error
	completed int
}

// callRec is the harness' record of one outgoing call.
type callRec struct {
	k         int
	ctxKind   string
	cancel    context.CancelFunc
	done      chan struct{}
	completed int
	err       error
	result    json.RawMessage // JSON of the payload the caller got (structuredContent / roots)
	id        *jsonrpc.ID     // learnt from the write
	cancelled bool            // script cancelled it (or its deadline may have passed)
	deadline  time.Time
	raced     bool // a response and a cancellation for it were not separated by quiescence
	// what the script delivered for this call's id, first delivery only
	delivered          bool
	deliverKind        string
	deliverPay         json.RawMessage
	deliverCode        int64
	deliveredWhileDone bool
	startedAfterDone   bool
	writeFailed        bool // the script failed (broken/rejected) the write of this call's request
}

type world struct {
	s             Script
	sc            *memio.ScriptConn
	calls         []*callRec
	broken        bool // connection may be broken/closing (write broken, read failed, close called, failwrites)
	brokenByNow   bool
	closeDone     chan struct{}
	allWritesFail bool
	released      map[*memio.PendingWrite]bool
	res           *vt.Result

	doCall func(ctx context.Context, k int) (json.RawMessage, error)
	// doBad issues a call whose parameters cannot be encoded as JSON (a NaN): it never reaches the wire.
	doBad  func(ctx context.Context) error
	bad    []*badRec
	wait   func() error
	closeS func() error
}

func kOfRequest(r *jsonrpc.Request) (int, bool) {
	var p struct {
		Arguments struct {
			K *int `json:"k"`
		} `json:"arguments"`
		Meta struct {
			K *int `json:"k"`
		} `json:"_meta"`
	}
	if json.Unmarshal(r.Params, &p) != nil {
		return 0, false
	}
	if p.Arguments.K != nil {
		return *p.Arguments.K, true
	}
	if p.Meta.K != nil {
		return *p.Meta.K, true
	}
	return 0, false
}

// resultFor builds the wire result carrying payload for the side's method.
func resultFor(side string, payload json.RawMessage) json.RawMessage {
	if side == "client" { // tools/call result
		return json.RawMessage(fmt.Sprintf(`{"content":[{"type":"text","text":"x"}],"structuredContent":%s}`, payload))
	}
	// roots/list result: payload travels in _meta
	return json.RawMessage(fmt.Sprintf(`{"roots":[{"uri":"file:///r","name":"r"}],"_meta":{"p":%s}}`, payload))
}

func jsonEqual(a, b json.RawMessage) bool {
	var x, y any
	if json.Unmarshal(a, &x) != nil || json.Unmarshal(b, &y) != nil {
		return false
	}
	return reflect.DeepEqual(x, y)
}

// unreleased returns the parked writes the script has not released yet.
func (w *world) unreleased() []*memio.PendingWrite {
	var out []*memio.PendingWrite
	for _, pw := range w.sc.Pending() {
		if !w.released[pw] {
			out = append(out, pw)
		}
	}
	return out
}

func (w *world) learnIDs() {
	for _, pw := range w.sc.Pending() {
		w.learn(pw.Msg)
	}
	for _, m := range w.sc.Written() {
		w.learn(m)
	}
}

func (w *world) learn(m jsonrpc.Message) {
	r, ok := m.(*jsonrpc.Request)
	if !ok || !r.IsCall() {
		return
	}
	if k, ok := kOfRequest(r); ok && k < len(w.calls) && w.calls[k].id == nil {
		id := r.ID
		w.calls[k].id = &id
	}
}

func run(s Script) (res vt.Result) {
	if p := vt.Bubble(theT, func() { res = runInBubble(s) }); p != "" {
		if stuckInSession(p) {
			res.Failf("bubble did not end cleanly (a call/Close/Wait blocked forever): %s", p)
		} else {
			res.Class("teardown_leftover") // some other goroutine of the SDK stayed behind: not this property's business
		}
	}
	return res
}

// stuckInSession reports whether the leftover goroutines of a bubble include one of the harness' own
// (a call, Wait or Close that never returned) or one parked inside a call/Wait/Close of the SDK.
func stuckInSession(stacks string) bool {
	for _, m := range []string{"verif/c01.", "(*AsyncCall).Await", "Session).Wait(", "Session).Close(", "(*Connection).wait("} {
		if strings.Contains(stacks, m) {
			return true
		}
	}
	return false
}

var theT *testing.T

func runInBubble(s Script) (res vt.Result) {
	w := &world{s: s, sc: memio.NewScriptConn(), res: &res, released: map[*memio.PendingWrite]bool{}}
	w.sc.Rejected = fmt.Errorf("%w: scripted rejection", jsonrpc2.ErrRejected)
	var desc strings.Builder
	nt := false

	switch s.Side {
	case "client":
		client := mcp.NewClient(&mcp.Implementation{Name: "c", Version: "1"}, nil)
		cs, err := memio.ConnectClient(client, w.sc, "2025-06-18", "")
		if err != nil {
			res.Failf("setup: %v", err)
			return
		}
		w.doCall = func(ctx context.Context, k int) (json.RawMessage, error) {
			r, err := cs.CallTool(ctx, &mcp.CallToolParams{Name: "t", Arguments: map[string]any{"k": k}})
			if err != nil {
				return nil, err
			}
			b, _ := json.Marshal(r.StructuredContent)
			return b, nil
		}
		w.doBad = func(ctx context.Context) error {
			_, err := cs.CallTool(ctx, &mcp.CallToolParams{Name: "t", Arguments: map[string]any{"k": math.NaN()}})
			return err
		}
		w.wait, w.closeS = cs.Wait, cs.Close
	default:
		server := mcp.NewServer(&mcp.Implementation{Name: "s", Version: "1"}, nil)
		ss, err := server.Connect(context.Background(), w.sc.Transport(), nil)
		if err != nil {
			res.Failf("setup: %v", err)
			return
		}
		// The scripted peer plays the documented legacy handshake (initialize + notifications/initialized,
		// declaring the roots capability): an SDK that refuses roots/list on a session the client has not
		// initialised is as good as one that allows it; the property is about calls that are sent.
		w.sc.InjectRaw(`{"jsonrpc":"2.0","id":"hs","method":"initialize","params":{"protocolVersion":"2025-06-18","capabilities":{"roots":{}},"clientInfo":{"name":"scripted","version":"0"}}}`)
		synctest.Wait()
		w.sc.InjectRaw(`{"jsonrpc":"2.0","method":"notifications/initialized"}`)
		synctest.Wait()
		w.doCall = func(ctx context.Context, k int) (json.RawMessage, error) {
			r, err := ss.ListRoots(ctx, &mcp.ListRootsParams{Meta: mcp.Meta{"k": k}})
			if err != nil {
				return nil, err
			}
			b, _ := json.Marshal(r.Meta["p"])
			return b, nil
		}
		w.doBad = func(ctx context.Context) error {
			_, err := ss.ListRoots(ctx, &mcp.ListRootsParams{Meta: mcp.Meta{"k": math.NaN()}})
			return err
		}
		w.wait, w.closeS = ss.Wait, ss.Close
	}
	w.sc.ResetWritten()
	w.sc.GateWrites = s.Gate

	waitDone := make(chan struct{})
	go func() { w.wait(); close(waitDone) }()

	startCall := func(ctxKind string, timeoutMs int) *callRec {
		c := &callRec{k: len(w.calls), ctxKind: ctxKind, done: make(chan struct{})}
		ctx := context.Background()
		switch ctxKind {
		case "cancel":
			ctx, c.cancel = context.WithCancel(ctx)
		case "deadline":
			c.deadline = time.Now().Add(time.Duration(timeoutMs) * time.Millisecond)
			ctx, c.cancel = context.WithDeadline(ctx, c.deadline)
		}
		w.calls = append(w.calls, c)
		go func() {
			r, err := w.doCall(ctx, c.k)
			c.result, c.err = r, err
			c.completed++
			close(c.done)
		}()
		return c
	}
	isDone := func(c *callRec) bool {
		select {
		case <-c.done:
			return true
		default:
			return false
		}
	}

	pendingCount := func() int {
		n := 0
		for _, c := range w.calls {
			if !isDone(c) {
				n++
			}
		}
		return n
	}

	var group []int // calls touched by respond/cancel in the current no-wait group
	groupKinds := map[int]map[string]bool{}
	touch := func(k int, kind string) {
		if groupKinds[k] == nil {
			groupKinds[k] = map[string]bool{}
		}
		groupKinds[k][kind] = true
		group = append(group, k)
	}
	inGroup := false

	for step, e := range s.Events {
		switch e.Kind {
		case "call":
			c := startCall(e.Ctx, e.Timeout)
			if w.allWritesFail {
				c.writeFailed = true
			}
			if w.brokenByNow {
				c.startedAfterDone = true
			}
			desc.WriteString("C")
		case "badcall":
			b := &badRec{done: make(chan struct{})}
			w.bad = append(w.bad, b)
			go func() {
				b.err = w.doBad(context.Background())
				b.completed++
				close(b.done)
			}()
			desc.WriteString("B")
		case "relwrite":
			pend := w.unreleased()
			if len(pend) == 0 {
				desc.WriteString("-")
				break
			}
			pw := pend[e.I%len(pend)]
			w.released[pw] = true
			o := memio.WriteOK
			switch e.Outcome {
			case "broken":
				o = memio.WriteBroken
				w.broken = true
				nt = true
			case "rejected":
				o = memio.WriteRejected
				nt = true
			}
			w.learn(pw.Msg)
			if r, ok := pw.Msg.(*jsonrpc.Request); ok && r.IsCall() && o != memio.WriteOK {
				if k, ok := kOfRequest(r); ok && k < len(w.calls) {
					w.calls[k].writeFailed = true
					// a failed write completes the call like a response does: inside an unsynchronised
					// group it races with a cancellation of the same call (either error is legitimate)
					touch(k, "respond")
				}
			}
			w.sc.Release(pw, o)
			desc.WriteString("w" + e.Outcome[:1])
		case "respond":
			w.learnIDs()
			var known []*callRec
			for _, c := range w.calls {
				if c.id != nil {
					known = append(known, c)
				}
			}
			switch {
			case e.Resp == "unknown" || len(known) == 0:
				w.sc.Inject(&jsonrpc.Response{ID: jsonrpc2.Int64ID(1_000_000 + int64(step)), Result: resultFor(s.Side, e.Payload)})
				desc.WriteString("ru")
			case e.Resp == "wrongtype":
				c := known[e.I%len(known)]
				// same digits/characters, the other JSON type (whichever type the SDK chose for its own ids)
				wrong := jsonrpc2.StringID(fmt.Sprint(c.id.Raw()))
				if sid, isStr := c.id.Raw().(string); isStr {
					var n int64
					if _, err := fmt.Sscan(sid, &n); err != nil || fmt.Sprint(n) != sid {
						n = 1_000_000 + int64(step) // no integer spelling of this id: an id nobody uses
					}
					wrong = jsonrpc2.Int64ID(n)
				}
				w.sc.Inject(&jsonrpc.Response{ID: wrong, Result: resultFor(s.Side, e.Payload)})
				desc.WriteString("rt")
			default:
				c := known[e.I%len(known)]
				// Is the write of this call still parked (response before write release)?
				for _, pw := range w.sc.Pending() {
					if r, ok := pw.Msg.(*jsonrpc.Request); ok && r.IsCall() && r.ID == *c.id {
						nt = true
						desc.WriteString("!")
					}
				}
				if !c.delivered {
					c.delivered = true
					c.deliverKind, c.deliverPay, c.deliverCode = e.Resp, e.Payload, e.Code
					c.deliveredWhileDone = isDone(c)
				}
				if e.Resp == "error" {
					w.sc.Inject(&jsonrpc.Response{ID: *c.id, Error: &jsonrpc.Error{Code: e.Code, Message: fmt.Sprintf("scripted error for call %d", c.k), Data: e.Payload}})
				} else {
					w.sc.Inject(&jsonrpc.Response{ID: *c.id, Result: resultFor(s.Side, e.Payload)})
				}
				touch(c.k, "respond")
				desc.WriteString("r" + e.Resp[:1])
			}
		case "cancel":
			var cands []*callRec
			for _, c := range w.calls {
				if c.cancel != nil {
					cands = append(cands, c)
				}
			}
			if len(cands) == 0 {
				desc.WriteString("-")
				break
			}
			c := cands[e.I%len(cands)]
			if !isDone(c) {
				c.cancelled = true
			}
			c.cancel()
			touch(c.k, "cancel")
			desc.WriteString("x")
		case "readfail":
			if pendingCount() > 0 {
				nt = true
			}
			if e.Err == "eof" {
				w.sc.FailRead(io.EOF)
			} else {
				w.sc.FailRead(errors.New("scripted read error"))
			}
			w.broken = true
			desc.WriteString("E")
		case "close":
			if pendingCount() > 0 {
				nt = true
			}
			if w.closeDone == nil {
				w.closeDone = make(chan struct{})
				cd := w.closeDone
				go func() { w.closeS(); close(cd) }()
			} else {
				go w.closeS()
			}
			w.broken = true
			desc.WriteString("K")
		case "failwrites":
			for _, pw := range w.unreleased() {
				if r, ok := pw.Msg.(*jsonrpc.Request); ok && r.IsCall() {
					if k, ok := kOfRequest(r); ok && k < len(w.calls) {
						w.calls[k].writeFailed = true
					}
				}
			}
			w.sc.FailAllWrites(memio.ErrInjected)
			w.broken = true
			w.allWritesFail = true
			nt = true
			desc.WriteString("F")
		case "sleep":
			time.Sleep(time.Duration(e.Ms) * time.Millisecond)
			desc.WriteString("s")
		}
		if e.NoWait && step < len(s.Events)-1 {
			inGroup = true
			continue
		}
		synctest.Wait()
		// group bookkeeping: a call both answered and cancelled inside one unsynchronised group is "raced"
		for _, k := range group {
			if inGroup && groupKinds[k]["respond"] && groupKinds[k]["cancel"] {
				w.calls[k].raced = true
			}
		}
		if inGroup {
			// Anything touched in an unsynchronised group whose outcome depends on goroutine order.
			for _, k := range group {
				if groupKinds[k]["cancel"] {
					w.calls[k].raced = w.calls[k].raced || groupKinds[k]["respond"]
				}
			}
		}
		group, groupKinds, inGroup = nil, map[int]map[string]bool{}, false
		w.learnIDs()
		if w.broken {
			w.brokenByNow = true
		}
		// deadlines that have passed count as cancellations
		for _, c := range w.calls {
			if c.ctxKind == "deadline" && !isDone(c) && !time.Now().Before(c.deadline) {
				c.cancelled = true
			}
		}
		w.checkQuiescent(step, isDone)
		if len(res.Violations) > 0 {
			break
		}
	}

	// ---- usability probe: if nothing broke the connection, a fresh call must work ----
	if len(res.Violations) == 0 && !w.broken {
		c := startCall("bg", 0)
		synctest.Wait()
		w.learnIDs()
		for _, pw := range w.sc.Pending() {
			if r, ok := pw.Msg.(*jsonrpc.Request); ok && r.IsCall() && c.id != nil && r.ID == *c.id {
				w.sc.Release(pw, memio.WriteOK)
			}
		}
		synctest.Wait()
		if c.id == nil {
			res.Failf("probe: the connection never wrote a fresh call although nothing broke it (after rejected writes/cancellations the session must stay usable)")
		} else {
			pay := json.RawMessage(`{"probe":true}`)
			c.delivered, c.deliverKind, c.deliverPay = true, "result", pay
			w.sc.Inject(&jsonrpc.Response{ID: *c.id, Result: resultFor(s.Side, pay)})
			synctest.Wait()
			if !isDone(c) {
				res.Failf("probe: fresh call %d did not complete after its response was delivered", c.k)
			}
		}
		res.Class("probe_usable")
	}

	// ---- teardown: peer goes away; the session must terminate and nothing may stay blocked ----
	w.broken = true
	w.sc.FailRead(io.EOF)
	synctest.Wait()
	// Parked writes belong to a transport that is now gone.
	w.sc.FailAllWrites(io.ErrClosedPipe)
	synctest.Wait()
	time.Sleep(6 * time.Second) // lets best-effort cancel notifications (5s budget) finish
	synctest.Wait()
	select {
	case <-waitDone:
	default:
		res.Failf("Wait did not return after the reader reached EOF and all writes failed")
		w.sc.Close()
		return finish(res, &desc, nt, w)
	}
	for _, c := range w.calls {
		if !isDone(c) {
			res.Failf("call %d (ctx %s) is still blocked after the session's Wait returned", c.k, c.ctxKind)
		}
	}
	if w.closeDone != nil {
		select {
		case <-w.closeDone:
		default:
			res.Failf("Close did not return although the session terminated")
		}
	}
	// calls started after termination fail immediately and identify the connection as closed
	t0 := time.Now()
	late := startCall("bg", 0)
	synctest.Wait()
	if !isDone(late) {
		res.Failf("a call started after Wait returned blocks instead of failing immediately")
	} else {
		if late.err == nil {
			res.Failf("a call started after Wait returned succeeded")
		} else if !errors.Is(late.err, mcp.ErrConnectionClosed) {
			res.Failf("a call started after Wait returned failed with %q, which does not identify the connection as closed (errors.Is(err, mcp.ErrConnectionClosed) is false)", late.err)
		}
		if d := time.Since(t0); d != 0 {
			res.Failf("a call started after Wait returned took %v of virtual time to fail", d)
		}
	}
	w.finalChecks(isDone)
	return finish(res, &desc, nt, w)
}

// checkQuiescent: invariants that hold whenever all goroutines are durably blocked.
func (w *world) checkQuiescent(step int, isDone func(*callRec) bool) {
	parked := map[jsonrpc.ID]bool{}
	for _, pw := range w.sc.Pending() {
		if r, ok := pw.Msg.(*jsonrpc.Request); ok && r.IsCall() {
			parked[r.ID] = true
		}
	}
	// An SDK whose encoder accepts NaN (e.g. writes null) sends the "unencodable" call like any other: a call
	// request without a readable k on the wire means the bad calls are ordinary pending calls, not judged here.
	nanOnWire := false
	for _, m := range append(w.sc.Written(), func() (ms []jsonrpc.Message) {
		for _, pw := range w.sc.Pending() {
			ms = append(ms, pw.Msg)
		}
		return
	}()...) {
		if r, ok := m.(*jsonrpc.Request); ok && r.IsCall() {
			if _, ok := kOfRequest(r); !ok {
				nanOnWire = true
			}
		}
	}
	for i, b := range w.bad {
		if nanOnWire {
			w.res.Class("nan_call_reached_the_wire")
			break
		}
		select {
		case <-b.done:
			if b.err == nil {
				w.res.Failf("after step %d: unencodable call %d (NaN parameter) returned without an error", step, i)
			}
		default:
			w.res.Failf("after step %d: unencodable call %d (NaN parameter, live context) has not returned", step, i)
		}
	}
	for _, c := range w.calls {
		done := isDone(c)
		writeParked := c.id != nil && parked[*c.id]
		if c.writeFailed && !done {
			w.res.Failf("after step %d: call %d has not returned although the write of its request failed", step, c.k)
		}
		if c.cancelled && !done {
			w.res.Failf("after step %d: call %d had its context cancelled/expired but has not returned", step, c.k)
		}
		if c.delivered && !c.deliveredWhileDone && !done && !writeParked && c.id != nil {
			w.res.Failf("after step %d: call %d has not completed although the response to its id %v was delivered and its write is not pending", step, c.k, c.id.Raw())
		}
		if done {
			w.checkOutcome(c)
		}
	}
}

// checkOutcome validates the result a completed call got (idempotent).
func (w *world) checkOutcome(c *callRec) {
	if c.completed != 1 {
		w.res.Failf("call %d completed %d times", c.k, c.completed)
	}
	var werr *jsonrpc.Error
	switch {
	case c.err == nil:
		if !c.delivered || c.deliverKind != "result" {
			w.res.Failf("call %d returned a result %s although the script never delivered a result for its id (delivered=%v kind=%q): it received someone else's response", c.k, c.result, c.delivered, c.deliverKind)
			return
		}
		if c.deliveredWhileDone {
			w.res.Failf("call %d: internal harness inconsistency (result delivered after completion)", c.k)
			return
		}
		if !jsonEqual(c.result, c.deliverPay) {
			w.res.Failf("call %d returned payload %s, want the payload delivered for its id: %s", c.k, c.result, c.deliverPay)
		}
	case errors.As(c.err, &werr) && strings.HasPrefix(werr.Message, "scripted error for call"):
		if !c.delivered || c.deliverKind != "error" {
			w.res.Failf("call %d returned the peer error %q that was not delivered for its id", c.k, werr.Message)
			return
		}
		if werr.Message != fmt.Sprintf("scripted error for call %d", c.k) {
			w.res.Failf("call %d returned another call's error: %q", c.k, werr.Message)
		}
		if werr.Code != c.deliverCode {
			w.res.Failf("call %d: error code %d, want %d", c.k, werr.Code, c.deliverCode)
		}
		if !jsonEqual(werr.Data, c.deliverPay) {
			w.res.Failf("call %d: error data %s, want %s", c.k, werr.Data, c.deliverPay)
		}
	default:
		// Plain error: needs a cause.
		if c.cancelled || c.raced {
			if c.cancelled && !c.raced && !(errors.Is(c.err, context.Canceled) || errors.Is(c.err, context.DeadlineExceeded)) && !w.broken {
				w.res.Failf("call %d was cancelled on a healthy connection but returned %q, which is not the context's error", c.k, c.err)
			}
			return
		}
		if c.ctxKind == "deadline" && errors.Is(c.err, context.DeadlineExceeded) {
			return
		}
		// A call whose own request write the script failed (rejected or broken) may report that with any
		// error: the property asks for "an error", not for one that wraps the internal ErrRejected.
		if !w.broken && !c.writeFailed && !errors.Is(c.err, jsonrpc2.ErrRejected) {
			w.res.Failf("call %d failed with %q although its context is live and nothing broke, closed or rejected (spurious error)", c.k, c.err)
		}
	}
}

func (w *world) finalChecks(isDone func(*callRec) bool) {
	for _, c := range w.calls {
		if isDone(c) {
			w.checkOutcome(c)
		}
	}
}

func finish(res vt.Result, desc *strings.Builder, nt bool, w *world) vt.Result {
	res.Desc = w.s.Side + fmt.Sprint(w.s.Gate) + desc.String()
	res.NonTrivial = nt
	d := desc.String()
	for _, c := range []struct{ sub, class string }{{"!", "response_before_write_release"}, {"E", "reader_failure"}, {"K", "close"}, {"wb", "write_broken"}, {"wr", "write_rejected"}, {"x", "cancel"}, {"rt", "wrong_id_type"}, {"F", "fail_all_writes"}, {"B", "unencodable_call"}} {
		if strings.Contains(d, c.sub) {
			res.Class(c.class)
		}
	}
	res.Class("side_" + w.s.Side)
	return res
}

var seqProp = vt.Register(&vt.Prop[Script]{Property: "C01", Name: "seq", Journal: true,
	Gen: func(rt *rapid.T) Script { return genScript(rt, false) }, Run: run})

// race: same interpreter, but events may be fired without quiescence in
// between (scheduler-chosen interleavings; built with -race in the thorough tier).
var raceProp = vt.Register(&vt.Prop[Script]{Property: "C01", Name: "race", Journal: true,
	Gen: func(rt *rapid.T) Script { return genScript(rt, true) }, Run: run})

func TestC01_Seq(t *testing.T)  { theT = t; seqProp.Check(t) }
func TestC01_Race(t *testing.T) { theT = t; raceProp.Check(t) }
func TestReplay(t *testing.T)   { theT = t; vt.Replay(t) }
func TestRegress(t *testing.T)  { theT = t; vt.Regress(t, "C01") }
func TestKnown(t *testing.T)    { theT = t; vt.Known(t, "C01") }
