package c01

// TestC01_Ephemeral: calls a server makes to its client from inside a request handler, on streamable HTTP
// endpoints whose sessions cannot be addressed again: stateless endpoints, and stateful ones whose
// GetSessionID returns "" (every POST gets a session of its own). Such a call either is refused at once
// (the documented answer: such servers cannot make requests) or completes with the client's answer. What
// must not happen: the client receives the request, answers it, and the call still does not complete.

import (
	"context"
	"fmt"
	"sync"
	"testing"
	"testing/synctest"
	"time"

	"github.com/modelcontextprotocol/go-sdk/mcp"
	"github.com/modelcontextprotocol/go-sdk/verif/vt"
	"github.com/modelcontextprotocol/go-sdk/verif/wire"
	"pgregory.net/rapid"
)

type EphScript struct {
	Link    wire.Config `json:"link"`
	Version string      `json:"version"` // what the client asks for
	Nested  []string    `json:"nested"`  // the calls the handler makes, one after the other: ping | roots | sample
}

func genEph(rt *rapid.T) EphScript {
	s := EphScript{
		Link: rapid.SampledFrom([]wire.Config{
			{Kind: wire.Stateful, EmptySessionID: true}, {Kind: wire.Stateful, EmptySessionID: true, JSON: true},
			{Kind: wire.Stateful, EmptySessionID: true, Store: true}, {Kind: wire.Stateful, EmptySessionID: true, NoStandalone: true},
			{Kind: wire.Stateless}, {Kind: wire.Stateless, JSON: true},
		}).Draw(rt, "link"),
		Version: rapid.SampledFrom([]string{"2025-06-18", "2025-11-25", "2025-03-26"}).Draw(rt, "version"),
		Nested:  rapid.SliceOfN(rapid.SampledFrom([]string{"ping", "ping", "roots", "sample"}), 1, 3).Draw(rt, "nested"),
	}
	return s
}

func runEph(s EphScript) (res vt.Result) {
	if p := vt.Bubble(theT, func() { res = runEphInBubble(s) }); p != "" {
		res.Class("teardown_leftover")
	}
	return res
}

func runEphInBubble(s EphScript) (res vt.Result) {
	res.Desc = fmt.Sprintf("ephemeral|%s|%s|%v", s.Link, s.Version, s.Nested)
	res.NonTrivial = s.Link.EmptySessionID
	var mu sync.Mutex
	type nested struct {
		method   string
		returned bool
		err      error
	}
	var calls []*nested
	answered := map[string]int{} // requests the client's handlers have answered, per method
	sopts := &mcp.ServerOptions{}
	if s.Link.EmptySessionID {
		sopts.GetSessionID = func() string { return "" }
	}
	server := mcp.NewServer(&mcp.Implementation{Name: "srv", Version: "1"}, sopts)
	handlerDone := make(chan struct{})
	mcp.AddTool(server, &mcp.Tool{Name: "ask"}, func(ctx context.Context, req *mcp.CallToolRequest, _ map[string]any) (*mcp.CallToolResult, any, error) {
		defer close(handlerDone)
		for _, m := range s.Nested {
			n := &nested{method: m}
			mu.Lock()
			calls = append(calls, n)
			mu.Unlock()
			// the handler, as the caller of this request, gives up after a minute (virtual)
			cctx, cancel := context.WithTimeout(ctx, time.Minute)
			var err error
			switch m {
			case "ping":
				err = req.Session.Ping(cctx, nil)
			case "roots":
				_, err = req.Session.ListRoots(cctx, nil)
			default:
				_, err = req.Session.CreateMessage(cctx, &mcp.CreateMessageParams{MaxTokens: 1, Messages: []*mcp.SamplingMessage{{Role: "user", Content: &mcp.TextContent{Text: "q"}}}})
			}
			cancel()
			mu.Lock()
			n.returned, n.err = true, err
			mu.Unlock()
		}
		return &mcp.CallToolResult{Content: []mcp.Content{&mcp.TextContent{Text: "done"}}}, nil, nil
	})
	link, err := wire.New(server, s.Link)
	if err != nil {
		res.Failf("harness: %v", err)
		return
	}
	client := mcp.NewClient(&mcp.Implementation{Name: "cli", Version: "1"}, &mcp.ClientOptions{
		CreateMessageHandler: func(context.Context, *mcp.CreateMessageRequest) (*mcp.CreateMessageResult, error) {
			return &mcp.CreateMessageResult{Content: &mcp.TextContent{Text: "a"}, Model: "m", Role: "assistant"}, nil
		},
	})
	client.AddRoots(&mcp.Root{URI: "file:///r", Name: "r"})
	// every request the client has answered is counted once its handler has returned
	client.AddReceivingMiddleware(func(next mcp.MethodHandler) mcp.MethodHandler {
		return func(ctx context.Context, method string, req mcp.Request) (mcp.Result, error) {
			r, err := next(ctx, method, req)
			if err == nil && (method == "ping" || method == "roots/list" || method == "sampling/createMessage") {
				mu.Lock()
				answered[method]++
				mu.Unlock()
			}
			return r, err
		}
	})
	bg := context.Background()
	var cs *mcp.ClientSession
	cerr := make(chan error, 1)
	go func() {
		var e error
		cs, e = client.Connect(bg, link.ClientTransport, &mcp.ClientSessionOptions{ProtocolVersion: s.Version})
		cerr <- e
	}()
	connected := false
	for i := 0; i < 60 && !connected; i++ {
		synctest.Wait()
		select {
		case e := <-cerr:
			if e != nil {
				res.Failf("harness: connect over %s: %v", s.Link, e)
				return
			}
			connected = true
		default:
			time.Sleep(time.Second)
		}
	}
	if !connected {
		res.Failf("harness: connect over %s did not return", s.Link)
		return
	}
	defer func() {
		go cs.Close()
		synctest.Wait()
		time.Sleep(2 * time.Minute)
		synctest.Wait()
	}()
	callDone := make(chan error, 1)
	go func() {
		_, e := cs.CallTool(bg, &mcp.CallToolParams{Name: "ask", Arguments: map[string]any{}})
		callDone <- e
	}()
	// a few seconds of virtual time: far less than the minute after which the handler gives a call up
	for i := 0; i < 5; i++ {
		synctest.Wait()
		time.Sleep(time.Second)
	}
	synctest.Wait()
	mu.Lock()
	wire2method := map[string]string{"ping": "ping", "roots": "roots/list", "sample": "sampling/createMessage"}
	seen := map[string]int{}
	for i, n := range calls {
		m := wire2method[n.method]
		seen[m]++
		switch {
		case n.returned && n.err == nil:
			res.Class("nested_call_answered")
		case n.returned:
			res.Class("nested_call_refused_or_failed_at_once")
		case answered[m] >= seen[m]:
			res.Failf("nested call %d (%s) of a handler on %s: the client received the request and answered it (%d answered), yet the call has not completed five seconds later", i, n.method, s.Link, answered[m])
		default:
			// neither refused nor delivered yet: it must at least end with its caller's deadline
			res.Class("nested_call_pending_without_reaching_the_client")
		}
	}
	mu.Unlock()
	if len(res.Violations) > 0 {
		return
	}
	// whatever is still pending ends with the handler's own deadlines; then the tool call is answered
	for i := 0; i < 5*len(s.Nested) && len(callDone) == 0; i++ {
		time.Sleep(time.Minute)
		synctest.Wait()
	}
	select {
	case <-callDone:
	default:
		res.Failf("the tools/call whose handler made %v to the client never returned (link %s)", s.Nested, s.Link)
	}
	return res
}

var ephProp = vt.Register(&vt.Prop[EphScript]{Property: "C01", Name: "ephemeral", Gen: genEph, Run: runEph})

func TestC01_Ephemeral(t *testing.T) { theT = t; ephProp.Check(t) }
