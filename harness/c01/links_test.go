package c01

// Arrangement over real links (prop "links"): a real client has several calls parked on a real server
// (pipe, legacy SSE, stateful streamable with and without an event store) when the server side goes
// away without any goodbye: the pipe end closes, the SSE event stream is cut (with a read error or a clean
// end), the open response bodies are cut and every later HTTP exchange fails. Every pending call must then
// complete with an error by itself - nobody calls Close, nobody sends anything - within a generous amount
// of virtual time, and a call started afterwards must not hang either.

import (
	"context"
	"errors"
	"fmt"
	"net/http"
	"strings"
	"sync"
	"testing"
	"testing/synctest"
	"time"

	"github.com/modelcontextprotocol/go-sdk/mcp"
	"github.com/modelcontextprotocol/go-sdk/verif/memhttp"
	"github.com/modelcontextprotocol/go-sdk/verif/memio"
	"github.com/modelcontextprotocol/go-sdk/verif/vt"
	"pgregory.net/rapid"
)

type LinkScript struct {
	Link    string `json:"link"` // pipe | sse | stateful | stateful-store
	Calls   int    `json:"calls"`
	CutKind string `json:"cut_kind"`  // err | eof : how open response bodies end (HTTP links)
	Answer  int    `json:"answer"`    // this many calls are answered before the break
	LateMs  int    `json:"late_ms"`   // a further call is started this long after the break (negative: the client sends nothing more)
	KeepPOS bool   `json:"keep_post"` // sse: the message endpoint keeps accepting POSTs after the event stream ended
	// NoStandalone (streamable): the client is configured with DisableStandaloneSSE, so no other stream of
	// the session notices that the server is gone.
	NoStandalone bool `json:"no_standalone,omitempty"`
	// OneStream (streamable): the server stays; only the response streams of the calls still waiting are
	// cut, and their handlers answer 5 s later. Whether such a call then fails or is answered over a resumed
	// stream depends on the event store and the retry budget; it must return either way.
	OneStream bool   `json:"one_stream,omitempty"`
	Retries   int    `json:"retries,omitempty"` // StreamableClientTransport.MaxRetries (0: default, <0: none)
	Version   string `json:"version,omitempty"` // protocol version of the session ("" = 2025-06-18)
}

func genLinks(rt *rapid.T) LinkScript {
	s := LinkScript{
		Link:    rapid.SampledFrom([]string{"pipe", "sse", "sse", "stateful", "stateful-store"}).Draw(rt, "link"),
		Calls:   rapid.IntRange(1, 4).Draw(rt, "calls"),
		CutKind: rapid.SampledFrom([]string{"err", "eof"}).Draw(rt, "cut"),
		LateMs:  rapid.SampledFrom([]int{-1, -1, -1, 0, 1, 5000, 120000}).Draw(rt, "late"),
		KeepPOS: rapid.Bool().Draw(rt, "keep_post"),
	}
	s.NoStandalone = rapid.Bool().Draw(rt, "no_standalone")
	s.Answer = rapid.IntRange(0, s.Calls).Draw(rt, "answer")
	if strings.HasPrefix(s.Link, "stateful") {
		s.OneStream = rapid.IntRange(0, 2).Draw(rt, "one_stream") == 0
		s.Retries = rapid.SampledFrom([]int{0, 0, -1, -1, 1}).Draw(rt, "retries")
		s.Version = rapid.SampledFrom([]string{"", "2025-11-25", "2025-11-25"}).Draw(rt, "version")
	}
	return s
}

func runLinks(s LinkScript) (res vt.Result) {
	if p := vt.Bubble(theT, func() { res = runLinksInBubble(s) }); p != "" {
		res.Class("teardown_leftover")
	}
	return res
}

type parkIn struct {
	K int `json:"k"`
}

func runLinksInBubble(s LinkScript) (res vt.Result) {
	var mu sync.Mutex
	gates := map[int]chan struct{}{}
	gate := func(k int) chan struct{} {
		mu.Lock()
		defer mu.Unlock()
		if gates[k] == nil {
			gates[k] = make(chan struct{})
		}
		return gates[k]
	}
	server := mcp.NewServer(&mcp.Implementation{Name: "srv", Version: "1"}, nil)
	mcp.AddTool(server, &mcp.Tool{Name: "park"}, func(ctx context.Context, req *mcp.CallToolRequest, in parkIn) (*mcp.CallToolResult, any, error) {
		select {
		case <-gate(in.K):
		case <-ctx.Done():
		}
		return &mcp.CallToolResult{Content: []mcp.Content{&mcp.TextContent{Text: fmt.Sprintf("answer-%d", in.K)}}}, nil, nil
	})
	var ct mcp.Transport
	var tr *memhttp.Transport
	var serverEnd *memio.End
	gone := false
	switch s.Link {
	case "pipe":
		a, b := memio.NewPipe()
		serverEnd = a
		if _, err := server.Connect(context.Background(), &mcp.IOTransport{Reader: a, Writer: a}, nil); err != nil {
			res.Failf("harness: %v", err)
			return
		}
		ct = &mcp.IOTransport{Reader: b, Writer: b}
	case "sse":
		tr = &memhttp.Transport{Handler: mcp.NewSSEHandler(func(*http.Request) *mcp.Server { return server }, nil)}
		ct = &mcp.SSEClientTransport{Endpoint: "http://mcp.example/sse", HTTPClient: tr.Client()}
	default:
		opts := &mcp.StreamableHTTPOptions{}
		if s.Link == "stateful-store" {
			opts.EventStore = mcp.NewMemoryEventStore(nil)
		}
		tr = &memhttp.Transport{Handler: mcp.NewStreamableHTTPHandler(func(*http.Request) *mcp.Server { return server }, opts)}
		ct = &mcp.StreamableClientTransport{Endpoint: "http://mcp.example/mcp", HTTPClient: tr.Client(), DisableStandaloneSSE: s.NoStandalone, MaxRetries: s.Retries}
	}
	if tr != nil {
		tr.Fail = func(r *http.Request) error {
			mu.Lock()
			defer mu.Unlock()
			if gone && !(s.Link == "sse" && s.KeepPOS && r.Method == "POST") {
				return errors.New("connection refused")
			}
			return nil
		}
	}
	client := mcp.NewClient(&mcp.Implementation{Name: "cli", Version: "1"}, nil)
	version := s.Version
	if version == "" {
		version = "2025-06-18"
	}
	var cs *mcp.ClientSession
	cerr := make(chan error, 1)
	go func() {
		var e error
		cs, e = client.Connect(context.Background(), ct, &mcp.ClientSessionOptions{ProtocolVersion: version})
		cerr <- e
	}()
	synctest.Wait()
	select {
	case e := <-cerr:
		if e != nil {
			res.Failf("harness: connect: %v", e)
			return
		}
	default:
		res.Failf("harness: connect did not return")
		return
	}
	defer func() {
		for k := 0; k < 16; k++ {
			select {
			case <-gate(k):
			default:
				close(gate(k))
			}
		}
		synctest.Wait()
		go cs.Close()
		for ss := range server.Sessions() {
			go ss.Close()
		}
		synctest.Wait()
		time.Sleep(2 * time.Minute)
		synctest.Wait()
		if tr != nil {
			for _, ex := range tr.Exchanges() {
				ex.Cut(memhttp.ErrCut)
			}
		}
		synctest.Wait()
	}()
	type call struct {
		k    int
		done chan struct{}
		err  error
		text string
	}
	start := func(k int) *call {
		c := &call{k: k, done: make(chan struct{})}
		go func() {
			r, err := cs.CallTool(context.Background(), &mcp.CallToolParams{Name: "park", Arguments: map[string]any{"k": k}})
			c.err = err
			if err == nil && len(r.Content) == 1 {
				c.text = r.Content[0].(*mcp.TextContent).Text
			}
			close(c.done)
		}()
		return c
	}
	isDone := func(c *call) bool {
		select {
		case <-c.done:
			return true
		default:
			return false
		}
	}
	var calls []*call
	for k := 0; k < s.Calls; k++ {
		calls = append(calls, start(k))
		synctest.Wait()
	}
	for k := 0; k < s.Answer; k++ {
		close(gate(k))
		synctest.Wait()
		if !isDone(calls[k]) || calls[k].err != nil || calls[k].text != fmt.Sprintf("answer-%d", k) {
			res.Failf("call %d over a healthy %s link: done=%v err=%v result=%q", k, s.Link, isDone(calls[k]), calls[k].err, calls[k].text)
			return
		}
	}
	if s.OneStream {
		// ---- only the streams of the waiting calls break; the server and the rest of the session stay ----
		cutErr := memhttp.ErrCut
		if s.CutKind == "eof" {
			cutErr = nil
		}
		for _, ex := range tr.Exchanges() {
			if ex.Method == "POST" && !ex.HandlerDone() {
				ex.Cut(cutErr)
			}
		}
		synctest.Wait()
		time.Sleep(5 * time.Second)
		for k := s.Answer; k < s.Calls; k++ {
			close(gate(k))
		}
		for waited := time.Duration(0); waited <= 20*time.Minute; waited += 10 * time.Second {
			synctest.Wait()
			all := true
			for _, c := range calls {
				all = all && isDone(c)
			}
			if all {
				break
			}
			time.Sleep(10 * time.Second)
		}
		for _, c := range calls[s.Answer:] {
			switch {
			case !isDone(c):
				res.Failf("call %d is still blocked 20 minutes after its response stream broke (%s) over %s (MaxRetries %d, protocol %s), although its handler has answered and the session is otherwise healthy", c.k, s.CutKind, s.Link, s.Retries, version)
			case c.err == nil && c.text != fmt.Sprintf("answer-%d", c.k):
				res.Failf("call %d returned %q, want answer-%d or an error", c.k, c.text, c.k)
			case c.err == nil:
				res.Class("answered_over_a_resumed_stream")
			default:
				res.Class("failed_when_its_stream_broke")
			}
		}
		res.Desc = fmt.Sprintf("%s|%d|%s|%d|one|%d|%s|%v", s.Link, s.Calls, s.CutKind, s.Answer, s.Retries, version, s.NoStandalone)
		res.NonTrivial = s.Calls-s.Answer >= 1
		res.Class("link_"+s.Link, "cut_"+s.CutKind, "only_the_calls_streams_break")
		return res
	}
	// ---- the server side goes away ----
	mu.Lock()
	gone = true
	mu.Unlock()
	cutErr := memhttp.ErrCut
	if s.CutKind == "eof" {
		cutErr = nil
	}
	switch s.Link {
	case "pipe":
		serverEnd.Close()
	default:
		for _, ex := range tr.Exchanges() {
			if !ex.HandlerDone() {
				ex.Cut(cutErr)
			}
		}
	}
	broke := time.Now()
	var late *call
	lateStarted := false
	for waited := time.Duration(0); waited <= 20*time.Minute; waited += 10 * time.Second {
		synctest.Wait()
		if !lateStarted && s.LateMs >= 0 && time.Since(broke) >= time.Duration(s.LateMs)*time.Millisecond {
			late = start(15)
			lateStarted = true
			synctest.Wait()
		}
		all := s.LateMs < 0 || (lateStarted && isDone(late))
		for _, c := range calls {
			all = all && isDone(c)
		}
		if all {
			break
		}
		time.Sleep(10 * time.Second)
	}
	for _, c := range calls[s.Answer:] {
		if !isDone(c) {
			res.Failf("call %d is still blocked %v after the %s link broke (%s) although nothing can answer it any more", c.k, time.Since(broke), s.Link, s.CutKind)
		} else if c.err == nil {
			res.Failf("call %d returned a result (%q) although its handler never answered and the link broke", c.k, c.text)
		}
	}
	if late != nil && !isDone(late) {
		res.Failf("a call started %dms after the %s link broke (%s) is still blocked %v later", s.LateMs, s.Link, s.CutKind, time.Since(broke))
	} else if late != nil && late.err == nil {
		res.Failf("a call started after the %s link broke returned a result", s.Link)
	}
	res.Desc = fmt.Sprintf("%s|%d|%s|%d|%d|%v|%v", s.Link, s.Calls, s.CutKind, s.Answer, s.LateMs, s.KeepPOS, s.NoStandalone)
	res.NonTrivial = s.Calls-s.Answer >= 1
	res.Class("link_"+s.Link, "cut_"+s.CutKind)
	return res
}

var linksProp = vt.Register(&vt.Prop[LinkScript]{Property: "C01", Name: "links", Gen: genLinks, Run: runLinks})

func TestC01_Links(t *testing.T) { theT = t; linksProp.Check(t) }
