package c01

// TestC01_SessionIDRT (real time, outside any bubble; see DESIGN 2.6c): the streamable HTTP client against a
// scripted endpoint that answers in application/json and, on one scripted response, names another session id
// than the one it issued (a load balancer that misroutes a request, a server that allocates a new id). Whatever
// the client makes of that - the documented reaction is to fail the call and break the connection - every
// call returns, Close and Wait return, and a call made after Wait has returned fails at once with
// ErrConnectionClosed. The arrangement arms no timers (no standalone stream, no retries, JSON answers), so
// once the process has come to rest whatever has not returned never will: this is where a lock that is never
// released on that path shows.

import (
	"context"
	"encoding/json"
	"errors"
	"fmt"
	"io"
	"net/http"
	"strings"
	"sync"
	"testing"
	"time"

	"github.com/modelcontextprotocol/go-sdk/mcp"
	"github.com/modelcontextprotocol/go-sdk/verif/memhttp"
	"github.com/modelcontextprotocol/go-sdk/verif/vt"
	"pgregory.net/rapid"
)

type SessIDScript struct {
	Calls   int    `json:"calls"`    // sequential calls
	Odd     int    `json:"odd"`      // the response to this call (0-based; >= Calls: none) carries the odd header
	OddKind string `json:"odd_kind"` // other (a different id) | none (no header at all) | same
	Issue   bool   `json:"issue"`    // the endpoint issues a session id at initialize
}

func genSessID(rt *rapid.T) SessIDScript {
	return SessIDScript{
		Calls:   rapid.IntRange(1, 4).Draw(rt, "calls"),
		Odd:     rapid.IntRange(0, 4).Draw(rt, "odd"),
		OddKind: rapid.SampledFrom([]string{"other", "other", "none", "same"}).Draw(rt, "odd_kind"),
		Issue:   rapid.IntRange(0, 4).Draw(rt, "issue") > 0,
	}
}

func runSessIDRT(s SessIDScript) (res vt.Result) {
	res.Desc = fmt.Sprintf("sessid|%d|%d|%s|%v", s.Calls, s.Odd, s.OddKind, s.Issue)
	res.NonTrivial = s.Odd < s.Calls && s.OddKind == "other" && s.Issue
	res.Class("real_time")
	var mu sync.Mutex
	ncall := 0
	handler := http.HandlerFunc(func(w http.ResponseWriter, r *http.Request) {
		switch r.Method {
		case "DELETE":
			w.WriteHeader(204)
			return
		case "GET":
			w.WriteHeader(http.StatusMethodNotAllowed)
			return
		}
		raw, _ := io.ReadAll(r.Body)
		var msg struct {
			ID     json.RawMessage `json:"id"`
			Method string          `json:"method"`
		}
		json.Unmarshal(raw, &msg)
		sid := "sess-A"
		switch msg.Method {
		case "initialize":
			if s.Issue {
				w.Header().Set("Mcp-Session-Id", sid)
			}
			w.Header().Set("Content-Type", "application/json")
			fmt.Fprintf(w, `{"jsonrpc":"2.0","id":%s,"result":{"protocolVersion":"2025-06-18","capabilities":{"tools":{}},"serverInfo":{"name":"fake","version":"0"}}}`, msg.ID)
		case "tools/call":
			mu.Lock()
			k := ncall
			ncall++
			mu.Unlock()
			switch {
			case k == s.Odd && s.OddKind == "other":
				w.Header().Set("Mcp-Session-Id", "sess-B")
			case k == s.Odd && s.OddKind == "none":
			case s.Issue:
				w.Header().Set("Mcp-Session-Id", sid)
			}
			w.Header().Set("Content-Type", "application/json")
			fmt.Fprintf(w, `{"jsonrpc":"2.0","id":%s,"result":{"content":[{"type":"text","text":"answer %d"}]}}`, msg.ID, k)
		default:
			if len(msg.ID) > 0 {
				w.Header().Set("Content-Type", "application/json")
				fmt.Fprintf(w, `{"jsonrpc":"2.0","id":%s,"result":{}}`, msg.ID)
				return
			}
			w.WriteHeader(202)
		}
	})
	tr := &memhttp.Transport{Handler: handler}
	client := mcp.NewClient(&mcp.Implementation{Name: "cli", Version: "1"}, nil)
	ct := &mcp.StreamableClientTransport{Endpoint: "http://mcp.example/mcp", HTTPClient: tr.Client(), DisableStandaloneSSE: true, MaxRetries: -1}
	bg := context.Background()
	var lastDump string
	rest := func() bool {
		q, d := vt.Quiesce(30*time.Second, 3*time.Millisecond, 4)
		lastDump = d
		return q
	}
	type blocker struct {
		what string
		done chan struct{}
		err  error
		text string
	}
	var all []*blocker
	start := func(what string, f func(b *blocker)) *blocker {
		b := &blocker{what: what, done: make(chan struct{})}
		all = append(all, b)
		go func() { f(b); close(b.done) }()
		return b
	}
	returned := func(b *blocker) bool {
		select {
		case <-b.done:
			return true
		default:
			return false
		}
	}
	stuck := func(context string) bool {
		bad := false
		for _, b := range all {
			if !returned(b) && b.what != "Wait" {
				res.Failf("%s: %s has not returned although the process has come to rest (nothing can run any more)", context, b.what)
				bad = true
			}
		}
		if bad {
			if mw := vt.MutexWaiters(lastDump); len(mw) > 0 {
				res.Failf("goroutines waiting for a mutex at that point:\n%s", strings.Join(mw, "\n\n"))
			}
		}
		return bad
	}
	var cs *mcp.ClientSession
	conn := start("Connect", func(b *blocker) {
		cs, b.err = client.Connect(bg, ct, &mcp.ClientSessionOptions{ProtocolVersion: "2025-06-18"})
	})
	if !rest() {
		res.Class("quiescence_not_established")
		return
	}
	if !returned(conn) || conn.err != nil {
		res.Failf("harness: connect: returned=%v err=%v", returned(conn), conn.err)
		return
	}
	wait := start("Wait", func(b *blocker) { b.err = cs.Wait() })
	broken := false
	for k := 0; k < s.Calls; k++ {
		c := start(fmt.Sprintf("call %d", k), func(b *blocker) {
			r, err := cs.CallTool(bg, &mcp.CallToolParams{Name: "t", Arguments: map[string]any{}})
			b.err = err
			if err == nil && len(r.Content) == 1 {
				if tc, ok := r.Content[0].(*mcp.TextContent); ok {
					b.text = tc.Text
				}
			}
		})
		if !rest() {
			res.Class("quiescence_not_established")
			return
		}
		if stuck(fmt.Sprintf("after call %d", k)) {
			return
		}
		if c.err != nil {
			broken = true
		} else if !broken && c.text != fmt.Sprintf("answer %d", k) {
			res.Failf("call %d returned %q, want its own answer", k, c.text)
		}
		if returned(wait) {
			// the session has terminated: a call made now fails at once and says so
			late := start("call made after Wait returned", func(b *blocker) {
				_, b.err = cs.CallTool(bg, &mcp.CallToolParams{Name: "t", Arguments: map[string]any{}})
			})
			if !rest() {
				res.Class("quiescence_not_established")
				return
			}
			if stuck("after Wait had returned") {
				return
			}
			if !errors.Is(late.err, mcp.ErrConnectionClosed) {
				res.Failf("a call made after Wait had returned failed with %v, which is not ErrConnectionClosed", late.err)
			}
			res.Class("session_terminated_by_an_odd_session_id")
			break
		}
	}
	start("Close", func(b *blocker) { b.err = cs.Close() })
	if !rest() {
		res.Class("quiescence_not_established")
		return
	}
	if stuck("after Close") {
		return
	}
	if !returned(wait) {
		res.Failf("Close has returned and the process has come to rest, yet Wait has not returned")
	}
	return res
}

var sessIDProp = vt.Register(&vt.Prop[SessIDScript]{Property: "C01", Name: "sessionid_rt", Gen: genSessID, Run: runSessIDRT})

func TestC01_SessionIDRT(t *testing.T) { theT = t; sessIDProp.Check(t) }
