package c01

// TestC01_Stdio: an SDK session over a stdio-like transport (mcp.IOTransport with a separate reader and
// writer, each with its own Close that may report an error) against a raw peer that, at a scripted moment,
// stops draining what the session writes - the next outgoing call then sits inside the transport's Write -
// and then goes away (its output ends) or is closed on. Every call completes exactly once; once Wait has
// returned no call is still blocked and a new call fails at once with ErrConnectionClosed.

import (
	"context"
	"encoding/json"
	"errors"
	"fmt"
	"io"
	"strings"
	"testing"
	"testing/synctest"
	"time"

	"github.com/modelcontextprotocol/go-sdk/mcp"
	"github.com/modelcontextprotocol/go-sdk/verif/memio"
	"github.com/modelcontextprotocol/go-sdk/verif/vt"
	"pgregory.net/rapid"
)

type StdioScript struct {
	Side          string `json:"side"` // which end is the SDK session under test: client | server
	ReadCloseErr  bool   `json:"read_close_err,omitempty"`
	WriteCloseErr bool   `json:"write_close_err,omitempty"`
	Answered      int    `json:"answered"` // calls made and answered first
	Pending       int    `json:"pending"`  // calls then made that the peer reads but never answers
	Stall         bool   `json:"stall"`    // the peer stops draining; one more call is made (it blocks inside Write)
	// End: eof (the peer's output ends) | gone (the peer closes both directions). (A local Close is graceful: it
	// waits for the calls in flight, which is C05's subject; here the session ends because the peer does.)
	End string `json:"end"`
}

func genStdio(rt *rapid.T) StdioScript {
	return StdioScript{
		Side:          rapid.SampledFrom([]string{"client", "server"}).Draw(rt, "side"),
		ReadCloseErr:  rapid.Bool().Draw(rt, "read_close_err"),
		WriteCloseErr: rapid.IntRange(0, 2).Draw(rt, "write_close_err") == 0,
		Answered:      rapid.IntRange(0, 2).Draw(rt, "answered"),
		Pending:       rapid.IntRange(0, 2).Draw(rt, "pending"),
		Stall:         rapid.IntRange(0, 3).Draw(rt, "stall") > 0,
		End:           rapid.SampledFrom([]string{"eof", "eof", "gone"}).Draw(rt, "end"),
	}
}

func runStdio(s StdioScript) (res vt.Result) {
	if p := vt.Bubble(theT, func() { res = runStdioInBubble(s) }); p != "" {
		res.Failf("the bubble did not end cleanly (a call, Close or Wait is blocked for ever, or something was left behind): %s", p)
	}
	return res
}

func runStdioInBubble(s StdioScript) (res vt.Result) {
	return runStdioCore(s, func() bool { synctest.Wait(); return true }, func() { time.Sleep(time.Minute) })
}

// runStdioCore runs the arrangement; settle waits until everything that can happen has happened (false: it
// could not be established), pause lets (virtual) time pass where the bubble variant allows for timers.
func runStdioCore(s StdioScript, settle func() bool, pause func()) (res vt.Result) {
	quiet := true
	rest := func() {
		if !settle() {
			quiet = false
		}
	}
	res.Desc = fmt.Sprintf("stdio|%s|%v|%v|%d|%d|%v|%s", s.Side, s.ReadCloseErr, s.WriteCloseErr, s.Answered, s.Pending, s.Stall, s.End)
	res.NonTrivial = s.Stall || s.Pending > 0
	a, b := memio.NewPipe() // a: the SDK session's end, b: the raw peer's
	var rerr, werr error
	if s.ReadCloseErr {
		rerr = errors.New("close: file already closed")
		res.Class("reader_close_reports_an_error")
	}
	if s.WriteCloseErr {
		werr = errors.New("close: file already closed")
		res.Class("writer_close_reports_an_error")
	}
	rd, wr := a.Halves(rerr, werr)
	tr := &mcp.IOTransport{Reader: rd, Writer: wr}
	peer := memio.NewRawPeer(b)
	bg := context.Background()

	var call func(ctx context.Context) error
	var wait func() error
	var closeS func() error
	if s.Side == "client" {
		client := mcp.NewClient(&mcp.Implementation{Name: "cli", Version: "1"}, nil)
		cerr := make(chan error, 1)
		var cs *mcp.ClientSession
		go func() {
			var e error
			cs, e = client.Connect(bg, tr, &mcp.ClientSessionOptions{ProtocolVersion: "2025-06-18"})
			cerr <- e
		}()
		rest()
		rcv := peer.Received()
		if len(rcv) != 1 {
			res.Failf("harness: expected the client's initialize, got %s", rcv)
			return
		}
		var init struct {
			ID json.RawMessage `json:"id"`
		}
		json.Unmarshal(rcv[0], &init)
		peer.Send(fmt.Sprintf(`{"jsonrpc":"2.0","id":%s,"result":{"protocolVersion":"2025-06-18","capabilities":{"tools":{}},"serverInfo":{"name":"raw","version":"0"}}}`, init.ID))
		rest()
		select {
		case e := <-cerr:
			if e != nil {
				res.Failf("harness: connect: %v", e)
				return
			}
		default:
			res.Failf("harness: connect did not return")
			return
		}
		call = func(ctx context.Context) error { return cs.Ping(ctx, nil) }
		wait, closeS = cs.Wait, cs.Close
	} else {
		server := mcp.NewServer(&mcp.Implementation{Name: "srv", Version: "1"}, nil)
		ss, err := server.Connect(bg, tr, nil)
		if err != nil {
			res.Failf("harness: %v", err)
			return
		}
		peer.Send(`{"jsonrpc":"2.0","id":"init","method":"initialize","params":{"protocolVersion":"2025-06-18","capabilities":{},"clientInfo":{"name":"raw","version":"0"}}}`)
		rest()
		peer.Send(`{"jsonrpc":"2.0","method":"notifications/initialized","params":{}}`)
		rest()
		if len(peer.Received()) != 1 {
			res.Failf("harness: handshake not answered: %s", peer.Received())
			return
		}
		call = func(ctx context.Context) error { return ss.Ping(ctx, nil) }
		wait, closeS = ss.Wait, ss.Close
	}
	seen := len(peer.Received())
	waitDone := make(chan struct{})
	go func() { wait(); close(waitDone) }()

	type rec struct {
		what string
		done chan struct{}
		err  error
		n    int // times it returned
	}
	var recs []*rec
	start := func(what string) *rec {
		r := &rec{what: what, done: make(chan struct{})}
		recs = append(recs, r)
		go func() {
			r.err = call(bg)
			r.n++
			close(r.done)
		}()
		return r
	}
	returned := func(r *rec) bool {
		select {
		case <-r.done:
			return true
		default:
			return false
		}
	}
	// answer answers the peer's newest unanswered ping
	answer := func() bool {
		rcv := peer.Received()
		if len(rcv) <= seen {
			return false
		}
		var m struct {
			ID     json.RawMessage `json:"id"`
			Method string          `json:"method"`
		}
		json.Unmarshal(rcv[seen], &m)
		seen++
		if m.Method != "ping" {
			return false
		}
		peer.Send(fmt.Sprintf(`{"jsonrpc":"2.0","id":%s,"result":{}}`, m.ID))
		return true
	}
	for i := 0; i < s.Answered; i++ {
		r := start(fmt.Sprintf("answered call %d", i))
		rest()
		if !answer() {
			res.Failf("harness: the peer did not receive call %d", i)
			return
		}
		rest()
		if !returned(r) || r.err != nil {
			res.Failf("%s: answered by the peer, returned=%v err=%v", r.what, returned(r), r.err)
			return
		}
	}
	for i := 0; i < s.Pending; i++ {
		start(fmt.Sprintf("call %d the peer never answers", i))
		rest()
	}
	if s.Stall {
		a.StallWrites() // the peer no longer drains its input: what the session writes next does not get through
		start("call written after the peer stopped draining")
		rest()
		res.Class("call_blocked_inside_the_transport_write")
	}
	for _, r := range recs[s.Answered:] {
		if returned(r) {
			res.Failf("%s returned (%v) although nobody answered it and the link is up", r.what, r.err)
		}
	}
	switch s.End {
	case "eof":
		b.CloseWrite() // the peer's output ends: the session reads EOF
	case "gone":
		b.Close()
	}
	rest()
	pause()
	rest()
	res.Class("end_" + s.End)
	if !quiet {
		// (real-time variant on a busy machine: the process never came to rest within the budget; nothing is judged)
		res.Class("quiescence_not_established")
		b.Close()
		go closeS()
		return res
	}
	select {
	case <-waitDone:
	default:
		res.Failf("Wait has not returned a minute after the link ended (%s)", s.End)
		b.Close()
		go closeS()
		rest()
		return
	}
	for _, r := range recs[s.Answered:] {
		switch {
		case !returned(r):
			res.Failf("%s is still blocked although the session has terminated (Wait has returned)", r.what)
		case r.err == nil:
			res.Failf("%s returned without an error although nobody answered it", r.what)
		}
	}
	// a call started now fails at once, with an error that says the connection is closed
	late := start("call made after Wait returned")
	rest()
	if !returned(late) {
		res.Failf("a call started after Wait had returned did not return at once")
	} else if !errors.Is(late.err, mcp.ErrConnectionClosed) {
		res.Failf("a call started after Wait had returned failed with %v, which is not ErrConnectionClosed", late.err)
	}
	// release whatever is left so that the bubble can end
	b.Close()
	go closeS()
	rest()
	pause()
	rest()
	for _, r := range recs {
		if returned(r) && r.n != 1 {
			res.Failf("%s returned %d times", r.what, r.n)
		}
	}
	_ = io.EOF
	return res
}

// runStdioRT: the same arrangement in real time, outside any bubble. This is the variant that can see a
// deadlock through a plain mutex (e.g. the transport's Close taking the lock that the blocked Write holds):
// the arrangement arms no timers, so once every goroutine of the process is blocked, and stays so, whatever
// has not returned by then never will.
func runStdioRT(s StdioScript) (res vt.Result) {
	var lastDump string
	res = runStdioCore(s, func() bool {
		q, d := vt.Quiesce(30*time.Second, 3*time.Millisecond, 4)
		lastDump = d
		return q
	}, func() {})
	if len(res.Violations) > 0 {
		if mw := vt.MutexWaiters(lastDump); len(mw) > 0 {
			res.Failf("goroutines waiting for a mutex when the process had come to rest:\n%s", strings.Join(mw, "\n\n"))
		}
	}
	res.Class("real_time")
	return res
}

var stdioRTProp = vt.Register(&vt.Prop[StdioScript]{Property: "C01", Name: "stdio_rt", Gen: genStdio, Run: runStdioRT})

func TestC01_StdioRT(t *testing.T) { theT = t; stdioRTProp.Check(t) }

var stdioProp = vt.Register(&vt.Prop[StdioScript]{Property: "C01", Name: "stdio", Gen: genStdio, Run: runStdio})

func TestC01_Stdio(t *testing.T) { theT = t; stdioProp.Check(t) }
