package c01

import (
	"context"
	"encoding/json"
	"errors"
	"fmt"
	"strings"
	"testing"
	"testing/synctest"

	"github.com/modelcontextprotocol/go-sdk/jsonrpc"
	"github.com/modelcontextprotocol/go-sdk/mcp"
	"github.com/modelcontextprotocol/go-sdk/verif/memio"
	"github.com/modelcontextprotocol/go-sdk/verif/vt"
	"pgregory.net/rapid"
)

// Wire variant: the session runs over the real newline-delimited transport (IOTransport on an
// in-memory byte pipe) and the peer is a raw byte peer that answers the outstanding calls in
// arbitrary order, grouped arbitrarily into lines: single messages or JSON-RPC batches that may
// also contain notifications and responses to ids nobody is waiting for.

type Line struct {
	Calls   []int `json:"calls"`              // indices (mod outstanding) of calls answered on this line
	Notes   int   `json:"notes,omitempty"`    // progress notifications mixed into the line
	Strays  int   `json:"strays,omitempty"`   // responses with ids that were never issued
	Batch   bool  `json:"batch"`              // send as a JSON array even if it holds one element
	ErrResp bool  `json:"err_resp,omitempty"` // answer with a JSON-RPC error instead of a result
	// Decoy: every response of the line also carries members whose names differ from "id" / "result" only
	// in letter case, naming ANOTHER outstanding call (they are unknown members and must be ignored).
	Decoy bool `json:"decoy,omitempty"`
	// Glue: this line and the next one reach the session in one piece (one write on the peer's side, or two
	// that the pipe coalesced): a single read then returns more than one message.
	Glue bool `json:"glue,omitempty"`
}

type WireScript struct {
	Side  string `json:"side"` // client | server
	N     int    `json:"n"`    // concurrent calls
	Lines []Line `json:"lines"`
	CRLF  bool   `json:"crlf"`
}

func genWire(rt *rapid.T) WireScript {
	s := WireScript{
		Side: rapid.SampledFrom([]string{"client", "server"}).Draw(rt, "side"),
		N:    rapid.IntRange(1, 7).Draw(rt, "n"),
		CRLF: rapid.IntRange(0, 4).Draw(rt, "crlf") == 0,
	}
	for i, n := 0, rapid.IntRange(1, 6).Draw(rt, "lines"); i < n; i++ {
		l := Line{
			Calls:   rapid.SliceOfN(rapid.IntRange(0, 6), 0, 4).Draw(rt, "calls"),
			Notes:   rapid.IntRange(0, 2).Draw(rt, "notes"),
			Strays:  rapid.SampledFrom([]int{0, 0, 0, 1}).Draw(rt, "strays"),
			Batch:   rapid.Bool().Draw(rt, "batch"),
			ErrResp: rapid.IntRange(0, 5).Draw(rt, "err") == 0,
			Decoy:   rapid.IntRange(0, 3).Draw(rt, "decoy") == 0,
			Glue:    rapid.IntRange(0, 3).Draw(rt, "glue") == 0,
		}
		s.Lines = append(s.Lines, l)
	}
	return s
}

func runWire(s WireScript) (res vt.Result) {
	if p := vt.Bubble(theT, func() { res = runWireInBubble(s) }); p != "" {
		if stuckInSession(p) {
			res.Failf("bubble did not end cleanly (a call or Close blocked for ever): %s", p)
		} else {
			res.Class("teardown_leftover") // not a call, Wait or Close: not this property's business
		}
	}
	return res
}

func runWireInBubble(s WireScript) (res vt.Result) {
	a, b := memio.NewPipe()
	peer := memio.NewRawPeer(b)
	var doCall func(ctx context.Context, k int) (json.RawMessage, error)
	var closeS func() error
	notes := 0
	switch s.Side {
	case "client":
		client := mcp.NewClient(&mcp.Implementation{Name: "c", Version: "1"}, &mcp.ClientOptions{
			ProgressNotificationHandler: func(context.Context, *mcp.ProgressNotificationClientRequest) { notes++ },
		})
		var cs *mcp.ClientSession
		cerr := make(chan error, 1)
		go func() {
			var e error
			cs, e = client.Connect(context.Background(), &mcp.IOTransport{Reader: a, Writer: a}, &mcp.ClientSessionOptions{ProtocolVersion: "2025-03-26"})
			cerr <- e
		}()
		synctest.Wait()
		// look for the initialize request; whatever else the client chose to send first is not our concern
		var init struct {
			ID     json.RawMessage `json:"id"`
			Method string          `json:"method"`
		}
		for _, raw := range peer.Received() {
			init.ID, init.Method = nil, ""
			if json.Unmarshal(raw, &init); init.Method == "initialize" {
				break
			}
		}
		if init.Method != "initialize" {
			res.Failf("harness: no initialize among the %d messages the client sent", len(peer.Received()))
			return
		}
		peer.Send(fmt.Sprintf(`{"jsonrpc":"2.0","id":%s,"result":{"protocolVersion":"2025-03-26","capabilities":{"tools":{}},"serverInfo":{"name":"raw","version":"0"}}}`, init.ID))
		synctest.Wait()
		select {
		case e := <-cerr:
			if e != nil {
				res.Failf("harness: connect: %v", e)
				return
			}
		default:
			res.Failf("harness: connect did not return")
			return
		}
		doCall = func(ctx context.Context, k int) (json.RawMessage, error) {
			r, err := cs.CallTool(ctx, &mcp.CallToolParams{Name: "t", Arguments: map[string]any{"k": k}})
			if err != nil {
				return nil, err
			}
			bb, _ := json.Marshal(r.StructuredContent)
			return bb, nil
		}
		closeS = cs.Close
	default:
		server := mcp.NewServer(&mcp.Implementation{Name: "s", Version: "1"}, &mcp.ServerOptions{
			ProgressNotificationHandler: func(context.Context, *mcp.ProgressNotificationServerRequest) { notes++ },
		})
		ss, err := server.Connect(context.Background(), &mcp.IOTransport{Reader: a, Writer: a}, nil)
		if err != nil {
			res.Failf("harness: %v", err)
			return
		}
		// a legacy handshake, so that batches are legal on this connection
		peer.Send(`{"jsonrpc":"2.0","id":"hs","method":"initialize","params":{"protocolVersion":"2025-03-26","capabilities":{"roots":{}},"clientInfo":{"name":"raw","version":"0"}}}`)
		synctest.Wait()
		peer.Send(`{"jsonrpc":"2.0","method":"notifications/initialized"}`)
		synctest.Wait()
		doCall = func(ctx context.Context, k int) (json.RawMessage, error) {
			r, err := ss.ListRoots(ctx, &mcp.ListRootsParams{Meta: mcp.Meta{"k": k}})
			if err != nil {
				return nil, err
			}
			bb, _ := json.Marshal(r.Meta["p"])
			return bb, nil
		}
		closeS = ss.Close
	}
	before := len(peer.Received())
	type rec struct {
		done   chan struct{}
		result json.RawMessage
		err    error
	}
	recs := make([]*rec, s.N)
	for k := 0; k < s.N; k++ {
		r := &rec{done: make(chan struct{})}
		recs[k] = r
		go func(k int) {
			r.result, r.err = doCall(context.Background(), k)
			close(r.done)
		}(k)
	}
	synctest.Wait()
	// learn the ids of the calls from the wire
	idOf := map[int]string{}
	for _, raw := range peer.Received()[before:] {
		var m struct {
			ID     json.RawMessage `json:"id"`
			Params struct {
				Arguments struct{ K *int } `json:"arguments"`
				Meta      struct{ K *int } `json:"_meta"`
			} `json:"params"`
		}
		json.Unmarshal(raw, &m)
		switch {
		case m.Params.Arguments.K != nil:
			idOf[*m.Params.Arguments.K] = string(m.ID)
		case m.Params.Meta.K != nil:
			idOf[*m.Params.Meta.K] = string(m.ID)
		}
	}
	if len(idOf) != s.N {
		res.Failf("harness: saw %d of %d calls on the wire", len(idOf), s.N)
		return
	}
	answered := map[int]string{} // k -> "result"|"error"
	wantNotes := 0
	var desc strings.Builder
	nt := false
	isDone := func(k int) bool {
		select {
		case <-recs[k].done:
			return true
		default:
			return false
		}
	}
	held := "" // lines written together with the next one
	for li, l := range s.Lines {
		var outstanding []int
		for k := 0; k < s.N; k++ {
			if answered[k] == "" {
				outstanding = append(outstanding, k)
			}
		}
		var elems []string
		used := map[int]bool{}
		for _, c := range l.Calls {
			if len(outstanding) == 0 {
				break
			}
			k := outstanding[c%len(outstanding)]
			if used[k] {
				continue
			}
			used[k] = true
			if l.ErrResp {
				elems = append(elems, fmt.Sprintf(`{"jsonrpc":"2.0","id":%s,"error":{"code":-32000,"message":"scripted error for call %d","data":{"k":%d}}}`, idOf[k], k, k))
				answered[k] = "error"
			} else if s.Side == "client" {
				elems = append(elems, fmt.Sprintf(`{"jsonrpc":"2.0","id":%s,"result":{"content":[{"type":"text","text":"x"}],"structuredContent":{"answer":%d}}}`, idOf[k], k))
				answered[k] = "result"
			} else {
				elems = append(elems, fmt.Sprintf(`{"jsonrpc":"2.0","id":%s,"result":{"roots":[],"_meta":{"p":{"answer":%d}}}}`, idOf[k], k))
				answered[k] = "result"
			}
		}
		if l.Decoy {
			// the decoy names a call that is still outstanding and not answered on this line, if any
			other := ""
			for k := 0; k < s.N; k++ {
				if answered[k] == "" && idOf[k] != "" {
					other = idOf[k]
				}
			}
			if other != "" {
				for i := range elems {
					elems[i] = strings.TrimSuffix(elems[i], "}") + fmt.Sprintf(`,"ID":%s,"Id":%s,"Result":{"decoy":true},"METHOD":"ping"}`, other, other)
				}
				res.Class("responses_with_case_variant_decoy_members")
			}
		}
		for i := 0; i < l.Notes; i++ {
			elems = append(elems, `{"jsonrpc":"2.0","method":"notifications/progress","params":{"progressToken":"t","progress":1}}`)
			wantNotes++
		}
		for i := 0; i < l.Strays; i++ {
			elems = append(elems, fmt.Sprintf(`{"jsonrpc":"2.0","id":%d,"result":{"content":[],"roots":[]}}`, 900000+li*10+i))
		}
		if len(elems) == 0 {
			continue
		}
		// arbitrary but script-determined order: rotate by the line number
		rot := li % len(elems)
		elems = append(elems[rot:], elems[:rot]...)
		line := elems[0]
		if len(elems) > 1 || l.Batch {
			line = "[" + strings.Join(elems, ",") + "]"
			if len(used) >= 2 {
				nt = true
			}
			desc.WriteString("B")
		} else {
			desc.WriteString("s")
		}
		if s.CRLF {
			line += "\r"
		}
		if l.Glue && li < len(s.Lines)-1 {
			held += line + "\n"
			res.Class("two_lines_in_one_read")
			desc.WriteString("+")
			continue
		}
		line, held = held+line, ""
		if err := peer.Send(line); err != nil {
			res.Failf("line %d: cannot send: %v", li, err)
			return
		}
		synctest.Wait()
		if ended, err := peer.Ended(); ended {
			if l.Strays > 0 {
				// A response to an id that was never issued may be treated as a protocol error that ends the
				// session, as long as every outstanding call then completes with an error (none may hang, none
				// may return a result it was not sent).
				for k := 0; k < s.N; k++ {
					if !isDone(k) {
						res.Failf("line %d (%s): the session closed the connection but call %d is still blocked", li, line, k)
					} else if answered[k] == "" && recs[k].err == nil {
						res.Failf("line %d (%s): the session closed the connection and call %d returned a result nobody sent", li, line, k)
					}
				}
				res.Class("session_ended_on_stray_response")
				closeS()
				return
			}
			res.Failf("line %d (%s): the session closed the connection: %v", li, line, err)
			return
		}
		for k := 0; k < s.N; k++ {
			if answered[k] != "" && !isDone(k) {
				res.Failf("line %d: call %d has not completed although its response was delivered (line: %s)", li, k, line)
			}
			if answered[k] == "" && isDone(k) {
				res.Failf("line %d: call %d completed (%s, %v) although no response to its id was delivered", li, k, recs[k].result, recs[k].err)
			}
		}
		if len(res.Violations) > 0 {
			return
		}
	}
	if held != "" {
		peer.Send(strings.TrimSuffix(held, "\n"))
		synctest.Wait()
	}
	for k := 0; k < s.N; k++ {
		if !isDone(k) {
			continue
		}
		r := recs[k]
		switch answered[k] {
		case "result":
			if r.err != nil || !jsonEqual(r.result, json.RawMessage(fmt.Sprintf(`{"answer":%d}`, k))) {
				res.Failf("call %d returned (%s, %v), want its own answer", k, r.result, r.err)
			}
		case "error":
			var werr *jsonrpc.Error
			if !errors.As(r.err, &werr) || werr.Message != fmt.Sprintf("scripted error for call %d", k) || werr.Code != -32000 || !jsonEqual(werr.Data, json.RawMessage(fmt.Sprintf(`{"k":%d}`, k))) {
				res.Failf("call %d returned %v, want its own scripted error intact", k, r.err)
			}
		}
	}
	if notes != wantNotes {
		// Delivery of notifications (with a progress token no request announced) is not a statement about
		// outgoing calls: counted, not judged.
		res.Class("mixed_in_notifications_not_all_delivered")
	}
	// the peer goes away: everything still outstanding fails, nothing hangs
	peer.Close()
	synctest.Wait()
	for k := 0; k < s.N; k++ {
		if !isDone(k) {
			res.Failf("call %d still blocked after the peer closed the connection", k)
		}
	}
	closeS()
	res.Desc = fmt.Sprintf("%s|%d|%s|%v", s.Side, s.N, desc.String(), s.CRLF)
	res.NonTrivial = nt
	res.Class("side_" + s.Side)
	if nt {
		res.Class("batch_answers_two_or_more_calls")
	}
	return res
}

var wireProp = vt.Register(&vt.Prop[WireScript]{Property: "C01", Name: "wire", Journal: true, Gen: genWire, Run: runWire})

func TestC01_Wire(t *testing.T) { theT = t; wireProp.Check(t) }
