// Package c02 decides property C02: every incoming call is answered exactly
// once with its id echoed exactly (type and value), notifications never get a
// response, and malformed-but-well-framed requests are rejected with the
// standard codes instead of being dropped, answered twice or tearing the
// session down. A raw peer speaks bytes; ids are compared as JSON tokens.
package c02

import (
	"bytes"
	"context"
	"encoding/json"
	"fmt"
	"math"
	"slices"
	"strings"
	"sync"
	"sync/atomic"
	"testing"
	"testing/synctest"
	"time"

	"github.com/modelcontextprotocol/go-sdk/jsonrpc"
	"github.com/modelcontextprotocol/go-sdk/mcp"
	"github.com/modelcontextprotocol/go-sdk/verif/memio"
	"github.com/modelcontextprotocol/go-sdk/verif/vt"
	"pgregory.net/rapid"
)

func TestMain(m *testing.M) { vt.Main(m) }

// Env is one JSON-RPC envelope of the grammar.
type Env struct {
	ID     string `json:"id"`             // JSON token of the id ("" = absent): 7, -3, "abc", 9007199254740993 ...
	Method string `json:"method"`         // see methods
	Params string `json:"params"`         // absent | null | valid | wrongtype | array
	Gate   int    `json:"gate,omitempty"` // for tools/call park: which gate the handler parks on
}

type Step struct {
	Kind    string `json:"kind"`           // send | release
	Envs    []Env  `json:"envs,omitempty"` // send: 1 envelope = single message, >1 = batch
	Release int    `json:"release,omitempty"`
	// EagerReuse (send, only with Script.WriteLagUs > 0): as soon as the answer to one of this step's calls has
	// arrived, the peer sends a ping re-using that id, while the server's Write has not yet returned.
	EagerReuse bool `json:"eager_reuse,omitempty"`
	// qcancel: a roots/list_changed notification whose handler is parked holds the dispatch queue; Queued calls
	// (1-4, fresh ids) arrive behind it; those whose bit is set in Cancel are cancelled by the peer while they are
	// still waiting; then the handler is let go. Every one of the calls is owed exactly one response.
	Queued int `json:"queued,omitempty"`
	Cancel int `json:"cancel,omitempty"`
}

type Script struct {
	Transport string `json:"transport"` // ndjson (others: see http.go)
	Version   string `json:"version"`   // negotiated in the handshake
	Steps     []Step `json:"steps"`
	// WriteLagUs: the server's transport returns from Write this long (virtual time) after the bytes reached
	// the peer, as a transport with flush latency does. The peer may legally re-use an id in that window.
	WriteLagUs int `json:"write_lag_us,omitempty"`
	// Spell: memio.Respell mode applied to every envelope the peer sends (equivalent JSON spellings).
	Spell int `json:"spell,omitempty"`
}

// acme/echo is a method of the application's own, registered with mcp.AddReceivingCustomMethod: a known method
// like any other, on every transport.
type acmeParams struct {
	mcp.ParamsBase
	Q string `json:"q"`
}

type acmeResult struct {
	mcp.ResultBase
	A string `json:"a"`
}

var callMethods = []string{"acme/echo", "ping", "tools/list", "prompts/list", "resources/list", "tools/call:fast", "tools/call:park", "tools/call:park", "resources/read", "prompts/get", "logging/setLevel", "initialize", "completion/complete"}
var notifMethods = []string{"notifications/initialized", "notifications/progress", "notifications/roots/list_changed", "notifications/cancelled"}
var unknownMethods = []string{"foo/bar", "", "tools/unknown", "PING", "notifications/unknown"}

func genID(rt *rapid.T) string {
	switch rapid.IntRange(0, 9).Draw(rt, "idkind") {
	case 0, 1, 2, 3:
		return fmt.Sprint(rapid.IntRange(0, 9).Draw(rt, "small"))
	case 4:
		return fmt.Sprint(rapid.Int64().Draw(rt, "any64"))
	case 5:
		return fmt.Sprint(rapid.SampledFrom([]int64{1 << 53, 1<<53 + 1, 1<<53 - 1, -(1 << 53) - 1, math.MaxInt64, math.MinInt64, math.MaxInt64 - 1, 1<<62 + 1, -1, math.MaxInt32 + 1}).Draw(rt, "edge"))
	case 6, 7:
		b, _ := json.Marshal(rapid.SampledFrom([]string{"", "a", "1", "7", "é☃", "with \"quote\"", "9007199254740993", "null", " ", "a\nb"}).Draw(rt, "strid"))
		return string(b)
	default:
		b, _ := json.Marshal(rapid.StringN(0, 6, -1).Draw(rt, "rndstr"))
		return string(b)
	}
}

func genEnv(rt *rapid.T) Env {
	var e Env
	switch rapid.IntRange(0, 9).Draw(rt, "shape") {
	case 0, 1, 2, 3, 4: // call
		e.Method = rapid.SampledFrom(callMethods).Draw(rt, "callm")
		e.ID = genID(rt)
	case 5: // notification
		e.Method = rapid.SampledFrom(notifMethods).Draw(rt, "notifm")
	case 6: // unknown method, with or without id
		e.Method = rapid.SampledFrom(unknownMethods).Draw(rt, "unkm")
		if rapid.Bool().Draw(rt, "unkid") {
			e.ID = genID(rt)
		}
	case 7: // id on a notification-only method
		e.Method = rapid.SampledFrom(notifMethods).Draw(rt, "notifm2")
		e.ID = genID(rt)
	case 8: // call method without id
		e.Method = rapid.SampledFrom(callMethods).Draw(rt, "callm2")
	default:
		e.Method = rapid.SampledFrom(callMethods).Draw(rt, "callm3")
		e.ID = genID(rt)
	}
	e.Params = rapid.SampledFrom([]string{"valid", "valid", "valid", "valid", "absent", "null", "wrongtype", "array"}).Draw(rt, "params")
	if e.Method == "tools/call:park" {
		e.Gate = rapid.IntRange(0, 5).Draw(rt, "gate")
	}
	return e
}

func genScript(rt *rapid.T, transport string) Script {
	s := Script{Transport: transport}
	s.Version = rapid.SampledFrom([]string{"2024-11-05", "2025-03-26", "2025-03-26", "2025-06-18", "2025-11-25"}).Draw(rt, "version")
	batchOK := s.Version < "2025-06-18"
	s.Spell = rapid.SampledFrom([]int{0, 0, 0, 0, 1, 2, 3, 4, 5}).Draw(rt, "spell")
	if transport == "ndjson" {
		s.WriteLagUs = rapid.SampledFrom([]int{0, 0, 0, 500}).Draw(rt, "write_lag")
	}
	n := rapid.IntRange(1, 25).Draw(rt, "steps")
	for i := 0; i < n; i++ {
		if rapid.IntRange(0, 4).Draw(rt, "steptype") == 0 {
			s.Steps = append(s.Steps, Step{Kind: "release", Release: rapid.IntRange(0, 5).Draw(rt, "rel")})
			continue
		}
		if transport == "ndjson" && rapid.IntRange(0, 11).Draw(rt, "qcancel") == 0 {
			s.Steps = append(s.Steps, Step{Kind: "qcancel", Queued: rapid.IntRange(1, 4).Draw(rt, "queued"), Cancel: rapid.IntRange(0, 15).Draw(rt, "cancel_mask")})
			continue
		}
		k := 1
		if batchOK && rapid.IntRange(0, 2).Draw(rt, "batch") == 0 {
			k = rapid.IntRange(1, 6).Draw(rt, "batchlen")
			if k == 1 && rapid.Bool().Draw(rt, "single_in_array") {
				k = -1 // a batch of one
			}
		}
		st := Step{Kind: "send", EagerReuse: rapid.IntRange(0, 2).Draw(rt, "eager") == 0}
		cnt := k
		if k == -1 {
			cnt = 1
		}
		for j := 0; j < cnt; j++ {
			st.Envs = append(st.Envs, genEnv(rt))
		}
		if k == -1 {
			st.Kind = "send1batch"
		}
		s.Steps = append(s.Steps, st)
	}
	// A shape generated on purpose: a call is parked, a batch that re-uses its id next to fresh ones arrives
	// (the streamable transport refuses the whole POST), and the peer then retries one of the fresh ids by itself.
	if batchOK && rapid.IntRange(0, 5).Draw(rt, "refused_batch_macro") == 0 {
		x, y, z := genID(rt), genID(rt), genID(rt)
		if x != y && x != z && y != z {
			macro := []Step{
				{Kind: "send", Envs: []Env{{Method: "tools/call:park", ID: x, Params: "valid", Gate: rapid.IntRange(0, 5).Draw(rt, "macro_gate")}}},
				{Kind: "send", Envs: []Env{{Method: "ping", ID: y, Params: "valid"}, {Method: "tools/list", ID: x, Params: "valid"}, {Method: "ping", ID: z, Params: "valid"}}},
				{Kind: "send", Envs: []Env{{Method: rapid.SampledFrom([]string{"ping", "tools/list", "tools/call:fast"}).Draw(rt, "macro_retry"), ID: rapid.SampledFrom([]string{y, z}).Draw(rt, "macro_retry_id"), Params: "valid"}}},
			}
			pos := rapid.IntRange(0, len(s.Steps)).Draw(rt, "macro_pos")
			s.Steps = append(s.Steps[:pos:pos], append(macro, s.Steps[pos:]...)...)
		}
	}
	return s
}

// ---- wire form ----

func (e Env) realMethod() string {
	if i := strings.IndexByte(e.Method, ':'); i >= 0 {
		return e.Method[:i]
	}
	return e.Method
}

var paramsRequired = map[string]bool{"tools/call": true, "resources/read": true, "prompts/get": true, "logging/setLevel": true, "initialize": true, "completion/complete": true, "notifications/progress": true}

func (e Env) validParams() string {
	switch e.Method {
	case "tools/call:fast":
		return `{"name":"fast","arguments":{}}`
	case "tools/call:park":
		return fmt.Sprintf(`{"name":"park","arguments":{"g":%d}}`, e.Gate)
	case "resources/read":
		return `{"uri":"file:///a"}`
	case "prompts/get":
		return `{"name":"p"}`
	case "logging/setLevel":
		return `{"level":"info"}`
	case "initialize":
		return `{"protocolVersion":"2025-03-26","capabilities":{},"clientInfo":{"name":"raw","version":"0"}}`
	case "completion/complete":
		return `{"ref":{"type":"ref/prompt","name":"p"},"argument":{"name":"a","value":"v"}}`
	case "notifications/progress":
		return `{"progressToken":"t","progress":1}`
	case "notifications/cancelled":
		return `{"requestId":424242}`
	case "acme/echo":
		return `{"q":"x"}`
	}
	return `{}`
}

func (e Env) wrongParams() string {
	switch e.realMethod() {
	case "tools/call", "prompts/get":
		return `{"name":5}`
	case "resources/read":
		return `{"uri":{"x":1}}`
	case "logging/setLevel":
		return `{"level":17}`
	case "initialize":
		return `{"protocolVersion":7,"capabilities":"x"}`
	case "completion/complete":
		return `{"ref":"zzz","argument":5}`
	case "notifications/progress":
		return `{"progressToken":"t","progress":"much"}`
	case "notifications/cancelled":
		return `{"requestId":{"a":1}}`
	case "acme/echo":
		return `{"q":7}`
	}
	return `"a string"`
}

func (e Env) wire() string {
	var b strings.Builder
	b.WriteString(`{"jsonrpc":"2.0"`)
	if e.ID != "" {
		b.WriteString(`,"id":` + e.ID)
	}
	mj, _ := json.Marshal(e.realMethod())
	b.WriteString(`,"method":` + string(mj))
	switch e.Params {
	case "null":
		b.WriteString(`,"params":null`)
	case "valid":
		b.WriteString(`,"params":` + e.validParams())
	case "wrongtype":
		b.WriteString(`,"params":` + e.wrongParams())
	case "array":
		b.WriteString(`,"params":[1,"two"]`)
	}
	b.WriteString("}")
	return b.String()
}

// expectation for one envelope.
type expect struct {
	response  bool  // a response bearing the id must arrive (eventually)
	codes     []int // if non-nil the response must be an error with one of these codes
	resultOK  bool  // (with codes) an ordinary result is acceptable as well
	anyError  bool  // (with codes) any error code is acceptable, the listed ones are merely the expected ones
	parks     bool  // handler parks on Gate (response only after release)
	class     string
	malformed bool // structurally invalid or undecodable: an HTTP transport may refuse the whole POST with a 4xx
}

// answerOK judges the error code (nil: a result) of the response to a request with this expectation.
func (x expect) answerOK(code *int) bool {
	switch {
	case x.codes == nil:
		return true
	case code == nil:
		return x.resultOK
	}
	return x.anyError || slices.Contains(x.codes, *code)
}

// attribute picks, among the outstanding requests of scope, the one a response with id token tok and error
// code (nil: a result) answers: the oldest one bearing that id - except that an ERROR arriving while the
// oldest one is a still-parked original belongs to the pending re-use of that in-flight id (the refusal of
// the re-use must not touch the original, whose handler has not answered yet).
func attribute(scope []*pending, tok string, code *int) *pending {
	var hit *pending
	for _, p := range scope {
		if p.done || canonical(p.tok) != tok {
			continue
		}
		if hit == nil {
			hit = p
			if code == nil || !p.exp.parks {
				break
			}
			continue
		}
		if p.exp.class == "inflight_id_reuse" {
			return p
		}
	}
	return hit
}

func (e Env) expectation() expect {
	x := e.expectation0()
	if x.codes != nil || x.class == "call_without_id" || x.class == "unknown_notification" || x.class == "unknown_method" {
		x.malformed = true
	}
	if x.class == "notification" {
		m := e.realMethod()
		if e.Params == "wrongtype" || e.Params == "array" || (paramsRequired[m] && (e.Params == "absent" || e.Params == "null")) {
			x.malformed = true
		}
	}
	return x
}

func (e Env) expectation0() expect {
	m := e.realMethod()
	isNotifMethod := slices.Contains(notifMethods, m)
	isCallMethod := false
	for _, c := range callMethods {
		if strings.Split(c, ":")[0] == m {
			isCallMethod = true
		}
	}
	hasID := e.ID != ""
	switch {
	case !isNotifMethod && !isCallMethod: // unknown method
		if hasID {
			return expect{response: true, codes: []int{-32601}, class: "unknown_method"}
		}
		return expect{class: "unknown_notification"}
	case isNotifMethod && hasID:
		if m == "notifications/cancelled" && (e.Params == "wrongtype" || e.Params == "array") {
			return expect{response: true, codes: []int{-32600, -32602}, class: "id_on_notification"}
		}
		return expect{response: true, codes: []int{-32600}, class: "id_on_notification"}
	case isNotifMethod:
		return expect{class: "notification"}
	case !hasID:
		return expect{class: "call_without_id"}
	}
	// a call to a known method
	switch e.Params {
	case "absent", "null":
		if paramsRequired[m] {
			return expect{response: true, codes: []int{-32600, -32602}, class: "required_params_missing"}
		}
		return expect{response: true, class: "valid_call"}
	case "wrongtype", "array":
		if m == "ping" {
			// ping has no parameters of its own: a server that never decodes them and just answers is as good
			// as one that refuses `"a string"` / an array as undecodable (but error code 0 & co. stay wrong)
			return expect{response: true, codes: []int{-32602, -32600}, resultOK: true, class: "undecodable_params"}
		}
		return expect{response: true, codes: []int{-32602}, class: "undecodable_params"}
	}
	if e.Method == "tools/call:park" {
		return expect{response: true, parks: true, class: "parked_call"}
	}
	return expect{response: true, class: "valid_call"}
}

// ---- server under test ----

type gates struct {
	block   atomic.Int64 // gate the next roots/list_changed handler parks on (0: it returns at once)
	mu      sync.Mutex
	waiting map[int]chan struct{} // parked handlers by their unique gate number
	opened  map[int]bool
}

func (g *gates) ch(n int) chan struct{} {
	g.mu.Lock()
	defer g.mu.Unlock()
	if g.waiting == nil {
		g.waiting, g.opened = map[int]chan struct{}{}, map[int]bool{}
	}
	if g.waiting[n] == nil {
		g.waiting[n] = make(chan struct{})
	}
	return g.waiting[n]
}

func (g *gates) park(ctx context.Context, n int) {
	select {
	case <-g.ch(n):
	case <-ctx.Done():
	}
}

// release opens gate n (idempotent).
func (g *gates) release(n int) {
	ch := g.ch(n)
	g.mu.Lock()
	defer g.mu.Unlock()
	if !g.opened[n] {
		g.opened[n] = true
		close(ch)
	}
}

func (g *gates) releaseAll() {
	for n := 0; n < 2000; n++ {
		g.release(n)
	}
}

func newServer(g *gates) *mcp.Server {
	server := mcp.NewServer(&mcp.Implementation{Name: "srv", Version: "1"}, &mcp.ServerOptions{
		CompletionHandler: func(context.Context, *mcp.CompleteRequest) (*mcp.CompleteResult, error) {
			return &mcp.CompleteResult{}, nil
		},
		RootsListChangedHandler: func(ctx context.Context, _ *mcp.RootsListChangedRequest) {
			if n := g.block.Swap(0); n > 0 {
				g.park(ctx, int(n))
			}
		},
	})
	if err := mcp.AddReceivingCustomMethod(server, "acme/echo", func(_ context.Context, _ *mcp.ServerSession, p *acmeParams) (*acmeResult, error) {
		q := ""
		if p != nil {
			q = p.Q
		}
		return &acmeResult{A: "echo:" + q}, nil
	}); err != nil {
		panic(err)
	}
	mcp.AddTool(server, &mcp.Tool{Name: "fast"}, func(ctx context.Context, req *mcp.CallToolRequest, in map[string]any) (*mcp.CallToolResult, any, error) {
		return &mcp.CallToolResult{Content: []mcp.Content{&mcp.TextContent{Text: "fast"}}}, nil, nil
	})
	mcp.AddTool(server, &mcp.Tool{Name: "park"}, func(ctx context.Context, req *mcp.CallToolRequest, in map[string]any) (*mcp.CallToolResult, any, error) {
		n, _ := in["g"].(float64)
		g.park(ctx, int(n))
		return &mcp.CallToolResult{Content: []mcp.Content{&mcp.TextContent{Text: "parked"}}}, nil, nil
	})
	server.AddPrompt(&mcp.Prompt{Name: "p"}, func(context.Context, *mcp.GetPromptRequest) (*mcp.GetPromptResult, error) {
		return &mcp.GetPromptResult{}, nil
	})
	server.AddResource(&mcp.Resource{URI: "file:///a", Name: "a"}, func(context.Context, *mcp.ReadResourceRequest) (*mcp.ReadResourceResult, error) {
		return &mcp.ReadResourceResult{Contents: []*mcp.ResourceContents{{URI: "file:///a", Text: "x"}}}, nil
	})
	return server
}

// idToken re-reads the id of a received message as a JSON token (type and exact digits).
func idToken(raw json.RawMessage) (string, bool) {
	dec := json.NewDecoder(bytes.NewReader(raw))
	dec.UseNumber()
	var m map[string]any
	if err := dec.Decode(&m); err != nil {
		return "", false
	}
	switch v := m["id"].(type) {
	case json.Number:
		return v.String(), true
	case string:
		b, _ := json.Marshal(v)
		return string(b), true
	case nil:
		if _, present := m["id"]; present {
			return "null", true
		}
	}
	return "", false
}

// canonical normalises the id token we sent for comparison (string ids are re-marshalled).
func canonical(tok string) string {
	if strings.HasPrefix(tok, `"`) {
		var s string
		json.Unmarshal([]byte(tok), &s)
		b, _ := json.Marshal(s)
		return string(b)
	}
	return tok
}

type recvMsg struct {
	raw    json.RawMessage
	batch  int // index of the array line it arrived in, or -1
	tok    string
	isResp bool
	code   *int
}

func parseLine(raw json.RawMessage, lineNo int) []recvMsg {
	trim := bytes.TrimSpace(raw)
	var parts []json.RawMessage
	batch := -1
	if len(trim) > 0 && trim[0] == '[' {
		json.Unmarshal(trim, &parts)
		batch = lineNo
	} else {
		parts = []json.RawMessage{raw}
	}
	var out []recvMsg
	for _, p := range parts {
		var probe struct {
			Method *string             `json:"method"`
			Result json.RawMessage     `json:"result"`
			Error  *struct{ Code int } `json:"error"`
		}
		json.Unmarshal(p, &probe)
		m := recvMsg{raw: p, batch: batch}
		if probe.Method == nil {
			m.isResp = true
			m.tok, _ = idToken(p)
			if probe.Error != nil {
				c := probe.Error.Code
				m.code = &c
			}
		}
		out = append(out, m)
	}
	return out
}

var theT *testing.T

func run(s Script) (res vt.Result) {
	finished := false
	if p := vt.Bubble(theT, func() {
		switch s.Transport {
		case "ndjson":
			res = runNDJSON(s)
		default:
			res = runHTTP(s)
		}
		finished = true
	}); p != "" {
		if !finished {
			res.Failf("bubble did not end cleanly (the script itself got stuck): %s", p)
		} else {
			res.Class("teardown_leftover") // goroutines left behind after the last answer: not this property's business
		}
	}
	return res
}

// pending is one request the oracle is waiting a response for.
type pending struct {
	env      Env
	exp      expect
	tok      string
	batch    int // index of the send step if it was a batch, else -1
	done     bool
	released bool
}

var freshCounter int64

// lagTransport makes Write return d (virtual time) after the inner Write did.
type lagTransport struct {
	inner mcp.Transport
	d     time.Duration
}

func (t *lagTransport) Connect(ctx context.Context) (mcp.Connection, error) {
	c, err := t.inner.Connect(ctx)
	if err != nil {
		return nil, err
	}
	return &lagConn{Connection: c, d: t.d}, nil
}

type lagConn struct {
	mcp.Connection
	d time.Duration
}

func (c *lagConn) Write(ctx context.Context, msg jsonrpc.Message) error {
	err := c.Connection.Write(ctx, msg)
	time.Sleep(c.d)
	return err
}

// freshID returns a JSON-RPC id token that no generated envelope uses (unique per process).
func freshID() string {
	return fmt.Sprint(1_000_000 + atomic.AddInt64(&freshCounter, 1))
}

// steer applies the open known-findings exclusions to a script by construction.
func steer(e *Env, inflight map[string]bool, version string) {
	if vt.Open("F1") && e.ID != "" && !strings.HasPrefix(e.ID, `"`) {
		var n int64
		fmt.Sscan(e.ID, &n)
		if n > 1<<53 || n < -(1<<53) {
			vt.Excluded("F1")
			e.ID = fmt.Sprint(n % (1 << 53))
		}
	}
	if vt.Open("F3") && e.realMethod() == "initialize" && e.Params != "valid" && e.ID != "" {
		vt.Excluded("F3")
		e.Params = "valid"
	}
	if vt.Open("F9") && e.realMethod() == "notifications/cancelled" && e.ID != "" && (e.Params == "wrongtype" || e.Params == "array") {
		vt.Excluded("F9")
		e.Params = "valid"
	}
}

func runNDJSON(s Script) (res vt.Result) {
	atomic.StoreInt64(&freshCounter, 0) // fresh ids are a function of the script
	g := &gates{}
	server := newServer(g)
	a, b := memio.NewPipe()
	var st mcp.Transport = &mcp.IOTransport{Reader: a, Writer: a}
	lag := time.Duration(s.WriteLagUs) * time.Microsecond
	if lag > 0 {
		st = &lagTransport{inner: st, d: lag}
	}
	// settle: quiescence; with a lagging transport, also after every queued Write has returned
	settle := func() {
		synctest.Wait()
		if lag > 0 {
			time.Sleep(200 * lag)
			synctest.Wait()
		}
	}
	ss, err := server.Connect(context.Background(), st, nil)
	if err != nil {
		res.Failf("harness: %v", err)
		return
	}
	peer := memio.NewRawPeer(b)
	defer func() {
		g.releaseAll()
		peer.Close()
		ss.Close()
	}()
	// handshake
	peer.Send(fmt.Sprintf(`{"jsonrpc":"2.0","id":"hs","method":"initialize","params":{"protocolVersion":%q,"capabilities":{},"clientInfo":{"name":"raw","version":"0"}}}`, s.Version))
	synctest.Wait()
	peer.Send(`{"jsonrpc":"2.0","method":"notifications/initialized"}`)
	synctest.Wait()
	// The handshake must have produced the answer to "hs"; whatever else the server chose to send by now
	// (a notification, a request of its own) is not judged and not counted as an answer.
	hsAnswered := false
	for ln, raw := range peer.Received() {
		for _, m := range parseLine(raw, ln) {
			if m.isResp && m.tok == `"hs"` {
				hsAnswered = true
			}
		}
	}
	if !hsAnswered {
		res.Failf("harness: the handshake produced no answer to initialize (%d messages)", len(peer.Received()))
		return
	}
	lines := len(peer.Received())
	gateSeq := 0
	var pend []*pending
	inflight := map[string]bool{} // canonical id tokens of calls awaiting a response
	var desc strings.Builder
	nt := false
	pingN := 0

	check := func(step int, what string) bool {
		recv := peer.Received()
		for ln := lines; ln < len(recv); ln++ {
			msgs := parseLine(recv[ln], ln)
			batchToks := []string{}
			for _, m := range msgs {
				if !m.isResp {
					continue // server-initiated notification/request: not our concern
				}
				// find the pending request this response answers (see attribute)
				hit := attribute(pend, m.tok, m.code)
				if hit == nil {
					res.Failf("step %d (%s): received a response with id %s that answers no outstanding request (wrong id echoed, or a second answer): %s", step, what, m.tok, m.raw)
					return false
				}
				hit.done = true
				if hit.exp.class != "inflight_id_reuse" {
					delete(inflight, canonical(hit.tok))
				}
				if !hit.exp.answerOK(m.code) {
					res.Failf("step %d: %s [%s] answered %s, want error code %v", step, hit.env.wire(), hit.exp.class, m.raw, hit.exp.codes)
					return false
				}
				if (m.batch >= 0) != (hit.batch >= 0) {
					res.Failf("step %d: response %s framing does not match its request (request in batch: %v, response in array: %v)", step, m.raw, hit.batch >= 0, m.batch >= 0)
					return false
				}
				if m.batch >= 0 {
					batchToks = append(batchToks, fmt.Sprint(hit.batch))
				}
			}
			if len(batchToks) > 0 {
				// one array = the calls of exactly one batch, all of them
				first := batchToks[0]
				for _, t := range batchToks {
					if t != first {
						res.Failf("step %d: one response array mixes answers of different request batches", step)
						return false
					}
				}
				for _, p := range pend {
					if fmt.Sprint(p.batch) == first && p.exp.response && !p.done {
						res.Failf("step %d: response array for batch sent at step %s omits the answer to %s", step, first, p.env.wire())
						return false
					}
				}
			}
		}
		lines = len(recv)
		return true
	}

	quiescentInvariant := func(step int, what string) bool {
		if ended, err := peer.Ended(); ended {
			res.Failf("step %d (%s): the server closed the connection: %v", step, what, err)
			return false
		}
		if !check(step, what) {
			return false
		}
		// Every request that needs a response and whose handler is not parked must have been answered,
		// unless it sits in a batch with a still-parked call (batch replies are sent when complete).
		parkedBatches := map[int]bool{}
		for _, p := range pend {
			if !p.done && p.exp.parks && p.batch >= 0 {
				parkedBatches[p.batch] = true
			}
		}
		for _, p := range pend {
			if p.exp.response && !p.done && !p.exp.parks && !(p.batch >= 0 && parkedBatches[p.batch]) {
				res.Failf("step %d (%s): request %s [%s] has received no response", step, what, p.env.wire(), p.exp.class)
				return false
			}
		}
		return true
	}

	parkedTok := func(tok string) bool {
		for _, p := range pend {
			if p.exp.parks && !p.done && canonical(p.tok) == tok {
				return true
			}
		}
		return false
	}
	for i, st := range s.Steps {
		step := i
		switch st.Kind {
		case "release":
			// a parked handler finishes: find which pending call it belongs to (arrival order of parks)
			var parked []*pending
			for _, p := range pend {
				if p.exp.parks && !p.done && !p.released {
					parked = append(parked, p)
				}
			}
			if len(parked) == 0 {
				desc.WriteString("r-;")
				continue
			}
			k := st.Release % len(parked)
			if k != 0 {
				nt = true
				desc.WriteString("rO;") // out-of-order completion
			} else {
				desc.WriteString("r;")
			}
			parked[k].released = true
			parked[k].exp.parks = false
			g.release(parked[k].env.Gate)
			settle()
			if !quiescentInvariant(i, "release") {
				return finish(res, s, &desc, nt)
			}
		case "qcancel":
			gateSeq++
			hold := gateSeq
			g.block.Store(int64(hold))
			peer.Send(`{"jsonrpc":"2.0","method":"notifications/roots/list_changed"}`)
			synctest.Wait()
			var queued []*pending
			for k := 0; k < st.Queued; k++ {
				id := freshID()
				m := []string{"ping", "tools/list", "tools/call:fast"}[k%3]
				e := Env{ID: id, Method: m, Params: "valid"}
				q := &pending{env: e, exp: expect{response: true, class: "queued_behind_a_notification"}, tok: id, batch: -1}
				if st.Cancel&(1<<k) != 0 {
					q.exp.class = "cancelled_while_queued"
				}
				queued = append(queued, q)
				pend = append(pend, q)
				inflight[canonical(id)] = true
				peer.Send(e.wire())
			}
			synctest.Wait()
			for _, q := range queued {
				if q.exp.class == "cancelled_while_queued" {
					peer.Send(`{"jsonrpc":"2.0","method":"notifications/cancelled","params":{"requestId":` + q.tok + `}}`)
					nt = true
				}
			}
			synctest.Wait()
			if !check(i, "calls queued behind a parked notification handler") {
				return finish(res, s, &desc, nt)
			}
			g.release(hold)
			g.block.Store(0)
			fmt.Fprintf(&desc, "qcancel/%d/%d;", st.Queued, st.Cancel&(1<<st.Queued-1))
			res.Class("calls_queued_behind_a_parked_notification_handler")
			settle()
			if !quiescentInvariant(i, "queue let go") {
				return finish(res, s, &desc, nt)
			}
		default:
			envs := append([]Env(nil), st.Envs...)
			isBatch := len(envs) > 1 || st.Kind == "send1batch"
			seenInBatch := map[string]bool{}
			var wires []string
			var news []*pending
			for j := range envs {
				e := &envs[j]
				steer(e, inflight, s.Version)
				gateSeq++
				e.Gate = gateSeq // unique gate per envelope: the harness releases exactly this handler
				ex := e.expectation()
				tok := canonical(e.ID)
				if e.ID != "" {
					_ = step
					if isBatch && (seenInBatch[tok] || inflight[tok]) {
						// two calls with one id inside a batch / batch re-using an in-flight id: not generated
						// (the reader rejects the whole payload and ends the session; recorded in DESIGN.md).
						e.ID = freshID()
						tok = e.ID
					}
					if inflight[tok] && ex.response && !parkedTok(tok) {
						// The original is only awaiting a deferred batch/JSON reply: whether the server still
						// counts it as in flight is unobservable, so this shape is not generated.
						e.ID = freshID()
						tok = e.ID
					}
					if inflight[tok] && ex.response {
						// re-use of an id that is still in flight: must be refused with an error bearing
						// that id, without touching the original.
						if vt.Open("F4") {
							vt.Excluded("F4")
							e.ID = freshID()
							tok = e.ID
						} else {
							// refused with an error bearing the id; -32600 is what the SDK uses, the statement names no code
							ex = expect{response: true, codes: []int{-32600}, anyError: true, class: "inflight_id_reuse"}
							nt = true
						}
					}
					seenInBatch[tok] = true
				}
				p := &pending{env: *e, exp: ex, tok: e.ID, batch: -1}
				if isBatch {
					p.batch = i
				}
				if ex.response {
					if ex.class != "inflight_id_reuse" {
						inflight[tok] = true
					}
				}
				news = append(news, p)
				wires = append(wires, e.wire())
				fmt.Fprintf(&desc, "%s/%s/%s,", ex.class, idClass(e.ID), e.Params)
			}
			if isBatch {
				hasCall, hasNotif := false, false
				for _, p := range news {
					if p.exp.response {
						hasCall = true
					} else {
						hasNotif = true
					}
				}
				if vt.Open("F2") && hasNotif {
					// batches containing notifications: excluded while F2 is open
					vt.Excluded("F2")
					var keepW []string
					var keepP []*pending
					for k, p := range news {
						if p.exp.response {
							keepW, keepP = append(keepW, wires[k]), append(keepP, p)
						}
					}
					wires, news = keepW, keepP
					if len(wires) == 0 {
						desc.WriteString(";")
						continue
					}
				} else if hasCall && hasNotif {
					nt = true
				}
				desc.WriteString("B;")
			} else {
				desc.WriteString(";")
			}
			for _, p := range news {
				if p.env.ID != "" && !strings.HasPrefix(p.env.ID, `"`) {
					var n int64
					fmt.Sscan(p.env.ID, &n)
					if n > 1<<53 || n < -(1<<53) {
						nt = true
					}
				}
			}
			pend = append(pend, news...)
			var line string
			if isBatch {
				line = "[" + strings.Join(wires, ",") + "]"
			} else {
				line = wires[0]
			}
			if err := peer.Send(memio.Respell(line, s.Spell)); err != nil {
				res.Failf("step %d: cannot send, connection gone: %v", i, err)
				return finish(res, s, &desc, nt)
			}
			synctest.Wait()
			if lag > 0 && st.EagerReuse {
				// the answers of this step's fast calls have reached the peer; the server's Write is still lagging
				if !check(i, line) {
					return finish(res, s, &desc, nt)
				}
				for _, p := range news {
					if p.done && p.exp.response && p.env.ID != "" && !inflight[canonical(p.tok)] {
						q := &pending{env: Env{ID: p.env.ID, Method: "ping", Params: "absent"}, exp: expect{response: true, class: "id_reused_right_after_response"}, tok: p.env.ID, batch: -1}
						pend = append(pend, q)
						inflight[canonical(p.tok)] = true
						peer.Send(`{"jsonrpc":"2.0","id":` + p.env.ID + `,"method":"ping"}`)
						nt = true
						desc.WriteString("eager;")
						break
					}
				}
			}
			settle()
			if !quiescentInvariant(i, line) {
				return finish(res, s, &desc, nt)
			}
		}
		// the session must still answer a ping after every step
		pingN++
		tok := fmt.Sprintf(`"ping-%d"`, pingN)
		pend = append(pend, &pending{env: Env{ID: tok, Method: "ping", Params: "absent"}, exp: expect{response: true, class: "liveness_ping"}, tok: tok, batch: -1})
		peer.Send(`{"jsonrpc":"2.0","id":` + tok + `,"method":"ping"}`)
		settle()
		if !quiescentInvariant(i, "liveness ping") {
			return finish(res, s, &desc, nt)
		}
	}
	// release everything still parked: all outstanding requests must now be answered exactly once
	for _, p := range pend {
		if p.exp.parks && !p.done {
			p.exp.parks = false
		}
	}
	g.releaseAll()
	settle()
	quiescentInvariant(len(s.Steps), "final")
	for _, p := range pend {
		if p.exp.response && !p.done && len(res.Violations) == 0 {
			res.Failf("final: request %s never received a response", p.env.wire())
		}
	}
	return finish(res, s, &desc, nt)
}

func idClass(id string) string {
	switch {
	case id == "":
		return "noid"
	case strings.HasPrefix(id, `"`):
		return "str"
	}
	var n int64
	fmt.Sscan(id, &n)
	if n > 1<<53 || n < -(1<<53) {
		return "big"
	}
	return "int"
}

func finish(res vt.Result, s Script, desc *strings.Builder, nt bool) vt.Result {
	res.Desc = s.Transport + "|" + s.Version + "|" + desc.String()
	res.NonTrivial = nt
	d := desc.String()
	for _, c := range []string{"unknown_method", "id_on_notification", "call_without_id", "required_params_missing", "undecodable_params", "parked_call", "inflight_id_reuse", "/big/", "B;", "rO;", "eager;"} {
		if strings.Contains(d, c) {
			res.Class(strings.Trim(c, "/;"))
		}
	}
	res.Class("transport_" + s.Transport)
	if s.Spell != 0 {
		res.Class(fmt.Sprintf("respelled_json_mode_%d", s.Spell))
	}
	return res
}

var ndjsonProp = vt.Register(&vt.Prop[Script]{Property: "C02", Name: "ndjson", Journal: true,
	Gen: func(rt *rapid.T) Script { return genScript(rt, "ndjson") }, Run: run})

func TestC02_NDJSON(t *testing.T) { theT = t; ndjsonProp.Check(t) }
func TestReplay(t *testing.T)     { theT = t; vt.Replay(t) }
func TestRegress(t *testing.T)    { theT = t; vt.Regress(t, "C02") }
func TestKnown(t *testing.T)      { theT = t; vt.Known(t, "C02") }
