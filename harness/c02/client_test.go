package c02

// The client as the receiver (prop "client"): C02 speaks about every incoming call on a connection, and a
// client session receives calls too (ping, roots/list, sampling/createMessage, elicitation/create). A raw
// peer plays the server over the real newline-delimited transport: it answers the client's initialize,
// then sends well-formed envelopes with every shape of params, to a client configured with or without the
// optional handlers. Oracle, independent of the SDK: one response per id-bearing request, bearing that id
// token; none for notifications; unknown methods -32601, an id on a notification-only method -32600,
// undecodable or missing-but-required params -32602/-32600; nothing tears the session down or crashes.

import (
	"context"
	"encoding/json"
	"fmt"
	"slices"
	"strings"
	"testing"
	"testing/synctest"

	"github.com/modelcontextprotocol/go-sdk/mcp"
	"github.com/modelcontextprotocol/go-sdk/verif/memio"
	"github.com/modelcontextprotocol/go-sdk/verif/vt"
	"pgregory.net/rapid"
)

type CEnv struct {
	ID     string `json:"id"` // JSON token, "" = absent
	Method string `json:"method"`
	Params string `json:"params"` // absent | null | empty | valid | wrongtype | array
}

type ClientScript struct {
	Version     string `json:"version"`
	Sampling    bool   `json:"sampling"`    // ClientOptions.CreateMessageHandler set
	Elicitation bool   `json:"elicitation"` // ClientOptions.ElicitationHandler set
	Handlers    bool   `json:"handlers"`    // notification handlers set (progress, logging, list-changed, resource-updated)
	Envs        []CEnv `json:"envs"`
	Spell       int    `json:"spell,omitempty"`
}

var cCallMethods = []string{"ping", "roots/list", "sampling/createMessage", "sampling/createMessage", "elicitation/create", "elicitation/create"}
var cNotifMethods = []string{"notifications/progress", "notifications/message", "notifications/tools/list_changed", "notifications/prompts/list_changed",
	"notifications/resources/list_changed", "notifications/resources/updated", "notifications/cancelled", "notifications/elicitation/complete"}

// methods a client does not serve: server-side methods and inventions
var cUnknownMethods = []string{"tools/list", "tools/call", "initialize", "foo/bar", "", "PING", "notifications/unknown", "notifications/initialized"}

var cParamsRequired = map[string]bool{"sampling/createMessage": true, "notifications/progress": true, "notifications/message": true}

func genClientScript(rt *rapid.T) ClientScript {
	s := ClientScript{
		Version:     rapid.SampledFrom([]string{"2024-11-05", "2025-03-26", "2025-06-18", "2025-06-18", "2025-11-25"}).Draw(rt, "version"),
		Sampling:    rapid.Bool().Draw(rt, "sampling"),
		Elicitation: rapid.Bool().Draw(rt, "elicitation"),
		Handlers:    rapid.Bool().Draw(rt, "handlers"),
		Spell:       rapid.SampledFrom([]int{0, 0, 0, 1, 2, 3, 4, 5}).Draw(rt, "spell"),
	}
	n := rapid.IntRange(1, 14).Draw(rt, "n")
	for i := 0; i < n; i++ {
		var e CEnv
		switch rapid.IntRange(0, 9).Draw(rt, "shape") {
		case 0, 1, 2, 3, 4:
			e.Method, e.ID = rapid.SampledFrom(cCallMethods).Draw(rt, "callm"), genID(rt)
		case 5, 6:
			e.Method = rapid.SampledFrom(cNotifMethods).Draw(rt, "notifm")
		case 7:
			e.Method = rapid.SampledFrom(cUnknownMethods).Draw(rt, "unkm")
			if rapid.Bool().Draw(rt, "unkid") {
				e.ID = genID(rt)
			}
		case 8:
			e.Method, e.ID = rapid.SampledFrom(cNotifMethods).Draw(rt, "notifm2"), genID(rt)
		default:
			e.Method = rapid.SampledFrom(cCallMethods).Draw(rt, "callm2") // a call method sent without id
		}
		e.Params = rapid.SampledFrom([]string{"valid", "valid", "valid", "absent", "absent", "null", "empty", "wrongtype", "array"}).Draw(rt, "params")
		s.Envs = append(s.Envs, e)
	}
	return s
}

func (e CEnv) wire() string {
	var b strings.Builder
	b.WriteString(`{"jsonrpc":"2.0"`)
	if e.ID != "" {
		b.WriteString(`,"id":` + e.ID)
	}
	mj, _ := json.Marshal(e.Method)
	b.WriteString(`,"method":` + string(mj))
	switch e.Params {
	case "null":
		b.WriteString(`,"params":null`)
	case "empty":
		b.WriteString(`,"params":{}`)
	case "array":
		b.WriteString(`,"params":[1,"two"]`)
	case "valid":
		v := `{}`
		switch e.Method {
		case "sampling/createMessage":
			v = `{"messages":[{"role":"user","content":{"type":"text","text":"hi"}}],"maxTokens":5}`
		case "elicitation/create":
			v = `{"message":"name?","requestedSchema":{"type":"object","properties":{"name":{"type":"string"}}}}`
		case "notifications/progress":
			v = `{"progressToken":"t","progress":1}`
		case "notifications/message":
			v = `{"level":"info","data":"x"}`
		case "notifications/resources/updated":
			v = `{"uri":"file:///a"}`
		case "notifications/cancelled":
			v = `{"requestId":424242}`
		case "notifications/elicitation/complete":
			v = `{"elicitationId":"e1"}`
		}
		b.WriteString(`,"params":` + v)
	case "wrongtype":
		v := `"a string"`
		switch e.Method {
		case "sampling/createMessage":
			v = `{"messages":"none","maxTokens":"few"}`
		case "elicitation/create":
			v = `{"message":7,"requestedSchema":"none"}`
		case "notifications/progress":
			v = `{"progressToken":"t","progress":"much"}`
		case "notifications/message":
			v = `{"level":17}`
		case "notifications/resources/updated":
			v = `{"uri":{"x":1}}`
		case "notifications/cancelled":
			v = `{"requestId":{"a":1}}`
		}
		b.WriteString(`,"params":` + v)
	}
	b.WriteString("}")
	return b.String()
}

// cExpect: must a response arrive, and which error codes are right (nil: a result or any error is fine,
// the property only counts the response).
func (s ClientScript) cExpect(e CEnv) (response bool, codes []int, resultOK bool, class string) {
	known := slices.Contains(cCallMethods, e.Method)
	notif := slices.Contains(cNotifMethods, e.Method)
	switch {
	case e.ID == "":
		return false, nil, false, "no_id"
	case !known && !notif:
		return true, []int{-32601}, false, "unknown_method"
	case notif:
		return true, []int{-32600, -32602}, false, "id_on_notification"
	}
	switch e.Params {
	case "wrongtype", "array":
		// ping and roots/list have no parameters of their own: answering without decoding them is as good as refusing
		return true, []int{-32602, -32600}, e.Method == "ping" || e.Method == "roots/list", "undecodable_params"
	case "absent", "null":
		if cParamsRequired[e.Method] {
			return true, []int{-32602, -32600}, false, "required_params_missing"
		}
	}
	// a decodable call: answered once; whether with a result or an error (no handler, defective content) is
	// the method's business, not the property's
	return true, nil, true, "decodable_call"
}

func runClient(s ClientScript) (res vt.Result) {
	if p := vt.Bubble(theT, func() { res = runClientInBubble(s) }); p != "" {
		res.Class("teardown_leftover")
	}
	return res
}

func runClientInBubble(s ClientScript) (res vt.Result) {
	a, b := memio.NewPipe()
	peer := memio.NewRawPeer(b)
	defer peer.Close()
	opts := &mcp.ClientOptions{}
	if s.Sampling {
		opts.CreateMessageHandler = func(context.Context, *mcp.CreateMessageRequest) (*mcp.CreateMessageResult, error) {
			return &mcp.CreateMessageResult{Model: "m", Role: "assistant", Content: &mcp.TextContent{Text: "ok"}}, nil
		}
	}
	if s.Elicitation {
		opts.ElicitationHandler = func(context.Context, *mcp.ElicitRequest) (*mcp.ElicitResult, error) {
			return &mcp.ElicitResult{Action: "decline"}, nil
		}
	}
	if s.Handlers {
		opts.ProgressNotificationHandler = func(context.Context, *mcp.ProgressNotificationClientRequest) {}
		opts.LoggingMessageHandler = func(context.Context, *mcp.LoggingMessageRequest) {}
		opts.ToolListChangedHandler = func(context.Context, *mcp.ToolListChangedRequest) {}
		opts.PromptListChangedHandler = func(context.Context, *mcp.PromptListChangedRequest) {}
		opts.ResourceListChangedHandler = func(context.Context, *mcp.ResourceListChangedRequest) {}
		opts.ResourceUpdatedHandler = func(context.Context, *mcp.ResourceUpdatedNotificationRequest) {}
		opts.ElicitationCompleteHandler = func(context.Context, *mcp.ElicitationCompleteNotificationRequest) {}
	}
	client := mcp.NewClient(&mcp.Implementation{Name: "cli", Version: "1"}, opts)
	client.AddRoots(&mcp.Root{URI: "file:///r", Name: "r"})
	var cs *mcp.ClientSession
	cerr := make(chan error, 1)
	go func() {
		var e error
		cs, e = client.Connect(context.Background(), &mcp.IOTransport{Reader: a, Writer: a}, &mcp.ClientSessionOptions{ProtocolVersion: s.Version})
		cerr <- e
	}()
	synctest.Wait()
	// the peer answers the initialize request
	recv := peer.Received()
	if len(recv) != 1 {
		res.Failf("harness: expected the initialize request, got %d messages", len(recv))
		return
	}
	var init struct {
		ID json.RawMessage `json:"id"`
	}
	json.Unmarshal(recv[0], &init)
	peer.Send(fmt.Sprintf(`{"jsonrpc":"2.0","id":%s,"result":{"protocolVersion":%q,"capabilities":{"tools":{}},"serverInfo":{"name":"raw","version":"0"}}}`, init.ID, s.Version))
	synctest.Wait()
	select {
	case e := <-cerr:
		if e != nil {
			res.Failf("harness: connect: %v", e)
			return
		}
	default:
		res.Failf("harness: connect did not return")
		return
	}
	defer func() {
		go cs.Close()
		synctest.Wait()
	}()
	seen := len(peer.Received()) // initialize + notifications/initialized
	var desc strings.Builder
	nt := false
	for i, e := range s.Envs {
		line := memio.Respell(e.wire(), s.Spell)
		if err := peer.Send(line); err != nil {
			res.Failf("msg %d: the client's connection no longer takes input: %v", i, err)
			return
		}
		synctest.Wait()
		if ended, err := peer.Ended(); ended {
			res.Failf("msg %d (%s): the client closed the connection: %v", i, line, err)
			return
		}
		all := peer.Received()
		fresh := all[seen:]
		seen = len(all)
		response, codes, resultOK, class := s.cExpect(e)
		res.Class("client_receives_" + class)
		fmt.Fprintf(&desc, "%s/%s/%v;", e.Method, e.Params, e.ID != "")
		var answers []json.RawMessage
		for _, m := range fresh {
			var env struct {
				ID     json.RawMessage `json:"id"`
				Method *string         `json:"method"`
				Result json.RawMessage `json:"result"`
				Error  *struct {
					Code int `json:"code"`
				} `json:"error"`
			}
			if err := json.Unmarshal(m, &env); err != nil {
				res.Failf("msg %d: the client wrote something that is not a JSON-RPC message: %s", i, m)
				return
			}
			if env.Method != nil {
				continue // a message of the client's own (none is expected, none is judged)
			}
			answers = append(answers, m)
			if !response {
				res.Failf("msg %d: %s carries no id, yet the client answered: %s", i, line, m)
				continue
			}
			if canonical(string(env.ID)) != canonical(e.ID) {
				res.Failf("msg %d: the response bears id %s, the request bore %s: %s", i, env.ID, e.ID, m)
				continue
			}
			if codes != nil {
				switch {
				case env.Error == nil && !resultOK:
					res.Failf("msg %d: %s (%s) was answered with a result, want an error with code in %v: %s", i, line, class, codes, m)
				case env.Error != nil && !slices.Contains(codes, env.Error.Code):
					res.Failf("msg %d: %s (%s) was answered with error code %d, want one of %v", i, line, class, env.Error.Code, codes)
				}
			}
		}
		if response && len(answers) != 1 {
			res.Failf("msg %d: %s received %d responses, want exactly one: %s", i, line, len(answers), answers)
		}
		if class != "decodable_call" && class != "no_id" {
			nt = true
		}
		if len(res.Violations) > 0 {
			break
		}
	}
	res.Desc = fmt.Sprintf("%s|%v|%v|%v|%s", s.Version, s.Sampling, s.Elicitation, s.Handlers, desc.String())
	res.NonTrivial = nt
	return res
}

var clientProp = vt.Register(&vt.Prop[ClientScript]{Property: "C02", Name: "client", Gen: genClientScript, Run: runClient})

func TestC02_Client(t *testing.T) { theT = t; clientProp.Check(t) }
