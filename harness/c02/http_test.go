package c02

import (
	"bytes"
	"context"
	"encoding/json"
	"fmt"
	"io"
	"net/http"
	"slices"
	"strings"
	"sync/atomic"
	"testing"
	"testing/synctest"

	"github.com/modelcontextprotocol/go-sdk/mcp"
	"github.com/modelcontextprotocol/go-sdk/verif/memhttp"
	"github.com/modelcontextprotocol/go-sdk/verif/memio"
	"github.com/modelcontextprotocol/go-sdk/verif/vt"
	"pgregory.net/rapid"
)

// httpSession is a raw HTTP peer of one of the HTTP transports.
type httpSession struct {
	kind      string // stream-sse | stream-json | sse
	tr        *memhttp.Transport
	client    *http.Client
	sessionID string
	version   string
	endpoint  string            // sse: message endpoint
	getEx     *memhttp.Exchange // sse: the hanging GET
	getSeen   int               // sse: number of events of the GET stream already accounted
}

func (h *httpSession) post(body string) *memhttp.Exchange {
	url := "http://mcp.example/mcp"
	if h.kind == "sse" {
		url = h.endpoint
	}
	req, _ := http.NewRequestWithContext(context.Background(), "POST", url, strings.NewReader(body))
	req.Header.Set("Content-Type", "application/json")
	if h.kind != "sse" {
		req.Header.Set("Accept", "application/json, text/event-stream")
		if h.sessionID != "" {
			req.Header.Set("Mcp-Session-Id", h.sessionID)
		}
		if h.version >= "2025-06-18" && h.sessionID != "" {
			req.Header.Set("Mcp-Protocol-Version", h.version)
		}
	}
	before := len(h.tr.Exchanges())
	go func() {
		resp, err := h.client.Do(req)
		if err == nil {
			io.Copy(io.Discard, resp.Body)
			resp.Body.Close()
		}
	}()
	synctest.Wait()
	exs := h.tr.Exchanges()
	if len(exs) <= before {
		return nil
	}
	return exs[before]
}

// bodyMessages extracts the JSON-RPC messages an exchange's body carries so far.
func bodyMessages(ex *memhttp.Exchange, lineNo int) []recvMsg {
	ct := ex.RespHeader().Get("Content-Type")
	data := ex.Written()
	var out []recvMsg
	switch {
	case strings.HasPrefix(ct, "text/event-stream"):
		for _, ev := range memhttp.ParseSSE(data) {
			if ev.Data == "" || (ev.Name != "" && ev.Name != "message") {
				continue
			}
			out = append(out, parseLine(json.RawMessage(ev.Data), lineNo)...)
		}
	case strings.HasPrefix(ct, "application/json"):
		if !ex.HandlerDone() || len(bytes.TrimSpace(data)) == 0 {
			return nil
		}
		out = parseLine(json.RawMessage(data), lineNo)
	}
	return out
}

func runHTTP(s Script) (res vt.Result) {
	atomic.StoreInt64(&freshCounter, 0) // fresh ids are a function of the script
	g := &gates{}
	server := newServer(g)
	h := &httpSession{kind: s.Transport, version: s.Version}
	switch s.Transport {
	case "sse":
		h.tr = &memhttp.Transport{Handler: mcp.NewSSEHandler(func(*http.Request) *mcp.Server { return server }, nil)}
	default:
		h.tr = &memhttp.Transport{Handler: mcp.NewStreamableHTTPHandler(func(*http.Request) *mcp.Server { return server },
			&mcp.StreamableHTTPOptions{JSONResponse: s.Transport == "stream-json"})}
	}
	h.client = h.tr.Client()
	ctx, cancelAll := context.WithCancel(context.Background())
	defer func() {
		g.releaseAll()
		cancelAll()
		for ss := range server.Sessions() {
			go ss.Close()
		}
		synctest.Wait()
	}()

	initLine := fmt.Sprintf(`{"jsonrpc":"2.0","id":"hs","method":"initialize","params":{"protocolVersion":%q,"capabilities":{},"clientInfo":{"name":"raw","version":"0"}}}`, s.Version)
	if s.Transport == "sse" {
		req, _ := http.NewRequestWithContext(ctx, "GET", "http://mcp.example/sse", nil)
		go func() {
			resp, err := h.client.Do(req)
			if err == nil {
				io.Copy(io.Discard, resp.Body)
				resp.Body.Close()
			}
		}()
		synctest.Wait()
		exs := h.tr.Exchanges()
		if len(exs) != 1 {
			res.Failf("harness: SSE GET produced %d exchanges", len(exs))
			return
		}
		h.getEx = exs[0]
		evs := memhttp.ParseSSE(h.getEx.Written())
		// the endpoint event; other events the server may send first (priming, retry hints) are skipped
		epi := slices.IndexFunc(evs, func(ev memhttp.SSEvent) bool { return ev.Name == "endpoint" })
		if epi < 0 {
			res.Failf("harness: SSE GET carries no endpoint event: %q", h.getEx.Written())
			return
		}
		ep := evs[epi].Data
		h.endpoint = "http://mcp.example" + ep
		if strings.HasPrefix(ep, "http") {
			h.endpoint = ep
		} else if !strings.HasPrefix(ep, "/") {
			h.endpoint = "http://mcp.example/sse" + ep
		}
		h.getSeen = len(evs)
		// the 2024-11-05 HTTP+SSE transport does not fix the status of an accepted POST: any 2xx will do
		if ex := h.post(initLine); ex == nil || ex.Status()/100 != 2 {
			res.Failf("harness: SSE initialize POST failed")
			return
		}
		h.post(`{"jsonrpc":"2.0","method":"notifications/initialized"}`)
		h.getSeen = len(memhttp.ParseSSE(h.getEx.Written()))
	} else {
		ex := h.post(initLine)
		if ex == nil || ex.Status() != 200 {
			res.Failf("harness: initialize POST failed")
			return
		}
		h.sessionID = ex.RespHeader().Get("Mcp-Session-Id")
		if ex2 := h.post(`{"jsonrpc":"2.0","method":"notifications/initialized"}`); ex2 == nil || ex2.Status() != 202 {
			res.Failf("harness: initialized POST failed")
			return
		}
	}

	type postRec struct {
		ex        *memhttp.Exchange
		pend      []*pending
		malformed bool // contains an envelope the transport may reject up front
		seen      int
		rejected  bool
		isBatch   bool
		line      string
	}
	gateSeq := 0
	var posts []*postRec
	var allPend []*pending
	inflight := map[string]bool{}
	var desc strings.Builder
	nt := false
	pingN := 0

	// account matches newly received responses against pending requests.
	account := func(step int, msgs []recvMsg, scope []*pending, where string) bool {
		for _, m := range msgs {
			if !m.isResp {
				continue
			}
			hit := attribute(scope, m.tok, m.code)
			if hit == nil {
				res.Failf("step %d: %s carries a response with id %s that answers no outstanding request of that exchange (wrong id echoed, second answer, or wrong stream): %s", step, where, m.tok, m.raw)
				return false
			}
			hit.done = true
			if hit.exp.class != "inflight_id_reuse" {
				delete(inflight, canonical(hit.tok))
			}
			if !hit.exp.answerOK(m.code) {
				res.Failf("step %d: %s [%s] answered %s, want error code %v", step, hit.env.wire(), hit.exp.class, m.raw, hit.exp.codes)
				return false
			}
		}
		return true
	}

	quiescent := func(step int) bool {
		if s.Transport == "sse" {
			evs := memhttp.ParseSSE(h.getEx.Written())
			var msgs []recvMsg
			for _, ev := range evs[h.getSeen:] {
				if ev.Name == "message" || ev.Name == "" {
					msgs = append(msgs, parseLine(json.RawMessage(ev.Data), -1)...)
				}
			}
			h.getSeen = len(evs)
			if h.getEx.HandlerDone() {
				res.Failf("step %d: the server ended the SSE session stream", step)
				return false
			}
			if !account(step, msgs, allPend, "the session stream") {
				return false
			}
		}
		for _, pr := range posts {
			if pr.ex == nil {
				continue
			}
			st := pr.ex.Status()
			switch {
			case st >= 400 && st < 500:
				if !pr.malformed {
					res.Failf("step %d: POST %s was refused with HTTP %d although every envelope in it is well-formed: %s", step, pr.line, st, pr.ex.Written())
					return false
				}
				if !pr.rejected {
					pr.rejected = true
					for _, p := range pr.pend {
						p.done = true // answered at the HTTP level
						if p.exp.class != "inflight_id_reuse" {
							delete(inflight, canonical(p.tok))
						}
					}
				}
				continue
			case st >= 500:
				res.Failf("step %d: POST %s answered HTTP %d: %s", step, pr.line, st, pr.ex.Written())
				return false
			}
			if s.Transport == "sse" {
				continue // responses travel on the session stream
			}
			needResp := false
			for _, p := range pr.pend {
				if p.exp.response {
					needResp = true
				}
			}
			if st == 202 && needResp {
				res.Failf("step %d: POST %s contains calls but was answered 202 Accepted", step, pr.line)
				return false
			}
			msgs := bodyMessages(pr.ex, -1)
			if !account(step, msgs[min(pr.seen, len(msgs)):], pr.pend, fmt.Sprintf("the response to POST %s", pr.line)) {
				return false
			}
			pr.seen = len(msgs)
		}
		// everything not parked must be answered; in JSON mode / batches the reply comes when the POST completes
		parkedPosts := map[*postRec]bool{}
		for _, pr := range posts {
			for _, p := range pr.pend {
				if p.exp.parks && !p.done {
					parkedPosts[pr] = true
				}
			}
		}
		for _, pr := range posts {
			for _, p := range pr.pend {
				if p.exp.response && !p.done && !p.exp.parks {
					// JSON mode answers when the POST completes; a batch may be answered as a whole once all its
					// members are (JSON-RPC: "after all of the batch Request objects have been processed"), on
					// an event stream as well as on ndjson. No time is fixed by the property.
					if parkedPosts[pr] && (s.Transport == "stream-json" || pr.isBatch) {
						continue
					}
					res.Failf("step %d: request %s [%s] has received no response (HTTP status %d)", step, p.env.wire(), p.exp.class, pr.ex.Status())
					return false
				}
			}
		}
		return true
	}

	parkedTok := func(tok string) bool {
		for _, p := range allPend {
			if p.exp.parks && !p.done && canonical(p.tok) == tok {
				return true
			}
		}
		return false
	}
	send := func(step int, envs []Env, isBatch bool) bool {
		var wires []string
		pr := &postRec{isBatch: isBatch}
		seenInBatch := map[string]bool{}
		for j := range envs {
			e := &envs[j]
			steer(e, inflight, s.Version)
			gateSeq++
			e.Gate = gateSeq
			ex := e.expectation()
			tok := canonical(e.ID)
			if e.ID != "" {
				if isBatch && seenInBatch[tok] {
					e.ID = freshID()
					tok = e.ID
				}
				if inflight[tok] && ex.response && !parkedTok(tok) {
					// The original is only awaiting a deferred batch/JSON reply: whether the server still
					// counts it as in flight is unobservable, so this shape is not generated.
					e.ID = freshID()
					tok = e.ID
				}
				if inflight[tok] && ex.response {
					// streamable refuses the whole POST (HTTP 400 + JSON-RPC error); SSE goes through jsonrpc2 (F4)
					if s.Transport == "sse" && vt.Open("F4") {
						vt.Excluded("F4")
						e.ID = freshID()
						tok = e.ID
					} else {
						ex = expect{response: true, codes: []int{-32600}, anyError: true, class: "inflight_id_reuse"}
						pr.malformed = true
						nt = true
					}
				}
				seenInBatch[tok] = true
			}
			if ex.malformed {
				pr.malformed = true
			}
			p := &pending{env: *e, exp: ex, tok: e.ID, batch: -1}
			if ex.response && ex.class != "inflight_id_reuse" {
				inflight[tok] = true
			}
			pr.pend = append(pr.pend, p)
			wires = append(wires, e.wire())
			fmt.Fprintf(&desc, "%s/%s/%s,", ex.class, idClass(e.ID), e.Params)
			if idClass(e.ID) == "big" {
				nt = true
			}
		}
		if isBatch {
			hasCall, hasNotif := false, false
			for _, p := range pr.pend {
				if p.exp.response {
					hasCall = true
				} else {
					hasNotif = true
				}
			}
			if hasCall && hasNotif {
				nt = true
			}
			pr.line = "[" + strings.Join(wires, ",") + "]"
			desc.WriteString("B;")
		} else {
			pr.line = wires[0]
			desc.WriteString(";")
		}
		allPend = append(allPend, pr.pend...)
		posts = append(posts, pr)
		pr.ex = h.post(memio.Respell(pr.line, s.Spell))
		if pr.ex == nil {
			res.Failf("step %d: POST %s produced no exchange", step, pr.line)
			return false
		}
		return quiescent(step)
	}

	for i, st := range s.Steps {
		switch st.Kind {
		case "release":
			var parked []*pending
			for _, p := range allPend {
				if p.exp.parks && !p.done && !p.released {
					parked = append(parked, p)
				}
			}
			if len(parked) == 0 {
				desc.WriteString("r-;")
				continue
			}
			k := st.Release % len(parked)
			if k != 0 {
				nt = true
				desc.WriteString("rO;")
			} else {
				desc.WriteString("r;")
			}
			parked[k].released = true
			parked[k].exp.parks = false
			g.release(parked[k].env.Gate)
			synctest.Wait()
			if !quiescent(i) {
				return finish(res, s, &desc, nt)
			}
		default:
			envs := append([]Env(nil), st.Envs...)
			isBatch := (len(envs) > 1 || st.Kind == "send1batch") && s.Transport != "sse"
			if isBatch {
				if !send(i, envs, true) {
					return finish(res, s, &desc, nt)
				}
			} else {
				for _, e := range envs {
					if !send(i, []Env{e}, false) {
						return finish(res, s, &desc, nt)
					}
				}
			}
		}
		pingN++
		tok := fmt.Sprintf(`"ping-%d"`, pingN)
		if !send(i, []Env{{ID: tok, Method: "ping", Params: "absent"}}, false) {
			return finish(res, s, &desc, nt)
		}
	}
	for _, p := range allPend {
		if p.exp.parks && !p.done {
			p.exp.parks = false
		}
	}
	g.releaseAll()
	synctest.Wait()
	quiescent(len(s.Steps))
	for _, p := range allPend {
		if p.exp.response && !p.done && len(res.Violations) == 0 {
			res.Failf("final: request %s never received a response", p.env.wire())
		}
	}
	return finish(res, s, &desc, nt)
}

var httpProp = vt.Register(&vt.Prop[Script]{Property: "C02", Name: "http", Journal: true,
	Gen: func(rt *rapid.T) Script {
		return genScript(rt, rapid.SampledFrom([]string{"stream-sse", "stream-json", "sse"}).Draw(rt, "transport"))
	}, Run: run})

func TestC02_HTTP(t *testing.T) { theT = t; httpProp.Check(t) }
