package c03

// TestC03_Batch: a raw peer on the newline-delimited transport (IOTransport: stdio, command, in-memory
// framing) groups its messages into JSON-RPC batches of every size. The bytes of a batch's members reach the
// receiver in array order, and that is the order they are "sent" in: the handler of a notification has
// finished before the handler of any message behind it - in the same batch or in a later line - starts.
// Both directions: the SDK server as the receiver (session negotiated at 2025-03-26 or 2024-11-05, the
// versions that have batches) and the SDK client as the receiver.

import (
	"context"
	"encoding/json"
	"fmt"
	"strings"
	"sync"
	"testing"
	"testing/synctest"
	"time"

	"github.com/modelcontextprotocol/go-sdk/mcp"
	"github.com/modelcontextprotocol/go-sdk/verif/memio"
	"github.com/modelcontextprotocol/go-sdk/verif/vt"
	"pgregory.net/rapid"
)

type BItem struct {
	Call  bool `json:"call,omitempty"` // a call (may run concurrently) instead of a notification
	DurMs int  `json:"dur_ms"`         // how long its handler takes (virtual)
}

type BatchScript struct {
	Receiver string    `json:"receiver"` // server | client
	Version  string    `json:"version"`
	Lines    [][]BItem `json:"lines"`  // one wire line each: a batch (array) of these messages
	Single   []bool    `json:"single"` // line i of length 1 is written as a bare object, not as a batch of one
}

func genBatchScript(rt *rapid.T) BatchScript {
	s := BatchScript{
		Receiver: rapid.SampledFrom([]string{"server", "server", "client"}).Draw(rt, "receiver"),
		Version:  rapid.SampledFrom([]string{"2025-03-26", "2024-11-05"}).Draw(rt, "version"),
	}
	n := rapid.IntRange(1, 4).Draw(rt, "lines")
	for i := 0; i < n; i++ {
		k := rapid.SampledFrom([]int{1, 2, 3, 4, 4, 5, 6, 7, 8, 12}).Draw(rt, "size")
		var line []BItem
		for j := 0; j < k; j++ {
			line = append(line, BItem{
				Call:  rapid.IntRange(0, 3).Draw(rt, "call") == 0,
				DurMs: rapid.SampledFrom([]int{0, 0, 1, 5, 1000}).Draw(rt, "dur"),
			})
		}
		s.Lines = append(s.Lines, line)
		s.Single = append(s.Single, rapid.Bool().Draw(rt, "single"))
	}
	return s
}

type bspan struct {
	seq        int
	start, end int
	ended      bool
}

type bworld struct {
	mu    sync.Mutex
	clock int
	spans []*bspan
	durs  map[int]int
}

// handle is the body of every receiving handler: it records its span on the logical clock and takes the
// scripted (virtual) time.
func (w *bworld) handle(seq int) {
	w.mu.Lock()
	w.clock++
	sp := &bspan{seq: seq, start: w.clock}
	w.spans = append(w.spans, sp)
	d := w.durs[seq]
	w.mu.Unlock()
	if d > 0 {
		time.Sleep(time.Duration(d) * time.Millisecond)
	}
	w.mu.Lock()
	w.clock++
	sp.end, sp.ended = w.clock, true
	w.mu.Unlock()
}

func runBatch(s BatchScript) (res vt.Result) {
	if p := vt.Bubble(theT, func() { res = runBatchInBubble(s) }); p != "" {
		res.Class("teardown_leftover")
	}
	return res
}

func runBatchInBubble(s BatchScript) (res vt.Result) {
	w := &bworld{durs: map[int]int{}}
	a, b := memio.NewPipe()
	peer := memio.NewRawPeer(b)
	bg := context.Background()
	var closeSDK func()

	if s.Receiver == "server" {
		server := mcp.NewServer(&mcp.Implementation{Name: "srv", Version: "1"}, &mcp.ServerOptions{
			ProgressNotificationHandler: func(_ context.Context, r *mcp.ProgressNotificationServerRequest) {
				w.handle(int(r.Params.Progress))
			},
		})
		mcp.AddTool(server, &mcp.Tool{Name: "t"}, func(ctx context.Context, req *mcp.CallToolRequest, in toolIn) (*mcp.CallToolResult, any, error) {
			w.handle(in.Seq)
			return &mcp.CallToolResult{}, nil, nil
		})
		ss, err := server.Connect(bg, &mcp.IOTransport{Reader: a, Writer: a}, nil)
		if err != nil {
			res.Failf("harness: %v", err)
			return
		}
		closeSDK = func() { ss.Close() }
		peer.Send(fmt.Sprintf(`{"jsonrpc":"2.0","id":"init","method":"initialize","params":{"protocolVersion":%q,"capabilities":{},"clientInfo":{"name":"raw","version":"0"}}}`, s.Version))
		synctest.Wait()
		peer.Send(`{"jsonrpc":"2.0","method":"notifications/initialized","params":{}}`)
		synctest.Wait()
		if len(peer.Received()) != 1 || !strings.Contains(string(peer.Received()[0]), s.Version) {
			res.Failf("harness: handshake at %s not answered as expected: %s", s.Version, peer.Received())
			return
		}
	} else {
		client := mcp.NewClient(&mcp.Implementation{Name: "cli", Version: "1"}, &mcp.ClientOptions{
			LoggingMessageHandler: func(_ context.Context, r *mcp.LoggingMessageRequest) {
				if f, ok := r.Params.Data.(float64); ok {
					w.handle(int(f))
				}
			},
			CreateMessageHandler: func(_ context.Context, r *mcp.CreateMessageRequest) (*mcp.CreateMessageResult, error) {
				seq := 0
				if len(r.Params.Messages) > 0 {
					if tc, ok := r.Params.Messages[0].Content.(*mcp.TextContent); ok {
						fmt.Sscan(tc.Text, &seq)
					}
				}
				w.handle(seq)
				return &mcp.CreateMessageResult{Content: &mcp.TextContent{Text: "x"}, Model: "m", Role: "assistant"}, nil
			},
		})
		cerr := make(chan error, 1)
		var cs *mcp.ClientSession
		go func() {
			var e error
			cs, e = client.Connect(bg, &mcp.IOTransport{Reader: a, Writer: a}, &mcp.ClientSessionOptions{ProtocolVersion: s.Version})
			cerr <- e
		}()
		synctest.Wait()
		rcv := peer.Received()
		if len(rcv) != 1 {
			res.Failf("harness: expected the client's initialize, got %s", rcv)
			return
		}
		var init struct {
			ID json.RawMessage `json:"id"`
		}
		json.Unmarshal(rcv[0], &init)
		peer.Send(fmt.Sprintf(`{"jsonrpc":"2.0","id":%s,"result":{"protocolVersion":%q,"capabilities":{"logging":{}},"serverInfo":{"name":"raw","version":"0"}}}`, init.ID, s.Version))
		synctest.Wait()
		select {
		case e := <-cerr:
			if e != nil {
				res.Failf("harness: connect: %v", e)
				return
			}
		default:
			res.Failf("harness: connect did not return")
			return
		}
		closeSDK = func() { cs.Close() }
	}
	defer func() { peer.Close(); closeSDK() }()

	// ---- the batches ----
	seq := 0
	isCall := map[int]bool{}
	var order []int // wire order
	total := time.Duration(0)
	maxBatch := 0
	for li, line := range s.Lines {
		var parts []string
		for _, it := range line {
			seq++
			order = append(order, seq)
			isCall[seq] = it.Call
			w.mu.Lock()
			w.durs[seq] = it.DurMs
			w.mu.Unlock()
			total += time.Duration(it.DurMs) * time.Millisecond
			switch {
			case s.Receiver == "server" && it.Call:
				parts = append(parts, fmt.Sprintf(`{"jsonrpc":"2.0","id":%d,"method":"tools/call","params":{"name":"t","arguments":{"seq":%d,"dur":0}}}`, seq, seq))
			case s.Receiver == "server":
				parts = append(parts, fmt.Sprintf(`{"jsonrpc":"2.0","method":"notifications/progress","params":{"progressToken":"p","progress":%d}}`, seq))
			case it.Call:
				parts = append(parts, fmt.Sprintf(`{"jsonrpc":"2.0","id":%d,"method":"sampling/createMessage","params":{"maxTokens":1,"messages":[{"role":"user","content":{"type":"text","text":"%d"}}]}}`, seq, seq))
			default:
				parts = append(parts, fmt.Sprintf(`{"jsonrpc":"2.0","method":"notifications/message","params":{"level":"info","data":%d}}`, seq))
			}
		}
		if len(parts) == 1 && s.Single[li] {
			peer.Send(parts[0])
		} else {
			peer.Send("[" + strings.Join(parts, ",") + "]")
			if len(parts) > maxBatch {
				maxBatch = len(parts)
			}
		}
	}
	synctest.Wait()
	time.Sleep(total + time.Second)
	synctest.Wait()
	if ended, err := peer.Ended(); ended {
		res.Failf("the %s ended the connection after batches at %s: %v", s.Receiver, s.Version, err)
		return
	}

	// ---- oracle ----
	w.mu.Lock()
	defer w.mu.Unlock()
	byseq := map[int]*bspan{}
	for _, sp := range w.spans {
		if byseq[sp.seq] != nil {
			res.Failf("message %d reached a handler twice", sp.seq)
		}
		byseq[sp.seq] = sp
	}
	for _, q := range order {
		if byseq[q] == nil || !byseq[q].ended {
			res.Failf("message %d (call=%v) of the batches never reached its handler or its handler never finished (receiver %s, %s)", q, isCall[q], s.Receiver, s.Version)
			return
		}
	}
	nt := false
	for i, q := range order {
		if isCall[q] {
			continue
		}
		n := byseq[q]
		for _, later := range order[i+1:] {
			nt = true
			if m := byseq[later]; m.start < n.end {
				res.Failf("%s as the receiver: the handler of message %d started (clock %d) before the handler of notification %d, which precedes it on the wire, had finished (clock %d): wire order %v, dispatch order %v",
					s.Receiver, later, m.start, q, n.end, order, dispatchOrder(w.spans))
				return
			}
		}
	}
	var shape []string
	for _, l := range s.Lines {
		var sb strings.Builder
		for _, it := range l {
			c := "n"
			if it.Call {
				c = "c"
			}
			sb.WriteString(fmt.Sprintf("%s%d", c, durClass(it.DurMs)))
		}
		shape = append(shape, sb.String())
	}
	res.Desc = fmt.Sprintf("batch|%s|%s|%s", s.Receiver, s.Version, strings.Join(shape, "/"))
	res.NonTrivial = nt && maxBatch >= 2
	res.Class("receiver_" + s.Receiver)
	switch {
	case maxBatch >= 4:
		res.Class("batch_of_4_or_more")
	case maxBatch >= 2:
		res.Class("batch_of_2_or_3")
	}
	return res
}

func dispatchOrder(spans []*bspan) []int {
	var out []int
	for _, sp := range spans {
		out = append(out, sp.seq)
	}
	return out
}

var batchProp = vt.Register(&vt.Prop[BatchScript]{Property: "C03", Name: "batch", Gen: genBatchScript, Run: runBatch})

func TestC03_Batch(t *testing.T) { theT = t; batchProp.Check(t) }
