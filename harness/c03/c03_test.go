// Package c03 decides property C03 (in-order dispatch): a notification's
// handler (and initialize's) finishes before the handler of any later message
// from the same peer starts, while ordinary calls may overlap. Real Client and
// Server ends over every in-memory link; handler durations are virtual time.
package c03

import (
	"context"
	"encoding/json"
	"fmt"
	"slices"
	"strings"
	"sync"
	"testing"
	"testing/synctest"
	"time"

	"github.com/modelcontextprotocol/go-sdk/mcp"
	"github.com/modelcontextprotocol/go-sdk/verif/memio"
	"github.com/modelcontextprotocol/go-sdk/verif/vt"
	"github.com/modelcontextprotocol/go-sdk/verif/wire"
	"pgregory.net/rapid"
)

func TestMain(m *testing.M) { vt.Main(m) }

type Item struct {
	Kind  string `json:"kind"`             // progress roots tool ping list | (s2c) sprogress slog sping sroots ssample
	DurMs int    `json:"dur_ms"`           // virtual handler duration on the receiving side
	GapMs int    `json:"gap_ms,omitempty"` // virtual pause of the sender before this item
	// CallBack (notifications on single-stream links): the receiving handler first pings the sender with
	// its own handler context and waits for the answer, then does its work.
	CallBack bool `json:"call_back,omitempty"`
}

type Script struct {
	Dir   string      `json:"dir"` // c2s | s2c
	Link  wire.Config `json:"link"`
	Items []Item      `json:"items"`
	// CloseAfter (in-memory and pipe links): right after the last item was sent, and while handlers are
	// still busy with the backlog, this side closes its session: "" | sender | receiver. What is still
	// dispatched afterwards must keep its order.
	CloseAfter string `json:"close_after,omitempty"`
}

var durs = []int{0, 0, 1, 5, 1000, 10000}

// sdkNotifyTimeout is the deadline notifySessions (mcp/shared.go) puts on the sends behind AddRoots/RemoveRoots.
const sdkNotifyTimeout = 10 * time.Second

func genScript(rt *rapid.T) Script {
	var s Script
	s.Dir = rapid.SampledFrom([]string{"c2s", "c2s", "s2c"}).Draw(rt, "dir")
	if s.Dir == "c2s" {
		s.Link = rapid.SampledFrom([]wire.Config{
			{Kind: wire.InMem}, {Kind: wire.Pipe}, {Kind: wire.SSE},
			{Kind: wire.Stateful}, {Kind: wire.Stateful, JSON: true}, {Kind: wire.Stateful, Store: true},
			{Kind: wire.Stateful, SlowFlush: true}, {Kind: wire.Stateful, JSON: true, SlowFlush: true},
			{Kind: wire.Stateless}, {Kind: wire.Stateless, JSON: true},
		}).Draw(rt, "link")
	} else {
		// single-stream transports, and streamable with everything routed to the standalone stream
		s.Link = rapid.SampledFrom([]wire.Config{
			{Kind: wire.InMem}, {Kind: wire.Pipe}, {Kind: wire.SSE},
			{Kind: wire.Stateful}, {Kind: wire.Stateful, Store: true},
		}).Draw(rt, "link")
	}
	// "abandoned": a call (prompts/list) whose caller gives up after a few milliseconds, typically while it
	// is still waiting behind a slow notification handler on the other side
	kinds := []string{"progress", "progress", "roots", "tool", "tool", "ping", "list", "abandoned"}
	if s.Dir == "s2c" {
		kinds = []string{"sprogress", "sprogress", "slog", "sresupd", "sresupd", "sping", "sroots", "ssample", "ssample"}
	}
	n := rapid.IntRange(2, 15).Draw(rt, "n")
	for i := 0; i < n; i++ {
		it := Item{
			Kind:  rapid.SampledFrom(kinds).Draw(rt, "kind"),
			DurMs: rapid.SampledFrom(durs).Draw(rt, "dur"),
			GapMs: rapid.SampledFrom([]int{0, 0, 0, 1, 7}).Draw(rt, "gap"),
		}
		if singleStream := s.Link.Kind == wire.InMem || s.Link.Kind == wire.Pipe || s.Link.Kind == wire.SSE; singleStream && isNotif(it.Kind) {
			it.CallBack = rapid.IntRange(0, 2).Draw(rt, "callback") == 0
		}
		s.Items = append(s.Items, it)
	}
	if s.Link.Kind == wire.InMem || s.Link.Kind == wire.Pipe {
		s.CloseAfter = rapid.SampledFrom([]string{"", "", "sender", "receiver"}).Draw(rt, "close_after")
		// A shape generated on purpose: the receiver is busy with a slow notification, behind it wait a call
		// its caller has already given up and two or more notifications, and the sender closes (the receiver
		// reads EOF with that backlog still queued): what is still dispatched keeps its order.
		if s.Dir == "c2s" && rapid.IntRange(0, 5).Draw(rt, "eof_backlog_macro") == 0 {
			s.Items = []Item{{Kind: "progress", DurMs: rapid.SampledFrom([]int{1000, 10000}).Draw(rt, "macro_dur")}, {Kind: "abandoned"}}
			for i, k := 0, rapid.IntRange(2, 5).Draw(rt, "macro_tail"); i < k; i++ {
				s.Items = append(s.Items, Item{Kind: rapid.SampledFrom([]string{"progress", "progress", "roots"}).Draw(rt, "macro_kind"), DurMs: rapid.SampledFrom([]int{0, 1, 5}).Draw(rt, "macro_tail_dur")})
			}
			s.CloseAfter = "sender"
		}
	}
	return s
}

// rec is one receiving-side handler execution.
type rec struct {
	method     string
	start, end int // logical clock
	startT     time.Time
	endT       time.Time
	ended      bool
}

type recorder struct {
	mu    sync.Mutex
	clock int
	recs  []*rec
}

func (r *recorder) middleware(next mcp.MethodHandler) mcp.MethodHandler {
	return func(ctx context.Context, method string, req mcp.Request) (mcp.Result, error) {
		r.mu.Lock()
		r.clock++
		e := &rec{method: method, start: r.clock, startT: time.Now()}
		r.recs = append(r.recs, e)
		r.mu.Unlock()
		res, err := next(ctx, method, req)
		r.mu.Lock()
		r.clock++
		e.end, e.endT, e.ended = r.clock, time.Now(), true
		r.mu.Unlock()
		return res, err
	}
}

func (r *recorder) byMethod(m string) []*rec {
	r.mu.Lock()
	defer r.mu.Unlock()
	var out []*rec
	for _, e := range r.recs {
		if e.method == m {
			out = append(out, e)
		}
	}
	return out
}

var theT *testing.T

func run(s Script) (res vt.Result) {
	if p := vt.Bubble(theT, func() { res = runInBubble(s) }); p != "" {
		res.Class("teardown_leftover") // judged by C05
	}
	return res
}

type toolIn struct {
	Seq int `json:"seq"`
	Dur int `json:"dur"`
}

var methodOf = map[string]string{
	"progress": "notifications/progress", "roots": "notifications/roots/list_changed", "tool": "tools/call", "ping": "ping", "list": "tools/list", "abandoned": "prompts/list",
	"sprogress": "notifications/progress", "slog": "notifications/message", "sresupd": "notifications/resources/updated", "sping": "ping", "sroots": "roots/list", "ssample": "sampling/createMessage",
}

func isNotif(kind string) bool {
	return strings.HasPrefix(methodOf[kind], "notifications/")
}

func runInBubble(s Script) (res vt.Result) {
	rcv := &recorder{}
	// durations by (method, ordinal of that method) as the receiving handlers see them
	durOf := map[string][]int{}
	cbOf := map[string][]bool{}
	for _, it := range s.Items {
		m := methodOf[it.Kind]
		durOf[m] = append(durOf[m], it.DurMs)
		cbOf[m] = append(cbOf[m], it.CallBack)
	}
	var hmu sync.Mutex
	ord := map[string]int{}
	sleepFor := func(ctx context.Context, method string, req mcp.Request) {
		hmu.Lock()
		k := ord[method]
		ord[method]++
		hmu.Unlock()
		if k < len(cbOf[method]) && cbOf[method][k] {
			// bounded: whether a notification handler may wait for an answer from the peer is not part of the
			// ordering property; if the answer cannot come while the handler runs, the handler just goes on
			pctx, cancel := context.WithTimeout(ctx, 500*time.Millisecond)
			switch sess := req.GetSession().(type) {
			case *mcp.ServerSession:
				sess.Ping(pctx, nil)
			case *mcp.ClientSession:
				sess.Ping(pctx, nil)
			}
			cancel()
		}
		if k < len(durOf[method]) && durOf[method][k] > 0 {
			time.Sleep(time.Duration(durOf[method][k]) * time.Millisecond)
		}
	}
	// The handlers' own work is a virtual sleep; it happens inside the recorded interval.
	slow := func(next mcp.MethodHandler) mcp.MethodHandler {
		return func(ctx context.Context, method string, req mcp.Request) (mcp.Result, error) {
			switch method {
			case "tools/call", "ping", "tools/list", "prompts/list", "notifications/resources/updated", "notifications/progress", "notifications/roots/list_changed", "notifications/message", "roots/list", "sampling/createMessage":
				sleepFor(ctx, method, req)
			}
			return next(ctx, method, req)
		}
	}

	server := mcp.NewServer(&mcp.Implementation{Name: "srv", Version: "1"}, &mcp.ServerOptions{
		ProgressNotificationHandler: func(context.Context, *mcp.ProgressNotificationServerRequest) {},
		RootsListChangedHandler:     func(context.Context, *mcp.RootsListChangedRequest) {},
		HasPrompts:                  true,
		SubscribeHandler:            func(context.Context, *mcp.SubscribeRequest) error { return nil },
		UnsubscribeHandler:          func(context.Context, *mcp.UnsubscribeRequest) error { return nil },
	})
	server.AddResource(&mcp.Resource{URI: "file:///watched", Name: "watched"}, func(context.Context, *mcp.ReadResourceRequest) (*mcp.ReadResourceResult, error) {
		return &mcp.ReadResourceResult{Contents: []*mcp.ResourceContents{{URI: "file:///watched", Text: "x"}}}, nil
	})
	mcp.AddTool(server, &mcp.Tool{Name: "t"}, func(ctx context.Context, req *mcp.CallToolRequest, in toolIn) (*mcp.CallToolResult, any, error) {
		return &mcp.CallToolResult{Content: []mcp.Content{&mcp.TextContent{Text: "ok"}}}, nil, nil
	})
	client := mcp.NewClient(&mcp.Implementation{Name: "cli", Version: "1"}, &mcp.ClientOptions{
		ProgressNotificationHandler: func(context.Context, *mcp.ProgressNotificationClientRequest) {},
		LoggingMessageHandler:       func(context.Context, *mcp.LoggingMessageRequest) {},
		ResourceUpdatedHandler:      func(context.Context, *mcp.ResourceUpdatedNotificationRequest) {},
		CreateMessageHandler: func(context.Context, *mcp.CreateMessageRequest) (*mcp.CreateMessageResult, error) {
			return &mcp.CreateMessageResult{Content: &mcp.TextContent{Text: "x"}, Model: "m", Role: "assistant"}, nil
		},
	})
	if s.Dir == "c2s" {
		server.AddReceivingMiddleware(rcv.middleware, slow)
	} else {
		client.AddReceivingMiddleware(rcv.middleware, slow)
	}
	link, err := wire.New(server, s.Link)
	if err != nil {
		res.Failf("harness: %v", err)
		return
	}
	ctx := context.Background()
	var cs *mcp.ClientSession
	cerr := make(chan error, 1)
	go func() {
		var e error
		cs, e = client.Connect(ctx, link.ClientTransport, &mcp.ClientSessionOptions{ProtocolVersion: "2025-06-18"})
		cerr <- e
	}()
	synctest.Wait()
	select {
	case e := <-cerr:
		if e != nil {
			res.Failf("harness: connect: %v", e)
			return
		}
	default:
		res.Failf("harness: connect did not return")
		return
	}
	defer func() {
		cs.Close()
		for ss := range server.Sessions() {
			go ss.Close()
		}
		synctest.Wait()
		time.Sleep(20 * time.Second)
		synctest.Wait()
	}()
	var ss *mcp.ServerSession
	for x := range server.Sessions() {
		ss = x
	}
	if s.Dir == "s2c" {
		if ss == nil {
			res.Failf("harness: no server session")
			return
		}
		// let the client set a log level so that Log() emits
		if err := cs.SetLoggingLevel(ctx, &mcp.SetLoggingLevelParams{Level: "debug"}); err != nil {
			res.Failf("harness: SetLoggingLevel: %v", err)
			return
		}
		if err := cs.Subscribe(ctx, &mcp.SubscribeParams{URI: "file:///watched"}); err != nil {
			res.Failf("harness: Subscribe: %v", err)
			return
		}
		synctest.Wait()
	}
	// Forget handshake traffic.
	rcv.mu.Lock()
	rcv.recs = nil
	rcv.mu.Unlock()
	hmu.Lock()
	ord = map[string]int{}
	hmu.Unlock()

	// ---- the single sending goroutine ----
	type sent struct {
		kind     string
		ordinal  int // ordinal among items of the same method
		returned bool
		skip     bool // nothing was sent for this item (refused by the sender): never judged
	}
	var sentItems []sent
	counts := map[string]int{}
	var callWG sync.WaitGroup
	var desc strings.Builder
	for i, it := range s.Items {
		if it.GapMs > 0 {
			time.Sleep(time.Duration(it.GapMs) * time.Millisecond)
		}
		m := methodOf[it.Kind]
		k := counts[m]
		counts[m]++
		fmt.Fprintf(&desc, "%s%d,", it.Kind, durClass(it.DurMs))
		if it.Kind == "abandoned" {
			res.Class("call_abandoned_by_its_caller")
		}
		if it.CallBack {
			desc.WriteString("cb,")
			res.Class("notification_handler_calls_back")
		}
		var nerr error
		switch it.Kind {
		case "progress":
			nerr = cs.NotifyProgress(ctx, &mcp.ProgressNotificationParams{ProgressToken: fmt.Sprint(i), Progress: float64(i)})
		case "roots":
			t0 := time.Now()
			client.AddRoots(&mcp.Root{URI: fmt.Sprintf("file:///r%d", i), Name: "r"})
			if time.Since(t0) >= sdkNotifyTimeout {
				// AddRoots gives every session 10 s to take the notification (notifySessions) and reports nothing.
				// Over a stateless endpoint the POST is only answered once the handler has finished, so a handler
				// of 10 s ties with that deadline: the sender gave the notification up (or might have), and a
				// sender that abandoned its send has no "returned" to order later messages after.
				res.Class("list_changed_send_hit_the_sdk_10s_deadline")
				sentItems = append(sentItems, sent{kind: "abandoned", ordinal: k})
				continue
			}
		case "sprogress":
			nerr = ss.NotifyProgress(ctx, &mcp.ProgressNotificationParams{ProgressToken: fmt.Sprint(i), Progress: float64(i)})
		case "slog":
			nerr = ss.Log(ctx, &mcp.LoggingMessageParams{Level: "error", Data: i})
		case "sresupd":
			nerr = server.ResourceUpdated(ctx, &mcp.ResourceUpdatedNotificationParams{URI: "file:///watched"})
		default:
			callWG.Add(1)
			go func(kind string, i int) {
				defer callWG.Done()
				switch kind {
				case "tool":
					cs.CallTool(ctx, &mcp.CallToolParams{Name: "t", Arguments: map[string]any{"seq": i}})
				case "ping":
					cs.Ping(ctx, nil)
				case "list":
					cs.ListTools(ctx, nil)
				case "abandoned":
					actx, cancel := context.WithTimeout(ctx, time.Duration(1+i%4)*time.Millisecond)
					cs.ListPrompts(actx, nil)
					cancel()
				case "sping":
					ss.Ping(ctx, nil)
				case "sroots":
					ss.ListRoots(ctx, nil)
				case "ssample":
					ss.CreateMessage(ctx, &mcp.CreateMessageParams{MaxTokens: 1, Messages: []*mcp.SamplingMessage{{Role: "user", Content: &mcp.TextContent{Text: fmt.Sprint(i)}}}})
				}
			}(it.Kind, i)
			// The sender only waits until the call has been sent (quiescence), not for its result.
			synctest.Wait()
		}
		if nerr != nil && (it.Kind == "progress" || it.Kind == "sprogress") {
			// the token is invented (no request announced it): an SDK may refuse to send such a notification.
			// Nothing was sent, so the item does not take part in the ordering.
			res.Class("progress_with_unannounced_token_refused")
			counts[m]--
			sentItems = append(sentItems, sent{kind: it.Kind, skip: true}) // keeps sentItems aligned with s.Items
			continue
		}
		if nerr != nil {
			res.Failf("item %d (%s): sending failed: %v", i, it.Kind, nerr)
			return finish(res, s, &desc, false, false)
		}
		sentItems = append(sentItems, sent{kind: it.Kind, ordinal: k, returned: true})
	}
	if s.CloseAfter != "" {
		closeClient := (s.CloseAfter == "sender") == (s.Dir == "c2s")
		if closeClient {
			go cs.Close()
		} else if ss != nil {
			go ss.Close()
		}
		res.Class("closed_with_backlog_by_" + s.CloseAfter)
	}
	// let everything finish
	done := make(chan struct{})
	go func() { callWG.Wait(); close(done) }()
	for i := 0; i < 400; i++ {
		synctest.Wait()
		select {
		case <-done:
			i = 1000
		default:
			time.Sleep(time.Second)
		}
	}
	total := 15 * time.Second
	for _, it := range s.Items {
		total += time.Duration(it.DurMs) * time.Millisecond
	}
	time.Sleep(total) // notification handlers run one after the other
	synctest.Wait()

	// ---- oracle ----
	// Map each sent item to its receiving-side record (k-th record of that method).
	lookup := func(sn sent) *rec {
		rs := rcv.byMethod(methodOf[sn.kind])
		if s.Link.Kind == wire.Stateless && len(rs) != counts[methodOf[sn.kind]] {
			return nil // some were discarded: ordinal matching would misattribute records
		}
		if sn.ordinal < len(rs) {
			return rs[sn.ordinal]
		}
		return nil
	}
	nt, overlapped := false, false
	for i, n := range sentItems {
		if n.kind == "abandoned" || n.skip {
			continue // may or may not reach a handler; it is not a notification and is never judged
		}
		rn := lookup(n)
		if rn == nil {
			if s.Link.Kind == wire.Stateless {
				// A stateless endpoint closes its per-request session right after accepting the POST;
				// a notification may be discarded by that shutdown. Not an ordering matter: only counted.
				res.Class("not_dispatched_on_stateless")
				continue
			}
			if s.CloseAfter != "" {
				res.Class("not_dispatched_after_close")
				continue
			}
			res.Failf("item %d (%s) never reached the peer's handlers", i, n.kind)
			continue
		}
		if !rn.ended {
			res.Failf("item %d (%s): the peer's handler never finished", i, n.kind)
			continue
		}
		if !isNotif(n.kind) {
			continue
		}
		if s.Items[i].DurMs > 0 && i+1 < len(sentItems) {
			nt = true
		}
		for j := i + 1; j < len(sentItems); j++ {
			if sentItems[j].kind == "abandoned" || sentItems[j].skip {
				continue // which of them were dispatched is unknown: ordinals cannot be matched
			}
			rm := lookup(sentItems[j])
			if rm == nil {
				continue
			}
			if rm.start < rn.end {
				res.Failf("%s over %s: handler of item %d (%s, sent after item %d returned) started at t=%v (clock %d) before the handler of notification item %d (%s) finished at t=%v (clock %d)",
					s.Dir, s.Link, j, sentItems[j].kind, i, rm.startT.Format("05.000"), rm.start, i, n.kind, rn.endT.Format("05.000"), rn.end)
			}
		}
	}
	// vacuity probe: do calls overlap at all?
	for i, a := range sentItems {
		for j := i + 1; j < len(sentItems); j++ {
			b := sentItems[j]
			if isNotif(a.kind) || isNotif(b.kind) {
				continue
			}
			ra, rb := lookup(a), lookup(b)
			if ra != nil && rb != nil && ra.ended && rb.start < ra.end && rb.startT.Before(ra.endT) {
				overlapped = true
			}
		}
	}
	return finish(res, s, &desc, nt, overlapped)
}

func durClass(ms int) int {
	switch {
	case ms == 0:
		return 0
	case ms < 100:
		return 1
	}
	return 2
}

func finish(res vt.Result, s Script, desc *strings.Builder, nt, overlapped bool) vt.Result {
	res.Desc = s.Dir + "|" + s.Link.String() + "|" + desc.String()
	res.NonTrivial = nt
	res.Class("dir_"+s.Dir, "link_"+s.Link.Kind)
	if overlapped {
		res.Class("calls_overlapped")
	}
	return res
}

var prop = vt.Register(&vt.Prop[Script]{Property: "C03", Name: "order", Gen: genScript, Run: run})

func TestC03_Order(t *testing.T) { theT = t; prop.Check(t) }

// ---- initialize is dispatched synchronously too (raw peer) ----

type InitScript struct {
	InitDurMs int      `json:"init_dur_ms"`
	Followers []string `json:"followers"` // methods sent right behind initialize, without waiting
	// InitdDurMs: how long the server's InitializedHandler (run for notifications/initialized) takes
	InitdDurMs int `json:"initd_dur_ms,omitempty"`
}

func genInit(rt *rapid.T) InitScript {
	return InitScript{
		InitDurMs:  rapid.SampledFrom([]int{0, 1, 1000, 60000}).Draw(rt, "dur"),
		InitdDurMs: rapid.SampledFrom([]int{0, 0, 5, 3000}).Draw(rt, "initd_dur"),
		Followers:  rapid.SliceOfN(rapid.SampledFrom([]string{"notifications/initialized", "tools/list", "ping", "tools/call", "notifications/progress"}), 1, 6).Draw(rt, "followers"),
	}
}

func runInit(s InitScript) (res vt.Result) {
	if p := vt.Bubble(theT, func() { res = runInitInBubble(s) }); p != "" {
		res.Class("teardown_leftover")
	}
	return res
}

func runInitInBubble(s InitScript) (res vt.Result) {
	rcv := &recorder{}
	var userSpans []*rec // runs of the server's InitializedHandler (guarded by rcv.mu)
	server := mcp.NewServer(&mcp.Implementation{Name: "srv", Version: "1"}, &mcp.ServerOptions{
		ProgressNotificationHandler: func(context.Context, *mcp.ProgressNotificationServerRequest) {},
		InitializedHandler: func(context.Context, *mcp.InitializedRequest) {
			// the user's own handler is recorded by itself: it is "the handler of the notification", wherever
			// the SDK chooses to run it
			rcv.mu.Lock()
			rcv.clock++
			u := &rec{method: "(InitializedHandler)", start: rcv.clock, startT: time.Now()}
			userSpans = append(userSpans, u)
			rcv.mu.Unlock()
			if s.InitdDurMs > 0 {
				time.Sleep(time.Duration(s.InitdDurMs) * time.Millisecond)
			}
			rcv.mu.Lock()
			rcv.clock++
			u.end, u.endT, u.ended = rcv.clock, time.Now(), true
			rcv.mu.Unlock()
		},
	})
	mcp.AddTool(server, &mcp.Tool{Name: "t"}, func(ctx context.Context, req *mcp.CallToolRequest, in toolIn) (*mcp.CallToolResult, any, error) {
		return &mcp.CallToolResult{}, nil, nil
	})
	server.AddReceivingMiddleware(rcv.middleware, func(next mcp.MethodHandler) mcp.MethodHandler {
		return func(ctx context.Context, method string, req mcp.Request) (mcp.Result, error) {
			if method == "initialize" && s.InitDurMs > 0 {
				time.Sleep(time.Duration(s.InitDurMs) * time.Millisecond)
			}
			return next(ctx, method, req)
		}
	})
	a, b := memio.NewPipe()
	ss, err := server.Connect(context.Background(), &mcp.IOTransport{Reader: a, Writer: a}, nil)
	if err != nil {
		res.Failf("harness: %v", err)
		return
	}
	peer := memio.NewRawPeer(b)
	defer func() { peer.Close(); ss.Close() }()
	peer.Send(`{"jsonrpc":"2.0","id":1,"method":"initialize","params":{"protocolVersion":"2025-06-18","capabilities":{},"clientInfo":{"name":"raw","version":"0"}}}`)
	for i, m := range s.Followers {
		params := `{}`
		switch m {
		case "tools/call":
			params = `{"name":"t","arguments":{"seq":1}}`
		case "notifications/progress":
			params = `{"progressToken":"p","progress":1}`
		}
		id := fmt.Sprintf(`"id":%d,`, i+2)
		if strings.HasPrefix(m, "notifications/") {
			id = ""
		}
		mj, _ := json.Marshal(m)
		peer.Send(fmt.Sprintf(`{"jsonrpc":"2.0",%s"method":%s,"params":%s}`, id, mj, params))
	}
	synctest.Wait()
	time.Sleep(time.Duration(s.InitDurMs)*time.Millisecond + time.Duration(len(s.Followers)*s.InitdDurMs)*time.Millisecond + time.Second)
	synctest.Wait()
	inits := rcv.byMethod("initialize")
	if len(inits) != 1 || !inits[0].ended {
		res.Failf("initialize did not complete (records: %d)", len(inits))
		return
	}
	rcv.mu.Lock()
	for _, e := range rcv.recs {
		if e.method != "initialize" && e.start < inits[0].end {
			res.Failf("handler of %s started (clock %d, t=%v) before the initialize handler finished (clock %d, t=%v)", e.method, e.start, e.startT.Format("05.000"), inits[0].end, inits[0].endT.Format("05.000"))
		}
	}
	// every notification behind initialize is dispatched synchronously as well: nothing that was SENT after
	// it starts before its handler has finished (the k-th record of a method belongs to the k-th message of
	// that method; earlier calls may start late, they are asynchronous)
	recOf := func(idx int) *rec {
		// Ordinal matching needs every message of that method to have reached a handler: a server may refuse
		// some of them before any handler runs (e.g. what arrives before notifications/initialized).
		sentN, gotN := 0, 0
		for _, m := range s.Followers {
			if m == s.Followers[idx] {
				sentN++
			}
		}
		for _, e := range rcv.recs {
			if e.method == s.Followers[idx] {
				gotN++
			}
		}
		if sentN != gotN {
			return nil
		}
		ord := 0
		for _, m := range s.Followers[:idx] {
			if m == s.Followers[idx] {
				ord++
			}
		}
		k := 0
		for _, e := range rcv.recs {
			if e.method == s.Followers[idx] {
				if k == ord {
					return e
				}
				k++
			}
		}
		return nil
	}
	for i, m := range s.Followers {
		if !strings.HasPrefix(m, "notifications/") {
			continue
		}
		e := recOf(i)
		if e == nil {
			continue
		}
		for j := i + 1; j < len(s.Followers); j++ {
			later := recOf(j)
			if later == nil {
				continue
			}
			if !e.ended || later.start < e.end {
				res.Failf("handler of follower %d (%s) started (t=%v) before the handler of the earlier follower %d (%s) had finished (t=%v)", j, later.method, later.startT.Format("05.000"), i, e.method, e.endT.Format("05.000"))
				break
			}
		}
	}
	// The application's InitializedHandler is the handler of notifications/initialized: whatever was dispatched
	// after that notification starts only once it has returned.
	if len(userSpans) > 0 {
		u := userSpans[0]
		if s.InitdDurMs > 0 {
			res.Class("slow_initialized_handler")
		}
		// the first notifications/initialized of the script is the one that runs it (k-th record = k-th message, as above)
		if idx := slices.Index(s.Followers, "notifications/initialized"); idx >= 0 {
			for j := idx + 1; j < len(s.Followers); j++ {
				later := recOf(j)
				if later == nil || later.method == "notifications/initialized" {
					continue
				}
				if !u.ended || later.start < u.end {
					res.Failf("handler of follower %d (%s) started (clock %d, t=%v) although it was sent after notifications/initialized and the server's InitializedHandler had not finished yet (finished: %v, clock %d, t=%v)", j, later.method, later.start, later.startT.Format("05.000"), u.ended, u.end, u.endT.Format("05.000"))
					break
				}
			}
		}
	}
	n := len(rcv.recs)
	rcv.mu.Unlock()
	if n < 2 {
		// Only ping and notifications/initialized are certain to be accepted before the session is initialised;
		// a server may refuse everything else until then (before any handler runs): that is vacuity, not disorder.
		if slices.Contains(s.Followers, "ping") || slices.Contains(s.Followers, "notifications/initialized") {
			res.Failf("no message sent behind initialize reached the handlers (%d records)", n)
		} else {
			res.Class("followers_refused_before_initialized")
		}
	}
	res.Desc = fmt.Sprintf("%d|%v", s.InitDurMs, s.Followers)
	res.NonTrivial = s.InitDurMs > 0
	return
}

var initProp = vt.Register(&vt.Prop[InitScript]{Property: "C03", Name: "init", Gen: genInit, Run: runInit})

func TestC03_Init(t *testing.T) { theT = t; initProp.Check(t) }

func TestReplay(t *testing.T)  { theT = t; vt.Replay(t) }
func TestRegress(t *testing.T) { theT = t; vt.Regress(t, "C03") }
func TestKnown(t *testing.T)   { theT = t; vt.Known(t, "C03") }
