package c03

import (
	"context"
	"fmt"
	"strings"
	"sync"
	"testing"
	"testing/synctest"
	"time"

	"github.com/modelcontextprotocol/go-sdk/mcp"
	"github.com/modelcontextprotocol/go-sdk/verif/vt"
	"pgregory.net/rapid"
)

// One client connected to several servers: a notifying method that fans out to every session
// (AddRoots / RemoveRoots -> notifications/roots/list_changed) must have been sent on each session
// when it returns, so that whatever the same goroutine sends next on any of those sessions is
// dispatched after it there.

type MItem struct {
	Kind  string `json:"kind"` // roots | tool | progress
	Sess  int    `json:"sess"` // tool/progress: which session
	DurMs int    `json:"dur_ms"`
}

type MultiScript struct {
	Sessions    int     `json:"sessions"`
	SendDelayMs int     `json:"send_delay_ms"` // a client sending middleware delays roots/list_changed by this much
	Items       []MItem `json:"items"`
}

func genMulti(rt *rapid.T) MultiScript {
	s := MultiScript{
		Sessions:    rapid.IntRange(1, 3).Draw(rt, "sessions"),
		SendDelayMs: rapid.SampledFrom([]int{0, 0, 5}).Draw(rt, "send_delay"),
	}
	n := rapid.IntRange(2, 10).Draw(rt, "n")
	for i := 0; i < n; i++ {
		s.Items = append(s.Items, MItem{
			Kind:  rapid.SampledFrom([]string{"roots", "roots", "tool", "tool", "progress"}).Draw(rt, "kind"),
			Sess:  rapid.IntRange(0, s.Sessions-1).Draw(rt, "sess"),
			DurMs: rapid.SampledFrom(durs).Draw(rt, "dur"),
		})
	}
	return s
}

func runMulti(s MultiScript) (res vt.Result) {
	if p := vt.Bubble(theT, func() { res = runMultiInBubble(s) }); p != "" {
		res.Class("teardown_leftover")
	}
	return res
}

func runMultiInBubble(s MultiScript) (res vt.Result) {
	ctx := context.Background()
	client := mcp.NewClient(&mcp.Implementation{Name: "cli", Version: "1"}, nil)
	if s.SendDelayMs > 0 {
		client.AddSendingMiddleware(func(next mcp.MethodHandler) mcp.MethodHandler {
			return func(ctx context.Context, method string, req mcp.Request) (mcp.Result, error) {
				if method == "notifications/roots/list_changed" {
					time.Sleep(time.Duration(s.SendDelayMs) * time.Millisecond)
				}
				return next(ctx, method, req)
			}
		})
	}
	// roots durations are the same on every server: the k-th roots notification sleeps rootsDur[k]
	var rootsDur []int
	for _, it := range s.Items {
		if it.Kind == "roots" {
			rootsDur = append(rootsDur, it.DurMs)
		}
	}
	recs := make([]*recorder, s.Sessions)
	sessions := make([]*mcp.ClientSession, s.Sessions)
	var servers []*mcp.Server
	for j := 0; j < s.Sessions; j++ {
		j := j
		rc := &recorder{}
		recs[j] = rc
		var mu sync.Mutex
		rootsSeen := 0
		server := mcp.NewServer(&mcp.Implementation{Name: fmt.Sprintf("srv%d", j), Version: "1"}, &mcp.ServerOptions{
			RootsListChangedHandler: func(context.Context, *mcp.RootsListChangedRequest) {
				mu.Lock()
				k := rootsSeen
				rootsSeen++
				mu.Unlock()
				if k < len(rootsDur) && rootsDur[k] > 0 {
					time.Sleep(time.Duration(rootsDur[k]) * time.Millisecond)
				}
			},
			ProgressNotificationHandler: func(ctx context.Context, r *mcp.ProgressNotificationServerRequest) {
				if d := int(r.Params.Total); d > 0 {
					time.Sleep(time.Duration(d) * time.Millisecond)
				}
			},
		})
		mcp.AddTool(server, &mcp.Tool{Name: "t"}, func(ctx context.Context, req *mcp.CallToolRequest, in toolIn) (*mcp.CallToolResult, any, error) {
			if in.Dur > 0 {
				time.Sleep(time.Duration(in.Dur) * time.Millisecond)
			}
			return &mcp.CallToolResult{Content: []mcp.Content{&mcp.TextContent{Text: "ok"}}}, nil, nil
		})
		server.AddReceivingMiddleware(rc.middleware)
		servers = append(servers, server)
		st, ct := mcp.NewInMemoryTransports()
		if _, err := server.Connect(ctx, st, nil); err != nil {
			res.Failf("harness: %v", err)
			return
		}
		cerr := make(chan error, 1)
		go func() {
			var e error
			sessions[j], e = client.Connect(ctx, ct, &mcp.ClientSessionOptions{ProtocolVersion: "2025-06-18"})
			cerr <- e
		}()
		synctest.Wait()
		select {
		case e := <-cerr:
			if e != nil {
				res.Failf("harness: connect %d: %v", j, e)
				return
			}
		default:
			res.Failf("harness: connect %d did not return", j)
			return
		}
	}
	defer func() {
		for _, cs := range sessions {
			cs.Close()
		}
		for _, srv := range servers {
			for ss := range srv.Sessions() {
				go ss.Close()
			}
		}
		synctest.Wait()
		time.Sleep(20 * time.Second)
		synctest.Wait()
	}()
	for _, rc := range recs {
		rc.mu.Lock()
		rc.recs = nil
		rc.mu.Unlock()
	}
	// ---- one sending goroutine ----
	type sent struct {
		kind    string
		sess    int
		ordinal map[int]int // per server: ordinal among records of that method
	}
	var sentItems []sent
	counts := make([]map[string]int, s.Sessions)
	for j := range counts {
		counts[j] = map[string]int{}
	}
	var wg sync.WaitGroup
	var desc strings.Builder
	rootN := 0
	for i, it := range s.Items {
		sn := sent{kind: it.Kind, sess: it.Sess, ordinal: map[int]int{}}
		switch it.Kind {
		case "roots":
			for j := 0; j < s.Sessions; j++ {
				sn.ordinal[j] = counts[j]["notifications/roots/list_changed"]
				counts[j]["notifications/roots/list_changed"]++
			}
			rootN++
			client.AddRoots(&mcp.Root{URI: fmt.Sprintf("file:///r%d", i), Name: "r"})
		case "progress":
			sn.ordinal[it.Sess] = counts[it.Sess]["notifications/progress"]
			counts[it.Sess]["notifications/progress"]++
			if err := sessions[it.Sess].NotifyProgress(ctx, &mcp.ProgressNotificationParams{ProgressToken: fmt.Sprint(i), Progress: 1, Total: float64(it.DurMs)}); err != nil {
				// invented token refused by the sender: nothing was sent, the item takes no part in the ordering
				counts[it.Sess]["notifications/progress"]--
				res.Class("progress_with_unannounced_token_refused")
				continue
			}
		case "tool":
			sn.ordinal[it.Sess] = counts[it.Sess]["tools/call"]
			counts[it.Sess]["tools/call"]++
			wg.Add(1)
			go func(i int, it MItem) {
				defer wg.Done()
				sessions[it.Sess].CallTool(ctx, &mcp.CallToolParams{Name: "t", Arguments: map[string]any{"seq": i, "dur": it.DurMs}})
			}(i, it)
			synctest.Wait()
		}
		fmt.Fprintf(&desc, "%s%d@%d,", it.Kind[:1], durClass(it.DurMs), it.Sess)
		sentItems = append(sentItems, sn)
	}
	done := make(chan struct{})
	go func() { wg.Wait(); close(done) }()
	total := 30 * time.Second
	for _, it := range s.Items {
		total += time.Duration(it.DurMs) * time.Millisecond * time.Duration(s.Sessions)
	}
	time.Sleep(total)
	synctest.Wait()
	select {
	case <-done:
	default:
		res.Class("calls_did_not_finish") // liveness of calls is C01's business, not an ordering matter
	}
	methodOfKind := map[string]string{"roots": "notifications/roots/list_changed", "progress": "notifications/progress", "tool": "tools/call"}
	lookup := func(sn sent, j int) *rec {
		k, ok := sn.ordinal[j]
		if !ok {
			return nil
		}
		rs := recs[j].byMethod(methodOfKind[sn.kind])
		if k < len(rs) {
			return rs[k]
		}
		return nil
	}
	nt := false
	for i, n := range sentItems {
		if n.kind == "tool" {
			continue
		}
		for j := 0; j < s.Sessions; j++ {
			if _, on := n.ordinal[j]; !on {
				continue
			}
			rn := lookup(n, j)
			if rn == nil || !rn.ended {
				res.Failf("item %d (%s) never completed on server %d", i, n.kind, j)
				continue
			}
			for m := i + 1; m < len(sentItems); m++ {
				rm := lookup(sentItems[m], j)
				if rm == nil {
					continue
				}
				if n.kind == "roots" && s.Sessions >= 2 {
					nt = true
				}
				if rm.start < rn.end {
					res.Failf("server %d of %d: handler of item %d (%s, sent after item %d returned) started (clock %d, t=%v) before the handler of notification item %d (%s) finished (clock %d, t=%v)",
						j, s.Sessions, m, sentItems[m].kind, i, rm.start, rm.startT.Format("05.000"), i, n.kind, rn.end, rn.endT.Format("05.000"))
				}
			}
		}
	}
	res.Desc = fmt.Sprintf("multi|%d|%d|%s", s.Sessions, s.SendDelayMs, desc.String())
	res.NonTrivial = nt
	res.Class(fmt.Sprintf("sessions_%d", s.Sessions))
	return res
}

var multiProp = vt.Register(&vt.Prop[MultiScript]{Property: "C03", Name: "multi", Gen: genMulti, Run: runMulti})

func TestC03_Multi(t *testing.T) { theT = t; multiProp.Check(t) }
