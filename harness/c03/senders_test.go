package c03

// TestC03_Senders: several goroutines of one server notify the same client at overlapping times over a link
// whose writes may take (virtual) time. The property is stated per goroutine: once a notifying method has
// returned, whatever that goroutine sends afterwards is observed by the peer after it - whatever other
// goroutines are doing, also when they are notifying about the very same resource at that moment.

import (
	"context"
	"fmt"
	"strings"
	"sync"
	"testing"
	"testing/synctest"
	"time"

	"github.com/modelcontextprotocol/go-sdk/jsonrpc"
	"github.com/modelcontextprotocol/go-sdk/mcp"
	"github.com/modelcontextprotocol/go-sdk/verif/vt"
	"pgregory.net/rapid"
)

type SItem struct {
	Kind  string `json:"kind"`             // resupd | log | progress
	URI   int    `json:"uri,omitempty"`    // resupd: which of two resources
	GapMs int    `json:"gap_ms,omitempty"` // pause of the sender before this item
}

type SendersScript struct {
	Senders [][]SItem `json:"senders"` // one sequence per goroutine
	// SlowWrites: the n-th message the server side writes after the handshake takes this long inside the
	// transport's Write (index -> milliseconds), as on a congested link.
	SlowWrites map[int]int `json:"slow_writes,omitempty"`
	StartMs    []int       `json:"start_ms"` // when each goroutine starts
}

func genSenders(rt *rapid.T) SendersScript {
	var s SendersScript
	k := rapid.IntRange(2, 3).Draw(rt, "senders")
	for g := 0; g < k; g++ {
		var seq []SItem
		n := rapid.IntRange(1, 4).Draw(rt, "n")
		for i := 0; i < n; i++ {
			seq = append(seq, SItem{
				Kind:  rapid.SampledFrom([]string{"resupd", "resupd", "resupd", "log", "progress"}).Draw(rt, "kind"),
				URI:   rapid.SampledFrom([]int{0, 0, 0, 1}).Draw(rt, "uri"),
				GapMs: rapid.SampledFrom([]int{0, 0, 1, 50}).Draw(rt, "gap"),
			})
		}
		s.Senders = append(s.Senders, seq)
		s.StartMs = append(s.StartMs, rapid.SampledFrom([]int{0, 0, 100, 100, 500, 1500}).Draw(rt, "start"))
	}
	s.SlowWrites = map[int]int{}
	for i, n := 0, rapid.IntRange(0, 3).Draw(rt, "slow"); i < n; i++ {
		s.SlowWrites[rapid.IntRange(0, 5).Draw(rt, "slow_at")] = rapid.SampledFrom([]int{1, 1000, 1000, 3000}).Draw(rt, "slow_ms")
	}
	return s
}

// slowTransport makes chosen writes of the connection it hands out take time.
type slowTransport struct {
	mcp.Transport
	mu    sync.Mutex
	armed bool
	n     int
	slow  map[int]int
}

func (t *slowTransport) Connect(ctx context.Context) (mcp.Connection, error) {
	c, err := t.Transport.Connect(ctx)
	if err != nil {
		return nil, err
	}
	return &slowConn{Connection: c, t: t}, nil
}

type slowConn struct {
	mcp.Connection
	t *slowTransport
}

func (c *slowConn) Write(ctx context.Context, msg jsonrpc.Message) error {
	c.t.mu.Lock()
	d := 0
	if c.t.armed {
		d = c.t.slow[c.t.n]
		c.t.n++
	}
	c.t.mu.Unlock()
	if d > 0 {
		time.Sleep(time.Duration(d) * time.Millisecond)
	}
	return c.Connection.Write(ctx, msg)
}

func runSenders(s SendersScript) (res vt.Result) {
	if p := vt.Bubble(theT, func() { res = runSendersInBubble(s) }); p != "" {
		res.Class("teardown_leftover")
	}
	return res
}

var senderURIs = []string{"file:///doc0", "file:///doc1"}

func runSendersInBubble(s SendersScript) (res vt.Result) {
	bg := context.Background()
	type arrival struct {
		what  string // ru:<uri> | log:<tag> | progress:<tag>
		clock int
	}
	var mu sync.Mutex
	clock := 0
	var arrivals []arrival
	arrive := func(what string) {
		mu.Lock()
		clock++
		arrivals = append(arrivals, arrival{what, clock})
		mu.Unlock()
	}
	server := mcp.NewServer(&mcp.Implementation{Name: "srv", Version: "1"}, &mcp.ServerOptions{
		SubscribeHandler:   func(context.Context, *mcp.SubscribeRequest) error { return nil },
		UnsubscribeHandler: func(context.Context, *mcp.UnsubscribeRequest) error { return nil },
	})
	for _, u := range senderURIs {
		server.AddResource(&mcp.Resource{URI: u, Name: u[len(u)-4:]}, func(context.Context, *mcp.ReadResourceRequest) (*mcp.ReadResourceResult, error) {
			return &mcp.ReadResourceResult{Contents: []*mcp.ResourceContents{{URI: u, Text: "x"}}}, nil
		})
	}
	client := mcp.NewClient(&mcp.Implementation{Name: "cli", Version: "1"}, &mcp.ClientOptions{
		ResourceUpdatedHandler: func(_ context.Context, r *mcp.ResourceUpdatedNotificationRequest) { arrive("ru:" + r.Params.URI) },
		LoggingMessageHandler: func(_ context.Context, r *mcp.LoggingMessageRequest) {
			arrive(fmt.Sprintf("log:%v", r.Params.Data))
		},
		ProgressNotificationHandler: func(_ context.Context, r *mcp.ProgressNotificationClientRequest) {
			arrive("progress:" + r.Params.Message)
		},
	})
	st, ct := mcp.NewInMemoryTransports()
	slow := &slowTransport{Transport: st, slow: s.SlowWrites}
	ss, err := server.Connect(bg, slow, nil)
	if err != nil {
		res.Failf("harness: %v", err)
		return
	}
	cs, err := client.Connect(bg, ct, &mcp.ClientSessionOptions{ProtocolVersion: "2025-06-18"})
	if err != nil {
		res.Failf("harness: %v", err)
		return
	}
	defer func() { cs.Close(); ss.Wait() }()
	for _, u := range senderURIs {
		if err := cs.Subscribe(bg, &mcp.SubscribeParams{URI: u}); err != nil {
			res.Failf("harness: subscribe: %v", err)
			return
		}
	}
	if err := cs.SetLoggingLevel(bg, &mcp.SetLoggingLevelParams{Level: "debug"}); err != nil {
		res.Failf("harness: setLevel: %v", err)
		return
	}
	synctest.Wait()
	slow.mu.Lock()
	slow.armed = true
	slow.mu.Unlock()

	// what each goroutine did: per item, the clock when the call started and when it returned
	type sent struct {
		item       SItem
		tag        string
		start, end int
		err        error
	}
	sents := make([][]*sent, len(s.Senders))
	var wg sync.WaitGroup
	for g, seq := range s.Senders {
		wg.Add(1)
		go func() {
			defer wg.Done()
			time.Sleep(time.Duration(s.StartMs[g]) * time.Millisecond)
			for i, it := range seq {
				if it.GapMs > 0 {
					time.Sleep(time.Duration(it.GapMs) * time.Millisecond)
				}
				x := &sent{item: it, tag: fmt.Sprintf("g%d-%d", g, i)}
				mu.Lock()
				clock++
				x.start = clock
				sents[g] = append(sents[g], x)
				mu.Unlock()
				switch it.Kind {
				case "resupd":
					x.err = server.ResourceUpdated(bg, &mcp.ResourceUpdatedNotificationParams{URI: senderURIs[it.URI]})
				case "log":
					x.err = ss.Log(bg, &mcp.LoggingMessageParams{Level: "info", Data: x.tag})
				case "progress":
					x.err = ss.NotifyProgress(bg, &mcp.ProgressNotificationParams{ProgressToken: "t", Progress: 1, Message: x.tag})
				}
				mu.Lock()
				clock++
				x.end = clock
				mu.Unlock()
			}
		}()
	}
	done := make(chan struct{})
	go func() { wg.Wait(); close(done) }()
	for i := 0; i < 60; i++ {
		synctest.Wait()
		select {
		case <-done:
			i = 60
		default:
			time.Sleep(time.Second)
		}
	}
	select {
	case <-done:
	default:
		res.Failf("the sending goroutines did not finish within a minute of virtual time")
		return
	}
	synctest.Wait()
	time.Sleep(10 * time.Second)
	synctest.Wait()

	// ---- oracle ----
	mu.Lock()
	defer mu.Unlock()
	// arrivalOf: the clock at which x's own notification was observed (log/progress carry their tag);
	// for resupd: the first resources/updated for that URI observed after the call had started.
	arrivalOf := func(x *sent) int {
		for _, a := range arrivals {
			switch x.item.Kind {
			case "resupd":
				if a.what == "ru:"+senderURIs[x.item.URI] && a.clock > x.start {
					return a.clock
				}
			case "log":
				if a.what == "log:"+x.tag {
					return a.clock
				}
			case "progress":
				if a.what == "progress:"+x.tag {
					return a.clock
				}
			}
		}
		return 0
	}
	overlap := false
	for g, seq := range sents {
		for i, n := range seq {
			if n.err != nil {
				res.Failf("sender %d: %s failed on a healthy link: %v", g, n.item.Kind, n.err)
				return
			}
			an := arrivalOf(n)
			if an == 0 {
				res.Failf("sender %d: its %s (%s) returned without error, yet the client never observed a matching notification after the call had started (arrivals %v)", g, n.item.Kind, n.tag, arrivals)
				return
			}
			for _, m := range seq[i+1:] {
				am := arrivalOf(m)
				if m.item.Kind == "resupd" {
					continue // later resupd arrivals cannot be told apart from other senders'
				}
				if am != 0 && am < an {
					res.Failf("sender %d: %s (%s) had returned before the same goroutine sent %s (%s), yet the client observed the later one first (arrivals %v)", g, n.item.Kind, n.tag, m.item.Kind, m.tag, arrivals)
					return
				}
			}
			// did another sender's resupd for the same URI overlap this one?
			if n.item.Kind == "resupd" {
				for g2, seq2 := range sents {
					for _, o := range seq2 {
						if g2 != g && o.item.Kind == "resupd" && o.item.URI == n.item.URI && o.start < n.end && n.start < o.end {
							overlap = true
						}
					}
				}
			}
		}
	}
	var shape []string
	for g, seq := range s.Senders {
		var sb strings.Builder
		fmt.Fprintf(&sb, "%d:", s.StartMs[g])
		for _, it := range seq {
			sb.WriteString(it.Kind[:1])
			if it.Kind == "resupd" {
				fmt.Fprint(&sb, it.URI)
			}
		}
		shape = append(shape, sb.String())
	}
	res.Desc = fmt.Sprintf("senders|%s|%v", strings.Join(shape, "/"), s.SlowWrites)
	res.NonTrivial = overlap
	if overlap {
		res.Class("two_senders_notify_about_one_resource_at_overlapping_times")
	}
	if len(s.SlowWrites) > 0 {
		res.Class("slow_writes")
	}
	return res
}

var sendersProp = vt.Register(&vt.Prop[SendersScript]{Property: "C03", Name: "senders", Gen: genSenders, Run: runSenders})

func TestC03_Senders(t *testing.T) { theT = t; sendersProp.Check(t) }
