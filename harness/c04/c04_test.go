// Package c04 decides property C04: cancelling an in-flight call returns
// promptly with the context's error and cancels exactly the matching peer
// handler. Two arrangements: real Client and Server over in-memory links with
// parked handlers (precision, both directions), and a scripted peer whose
// transport stops draining (promptness even when the notice cannot be
// delivered). Virtual time via synctest: "promptly" is zero elapsed time.
package c04

import (
	"bytes"
	"context"
	"encoding/json"
	"errors"
	"fmt"
	"io"
	"net/http"
	"sort"
	"strings"
	"sync"
	"testing"
	"testing/synctest"
	"time"

	"github.com/modelcontextprotocol/go-sdk/jsonrpc"
	"github.com/modelcontextprotocol/go-sdk/mcp"
	"github.com/modelcontextprotocol/go-sdk/verif/memio"
	"github.com/modelcontextprotocol/go-sdk/verif/vt"
	"github.com/modelcontextprotocol/go-sdk/verif/wire"
	"pgregory.net/rapid"
)

func TestMain(m *testing.M) { vt.Main(m) }

// ---- arrangement B: real ends, parked handlers ----

type Step struct {
	Kind string `json:"kind"`          // call cancel release race sleep block unblock
	Ctx  string `json:"ctx,omitempty"` // call: cancel | deadline
	Ms   int    `json:"ms,omitempty"`  // call (deadline) / sleep
	I    int    `json:"i,omitempty"`   // cancel/release/race: index among in-flight calls (mod)
}

type Script struct {
	Dir   string      `json:"dir"` // c2s (client calls tools) | s2c (server calls sampling)
	Link  wire.Config `json:"link"`
	Steps []Step      `json:"steps"`
	// CloseTail (single-stream links only): after Steps the answering side starts a graceful Close while
	// handlers are still parked, then these steps (cancel / release / race / sleep) follow. Closing must not
	// stop cancellations from reaching the handlers it is waiting for.
	CloseTail []Step `json:"close_tail,omitempty"`
	// CallerCloses: it is the calling side (instead of the answering side) that starts the graceful Close.
	CallerCloses bool `json:"caller_closes,omitempty"`
	// NoticeLost (c2s over streamable HTTP): every POST that carries a notifications/cancelled fails at the
	// network level (connection reset). The cancelled call still returns promptly, nobody else is disturbed and
	// the session stays usable; only the peer's handler cannot be expected to hear of it.
	NoticeLost bool `json:"notice_lost,omitempty"`
	// NoticeHangs (with NoticeLost; also on the legacy SSE link): instead of failing at once, the POST that carries
	// the notice gets no answer at all and only ends when the SDK gives it up (its own 5 s bound). Every step
	// is followed by 6 s of virtual time, so that the rest of the script meets a writer that is free again.
	NoticeHangs bool `json:"notice_hangs,omitempty"`
}

func genScript(rt *rapid.T) Script {
	var s Script
	s.Dir = rapid.SampledFrom([]string{"c2s", "c2s", "s2c"}).Draw(rt, "dir")
	links := []wire.Config{{Kind: wire.InMem}, {Kind: wire.Pipe}, {Kind: wire.SSE}, {Kind: wire.Stateful}, {Kind: wire.Stateful, Store: true}}
	if s.Dir == "c2s" {
		links = append(links, wire.Config{Kind: wire.Stateful, JSON: true})
	}
	s.Link = rapid.SampledFrom(links).Draw(rt, "link")
	if s.Dir == "c2s" && (s.Link.Kind == wire.Stateful || s.Link.Kind == wire.SSE) {
		s.NoticeLost = rapid.IntRange(0, 3).Draw(rt, "notice_lost") == 0
		// (On the legacy SSE link a POST that fails at the network level is a failed write - the connection is
		// broken, which is C01's subject -, so there the notice can only go unanswered.)
		s.NoticeHangs = s.NoticeLost && (s.Link.Kind == wire.SSE || rapid.Bool().Draw(rt, "notice_hangs"))
	}
	n := rapid.IntRange(2, 24).Draw(rt, "n")
	calls := 0
	for i := 0; i < n; i++ {
		kinds := []string{"call", "call", "call", "cancel", "cancel", "release", "race", "sleep", "block", "unblock"}
		if calls >= 8 {
			kinds = kinds[3:]
		}
		st := Step{Kind: rapid.SampledFrom(kinds).Draw(rt, "kind")}
		switch st.Kind {
		case "call":
			calls++
			st.Ctx = rapid.SampledFrom([]string{"cancel", "cancel", "deadline"}).Draw(rt, "ctx")
			if st.Ctx == "deadline" {
				st.Ms = rapid.SampledFrom([]int{1, 20, 3000}).Draw(rt, "timeout")
			}
		case "cancel", "release", "race":
			st.I = rapid.IntRange(0, 7).Draw(rt, "i")
		case "sleep":
			st.Ms = rapid.SampledFrom([]int{1, 19, 20, 21, 2999, 3001, 6000}).Draw(rt, "ms")
		}
		s.Steps = append(s.Steps, st)
	}
	// (Not on the legacy SSE link: its client may drop the last messages received before the end of the event
	// stream, so the answer of a handler the closing server waited for can be lost — outside this property.)
	if single := s.Link.Kind == wire.InMem || s.Link.Kind == wire.Pipe; single && rapid.IntRange(0, 2).Draw(rt, "closetail") == 0 {
		for i, n := 0, rapid.IntRange(1, 8).Draw(rt, "tail"); i < n; i++ {
			st := Step{Kind: rapid.SampledFrom([]string{"cancel", "cancel", "release", "race", "sleep"}).Draw(rt, "tkind")}
			st.I = rapid.IntRange(0, 7).Draw(rt, "ti")
			if st.Kind == "sleep" {
				st.Ms = rapid.SampledFrom([]int{1, 20, 3001}).Draw(rt, "tms")
			}
			s.CloseTail = append(s.CloseTail, st)
		}
		s.CallerCloses = rapid.Bool().Draw(rt, "caller_closes")
	}
	return s
}

type callRec struct {
	k          int
	cancel     context.CancelFunc
	deadline   time.Time
	hasDL      bool
	done       chan struct{}
	err        error
	result     string
	returnedAt time.Time

	cancelledAt time.Time // when the script cancelled it / its deadline passed
	cancelled   bool
	released    bool // handler told to answer
	raced       bool
	// handler side
	started     bool
	handlerDone bool // handler observed ctx.Done()
	finished    bool
}

type world struct {
	mu    sync.Mutex
	calls []*callRec
	gates map[int]chan struct{}
}

func (w *world) gate(k int) chan struct{} {
	w.mu.Lock()
	defer w.mu.Unlock()
	if w.gates[k] == nil {
		w.gates[k] = make(chan struct{})
	}
	return w.gates[k]
}

// handle is the body of every parked handler: it waits for its gate or its context.
func (w *world) handle(ctx context.Context, k int) string {
	w.mu.Lock()
	var c *callRec
	if k < len(w.calls) {
		c = w.calls[k]
		c.started = true
	}
	w.mu.Unlock()
	select {
	case <-w.gate(k):
	case <-ctx.Done():
		w.mu.Lock()
		if c != nil {
			c.handlerDone = true
		}
		w.mu.Unlock()
	}
	w.mu.Lock()
	if c != nil {
		c.finished = true
	}
	w.mu.Unlock()
	return fmt.Sprintf("answer-%d", k)
}

var theT *testing.T

func run(s Script) (res vt.Result) {
	if p := vt.Bubble(theT, func() { res = runInBubble(s) }); p != "" {
		if stuckInSession(p) {
			res.Failf("bubble did not end cleanly (blocked call or deadlock): %s", p)
		} else {
			res.Class("teardown_leftover") // some other goroutine stayed behind: judged by C05, not here
		}
	}
	return res
}

// stuckInSession reports whether the leftover goroutines of a bubble include one of the harness' own (a call,
// ping or Close that never returned) or one parked inside a call / Wait / Close of the SDK.
func stuckInSession(stacks string) bool {
	for _, m := range []string{"verif/c04.", "(*AsyncCall).Await", "Session).Wait(", "Session).Close(", "(*Connection).wait("} {
		if strings.Contains(stacks, m) {
			return true
		}
	}
	return false
}

// promptGrace is what "promptly" tolerates: the property names no number; anything near the 5 s budget of the
// cancellation notice (a caller that waits for its delivery) is far beyond it.
const promptGrace = 100 * time.Millisecond

type toolIn struct {
	K int `json:"k"`
}

func runInBubble(s Script) (res vt.Result) {
	w := &world{gates: map[int]chan struct{}{}}
	blockCh := make(chan struct{}) // a slow notification handler parks the peer's dispatcher while open
	var blockMu sync.Mutex
	blocked := false
	server := mcp.NewServer(&mcp.Implementation{Name: "srv", Version: "1"}, &mcp.ServerOptions{
		ProgressNotificationHandler: func(ctx context.Context, _ *mcp.ProgressNotificationServerRequest) {
			blockMu.Lock()
			ch := blockCh
			blockMu.Unlock()
			<-ch
		},
	})
	mcp.AddTool(server, &mcp.Tool{Name: "park"}, func(ctx context.Context, req *mcp.CallToolRequest, in toolIn) (*mcp.CallToolResult, any, error) {
		return &mcp.CallToolResult{Content: []mcp.Content{&mcp.TextContent{Text: w.handle(ctx, in.K)}}}, nil, nil
	})
	client := mcp.NewClient(&mcp.Implementation{Name: "cli", Version: "1"}, &mcp.ClientOptions{
		ProgressNotificationHandler: func(ctx context.Context, _ *mcp.ProgressNotificationClientRequest) {
			blockMu.Lock()
			ch := blockCh
			blockMu.Unlock()
			<-ch
		},
		CreateMessageHandler: func(ctx context.Context, req *mcp.CreateMessageRequest) (*mcp.CreateMessageResult, error) {
			k := 0
			if len(req.Params.Messages) > 0 {
				if tc, ok := req.Params.Messages[0].Content.(*mcp.TextContent); ok {
					fmt.Sscan(tc.Text, &k)
				}
			}
			return &mcp.CreateMessageResult{Content: &mcp.TextContent{Text: w.handle(ctx, k)}, Model: "m", Role: "assistant"}, nil
		},
	})
	link, err := wire.New(server, s.Link)
	if err == nil && s.NoticeLost && link.HTTP != nil {
		link.HTTP.Fail = func(r *http.Request) error {
			if r.Method != "POST" || r.GetBody == nil {
				return nil
			}
			rc, gerr := r.GetBody()
			if gerr != nil {
				return nil
			}
			b, _ := io.ReadAll(rc)
			rc.Close()
			if bytes.Contains(b, []byte(`"notifications/cancelled"`)) {
				if s.NoticeHangs {
					<-r.Context().Done() // no answer ever comes; the request ends when its sender gives it up
					return r.Context().Err()
				}
				return errors.New("read tcp: connection reset by peer")
			}
			return nil
		}
		res.Class("cancellation_notices_cannot_be_delivered")
		if s.NoticeHangs {
			res.Class("cancellation_notices_get_no_answer_until_given_up")
		}
	}
	if err != nil {
		res.Failf("harness: %v", err)
		return
	}
	bg := context.Background()
	var cs *mcp.ClientSession
	cerr := make(chan error, 1)
	go func() {
		var e error
		cs, e = client.Connect(bg, link.ClientTransport, &mcp.ClientSessionOptions{ProtocolVersion: "2025-06-18"})
		cerr <- e
	}()
	synctest.Wait()
	select {
	case e := <-cerr:
		if e != nil {
			res.Failf("harness: connect: %v", e)
			return
		}
	default:
		res.Failf("harness: connect did not return")
		return
	}
	var ss *mcp.ServerSession
	for x := range server.Sessions() {
		ss = x
	}
	defer func() {
		blockMu.Lock()
		if blocked {
			close(blockCh)
			blocked = false
		}
		blockMu.Unlock()
		for k := 0; k < 64; k++ {
			select {
			case <-w.gate(k):
			default:
				close(w.gate(k))
			}
		}
		for _, c := range w.calls {
			c.cancel()
		}
		synctest.Wait()
		cs.Close()
		for x := range server.Sessions() {
			go x.Close()
		}
		synctest.Wait()
		time.Sleep(30 * time.Second)
		synctest.Wait()
	}()

	isDone := func(c *callRec) bool {
		select {
		case <-c.done:
			return true
		default:
			return false
		}
	}
	inflight := func() []*callRec {
		var out []*callRec
		for _, c := range w.calls {
			if !isDone(c) {
				out = append(out, c)
			}
		}
		return out
	}
	var desc strings.Builder
	cancelledInflight, sawBlockCancel := 0, false

	// checkOnce judges the state at quiescence. "The peer's handler has not been told yet" is only final after
	// promptGrace of virtual time: the property does not say that the notice travels in no time at all.
	checkOnce := func(step int, final bool) (retry bool) {
		now := time.Now()
		w.mu.Lock()
		defer w.mu.Unlock()
		for _, c := range w.calls {
			if c.hasDL && !c.cancelled && !now.Before(c.deadline) && (!isDone(c) || !c.returnedAt.Before(c.deadline)) {
				c.cancelled, c.cancelledAt = true, c.deadline
			}
			done := isDone(c)
			if c.cancelled && !done {
				res.Failf("step %d: call %d was cancelled at t=%v but has not returned (now t=%v)", step, c.k, c.cancelledAt.Format("05.000"), now.Format("05.000"))
				continue
			}
			if c.cancelled && done {
				if d := c.returnedAt.Sub(c.cancelledAt); d > promptGrace {
					res.Failf("step %d: call %d returned %v of virtual time after its context ended", step, c.k, d)
				}
				ctxErr := c.err != nil && (errors.Is(c.err, context.Canceled) || errors.Is(c.err, context.DeadlineExceeded))
				if !ctxErr && !(c.raced && c.err == nil) {
					res.Failf("step %d: cancelled call %d returned (%q, %v), want the context's error", step, c.k, c.result, c.err)
				}
				// the matching peer handler must have been told (healthy link), if it was running
				if c.started && !c.finished && !blocked && !s.NoticeLost {
					if !final {
						retry = true
						continue
					}
					res.Failf("step %d: call %d was cancelled but its peer handler is still parked with a live context", step, c.k)
				}
			}
			if !c.cancelled {
				// Precision: nobody else's handler context may be cancelled.
				if c.handlerDone {
					res.Failf("step %d: the peer handler of call %d saw its context cancelled although call %d was never cancelled (another call's cancellation hit it)", step, c.k, c.k)
				}
				if done && c.err != nil {
					res.Failf("step %d: call %d was never cancelled but failed: %v", step, c.k, c.err)
				}
				if done && c.err == nil && c.result != fmt.Sprintf("answer-%d", c.k) {
					res.Failf("step %d: call %d returned %q, want its own answer", step, c.k, c.result)
				}
				if c.released && !done && !blocked {
					res.Failf("step %d: call %d's handler was released but the call has not returned", step, c.k)
				}
			}
		}
		return retry
	}
	check := func(step int) {
		if checkOnce(step, false) && len(res.Violations) == 0 {
			time.Sleep(promptGrace)
			synctest.Wait()
			checkOnce(step, true)
		}
	}

	steps := s.Steps
	peerClosing := false
	if len(s.CloseTail) > 0 {
		steps = append(append(append([]Step{}, s.Steps...), Step{Kind: "peerclose"}), s.CloseTail...)
	}
	for i, st := range steps {
		switch st.Kind {
		case "peerclose":
			// every accepted call gets dispatched first, then the answering side begins its graceful Close
			blockMu.Lock()
			if blocked {
				close(blockCh)
				blocked = false
			}
			blockMu.Unlock()
			synctest.Wait()
			if (s.Dir == "c2s") != s.CallerCloses {
				go ss.Close()
			} else {
				go cs.Close()
			}
			peerClosing = true
			desc.WriteString("K")
		case "call":
			c := &callRec{k: len(w.calls), done: make(chan struct{})}
			ctx := bg
			if st.Ctx == "deadline" {
				c.deadline, c.hasDL = time.Now().Add(time.Duration(st.Ms)*time.Millisecond), true
				ctx, c.cancel = context.WithDeadline(ctx, c.deadline)
			} else {
				ctx, c.cancel = context.WithCancel(ctx)
			}
			w.mu.Lock()
			w.calls = append(w.calls, c)
			w.mu.Unlock()
			go func() {
				var text string
				var err error
				if s.Dir == "c2s" {
					var r *mcp.CallToolResult
					r, err = cs.CallTool(ctx, &mcp.CallToolParams{Name: "park", Arguments: map[string]any{"k": c.k}})
					if err == nil && len(r.Content) == 1 {
						text = r.Content[0].(*mcp.TextContent).Text
					}
				} else {
					var r *mcp.CreateMessageResult
					r, err = ss.CreateMessage(ctx, &mcp.CreateMessageParams{MaxTokens: 1, Messages: []*mcp.SamplingMessage{{Role: "user", Content: &mcp.TextContent{Text: fmt.Sprint(c.k)}}}})
					if err == nil {
						text = r.Content.(*mcp.TextContent).Text
					}
				}
				w.mu.Lock()
				c.result, c.err, c.returnedAt = text, err, time.Now()
				w.mu.Unlock()
				close(c.done)
			}()
			desc.WriteString("C")
		case "cancel":
			fl := inflight()
			if len(fl) == 0 {
				desc.WriteString("-")
				break
			}
			c := fl[st.I%len(fl)]
			w.mu.Lock()
			if !c.cancelled {
				c.cancelled, c.cancelledAt = true, time.Now()
				cancelledInflight++
				if blocked && !c.started {
					sawBlockCancel = true
				}
			}
			w.mu.Unlock()
			c.cancel()
			desc.WriteString("x")
		case "release":
			fl := inflight()
			if len(fl) == 0 {
				desc.WriteString("-")
				break
			}
			c := fl[st.I%len(fl)]
			w.mu.Lock()
			c.released = true
			w.mu.Unlock()
			select {
			case <-w.gate(c.k):
			default:
				close(w.gate(c.k))
			}
			desc.WriteString("r")
		case "race":
			// response and cancellation at the same step: either outcome is legitimate for that call
			fl := inflight()
			if len(fl) == 0 {
				desc.WriteString("-")
				break
			}
			c := fl[st.I%len(fl)]
			w.mu.Lock()
			c.raced, c.released = true, true
			if !c.cancelled {
				c.cancelled, c.cancelledAt = true, time.Now()
			}
			w.mu.Unlock()
			select {
			case <-w.gate(c.k):
			default:
				close(w.gate(c.k))
			}
			c.cancel()
			desc.WriteString("R")
		case "sleep":
			time.Sleep(time.Duration(st.Ms) * time.Millisecond)
			desc.WriteString("s")
		case "block":
			// park the peer's dispatcher behind a notification handler: later calls are queued, not dispatched
			blockMu.Lock()
			already := blocked
			if !already {
				blocked = true
				blockCh = make(chan struct{})
			}
			blockMu.Unlock()
			if !already {
				if s.Dir == "c2s" {
					cs.NotifyProgress(bg, &mcp.ProgressNotificationParams{ProgressToken: "b", Progress: 1})
				} else {
					ss.NotifyProgress(bg, &mcp.ProgressNotificationParams{ProgressToken: "b", Progress: 1})
				}
			}
			desc.WriteString("B")
		case "unblock":
			blockMu.Lock()
			if blocked {
				close(blockCh)
				blocked = false
			}
			blockMu.Unlock()
			desc.WriteString("U")
		}
		synctest.Wait()
		check(i)
		if len(res.Violations) > 0 {
			return finish(res, s, &desc, w, cancelledInflight, sawBlockCancel)
		}
		if s.NoticeHangs {
			// deadlines are at most 3 s away and an unanswered notice is given up after 5 s: after 9 s the
			// client's writer is free again, whatever this step set in motion
			time.Sleep(9 * time.Second)
			synctest.Wait()
			check(i)
			if len(res.Violations) > 0 {
				return finish(res, s, &desc, w, cancelledInflight, sawBlockCancel)
			}
		}
	}
	// un-park the dispatcher, then: all never-cancelled calls still answer correctly, and the session is usable both ways.
	blockMu.Lock()
	if blocked {
		close(blockCh)
		blocked = false
	}
	blockMu.Unlock()
	synctest.Wait()
	check(len(s.Steps))
	for _, c := range w.calls {
		w.mu.Lock()
		cancelled := c.cancelled
		c.released = true
		w.mu.Unlock()
		if !cancelled {
			select {
			case <-w.gate(c.k):
			default:
				close(w.gate(c.k))
			}
		}
	}
	synctest.Wait()
	check(len(s.Steps) + 1)
	if len(res.Violations) == 0 && !peerClosing {
		e1, e2 := make(chan error, 1), make(chan error, 1)
		go func() { e1 <- cs.Ping(bg, nil) }()
		go func() { e2 <- ss.Ping(bg, nil) }()
		synctest.Wait()
		for name, ch := range map[string]chan error{"client->server": e1, "server->client": e2} {
			select {
			case err := <-ch:
				if err != nil {
					res.Failf("after the cancellations a fresh %s ping failed: %v", name, err)
				}
			default:
				res.Failf("after the cancellations a fresh %s ping did not return", name)
			}
		}
	}
	return finish(res, s, &desc, w, cancelledInflight, sawBlockCancel)
}

func finish(res vt.Result, s Script, desc *strings.Builder, w *world, cancelledInflight int, sawBlockCancel bool) vt.Result {
	res.Desc = s.Dir + "|" + s.Link.String() + "|" + desc.String()
	n := len(w.calls)
	res.NonTrivial = n >= 2 && cancelledInflight >= 1 && cancelledInflight < n
	res.Class("dir_"+s.Dir, "link_"+s.Link.Kind)
	if sawBlockCancel {
		res.Class("cancel_before_dispatch")
	}
	if strings.Contains(desc.String(), "R") {
		res.Class("cancel_racing_response")
	}
	if i := strings.Index(desc.String(), "K"); i >= 0 && strings.ContainsAny(desc.String()[i:], "xR") {
		if s.CallerCloses {
			res.Class("cancel_while_caller_is_closing")
		} else {
			res.Class("cancel_while_peer_is_closing")
		}
	}
	return res
}

var prop = vt.Register(&vt.Prop[Script]{Property: "C04", Name: "e2e", Gen: genScript, Run: run})

func TestC04_E2E(t *testing.T) { theT = t; prop.Check(t) }

// ---- arrangement A: scripted peer; the transport may stop draining ----

type PStep struct {
	Kind string `json:"kind"` // call cancel stall drain respond sleep
	I    int    `json:"i,omitempty"`
	Ms   int    `json:"ms,omitempty"`
}

type PScript struct {
	Side  string  `json:"side"` // client | server
	Steps []PStep `json:"steps"`
}

func genP(rt *rapid.T) PScript {
	s := PScript{Side: rapid.SampledFrom([]string{"client", "server"}).Draw(rt, "side")}
	n := rapid.IntRange(2, 20).Draw(rt, "n")
	for i := 0; i < n; i++ {
		st := PStep{Kind: rapid.SampledFrom([]string{"call", "call", "cancel", "cancel", "stall", "drain", "respond", "sleep"}).Draw(rt, "kind")}
		st.I = rapid.IntRange(0, 7).Draw(rt, "i")
		if st.Kind == "sleep" {
			st.Ms = rapid.SampledFrom([]int{1, 4999, 5000, 5001, 20000}).Draw(rt, "ms")
		}
		s.Steps = append(s.Steps, st)
	}
	return s
}

// idJSON spells a request id as the JSON token a notifications/cancelled carries (number or quoted string).
func idJSON(id *jsonrpc.ID) string {
	b, _ := json.Marshal(id.Raw())
	return string(b)
}

func runP(s PScript) (res vt.Result) {
	if p := vt.Bubble(theT, func() { res = runPInBubble(s) }); p != "" {
		if stuckInSession(p) {
			res.Failf("bubble did not end cleanly (a call leaked): %s", p)
		} else {
			res.Class("teardown_leftover")
		}
	}
	return res
}

type pcall struct {
	k           int
	cancel      context.CancelFunc
	done        chan struct{}
	err         error
	cancelledAt time.Time
	returnedAt  time.Time
	cancelled   bool
	whileStall  bool
	id          *jsonrpc.ID
	responded   bool
}

func runPInBubble(s PScript) (res vt.Result) {
	sc := memio.NewScriptConn()
	var doCall func(ctx context.Context, k int) error
	var wait func() error
	switch s.Side {
	case "client":
		client := mcp.NewClient(&mcp.Implementation{Name: "c", Version: "1"}, nil)
		cs, err := memio.ConnectClient(client, sc, "2025-06-18", "")
		if err != nil {
			res.Failf("setup: %v", err)
			return
		}
		doCall = func(ctx context.Context, k int) error {
			_, err := cs.CallTool(ctx, &mcp.CallToolParams{Name: "t", Arguments: map[string]any{"k": k}})
			return err
		}
		wait = cs.Wait
	default:
		server := mcp.NewServer(&mcp.Implementation{Name: "s", Version: "1"}, nil)
		ss, err := server.Connect(context.Background(), sc.Transport(), nil)
		if err != nil {
			res.Failf("setup: %v", err)
			return
		}
		// the scripted peer plays the documented legacy handshake and declares roots: an SDK may refuse
		// roots/list on a session its client has not initialised
		sc.InjectRaw(`{"jsonrpc":"2.0","id":"hs","method":"initialize","params":{"protocolVersion":"2025-06-18","capabilities":{"roots":{}},"clientInfo":{"name":"scripted","version":"0"}}}`)
		synctest.Wait()
		sc.InjectRaw(`{"jsonrpc":"2.0","method":"notifications/initialized"}`)
		synctest.Wait()
		doCall = func(ctx context.Context, k int) error {
			_, err := ss.ListRoots(ctx, &mcp.ListRootsParams{Meta: mcp.Meta{"k": k}})
			return err
		}
		wait = ss.Wait
	}
	sc.ResetWritten()
	waitDone := make(chan struct{})
	go func() { wait(); close(waitDone) }()
	var calls []*pcall
	stalled := false
	var desc strings.Builder
	nt := false

	kOf := func(r *jsonrpc.Request) (int, bool) {
		var p struct {
			Arguments struct{ K *int } `json:"arguments"`
			Meta      struct{ K *int } `json:"_meta"`
		}
		json.Unmarshal(r.Params, &p)
		if p.Arguments.K != nil {
			return *p.Arguments.K, true
		}
		if p.Meta.K != nil {
			return *p.Meta.K, true
		}
		return 0, false
	}
	learn := func() {
		msgs := sc.Written()
		for _, pw := range sc.Pending() {
			msgs = append(msgs, pw.Msg)
		}
		for _, m := range msgs {
			if r, ok := m.(*jsonrpc.Request); ok && r.IsCall() {
				if k, ok := kOf(r); ok && k < len(calls) && calls[k].id == nil {
					id := r.ID
					calls[k].id = &id
				}
			}
		}
	}
	isDone := func(c *pcall) bool {
		select {
		case <-c.done:
			return true
		default:
			return false
		}
	}
	// cancelNotices returns the requestIds of notifications/cancelled the peer has received (written OK).
	cancelNotices := func() []string {
		var out []string
		for _, m := range sc.Written() {
			if r, ok := m.(*jsonrpc.Request); ok && r.Method == "notifications/cancelled" {
				var p struct {
					RequestID json.RawMessage `json:"requestId"`
				}
				json.Unmarshal(r.Params, &p)
				out = append(out, string(bytes.TrimSpace(p.RequestID)))
			}
		}
		sort.Strings(out)
		return out
	}

	for i, st := range s.Steps {
		switch st.Kind {
		case "call":
			if len(calls) >= 8 {
				desc.WriteString("-")
				break
			}
			c := &pcall{k: len(calls), done: make(chan struct{})}
			ctx, cancel := context.WithCancel(context.Background())
			c.cancel = cancel
			calls = append(calls, c)
			go func() {
				err := doCall(ctx, c.k)
				c.err, c.returnedAt = err, time.Now()
				close(c.done)
			}()
			desc.WriteString("C")
		case "cancel":
			var fl []*pcall
			for _, c := range calls {
				if !isDone(c) {
					fl = append(fl, c)
				}
			}
			if len(fl) == 0 {
				desc.WriteString("-")
				break
			}
			c := fl[st.I%len(fl)]
			c.cancelled, c.cancelledAt, c.whileStall = true, time.Now(), stalled
			if stalled {
				nt = true
			}
			c.cancel()
			desc.WriteString("x")
		case "stall": // the peer stops draining: every write parks from now on
			sc.GateWrites = true
			stalled = true
			desc.WriteString("S")
		case "drain": // the peer drains again: parked writes complete, later writes are immediate
			sc.GateWrites = false
			stalled = false
			for _, pw := range sc.Pending() {
				sc.Release(pw, memio.WriteOK)
			}
			desc.WriteString("D")
		case "respond": // (possibly late) response for some call id
			learn()
			var known []*pcall
			for _, c := range calls {
				if c.id != nil {
					known = append(known, c)
				}
			}
			if len(known) == 0 {
				desc.WriteString("-")
				break
			}
			c := known[st.I%len(known)]
			result := `{"content":[],"roots":[]}`
			if !c.responded && !isDone(c) {
				c.responded = true
			}
			sc.Inject(&jsonrpc.Response{ID: *c.id, Result: json.RawMessage(result)})
			desc.WriteString("r")
		case "sleep":
			time.Sleep(time.Duration(st.Ms) * time.Millisecond)
			desc.WriteString("s")
		}
		synctest.Wait()
		learn()
		for _, c := range calls {
			if c.cancelled && !isDone(c) {
				res.Failf("step %d: call %d cancelled at t=%v has not returned although cancellation must not wait for the peer (transport stalled: %v)", i, c.k, c.cancelledAt.Format("05.000"), c.whileStall)
			}
			if c.cancelled && isDone(c) {
				if d := c.returnedAt.Sub(c.cancelledAt); d > promptGrace {
					res.Failf("step %d: call %d returned %v after its cancellation (must be prompt even if the cancellation notice cannot be delivered)", i, c.k, d)
				}
				if !errors.Is(c.err, context.Canceled) {
					res.Failf("step %d: cancelled call %d returned %v, want context.Canceled", i, c.k, c.err)
				}
			}
			if !c.cancelled && isDone(c) && c.err != nil {
				res.Failf("step %d: call %d was not cancelled but failed: %v", i, c.k, c.err)
			}
		}
		if len(res.Violations) > 0 {
			break
		}
	}
	// Drain; within the 5s budget every deliverable notice is out. Notices name exactly the cancelled calls
	// that had been written (a call cancelled while its own request write was parked never reached the peer).
	if len(res.Violations) == 0 {
		sc.GateWrites = false
		for _, pw := range sc.Pending() {
			sc.Release(pw, memio.WriteOK)
		}
		synctest.Wait()
		time.Sleep(6 * time.Second)
		synctest.Wait()
		notices := cancelNotices()
		allowed := map[string]bool{}
		for _, c := range calls {
			if c.cancelled && c.id != nil {
				allowed[idJSON(c.id)] = true
			}
		}
		seen := map[string]int{}
		for _, n := range notices {
			seen[n]++
			if !allowed[n] {
				res.Failf("the peer received notifications/cancelled for request id %s, which was never cancelled by its caller", n)
			}
			if seen[n] > 1 {
				res.Class("duplicate_cancellation_notice") // harmless: it names the same, already cancelled request
			}
		}
		// healthy-link cancellations must have produced their notice
		for _, c := range calls {
			if c.cancelled && !c.whileStall && c.id != nil && seen[idJSON(c.id)] == 0 && !c.responded {
				res.Failf("call %d (id %v) was cancelled on a healthy link but the peer never received its cancellation notice", c.k, c.id.Raw())
			}
		}
		// session still usable
		pc := &pcall{k: len(calls), done: make(chan struct{})}
		calls = append(calls, pc)
		go func() { pc.err = doCall(context.Background(), pc.k); close(pc.done) }()
		synctest.Wait()
		learn()
		if pc.id == nil {
			res.Failf("after the cancellations a fresh call was not written to the peer")
		} else {
			sc.Inject(&jsonrpc.Response{ID: *pc.id, Result: json.RawMessage(`{"content":[],"roots":[]}`)})
			synctest.Wait()
			if !isDone(pc) || pc.err != nil {
				res.Failf("after the cancellations a fresh call did not succeed (done=%v err=%v)", isDone(pc), pc.err)
			}
		}
	}
	sc.FailRead(io.EOF)
	synctest.Wait()
	sc.FailAllWrites(io.ErrClosedPipe)
	synctest.Wait()
	time.Sleep(6 * time.Second)
	synctest.Wait()
	res.Desc = s.Side + "|" + desc.String()
	res.NonTrivial = nt
	if nt {
		res.Class("cancel_while_transport_stalled")
	}
	return res
}

var stallProp = vt.Register(&vt.Prop[PScript]{Property: "C04", Name: "stall", Gen: genP, Run: runP})

func TestC04_Stall(t *testing.T) { theT = t; stallProp.Check(t) }
func TestReplay(t *testing.T)    { theT = t; vt.Replay(t) }
func TestRegress(t *testing.T)   { theT = t; vt.Regress(t, "C04") }
func TestKnown(t *testing.T)     { theT = t; vt.Known(t, "C04") }
