package c04

import (
	"context"
	"errors"
	"fmt"
	"strings"
	"sync"
	"testing"
	"testing/synctest"
	"time"

	"github.com/modelcontextprotocol/go-sdk/mcp"
	"github.com/modelcontextprotocol/go-sdk/verif/vt"
	"github.com/modelcontextprotocol/go-sdk/verif/wire"
	"pgregory.net/rapid"
)

// Nested arrangement: the cancelled call is a server->client request made INSIDE a request handler
// (tool "relay" calls CreateMessage with a context derived from the handler's). On the streamable
// transport such a call and its cancellation notice travel on the originating request's stream, so
// this also covers clients that hold no standalone stream.

type NStep struct {
	Kind string `json:"kind"`           // call cancel release sleep
	Hold bool   `json:"hold,omitempty"` // call: the relay handler stays in its request until released (else it returns as soon as the nested call returns)
	I    int    `json:"i,omitempty"`
	Ms   int    `json:"ms,omitempty"`
}

type NScript struct {
	Link  wire.Config `json:"link"`
	Steps []NStep     `json:"steps"`
}

func genNested(rt *rapid.T) NScript {
	s := NScript{Link: rapid.SampledFrom([]wire.Config{
		{Kind: wire.InMem}, {Kind: wire.Pipe}, {Kind: wire.SSE},
		{Kind: wire.Stateful}, {Kind: wire.Stateful, NoStandalone: true}, {Kind: wire.Stateful, NoStandalone: true, Store: true}, {Kind: wire.Stateful, Store: true},
	}).Draw(rt, "link")}
	n := rapid.IntRange(2, 16).Draw(rt, "n")
	calls := 0
	for i := 0; i < n; i++ {
		kinds := []string{"call", "call", "cancel", "cancel", "release", "sleep"}
		if calls >= 5 {
			kinds = kinds[2:]
		}
		st := NStep{Kind: rapid.SampledFrom(kinds).Draw(rt, "kind"), I: rapid.IntRange(0, 4).Draw(rt, "i")}
		if st.Kind == "call" {
			calls++
			st.Hold = rapid.IntRange(0, 2).Draw(rt, "hold") > 0
		}
		if st.Kind == "sleep" {
			st.Ms = rapid.SampledFrom([]int{1, 4999, 5001}).Draw(rt, "ms")
		}
		s.Steps = append(s.Steps, st)
	}
	return s
}

type nrec struct {
	k            int
	outerDone    chan struct{}
	outerText    string
	outerErr     error
	innerCancel  context.CancelFunc
	innerStarted bool // the nested call has been issued by the relay handler
	innerRet     bool
	innerErr     error
	innerRetAt   time.Time
	cancelled    bool
	cancelledAt  time.Time
	released     bool
	peerStarted  bool // the client's sampling handler runs
	peerDone     bool // ... and saw its context cancelled
	peerFinished bool
	hold         bool
}

func runNested(s NScript) (res vt.Result) {
	if p := vt.Bubble(theT, func() { res = runNestedInBubble(s) }); p != "" {
		if stuckInSession(p) {
			res.Failf("bubble did not end cleanly: %s", p)
		} else {
			res.Class("teardown_leftover")
		}
	}
	return res
}

func runNestedInBubble(s NScript) (res vt.Result) {
	var mu sync.Mutex
	var recs []*nrec
	gates := map[int]chan struct{}{}
	gate := func(k int) chan struct{} {
		mu.Lock()
		defer mu.Unlock()
		if gates[k] == nil {
			gates[k] = make(chan struct{})
		}
		return gates[k]
	}
	server := mcp.NewServer(&mcp.Implementation{Name: "srv", Version: "1"}, nil)
	mcp.AddTool(server, &mcp.Tool{Name: "relay"}, func(ctx context.Context, req *mcp.CallToolRequest, in toolIn) (*mcp.CallToolResult, any, error) {
		ictx, cancel := context.WithCancel(ctx)
		mu.Lock()
		r := recs[in.K]
		r.innerCancel, r.innerStarted = cancel, true
		mu.Unlock()
		_, err := req.Session.CreateMessage(ictx, &mcp.CreateMessageParams{MaxTokens: 1, Messages: []*mcp.SamplingMessage{{Role: "user", Content: &mcp.TextContent{Text: fmt.Sprint(in.K)}}}})
		mu.Lock()
		r.innerRet, r.innerErr, r.innerRetAt = true, err, time.Now()
		hold := r.hold
		mu.Unlock()
		if hold {
			select {
			case <-gate(1000 + in.K): // stays inside its request until the script releases it
			case <-ctx.Done():
			}
		}
		return &mcp.CallToolResult{Content: []mcp.Content{&mcp.TextContent{Text: fmt.Sprintf("relay-%d", in.K)}}}, nil, nil
	})
	client := mcp.NewClient(&mcp.Implementation{Name: "cli", Version: "1"}, &mcp.ClientOptions{
		CreateMessageHandler: func(ctx context.Context, req *mcp.CreateMessageRequest) (*mcp.CreateMessageResult, error) {
			k := 0
			fmt.Sscan(req.Params.Messages[0].Content.(*mcp.TextContent).Text, &k)
			mu.Lock()
			r := recs[k]
			r.peerStarted = true
			mu.Unlock()
			select {
			case <-gate(k):
			case <-ctx.Done():
				mu.Lock()
				r.peerDone = true
				mu.Unlock()
			}
			mu.Lock()
			r.peerFinished = true
			mu.Unlock()
			return &mcp.CreateMessageResult{Content: &mcp.TextContent{Text: "x"}, Model: "m", Role: "assistant"}, nil
		},
	})
	link, err := wire.New(server, s.Link)
	if err != nil {
		res.Failf("harness: %v", err)
		return
	}
	bg := context.Background()
	var cs *mcp.ClientSession
	cerr := make(chan error, 1)
	go func() {
		var e error
		cs, e = client.Connect(bg, link.ClientTransport, &mcp.ClientSessionOptions{ProtocolVersion: "2025-06-18"})
		cerr <- e
	}()
	synctest.Wait()
	select {
	case e := <-cerr:
		if e != nil {
			res.Failf("harness: connect: %v", e)
			return
		}
	default:
		res.Failf("harness: connect did not return")
		return
	}
	defer func() {
		mu.Lock()
		for _, r := range recs {
			if r.innerCancel != nil {
				r.innerCancel()
			}
		}
		mu.Unlock()
		for k := 0; k < 16; k++ {
			for _, g := range []int{k, 1000 + k} {
				select {
				case <-gate(g):
				default:
					close(gate(g))
				}
			}
		}
		synctest.Wait()
		cs.Close()
		for x := range server.Sessions() {
			go x.Close()
		}
		synctest.Wait()
		time.Sleep(30 * time.Second)
		synctest.Wait()
	}()
	isDone := func(r *nrec) bool {
		select {
		case <-r.outerDone:
			return true
		default:
			return false
		}
	}
	var desc strings.Builder
	cancelledN := 0
	checkOnce := func(step int, final bool) (retry bool) { // final: see promptGrace
		mu.Lock()
		defer mu.Unlock()
		for _, r := range recs {
			if r.cancelled {
				if !r.innerRet {
					res.Failf("step %d: nested call %d was cancelled at t=%v but has not returned", step, r.k, r.cancelledAt.Format("05.000"))
					continue
				}
				if d := r.innerRetAt.Sub(r.cancelledAt); d > promptGrace {
					res.Failf("step %d: nested call %d returned %v after its cancellation", step, r.k, d)
				}
				if r.innerErr == nil || !errors.Is(r.innerErr, context.Canceled) {
					if !r.released {
						res.Failf("step %d: cancelled nested call %d returned %v, want context.Canceled", step, r.k, r.innerErr)
					}
				}
				// If the relay handler has already answered its own request and the client holds no standalone
				// stream, no channel to the client is left for the notice: nothing is required then.
				reachable := r.hold || !s.Link.NoStandalone || s.Link.Kind != wire.Stateful
				if r.peerStarted && !r.peerFinished && reachable && !final {
					retry = true
					continue
				}
				if r.peerStarted && !r.peerFinished && reachable {
					res.Failf("step %d: nested call %d was cancelled on a healthy link but the peer's handler for it is still parked with a live context (link %s)", step, r.k, s.Link)
				}
				if !isDone(r) && !r.hold {
					res.Failf("step %d: the outer call %d has not returned although its nested call was cancelled", step, r.k)
				}
			} else {
				if r.peerDone {
					res.Failf("step %d: the peer handler of nested call %d saw its context cancelled although that call was never cancelled", step, r.k)
				}
				if r.innerRet && r.innerErr != nil {
					res.Failf("step %d: nested call %d was never cancelled but failed: %v", step, r.k, r.innerErr)
				}
				if r.released && r.innerRet && !isDone(r) {
					res.Failf("step %d: call %d was released but has not returned", step, r.k)
				}
			}
			if isDone(r) && (r.outerErr != nil || r.outerText != fmt.Sprintf("relay-%d", r.k)) {
				res.Failf("step %d: outer call %d returned (%q, %v), want its own answer", step, r.k, r.outerText, r.outerErr)
			}
		}
		return retry
	}
	check := func(step int) {
		if checkOnce(step, false) && len(res.Violations) == 0 {
			time.Sleep(promptGrace)
			synctest.Wait()
			checkOnce(step, true)
		}
	}
	for i, st := range s.Steps {
		switch st.Kind {
		case "call":
			mu.Lock()
			r := &nrec{k: len(recs), outerDone: make(chan struct{}), hold: st.Hold}
			recs = append(recs, r)
			mu.Unlock()
			go func() {
				cr, err := cs.CallTool(bg, &mcp.CallToolParams{Name: "relay", Arguments: map[string]any{"k": r.k}})
				mu.Lock()
				r.outerErr = err
				if err == nil && len(cr.Content) == 1 {
					r.outerText = cr.Content[0].(*mcp.TextContent).Text
				}
				mu.Unlock()
				close(r.outerDone)
			}()
			desc.WriteString("C")
		case "cancel", "release":
			mu.Lock()
			var fl []*nrec
			for _, r := range recs {
				if !isDone(r) && r.innerStarted {
					fl = append(fl, r)
				}
			}
			if len(fl) > 0 {
				r := fl[st.I%len(fl)]
				if st.Kind == "cancel" {
					if !r.cancelled && !r.innerRet {
						r.cancelled, r.cancelledAt = true, time.Now()
						cancelledN++
					}
					r.innerCancel()
					desc.WriteString("x")
				} else {
					r.released = true
					desc.WriteString("r")
				}
				k := r.k
				if st.Kind == "release" {
					mu.Unlock()
					for _, g := range []int{k, 1000 + k} {
						select {
						case <-gate(g):
						default:
							close(gate(g))
						}
					}
					mu.Lock()
				}
			}
			mu.Unlock()
		case "sleep":
			time.Sleep(time.Duration(st.Ms) * time.Millisecond)
			desc.WriteString("s")
		}
		synctest.Wait()
		check(i)
		if len(res.Violations) > 0 {
			break
		}
	}
	if len(res.Violations) == 0 {
		mu.Lock()
		for _, r := range recs {
			r.released = true
		}
		mu.Unlock()
		for k := 0; k < 16; k++ {
			for _, g := range []int{k, 1000 + k} {
				select {
				case <-gate(g):
				default:
					close(gate(g))
				}
			}
		}
		synctest.Wait()
		check(len(s.Steps))
	}
	res.Desc = "nested|" + s.Link.String() + "|" + desc.String()
	res.NonTrivial = len(recs) >= 2 && cancelledN >= 1 && cancelledN < len(recs)
	res.Class("nested_link_" + s.Link.Kind)
	if s.Link.NoStandalone {
		res.Class("nested_no_standalone_stream")
	}
	return res
}

var nestedProp = vt.Register(&vt.Prop[NScript]{Property: "C04", Name: "nested", Gen: genNested, Run: runNested})

func TestC04_Nested(t *testing.T) { theT = t; nestedProp.Check(t) }
