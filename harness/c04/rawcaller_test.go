package c04

// Arrangement C (prop "rawcaller"): the caller is a raw ndjson peer that picks its own JSON-RPC ids
// (small and huge integers, strings that look like numbers) and cancels calls by id; the answering side is
// a real SDK server with parked tool handlers. Cancelling id X must cancel the handler of exactly the
// request that carried id X - the same JSON type and the exact integer value - and nobody else's.

import (
	"context"
	"fmt"
	"strings"
	"sync"
	"testing"
	"testing/synctest"
	"time"

	"github.com/modelcontextprotocol/go-sdk/mcp"
	"github.com/modelcontextprotocol/go-sdk/verif/memio"
	"github.com/modelcontextprotocol/go-sdk/verif/vt"
	"pgregory.net/rapid"
)

var rawIDs = []string{"1", "2", "3", "9007199254740991", "9007199254740992", "9007199254740993", "9007199254740994", "-9007199254740993", "9223372036854775807", "9223372036854775806",
	`"1"`, `"2"`, `"9007199254740993"`, `"a"`, `""`}

type RStep struct {
	Kind string `json:"kind"` // call cancel release
	ID   int    `json:"id,omitempty"`
	I    int    `json:"i,omitempty"`
}

type RScript struct {
	Steps []RStep `json:"steps"`
}

func genRaw(rt *rapid.T) RScript {
	var s RScript
	n := rapid.IntRange(2, 16).Draw(rt, "n")
	for i := 0; i < n; i++ {
		st := RStep{Kind: rapid.SampledFrom([]string{"call", "call", "call", "cancel", "cancel", "release"}).Draw(rt, "kind")}
		st.ID = rapid.IntRange(0, len(rawIDs)-1).Draw(rt, "id")
		st.I = rapid.IntRange(0, 7).Draw(rt, "i")
		s.Steps = append(s.Steps, st)
	}
	return s
}

func runRaw(s RScript) (res vt.Result) {
	if p := vt.Bubble(theT, func() { res = runRawInBubble(s) }); p != "" {
		res.Class("teardown_leftover")
	}
	return res
}

type rawCall struct {
	k         int
	tok       string
	cancelled bool // the script cancelled it
	released  bool
	started   bool
	ctxDone   bool
	finished  bool
}

func runRawInBubble(s RScript) (res vt.Result) {
	var mu sync.Mutex
	var calls []*rawCall
	gates := map[int]chan struct{}{}
	gate := func(k int) chan struct{} {
		mu.Lock()
		defer mu.Unlock()
		if gates[k] == nil {
			gates[k] = make(chan struct{})
		}
		return gates[k]
	}
	server := mcp.NewServer(&mcp.Implementation{Name: "srv", Version: "1"}, nil)
	mcp.AddTool(server, &mcp.Tool{Name: "park"}, func(ctx context.Context, req *mcp.CallToolRequest, in toolIn) (*mcp.CallToolResult, any, error) {
		mu.Lock()
		var c *rawCall
		if in.K < len(calls) {
			c = calls[in.K]
			c.started = true
		}
		mu.Unlock()
		select {
		case <-gate(in.K):
		case <-ctx.Done():
			mu.Lock()
			if c != nil {
				c.ctxDone = true
			}
			mu.Unlock()
		}
		mu.Lock()
		if c != nil {
			c.finished = true
		}
		mu.Unlock()
		return &mcp.CallToolResult{Content: []mcp.Content{&mcp.TextContent{Text: "ok"}}}, nil, nil
	})
	a, b := memio.NewPipe()
	ss, err := server.Connect(context.Background(), &mcp.IOTransport{Reader: a, Writer: a}, nil)
	if err != nil {
		res.Failf("harness: %v", err)
		return
	}
	peer := memio.NewRawPeer(b)
	defer func() {
		for k := 0; k < 32; k++ {
			select {
			case <-gate(k):
			default:
				close(gate(k))
			}
		}
		synctest.Wait()
		peer.Close()
		ss.Close()
	}()
	peer.Send(`{"jsonrpc":"2.0","id":"hs","method":"initialize","params":{"protocolVersion":"2025-06-18","capabilities":{},"clientInfo":{"name":"raw","version":"0"}}}`)
	synctest.Wait()
	peer.Send(`{"jsonrpc":"2.0","method":"notifications/initialized"}`)
	synctest.Wait()

	inflight := func() []*rawCall {
		mu.Lock()
		defer mu.Unlock()
		var out []*rawCall
		for _, c := range calls {
			if !c.finished {
				out = append(out, c)
			}
		}
		return out
	}
	var desc strings.Builder
	cancels, big := 0, false
	checkOnce := func(step int, final bool) (retry bool) { // final: see promptGrace
		mu.Lock()
		defer mu.Unlock()
		for _, c := range calls {
			if c.cancelled && c.started && !c.finished && !final {
				retry = true
				continue
			}
			if c.cancelled && c.started && !c.finished {
				res.Failf("step %d: the call with id %s was cancelled by its caller, but its handler is still parked with a live context", step, c.tok)
			}
			if !c.cancelled && c.ctxDone {
				res.Failf("step %d: the handler of the call with id %s saw its context cancelled although that id was never cancelled (the cancellation of another id hit it)", step, c.tok)
			}
		}
		return retry
	}
	check := func(step int) {
		if checkOnce(step, false) && len(res.Violations) == 0 {
			time.Sleep(promptGrace)
			synctest.Wait()
			checkOnce(step, true)
		}
	}
	for i, st := range s.Steps {
		switch st.Kind {
		case "call":
			tok := rawIDs[st.ID%len(rawIDs)]
			used := false
			for _, c := range inflight() {
				if c.tok == tok {
					used = true
				}
			}
			if used || len(calls) >= 10 {
				desc.WriteString("-")
				break
			}
			mu.Lock()
			c := &rawCall{k: len(calls), tok: tok}
			calls = append(calls, c)
			mu.Unlock()
			peer.Send(fmt.Sprintf(`{"jsonrpc":"2.0","id":%s,"method":"tools/call","params":{"name":"park","arguments":{"k":%d}}}`, tok, c.k))
			if len(tok) > 15 && tok[0] != '"' {
				big = true
			}
			desc.WriteString("C" + tok + ",")
		case "cancel":
			fl := inflight()
			if len(fl) == 0 {
				desc.WriteString("-")
				break
			}
			c := fl[st.I%len(fl)]
			mu.Lock()
			c.cancelled = true
			mu.Unlock()
			cancels++
			peer.Send(fmt.Sprintf(`{"jsonrpc":"2.0","method":"notifications/cancelled","params":{"requestId":%s,"reason":"caller gave up"}}`, c.tok))
			desc.WriteString("x" + c.tok + ",")
		case "release":
			fl := inflight()
			if len(fl) == 0 {
				desc.WriteString("-")
				break
			}
			c := fl[st.I%len(fl)]
			mu.Lock()
			c.released = true
			mu.Unlock()
			select {
			case <-gate(c.k):
			default:
				close(gate(c.k))
			}
			desc.WriteString("r")
		}
		synctest.Wait()
		check(i)
		if len(res.Violations) > 0 {
			break
		}
	}
	if len(res.Violations) == 0 {
		if ended, err := peer.Ended(); ended {
			res.Failf("the server closed the connection: %v", err)
		}
	}
	res.Desc = desc.String()
	res.NonTrivial = cancels > 0 && len(calls) >= 2
	if big {
		res.Class("ids_beyond_2^53")
	}
	if cancels > 0 {
		res.Class("cancelled_by_id")
	}
	return res
}

var rawProp = vt.Register(&vt.Prop[RScript]{Property: "C04", Name: "rawcaller", Gen: genRaw, Run: runRaw})

func TestC04_RawCaller(t *testing.T) { theT = t; rawProp.Check(t) }
