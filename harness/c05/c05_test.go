// Package c05 decides property C05: Close is graceful, terminates and leaves
// nothing running. Real Client and Server over an in-memory byte pipe whose
// ends can fail or vanish at scripted points; handlers park on gates; every
// Close/Wait call is observed; the bubble must end with no goroutine left.
package c05

import (
	"context"
	"encoding/json"
	"errors"
	"fmt"
	"math"
	"strings"
	"sync"
	"sync/atomic"
	"testing"
	"testing/synctest"
	"time"

	"github.com/modelcontextprotocol/go-sdk/internal/jsonrpc2"
	"github.com/modelcontextprotocol/go-sdk/jsonrpc"
	"github.com/modelcontextprotocol/go-sdk/mcp"
	"github.com/modelcontextprotocol/go-sdk/verif/memio"
	"github.com/modelcontextprotocol/go-sdk/verif/vt"
	"pgregory.net/rapid"
)

func TestMain(m *testing.M) { vt.Main(m) }

type Step struct {
	Kind   string `json:"kind"`           // ccall scall nested notify snotify release close wait fail vanish late sleep rejectnotes badnotify sub unsub
	Side   string `json:"side,omitempty"` // close/fail/vanish/late: client | server
	I      int    `json:"i,omitempty"`
	NoWait bool   `json:"nowait,omitempty"`
}

type Script struct {
	// Modern: the client negotiates 2026-07-28 and, having a list-changed handler, keeps a
	// subscriptions/listen request parked on the server for the whole session.
	Modern      bool   `json:"modern,omitempty"`
	KeepAliveMs int    `json:"keepalive_ms"` // server keep-alive (0: off)
	Steps       []Step `json:"steps"`
}

func genScript(rt *rapid.T, race bool) Script {
	var s Script
	s.KeepAliveMs = rapid.SampledFrom([]int{0, 0, 50, 1000}).Draw(rt, "ka")
	s.Modern = rapid.IntRange(0, 3).Draw(rt, "modern") == 0
	n := rapid.IntRange(1, 30).Draw(rt, "n")
	for i := 0; i < n; i++ {
		st := Step{Kind: rapid.SampledFrom([]string{"ccall", "ccall", "scall", "nested", "nested", "notify", "snotify", "release", "release", "close", "close", "close", "wait", "fail", "fail", "vanish", "late", "late", "latenotify", "sleep", "rejectnotes", "halfvanish", "badnotify", "sub", "sub", "unsub", "dupid"}).Draw(rt, "kind")}
		st.Side = rapid.SampledFrom([]string{"client", "server"}).Draw(rt, "side")
		st.I = rapid.IntRange(0, 7).Draw(rt, "i")
		if race {
			st.NoWait = rapid.IntRange(0, 2).Draw(rt, "nowait") == 0
		}
		s.Steps = append(s.Steps, st)
	}
	// a shape generated on purpose (2026-07-28 sessions, where every subscription is a request parked on the
	// server): several subscriptions opened, some of them ended in a generated order, then a Close
	if k := rapid.IntRange(0, 5).Draw(rt, "sub_macro"); k == 0 || (race && k == 1) {
		s.Modern = true
		order := rapid.Permutation([]int{0, 1, 2, 3}).Draw(rt, "sub_order")
		nsub := rapid.IntRange(2, 4).Draw(rt, "nsub")
		var macro []Step
		for _, r := range order[:nsub] {
			// (race variant: a subscription may still be on its way when the next step is taken)
			macro = append(macro, Step{Kind: "sub", I: r, NoWait: race && rapid.IntRange(0, 2).Draw(rt, "sub_nowait") == 0})
		}
		ends := rapid.Permutation(order[:nsub]).Draw(rt, "unsub_order")
		for _, r := range ends[:rapid.IntRange(1, nsub).Draw(rt, "nunsub")] {
			macro = append(macro, Step{Kind: "unsub", I: r})
		}
		macro = append(macro, Step{Kind: "close", Side: rapid.SampledFrom([]string{"server", "server", "client"}).Draw(rt, "macro_close")})
		if race && rapid.Bool().Draw(rt, "close_during_subscribe") {
			// a Close that starts while a Subscribe is still on its way
			macro = []Step{{Kind: "sub", I: order[0], NoWait: true}, {Kind: "close", Side: rapid.SampledFrom([]string{"client", "client", "server"}).Draw(rt, "cds_side")}}
		}
		pos := rapid.IntRange(0, min(len(s.Steps), 5)).Draw(rt, "macro_pos")
		s.Steps = append(s.Steps[:pos:pos], append(macro, s.Steps[pos:]...)...)
	}
	return s
}

// faultTransport wraps a transport so that, on command, the connection refuses notifications this side
// writes with a per-message rejection (an error wrapping jsonrpc2.ErrRejected, which by contract does not
// break the connection): a write failure that can hit, for instance, the notifications/cancelled Close sends
// for its parked calls.
type faultTransport struct {
	inner  mcp.Transport
	reject *atomic.Bool
	conn   *faultConn // the connection made by Connect
}

func (t *faultTransport) Connect(ctx context.Context) (mcp.Connection, error) {
	c, err := t.inner.Connect(ctx)
	if err != nil {
		return nil, err
	}
	t.conn = &faultConn{Connection: c, reject: t.reject}
	return t.conn, nil
}

type faultConn struct {
	mcp.Connection
	reject *atomic.Bool
	mu     sync.Mutex
	calls  []jsonrpc.ID // ids of the calls this side has written, in order
}

func (c *faultConn) Write(ctx context.Context, msg jsonrpc.Message) error {
	if r, ok := msg.(*jsonrpc.Request); ok && !r.IsCall() && c.reject.Load() {
		return fmt.Errorf("%w: scripted rejection of notification %s", jsonrpc2.ErrRejected, r.Method)
	}
	if r, ok := msg.(*jsonrpc.Request); ok && r.IsCall() {
		c.mu.Lock()
		c.calls = append(c.calls, r.ID)
		c.mu.Unlock()
	}
	return c.Connection.Write(ctx, msg)
}

// writeDuplicate puts a tools/call on the wire that re-uses the id of the i-th most recent call of this side,
// as a peer with a faulty id allocator does (the session layer above knows nothing of it).
func (c *faultConn) writeDuplicate(i, k int) error {
	c.mu.Lock()
	if len(c.calls) == 0 {
		c.mu.Unlock()
		return nil
	}
	id := c.calls[len(c.calls)-1-i%len(c.calls)]
	c.mu.Unlock()
	return c.Connection.Write(context.Background(), &jsonrpc.Request{ID: id, Method: "tools/call", Params: json.RawMessage(fmt.Sprintf(`{"name":"park","arguments":{"k":%d,"nested":false}}`, k))})
}

type handlerRec struct {
	side       string // where the handler runs
	k          int
	startClock int
	endClock   int
	ctxDone    bool
	ended      bool
}

type world struct {
	mu              sync.Mutex
	clock           int
	hs              []*handlerRec
	gates           map[int]chan struct{}
	closeCallClock  map[string]int // side -> clock when Close was first called (0: never)
	closeQuiesced   map[string]int // side -> clock after the step that called Close reached quiescence
	transportClosed map[string]int // side -> clock when the SDK closed its transport end
	broken          bool           // a fault was injected (fail/vanish): contexts may legitimately be cancelled
	vanished        bool           // the link is gone in both directions (an end of the pipe was closed)
}

func (w *world) tick() int { w.clock++; return w.clock }

func (w *world) gate(k int) chan struct{} {
	w.mu.Lock()
	defer w.mu.Unlock()
	if w.gates[k] == nil {
		w.gates[k] = make(chan struct{})
	}
	return w.gates[k]
}

func (w *world) handle(ctx context.Context, side string, k int) {
	w.mu.Lock()
	h := &handlerRec{side: side, k: k, startClock: w.tick()}
	w.hs = append(w.hs, h)
	w.mu.Unlock()
	select {
	case <-w.gate(k):
	case <-ctx.Done():
		w.mu.Lock()
		h.ctxDone = true
		w.mu.Unlock()
	}
	w.mu.Lock()
	h.endClock, h.ended = w.tick(), true
	w.mu.Unlock()
}

type in struct {
	K      int  `json:"k"`
	Nested bool `json:"nested"`
}

var theT *testing.T

func run(s Script) (res vt.Result) {
	if p := vt.Bubble(theT, func() { res = runInBubble(s) }); p != "" {
		res.Failf("after every handler was released and both sides were closed the bubble did not end cleanly (Close/Wait blocked for ever, or a goroutine/timer was left behind): %s", p)
	}
	return res
}

func runInBubble(s Script) (res vt.Result) {
	// Open finding F12: one-directional write failure + nested call = shutdown deadlock. While it is
	// open, scripts containing a nested call have their "fail" steps turned into "vanish" (both directions die).
	if vt.Open("F12") {
		hasNested := false
		for _, st := range s.Steps {
			if st.Kind == "nested" {
				hasNested = true
			}
		}
		if hasNested {
			steps := append([]Step(nil), s.Steps...)
			for i := range steps {
				if steps[i].Kind == "fail" {
					steps[i].Kind = "vanish"
					vt.Excluded("F12")
				}
			}
			s.Steps = steps
		}
	}
	w := &world{gates: map[int]chan struct{}{}, closeCallClock: map[string]int{}, closeQuiesced: map[string]int{}, transportClosed: map[string]int{}}
	bg := context.Background()
	var ss *mcp.ServerSession
	server := mcp.NewServer(&mcp.Implementation{Name: "srv", Version: "1"}, &mcp.ServerOptions{
		KeepAlive:                   time.Duration(s.KeepAliveMs) * time.Millisecond,
		KeepAliveFailureThreshold:   3,
		ProgressNotificationHandler: func(ctx context.Context, r *mcp.ProgressNotificationServerRequest) {},
		SubscribeHandler:            func(context.Context, *mcp.SubscribeRequest) error { return nil },
		UnsubscribeHandler:          func(context.Context, *mcp.UnsubscribeRequest) error { return nil },
	})
	for r := 0; r < 4; r++ {
		uri := fmt.Sprintf("file:///r%d", r)
		server.AddResource(&mcp.Resource{URI: uri, Name: fmt.Sprintf("r%d", r)}, func(context.Context, *mcp.ReadResourceRequest) (*mcp.ReadResourceResult, error) {
			return &mcp.ReadResourceResult{Contents: []*mcp.ResourceContents{{URI: uri, Text: "x"}}}, nil
		})
	}
	mcp.AddTool(server, &mcp.Tool{Name: "park"}, func(ctx context.Context, req *mcp.CallToolRequest, a in) (*mcp.CallToolResult, any, error) {
		if a.Nested {
			// a handler that itself calls the peer and waits for the answer
			_, err := req.Session.CreateMessage(ctx, &mcp.CreateMessageParams{MaxTokens: 1, Messages: []*mcp.SamplingMessage{{Role: "user", Content: &mcp.TextContent{Text: fmt.Sprint(a.K + 100)}}}})
			_ = err
		}
		w.handle(ctx, "server", a.K)
		return &mcp.CallToolResult{Content: []mcp.Content{&mcp.TextContent{Text: "ok"}}}, nil, nil
	})
	var listChanged func(context.Context, *mcp.ToolListChangedRequest)
	if s.Modern {
		listChanged = func(context.Context, *mcp.ToolListChangedRequest) {}
	}
	client := mcp.NewClient(&mcp.Implementation{Name: "cli", Version: "1"}, &mcp.ClientOptions{
		ToolListChangedHandler:      listChanged,
		ProgressNotificationHandler: func(ctx context.Context, r *mcp.ProgressNotificationClientRequest) {},
		CreateMessageHandler: func(ctx context.Context, req *mcp.CreateMessageRequest) (*mcp.CreateMessageResult, error) {
			k := 0
			if tc, ok := req.Params.Messages[0].Content.(*mcp.TextContent); ok {
				fmt.Sscan(tc.Text, &k)
			}
			w.handle(ctx, "client", k)
			return &mcp.CreateMessageResult{Content: &mcp.TextContent{Text: "x"}, Model: "m", Role: "assistant"}, nil
		},
	})
	// late requests are recognised by the receiving middleware: ping is never sent by anything else here
	// except keep-alive (server->client), which we exclude by only counting pings the script sent.
	lateStarted := map[string]int{}
	var rootsNotified atomic.Int32 // roots changes the Client passed to the sending side of one of its sessions
	mw := func(side string) mcp.Middleware {
		return func(next mcp.MethodHandler) mcp.MethodHandler {
			return func(ctx context.Context, method string, req mcp.Request) (mcp.Result, error) {
				if method == "tools/list" || method == "roots/list" || method == "notifications/progress" {
					w.mu.Lock()
					lateStarted[side] = w.tick()
					w.mu.Unlock()
				}
				return next(ctx, method, req)
			}
		}
	}
	server.AddReceivingMiddleware(mw("server"))
	client.AddReceivingMiddleware(mw("client"))
	// A sending middleware that takes a moment (1 ms, virtual) on the way back from a subscriptions/listen
	// request, as a tracing or metrics layer does: a Close started meanwhile meets a subscription that is
	// already on the wire but has not been handed back to its caller.
	client.AddSendingMiddleware(func(next mcp.MethodHandler) mcp.MethodHandler {
		return func(ctx context.Context, method string, req mcp.Request) (mcp.Result, error) {
			if method == "notifications/roots/list_changed" {
				// the Client tells every session it still lists about a roots change
				rootsNotified.Add(1)
			}
			out, err := next(ctx, method, req)
			if method == "subscriptions/listen" {
				time.Sleep(time.Millisecond)
			}
			return out, err
		}
	})

	a, b := memio.NewPipe() // a: server end, b: client end
	a.OnClose = func() { w.mu.Lock(); w.transportClosed["server"] = w.tick(); w.mu.Unlock() }
	b.OnClose = func() { w.mu.Lock(); w.transportClosed["client"] = w.tick(); w.mu.Unlock() }
	var err error
	rejectNotes := map[string]*atomic.Bool{"client": new(atomic.Bool), "server": new(atomic.Bool)}
	ss, err = server.Connect(bg, &faultTransport{inner: &mcp.IOTransport{Reader: a, Writer: a}, reject: rejectNotes["server"]}, nil)
	if err != nil {
		res.Failf("harness: %v", err)
		return
	}
	var cs *mcp.ClientSession
	clientFT := &faultTransport{inner: &mcp.IOTransport{Reader: b, Writer: b}, reject: rejectNotes["client"]}
	dups := 0
	cerr := make(chan error, 1)
	go func() {
		var e error
		opts := &mcp.ClientSessionOptions{ProtocolVersion: "2025-06-18"}
		if s.Modern {
			opts = nil
		}
		cs, e = client.Connect(bg, clientFT, opts)
		cerr <- e
	}()
	connected := false
	for i := 0; i < 120 && !connected; i++ { // Connect may take virtual time; only "never" fails the set-up
		synctest.Wait()
		select {
		case e := <-cerr:
			if e != nil {
				res.Failf("harness: connect: %v", e)
				return
			}
			connected = true
		default:
			time.Sleep(time.Second)
		}
	}
	if !connected {
		res.Failf("harness: connect did not return")
		return
	}
	// (self-check of the observation used at the end: a roots change is passed to the live session)
	client.AddRoots(&mcp.Root{URI: "file:///added-while-connected", Name: "early"})
	synctest.Wait()
	membershipObservable := rootsNotified.Load() == 1

	type blocker struct {
		what string
		done chan struct{}
		err  error
	}
	var blockers []*blocker // every Close / Wait / call the script started
	start := func(what string, f func() error) *blocker {
		bl := &blocker{what: what, done: make(chan struct{})}
		blockers = append(blockers, bl)
		go func() { bl.err = f(); close(bl.done) }()
		return bl
	}
	start("server Wait", ss.Wait)
	start("client Wait", cs.Wait)
	closeOf := map[string]func() error{"client": cs.Close, "server": ss.Close}
	ends := map[string]*memio.End{"client": b, "server": a}

	var desc strings.Builder
	nt := false
	calls := 0
	pendingQuiesce := map[string]bool{}
	running := func() int {
		w.mu.Lock()
		defer w.mu.Unlock()
		n := 0
		for _, h := range w.hs {
			if !h.ended {
				n++
			}
		}
		return n
	}

	for i, st := range s.Steps {
		switch st.Kind {
		case "ccall", "nested":
			if calls >= 8 {
				break
			}
			k := calls
			calls++
			nested := st.Kind == "nested"
			start(fmt.Sprintf("client call %d", k), func() error {
				_, err := cs.CallTool(bg, &mcp.CallToolParams{Name: "park", Arguments: map[string]any{"k": k, "nested": nested}})
				return err
			})
			desc.WriteString(map[bool]string{false: "c", true: "n"}[nested])
		case "scall":
			if calls >= 8 {
				break
			}
			k := calls
			calls++
			start(fmt.Sprintf("server call %d", k), func() error {
				_, err := ss.CreateMessage(bg, &mcp.CreateMessageParams{MaxTokens: 1, Messages: []*mcp.SamplingMessage{{Role: "user", Content: &mcp.TextContent{Text: fmt.Sprint(k)}}}})
				return err
			})
			desc.WriteString("s")
		case "notify":
			start("client notify", func() error {
				return cs.NotifyProgress(bg, &mcp.ProgressNotificationParams{ProgressToken: "p", Progress: 1})
			})
			desc.WriteString("p")
		case "sub", "unsub": // resource subscriptions: on a 2026-07-28 session each one is a subscriptions/listen request parked on the server
			uri := fmt.Sprintf("file:///r%d", st.I%4)
			if st.Kind == "sub" {
				start("client subscribe", func() error { return cs.Subscribe(bg, &mcp.SubscribeParams{URI: uri}) })
			} else {
				start("client unsubscribe", func() error { return cs.Unsubscribe(bg, &mcp.UnsubscribeParams{URI: uri}) })
			}
			res.Class("resource_subscriptions_come_and_go")
			desc.WriteString(st.Kind[:1] + "u")
		case "dupid": // the client's side of the wire carries a call that re-uses the id of an earlier, possibly still running call
			if clientFT.conn != nil && dups < 4 {
				dups++
				k := 100 + dups
				start("duplicate-id call written", func() error { clientFT.conn.writeDuplicate(st.I, k); return nil })
				res.Class("call_reusing_an_id_on_the_wire")
				desc.WriteString("D")
			}
		case "badnotify": // a notification whose params no JSON encoder can write (progress NaN): refused locally, nothing is sent
			if st.Side == "client" {
				start("client notify (unencodable)", func() error {
					return cs.NotifyProgress(bg, &mcp.ProgressNotificationParams{ProgressToken: "p", Progress: math.NaN()})
				})
			} else {
				start("server notify (unencodable)", func() error {
					return ss.NotifyProgress(bg, &mcp.ProgressNotificationParams{ProgressToken: "p", Progress: math.NaN()})
				})
			}
			res.Class("notification_that_cannot_be_encoded")
			desc.WriteString("b")
		case "snotify":
			start("server notify", func() error {
				return ss.NotifyProgress(bg, &mcp.ProgressNotificationParams{ProgressToken: "p", Progress: 1})
			})
			desc.WriteString("q")
		case "release":
			w.mu.Lock()
			var live []*handlerRec
			for _, h := range w.hs {
				if !h.ended {
					live = append(live, h)
				}
			}
			w.mu.Unlock()
			if len(live) > 0 {
				h := live[st.I%len(live)]
				select {
				case <-w.gate(h.k):
				default:
					close(w.gate(h.k))
				}
			}
			desc.WriteString("r")
		case "close":
			if running() > 0 {
				nt = true
			}
			for _, bl := range blockers {
				select {
				case <-bl.done:
				default:
					if strings.Contains(bl.what, "call") {
						nt = true
					}
				}
			}
			w.mu.Lock()
			if w.closeCallClock[st.Side] == 0 {
				w.closeCallClock[st.Side] = w.tick()
				pendingQuiesce[st.Side] = true
			}
			w.mu.Unlock()
			start(st.Side+" Close", closeOf[st.Side])
			desc.WriteString("K" + st.Side[:1])
		case "wait":
			if st.Side == "client" {
				start("client Wait", cs.Wait)
			} else {
				start("server Wait", ss.Wait)
			}
			desc.WriteString("w")
		case "fail": // writes of one side start failing
			ends[st.Side].FailWrites(errors.New("scripted write failure"))
			w.mu.Lock()
			w.broken = true
			w.mu.Unlock()
			desc.WriteString("F" + st.Side[:1])
		case "halfvanish": // the peer of st.Side closes only its output: st.Side reads EOF, its own writes are unaffected
			ends[map[string]string{"client": "server", "server": "client"}[st.Side]].CloseWrite()
			w.mu.Lock()
			w.broken = true
			w.mu.Unlock()
			desc.WriteString("H" + st.Side[:1])
		case "vanish": // the peer process is gone: its end of the pipe closes without any SDK Close
			other := map[string]string{"client": "server", "server": "client"}[st.Side]
			_ = other
			ends[st.Side].Close()
			w.mu.Lock()
			w.broken = true
			w.vanished = true
			w.mu.Unlock()
			desc.WriteString("V" + st.Side[:1])
		case "late": // the peer of st.Side sends a fresh request to st.Side
			if st.Side == "server" {
				start("late client request", func() error { _, err := cs.ListTools(bg, nil); return err })
			} else {
				start("late server request", func() error { _, err := ss.ListRoots(bg, nil); return err })
			}
			desc.WriteString("L" + st.Side[:1])
		case "latenotify": // the peer of st.Side sends a notification to st.Side
			if st.Side == "server" {
				start("late client notification", func() error {
					return cs.NotifyProgress(bg, &mcp.ProgressNotificationParams{ProgressToken: "l", Progress: 2})
				})
			} else {
				start("late server notification", func() error {
					return ss.NotifyProgress(bg, &mcp.ProgressNotificationParams{ProgressToken: "l", Progress: 2})
				})
			}
			desc.WriteString("M" + st.Side[:1])
		case "rejectnotes": // from now on the transport of st.Side refuses the notifications that side writes
			rejectNotes[st.Side].Store(true)
			desc.WriteString("R" + st.Side[:1])
		case "sleep":
			time.Sleep(time.Duration(10*(st.I+1)) * time.Millisecond)
			desc.WriteString("z")
		}
		if st.NoWait && i < len(s.Steps)-1 {
			continue
		}
		synctest.Wait()
		w.mu.Lock()
		for side := range pendingQuiesce {
			w.closeQuiesced[side] = w.tick()
		}
		pendingQuiesce = map[string]bool{}
		// (a) nothing is dispatched for a request that arrived after a local Close had quiesced
		for side, q := range w.closeQuiesced {
			if ls := lateStarted[side]; ls > q {
				res.Failf("step %d: a request or notification the peer sent after %s.Close() had been called (and quiesced) was dispatched to a handler", i, side)
			}
		}
		// (b) handlers that were running when Close was called are not cancelled by it, and the transport
		// is closed only after they returned (healthy link only)
		if !w.broken {
			for _, h := range w.hs {
				// (a cancellation is not blamed on the local Close once the peer has been asked to close as well: the
				// handler may be seeing the peer go away; the links arrangement has the same guard)
				pc := w.closeCallClock[map[string]string{"client": "server", "server": "client"}[h.side]]
				if cc := w.closeCallClock[h.side]; cc != 0 && h.startClock < cc {
					if h.ctxDone && !(pc != 0 && pc < h.endClock) {
						res.Failf("step %d: the %s handler %d was already running when %s.Close() was called and had its context cancelled by it", i, h.side, h.k, h.side)
					}
					if tc := w.transportClosed[h.side]; tc != 0 && (!h.ended || h.endClock > tc) {
						res.Failf("step %d: %s closed its transport while its handler %d was still running", i, h.side, h.k)
					}
				}
			}
		}
		// (d) once the link is gone in both directions nobody can cancel or be answered any more: the SDK
		// documents (jsonrpc2 readIncoming) that in-flight incoming requests are then cancelled, so that
		// handlers waiting on their context return. No handler may still be parked with a live context.
		// Narrowed to the situation in which shutdown could otherwise never finish by itself: a local Close is
		// already waiting for that handler (nobody is left who could cancel it or receive its answer). A handler
		// on a side nobody closed is simply still running; the property does not say the SDK must stop it.
		if w.vanished {
			for _, h := range w.hs {
				if w.closeCallClock[h.side] == 0 {
					continue
				}
				if !h.ended {
					res.Failf("step %d: the link is gone (an end of the pipe was closed) but the %s handler %d is still parked with a live context", i, h.side, h.k)
				}
			}
		}
		// (c) a Close call that has returned (any of them: Close is documented idempotent and concurrency
		// safe, "waiting for ongoing requests to return" and then terminating the connection) means the
		// handlers that were running have returned and the transport is closed (healthy link only)
		if !w.broken {
			for _, bl := range blockers {
				if !strings.HasSuffix(bl.what, " Close") {
					continue
				}
				select {
				case <-bl.done:
				default:
					continue
				}
				side := strings.TrimSuffix(bl.what, " Close")
				for _, h := range w.hs {
					if cc := w.closeCallClock[side]; h.side == side && cc != 0 && h.startClock < cc && !h.ended {
						res.Failf("step %d: a %s.Close() call returned while the %s handler %d, running since before Close was called, has not returned", i, side, side, h.k)
					}
				}
				if w.transportClosed[side] == 0 {
					res.Failf("step %d: a %s.Close() call returned although %s has not closed its transport", i, side, side)
				}
			}
		}
		w.mu.Unlock()
		if len(res.Violations) > 0 {
			break
		}
	}

	// ---- wind down: release every handler, close both sides, let timers run out ----
	synctest.Wait()
	for k := 0; k < 256; k++ {
		select {
		case <-w.gate(k):
		default:
			close(w.gate(k))
		}
	}
	synctest.Wait()
	time.Sleep(3 * time.Minute) // the property sets no deadline: generous
	synctest.Wait()
	// Every handler has returned by now: a Close the script issued must return on its own, whatever
	// the other side does (it must not need the peer to close first).
	for _, bl := range blockers {
		if strings.HasSuffix(bl.what, " Close") {
			select {
			case <-bl.done:
			default:
				res.Failf("%s has not returned although every handler has returned (it is waiting for the peer to go away)", bl.what)
			}
		}
	}
	start("final client Close", cs.Close)
	synctest.Wait()
	start("final server Close", ss.Close)
	synctest.Wait()
	time.Sleep(30 * time.Second)
	synctest.Wait()
	for _, bl := range blockers {
		select {
		case <-bl.done:
		default:
			res.Failf("%s never returned although all handlers were released and both sides closed", bl.what)
		}
	}
	n := 0
	for range server.Sessions() {
		n++
	}
	if n != 0 {
		res.Failf("the server still lists %d session(s) after the session was closed", n)
	}
	// "... and the session is removed from its Client": a Client tells every session it lists about a
	// roots change (the sending middleware above sees each of those sends). Once Close has returned the
	// session must not be among them any more.
	rootsNotified.Store(0)
	client.AddRoots(&mcp.Root{URI: "file:///added-after-close", Name: "late"})
	synctest.Wait()
	if !membershipObservable {
		res.Class("client_membership_not_observable")
	} else if k := rootsNotified.Load(); k != 0 {
		res.Failf("after ClientSession.Close had returned the Client still sent a roots change to %d session(s): the closed session was not removed from its Client", k)
	}
	w.mu.Lock()
	for side, tc := range w.transportClosed {
		_ = side
		_ = tc
	}
	for _, side := range []string{"client", "server"} {
		if w.transportClosed[side] == 0 {
			res.Failf("%s never closed its transport", side)
		}
	}
	w.mu.Unlock()
	res.Desc = fmt.Sprintf("%v|%d|%s", s.Modern, s.KeepAliveMs, desc.String())
	if s.Modern {
		res.Class("modern_with_parked_listen")
	}
	res.NonTrivial = nt
	d := desc.String()
	for _, c := range []struct{ sub, class string }{{"Kc", "client_close"}, {"Ks", "server_close"}, {"F", "write_failure"}, {"V", "peer_vanishes"}, {"L", "late_request"}, {"n", "nested_call"}, {"R", "notifications_rejected"}, {"H", "peer_output_closed"}} {
		if strings.Contains(d, c.sub) {
			res.Class(c.class)
		}
	}
	return res
}

var seqProp = vt.Register(&vt.Prop[Script]{Property: "C05", Name: "seq", Journal: true,
	Gen: func(rt *rapid.T) Script { return genScript(rt, false) }, Run: run})
var raceProp = vt.Register(&vt.Prop[Script]{Property: "C05", Name: "race", Journal: true,
	Gen: func(rt *rapid.T) Script { return genScript(rt, true) }, Run: run})

func TestC05_Seq(t *testing.T)  { theT = t; seqProp.Check(t) }
func TestC05_Race(t *testing.T) { theT = t; raceProp.Check(t) }
func TestReplay(t *testing.T)   { theT = t; vt.Replay(t) }
func TestRegress(t *testing.T)  { theT = t; vt.Regress(t, "C05") }
func TestKnown(t *testing.T)    { theT = t; vt.Known(t, "C05") }
