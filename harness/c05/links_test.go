package c05

// Links arrangement: C05 decided end to end, a real mcp.Client against a real mcp.Server over every link
// kind harness/wire offers (in-memory transports, io pipe, legacy SSE handler, stateful streamable HTTP in
// SSE and JSON response modes, with/without event store, with/without the standalone stream, stateless
// streamable HTTP). Sessions are closed at generated moments with traffic in flight in both directions.

import (
	"context"
	"fmt"
	"net/http"
	"regexp"
	"runtime"
	"sort"
	"strings"
	"sync"
	"sync/atomic"
	"testing"
	"testing/synctest"
	"time"

	"github.com/modelcontextprotocol/go-sdk/mcp"
	"github.com/modelcontextprotocol/go-sdk/verif/memhttp"
	"github.com/modelcontextprotocol/go-sdk/verif/memio"
	"github.com/modelcontextprotocol/go-sdk/verif/vt"
	"github.com/modelcontextprotocol/go-sdk/verif/wire"
	"pgregory.net/rapid"
)

type LStep struct {
	// ccall   client -> server tools/call; the handler (optionally after a nested call to the client) parks on a gate
	// scall   server -> client request made on a ServerSession outside any handler
	// cnotify / snotify   progress notifications
	// release the I-th parked handler returns
	// cclose / sclose     ClientSession.Close / ServerSession.Close (N goroutines at once)
	// sleep   advance virtual time
	// cut     the link dies (pipes: one end closes; HTTP: every later exchange fails and every open body is cut,
	//         or - Silent - stays open without ever carrying another byte from the client's point of view)
	Kind   string `json:"kind"`
	Nested string `json:"nested,omitempty"` // ccall: "", ping, roots, sample
	Method string `json:"method,omitempty"` // scall: ping, roots, sample
	Side   string `json:"side,omitempty"`   // cut on inmem/pipe: whose end vanishes
	Silent bool   `json:"silent,omitempty"` // cut on HTTP links: later exchanges fail but the open response bodies just stay silent (no reset)
	I      int    `json:"i,omitempty"`
	N      int    `json:"n,omitempty"` // close: 1 or 2 concurrent calls
	Ms     int    `json:"ms,omitempty"`
}

type LScript struct {
	Link    wire.Config `json:"link"`
	Version string      `json:"version,omitempty"` // ClientSessionOptions.ProtocolVersion ("" = latest)
	Listen  bool        `json:"listen,omitempty"`  // client has a tool-list-changed handler (2026-07-28: a subscriptions/listen stays parked)
	Steps   []LStep     `json:"steps"`
}

var linkConfigs = []wire.Config{
	{Kind: wire.Stateful}, {Kind: wire.Stateful, Store: true},
	{Kind: wire.SSE}, {Kind: wire.Stateless},
	{Kind: wire.Stateful, JSON: true}, {Kind: wire.Stateful, NoStandalone: true},
	{Kind: wire.Pipe}, {Kind: wire.InMem},
	{Kind: wire.Stateful, JSON: true, Store: true}, {Kind: wire.Stateful, NoStandalone: true, Store: true},
	{Kind: wire.Stateful, JSON: true, NoStandalone: true}, {Kind: wire.Stateless, JSON: true},
	{Kind: wire.SSE}, {Kind: wire.Pipe}, {Kind: wire.InMem}, // (listed twice: drawn more often)
}

// outsideOK: a request made on the ServerSession outside any handler can reach the client, or is refused at
// once. (Stateful + event store + no standalone stream: the request is stored for a stream nobody will ever
// open, so nobody can answer it; that is outside "the link supports it".)
func outsideOK(c wire.Config) bool {
	return !(c.Kind == wire.Stateful && c.NoStandalone && c.Store)
}

// nestedOK: a request made inside a request handler can reach the client or is refused at once.
func nestedOK(c wire.Config) bool {
	return !(c.Kind == wire.Stateful && c.JSON && c.NoStandalone && c.Store)
}

func genLinks(rt *rapid.T) LScript {
	var s LScript
	s.Link = rapid.SampledFrom(linkConfigs).Draw(rt, "link")
	s.Version = rapid.SampledFrom([]string{"2025-06-18", "2025-11-25", ""}).Draw(rt, "version")
	s.Listen = rapid.IntRange(0, 2).Draw(rt, "listen") == 0
	callKinds := []string{"ccall", "ccall", "ccall"}
	if outsideOK(s.Link) {
		callKinds = append(callKinds, "scall", "scall")
	}
	otherKinds := []string{"cnotify", "snotify", "release", "release", "release", "cclose", "cclose", "sclose", "sclose", "sleep"}
	nested := []string{"", ""}
	if nestedOK(s.Link) {
		nested = append(nested, "ping", "roots", "sample", "sample")
	}
	n := rapid.IntRange(2, 24).Draw(rt, "n")
	warm := rapid.IntRange(0, 4).Draw(rt, "warm") // the script opens with this many calls
	calls, closes := 0, 0
	for i := 0; i < n; i++ {
		var ks []string
		switch {
		case i < warm:
			ks = callKinds
		case calls >= 8:
			ks = otherKinds
		default:
			ks = append(append([]string(nil), callKinds...), otherKinds...)
		}
		st := LStep{Kind: rapid.SampledFrom(ks).Draw(rt, "kind")}
		switch st.Kind {
		case "ccall":
			calls++
			st.Nested = rapid.SampledFrom(nested).Draw(rt, "nested")
		case "scall":
			calls++
			st.Method = rapid.SampledFrom([]string{"ping", "roots", "sample", "sample"}).Draw(rt, "method")
			st.I = rapid.IntRange(0, 3).Draw(rt, "i")
		case "snotify":
			st.I = rapid.IntRange(0, 3).Draw(rt, "i")
		case "release":
			st.I = rapid.IntRange(0, 7).Draw(rt, "i")
		case "cclose":
			closes++
			st.N = rapid.SampledFrom([]int{1, 1, 2}).Draw(rt, "nclose")
		case "sclose":
			closes++
			st.N = rapid.SampledFrom([]int{1, 1, 2}).Draw(rt, "nclose")
			st.I = rapid.IntRange(0, 3).Draw(rt, "i")
		case "sleep":
			st.Ms = rapid.SampledFrom([]int{1, 100, 1500, 6000, 40000}).Draw(rt, "ms")
		}
		s.Steps = append(s.Steps, st)
	}
	if closes == 0 {
		// every script closes a session at some point
		st := LStep{Kind: rapid.SampledFrom([]string{"cclose", "sclose"}).Draw(rt, "lastclose"), N: rapid.SampledFrom([]int{1, 1, 2}).Draw(rt, "nclose")}
		s.Steps = append(s.Steps, st)
	}
	if rapid.IntRange(0, 3).Draw(rt, "cut") == 0 {
		// the link dies once, at a drawn position
		at := rapid.IntRange(0, len(s.Steps)).Draw(rt, "cutat")
		st := LStep{Kind: "cut", Side: rapid.SampledFrom([]string{"client", "server"}).Draw(rt, "side"), Silent: rapid.IntRange(0, 2).Draw(rt, "silent") == 0}
		s.Steps = append(s.Steps[:at], append([]LStep{st}, s.Steps[at:]...)...)
	}
	return s
}

// ---- recording ----

type lhandler struct {
	side      string
	sess      *mcp.ServerSession // server side: the session the request arrived on
	k         int
	start     int
	ended     bool
	ctxDone   bool
	doneClock int
	cause     string
}

type ldispatch struct {
	side   string
	sess   *mcp.ServerSession
	method string
	clock  int
}

type lblocker struct {
	what   string
	kind   string // close | wait | call | notify
	done   chan struct{}
	err    error
	cancel context.CancelFunc // calls only
}

func (b *lblocker) returned() bool {
	select {
	case <-b.done:
		return true
	default:
		return false
	}
}

type lworld struct {
	mu            sync.Mutex
	clock         int
	hs            []*lhandler
	gates         map[int]chan struct{}
	dispatch      []ldispatch
	blockers      []*lblocker
	known         []*mcp.ServerSession // every server session ever seen, in order of appearance
	giveUp        []context.CancelFunc // contexts of the requests handlers made to the peer
	nestedPending int                  // requests made by handlers to the peer that have not returned

	cutClock          int
	cancelClock       int                        // wind-down started cancelling the callers' contexts
	clientCloseCalled int                        // clock of the first ClientSession.Close call (0: never)
	serverCloseCalled map[*mcp.ServerSession]int // clock of the first script-issued Close call per session
	firstServerClose  int                        // clock of the first script-issued ServerSession.Close on any session
	clientCloseRet    int                        // clock when a ClientSession.Close first returned
	serverCloseRet    map[*mcp.ServerSession]int // clock when a Close of that session first returned
}

func (w *lworld) tick() int { w.clock++; return w.clock }

func (w *lworld) gate(k int) chan struct{} {
	w.mu.Lock()
	defer w.mu.Unlock()
	if w.gates[k] == nil {
		w.gates[k] = make(chan struct{})
	}
	return w.gates[k]
}

func (w *lworld) open(k int) {
	g := w.gate(k)
	select {
	case <-g:
	default:
		close(g)
	}
}

// park is the body of every parking handler: it returns when its gate opens or its context ends.
func (w *lworld) park(ctx context.Context, side string, sess *mcp.ServerSession, k int) {
	w.mu.Lock()
	h := &lhandler{side: side, sess: sess, k: k, start: w.tick()}
	w.hs = append(w.hs, h)
	w.mu.Unlock()
	select {
	case <-w.gate(k):
	case <-ctx.Done():
		w.mu.Lock()
		h.ctxDone, h.doneClock, h.cause = true, w.tick(), fmt.Sprint(context.Cause(ctx))
		w.mu.Unlock()
	}
	w.mu.Lock()
	h.ended = true
	w.mu.Unlock()
}

func (w *lworld) start(kind, what string, cancel context.CancelFunc, f func() error) *lblocker {
	bl := &lblocker{what: what, kind: kind, done: make(chan struct{}), cancel: cancel}
	w.mu.Lock()
	w.blockers = append(w.blockers, bl)
	w.mu.Unlock()
	go func() { bl.err = f(); close(bl.done) }()
	return bl
}

// see registers a server session the first time it shows up and starts a Wait on it.
func (w *lworld) see(ss *mcp.ServerSession) {
	if ss == nil {
		return
	}
	w.mu.Lock()
	for _, x := range w.known {
		if x == ss {
			w.mu.Unlock()
			return
		}
	}
	w.known = append(w.known, ss)
	n := len(w.known)
	w.mu.Unlock()
	w.start("wait", fmt.Sprintf("Wait of server session #%d", n), nil, ss.Wait)
}

var linksBubbleRE = regexp.MustCompile(`synctest bubble (\d+)`)

// bubbleGoroutines returns the untrimmed stacks of the other goroutines of the calling goroutine's bubble
// (vt.LiveBubbleGoroutines trims each stack to its innermost frames, which hides who started a blocked read).
func bubbleGoroutines() []string {
	buf := make([]byte, 1<<20)
	for {
		n := runtime.Stack(buf, true)
		if n < len(buf) {
			buf = buf[:n]
			break
		}
		buf = make([]byte, 2*len(buf))
	}
	gs := strings.Split(string(buf), "\n\n")
	if len(gs) == 0 {
		return nil
	}
	first := func(g string) string {
		if i := strings.IndexByte(g, '\n'); i >= 0 {
			return g[:i]
		}
		return g
	}
	m := linksBubbleRE.FindStringSubmatch(first(gs[0])) // the first goroutine of the dump is the caller
	if m == nil {
		return nil
	}
	tag := "synctest bubble " + m[1] + "]"
	var out []string
	for _, g := range gs[1:] {
		if strings.Contains(first(g), tag) {
			out = append(out, g)
		}
	}
	return out
}

type tapTransport struct {
	mcp.Transport
	conn mcp.Connection
}

func (t *tapTransport) Connect(ctx context.Context) (mcp.Connection, error) {
	c, err := t.Transport.Connect(ctx)
	t.conn = c
	return c, err
}

type lin struct {
	K      int    `json:"k"`
	Nested string `json:"nested"`
}

func runLinks(s LScript) (res vt.Result) {
	if p := vt.Bubble(theT, func() { res = runLinksInBubble(s) }); p != "" {
		res.Failf("after every handler was released, every caller had given up and every session had been closed on link %s, the bubble did not end cleanly (something blocked for ever, or a goroutine/timer was left behind): %s", s.Link, p)
	}
	return res
}

func sampleParams(k int) *mcp.CreateMessageParams {
	return &mcp.CreateMessageParams{MaxTokens: 1, Messages: []*mcp.SamplingMessage{{Role: "user", Content: &mcp.TextContent{Text: fmt.Sprint(k)}}}}
}

// settle is how long (virtual time) the wind-down lets a shutdown that needs no help run before judging it.
const settle = 3 * time.Minute

func runLinksInBubble(s LScript) (res vt.Result) {
	w := &lworld{gates: map[int]chan struct{}{}, serverCloseCalled: map[*mcp.ServerSession]int{}, serverCloseRet: map[*mcp.ServerSession]int{}}
	bg := context.Background()
	isHTTP := s.Link.Kind == wire.SSE || s.Link.Kind == wire.Stateful || s.Link.Kind == wire.Stateless

	// serverCall performs one server->client request on ss with ctx.
	serverCall := func(ctx context.Context, ss *mcp.ServerSession, method string, k int) error {
		switch method {
		case "ping":
			return ss.Ping(ctx, nil)
		case "roots":
			_, err := ss.ListRoots(ctx, nil)
			return err
		default:
			_, err := ss.CreateMessage(ctx, sampleParams(k))
			return err
		}
	}

	server := mcp.NewServer(&mcp.Implementation{Name: "srv", Version: "1"}, &mcp.ServerOptions{
		ProgressNotificationHandler: func(context.Context, *mcp.ProgressNotificationServerRequest) {},
	})
	mcp.AddTool(server, &mcp.Tool{Name: "park"}, func(ctx context.Context, req *mcp.CallToolRequest, a lin) (*mcp.CallToolResult, any, error) {
		if a.Nested != "" {
			// a handler that itself calls the peer (with its own context) and waits for the answer
			// (derived context: the handler, as the caller of that request, can give up on a vanished peer)
			nctx, cancel := context.WithCancel(ctx)
			w.mu.Lock()
			w.giveUp = append(w.giveUp, cancel)
			w.nestedPending++
			w.mu.Unlock()
			_ = serverCall(nctx, req.Session, a.Nested, 1000+a.K)
			w.mu.Lock()
			w.nestedPending--
			w.mu.Unlock()
		}
		w.park(ctx, "server", req.Session, a.K)
		return &mcp.CallToolResult{Content: []mcp.Content{&mcp.TextContent{Text: "ok"}}}, nil, nil
	})
	var listChanged func(context.Context, *mcp.ToolListChangedRequest)
	if s.Listen {
		listChanged = func(context.Context, *mcp.ToolListChangedRequest) {}
	}
	client := mcp.NewClient(&mcp.Implementation{Name: "cli", Version: "1"}, &mcp.ClientOptions{
		ToolListChangedHandler:      listChanged,
		ProgressNotificationHandler: func(context.Context, *mcp.ProgressNotificationClientRequest) {},
		CreateMessageHandler: func(ctx context.Context, req *mcp.CreateMessageRequest) (*mcp.CreateMessageResult, error) {
			k := 0
			if len(req.Params.Messages) > 0 {
				if tc, ok := req.Params.Messages[0].Content.(*mcp.TextContent); ok {
					fmt.Sscan(tc.Text, &k)
				}
			}
			w.park(ctx, "client", nil, k)
			return &mcp.CreateMessageResult{Content: &mcp.TextContent{Text: "x"}, Model: "m", Role: "assistant"}, nil
		},
	})
	// Every request or notification that reaches a receiving method handler is recorded with its session.
	server.AddReceivingMiddleware(func(next mcp.MethodHandler) mcp.MethodHandler {
		return func(ctx context.Context, method string, req mcp.Request) (mcp.Result, error) {
			ss, _ := req.GetSession().(*mcp.ServerSession)
			w.see(ss)
			w.mu.Lock()
			w.dispatch = append(w.dispatch, ldispatch{side: "server", sess: ss, method: method, clock: w.tick()})
			w.mu.Unlock()
			return next(ctx, method, req)
		}
	})
	client.AddReceivingMiddleware(func(next mcp.MethodHandler) mcp.MethodHandler {
		return func(ctx context.Context, method string, req mcp.Request) (mcp.Result, error) {
			w.mu.Lock()
			w.dispatch = append(w.dispatch, ldispatch{side: "client", method: method, clock: w.tick()})
			w.mu.Unlock()
			return next(ctx, method, req)
		}
	})

	// ---- the link ----
	var clientTransport mcp.Transport
	var httpT *memhttp.Transport
	var failing atomic.Bool
	var cutLink func(side string, silent bool)
	switch s.Link.Kind {
	case wire.InMem:
		st, ct := mcp.NewInMemoryTransports()
		stap, ctap := &tapTransport{Transport: st}, &tapTransport{Transport: ct}
		if _, err := server.Connect(bg, stap, nil); err != nil {
			res.Failf("harness: %v", err)
			return
		}
		clientTransport = ctap
		cutLink = func(side string, _ bool) {
			// the process holding that end is gone: its end of the in-memory connection closes
			if side == "server" && stap.conn != nil {
				stap.conn.Close()
			} else if ctap.conn != nil {
				ctap.conn.Close()
			}
		}
	case wire.Pipe:
		a, b := memio.NewPipe()
		if _, err := server.Connect(bg, &mcp.IOTransport{Reader: a, Writer: a}, nil); err != nil {
			res.Failf("harness: %v", err)
			return
		}
		clientTransport = &mcp.IOTransport{Reader: b, Writer: b}
		cutLink = func(side string, _ bool) {
			if side == "server" {
				a.Close()
			} else {
				b.Close()
			}
		}
	default:
		link, err := wire.New(server, s.Link)
		if err != nil {
			res.Failf("harness: %v", err)
			return
		}
		clientTransport, httpT = link.ClientTransport, link.HTTP
		httpT.Fail = func(*http.Request) error {
			if failing.Load() {
				return memhttp.ErrCut
			}
			return nil
		}
		cutLink = func(_ string, silent bool) {
			failing.Store(true)
			if silent {
				return
			}
			for _, e := range httpT.Exchanges() {
				if !e.HandlerDone() {
					e.Cut(memhttp.ErrCut)
				}
			}
		}
	}

	var cs *mcp.ClientSession
	cerr := make(chan error, 1)
	go func() {
		var e error
		var opts *mcp.ClientSessionOptions
		if s.Version != "" {
			opts = &mcp.ClientSessionOptions{ProtocolVersion: s.Version}
		}
		cs, e = client.Connect(bg, clientTransport, opts)
		cerr <- e
	}()
	connected := false
	for i := 0; i < 120 && !connected; i++ { // Connect may take virtual time; only "never" fails the set-up
		synctest.Wait()
		select {
		case e := <-cerr:
			if e != nil {
				res.Failf("harness: connect over %s: %v", s.Link, e)
				return
			}
			connected = true
		default:
			time.Sleep(time.Second)
		}
	}
	if !connected {
		res.Failf("harness: connect over %s did not return", s.Link)
		return
	}
	for ss := range server.Sessions() {
		w.see(ss)
	}
	w.start("wait", "ClientSession.Wait", nil, cs.Wait)

	// sessions lists the server sessions a script step can address: the live ones, or (none live) every one seen.
	sessions := func() []*mcp.ServerSession {
		var out []*mcp.ServerSession
		for ss := range server.Sessions() {
			w.see(ss)
			out = append(out, ss)
		}
		if len(out) == 0 {
			w.mu.Lock()
			out = append(out, w.known...)
			w.mu.Unlock()
		}
		return out
	}
	inflight := func() (c2s, s2c, handlers int) {
		w.mu.Lock()
		defer w.mu.Unlock()
		for _, bl := range w.blockers {
			if bl.kind == "call" && !bl.returned() {
				if strings.HasPrefix(bl.what, "client") {
					c2s++
				} else {
					s2c++
				}
			}
		}
		s2c += w.nestedPending
		for _, h := range w.hs {
			if !h.ended {
				handlers++
			}
		}
		return
	}
	bucket := func(n int) string {
		if n >= 2 {
			return "2+"
		}
		return fmt.Sprint(n)
	}

	var desc strings.Builder
	nt := false
	calls := 0
	firstCloser := ""
	double := false
	classes := map[string]bool{}
	noteClose := func(side string, n int) {
		c2s, s2c, hs := inflight()
		if c2s+s2c+hs > 0 {
			nt = true
		}
		if firstCloser == "" {
			firstCloser = side
			classes["first_close_"+side] = true
			classes["at_first_close_c2s_"+bucket(c2s)] = true
			classes["at_first_close_s2c_"+bucket(s2c)] = true
		}
		if n > 1 {
			double = true
		}
	}

	// check evaluates the clauses that can be judged at any quiescent moment.
	reported := map[string]bool{}
	failOnce := func(key, format string, a ...any) {
		if !reported[key] {
			reported[key] = true
			res.Failf(format, a...)
		}
	}
	check := func(step string) {
		w.mu.Lock()
		defer w.mu.Unlock()
		// (2) a handler that was running when Close was called on its own side is not cancelled by that Close:
		// judged only when, at the moment the handler saw its context end, the peer had not been asked to close,
		// the link had not been cut and no caller had given up.
		for _, h := range w.hs {
			if !h.ctxDone {
				continue
			}
			own, peer := w.clientCloseCalled, w.firstServerClose
			if h.side == "server" {
				own, peer = w.serverCloseCalled[h.sess], w.clientCloseCalled
			}
			if own == 0 || h.start > own || h.doneClock < own {
				continue // not (started before the local Close and cancelled after it)
			}
			if (peer != 0 && peer < h.doneClock) || (w.cutClock != 0 && w.cutClock < h.doneClock) || (w.cancelClock != 0 && w.cancelClock < h.doneClock) {
				continue
			}
			failOnce(fmt.Sprintf("h%s%d", h.side, h.k), "%s: the %s handler %d was already running when Close was called on its own %s session; its context was then cancelled (cause: %s) although the peer had not closed, the link was healthy (%s) and its caller had not given up: a graceful Close must let running handlers finish", step, h.side, h.k, h.side, h.cause, s.Link)
		}
		// (3) nothing is dispatched to a handler on a side after Close has returned on that side
		for _, d := range w.dispatch {
			ret := w.clientCloseRet
			if d.side == "server" {
				ret = w.serverCloseRet[d.sess]
			}
			if ret != 0 && d.clock > ret {
				failOnce(fmt.Sprintf("d%d", d.clock), "%s: %q was dispatched to the %s's receiving handler after Close had returned on that %s session (link %s)", step, d.method, d.side, d.side, s.Link)
			}
		}
	}

	doClose := func(side string, ss *mcp.ServerSession, n int, label string) {
		for j := 0; j < n; j++ {
			if side == "client" {
				w.mu.Lock()
				if w.clientCloseCalled == 0 {
					w.clientCloseCalled = w.tick()
				}
				w.mu.Unlock()
				w.start("close", label+"ClientSession.Close", nil, func() error {
					err := cs.Close()
					w.mu.Lock()
					if w.clientCloseRet == 0 {
						w.clientCloseRet = w.tick()
					}
					w.mu.Unlock()
					return err
				})
			} else {
				w.mu.Lock()
				if w.serverCloseCalled[ss] == 0 {
					w.serverCloseCalled[ss] = w.tick()
					if w.firstServerClose == 0 {
						w.firstServerClose = w.serverCloseCalled[ss]
					}
				}
				w.mu.Unlock()
				w.start("close", label+"ServerSession.Close", nil, func() error {
					err := ss.Close()
					w.mu.Lock()
					if w.serverCloseRet[ss] == 0 {
						w.serverCloseRet[ss] = w.tick()
					}
					w.mu.Unlock()
					return err
				})
			}
		}
	}

	for i, st := range s.Steps {
		switch st.Kind {
		case "ccall":
			k := calls
			calls++
			ctx, cancel := context.WithCancel(bg)
			nested := st.Nested
			w.start("call", fmt.Sprintf("client call %d (tools/call, nested %q)", k, nested), cancel, func() error {
				_, err := cs.CallTool(ctx, &mcp.CallToolParams{Name: "park", Arguments: map[string]any{"k": k, "nested": nested}})
				return err
			})
			desc.WriteString("c" + nested)
		case "scall":
			k := calls
			calls++
			sl := sessions()
			if len(sl) == 0 {
				desc.WriteString("-")
				break
			}
			ss := sl[st.I%len(sl)]
			ctx, cancel := context.WithCancel(bg)
			method := st.Method
			w.start("call", fmt.Sprintf("server call %d (%s, outside any handler)", k, method), cancel, func() error {
				return serverCall(ctx, ss, method, k)
			})
			desc.WriteString("s" + method)
		case "cnotify":
			w.start("notify", "client notification", nil, func() error {
				return cs.NotifyProgress(bg, &mcp.ProgressNotificationParams{ProgressToken: "p", Progress: 1})
			})
			desc.WriteString("p")
		case "snotify":
			sl := sessions()
			if len(sl) == 0 {
				desc.WriteString("-")
				break
			}
			ss := sl[st.I%len(sl)]
			w.start("notify", "server notification", nil, func() error {
				return ss.NotifyProgress(bg, &mcp.ProgressNotificationParams{ProgressToken: "p", Progress: 1})
			})
			desc.WriteString("q")
		case "release":
			w.mu.Lock()
			var live []*lhandler
			for _, h := range w.hs {
				if !h.ended {
					live = append(live, h)
				}
			}
			w.mu.Unlock()
			if len(live) > 0 {
				w.open(live[st.I%len(live)].k)
			}
			desc.WriteString("r")
		case "cclose":
			noteClose("client", st.N)
			doClose("client", nil, st.N, "")
			desc.WriteString(fmt.Sprintf("K%d", st.N))
		case "sclose":
			sl := sessions()
			if len(sl) == 0 {
				desc.WriteString("-")
				break
			}
			noteClose("server", st.N)
			doClose("server", sl[st.I%len(sl)], st.N, "")
			desc.WriteString(fmt.Sprintf("S%d", st.N))
		case "sleep":
			time.Sleep(time.Duration(st.Ms) * time.Millisecond)
			desc.WriteString("z")
		case "cut":
			w.mu.Lock()
			if w.cutClock == 0 {
				w.cutClock = w.tick()
			}
			w.mu.Unlock()
			cutLink(st.Side, st.Silent)
			desc.WriteString("X")
			if st.Silent && isHTTP {
				classes["cut_silent"] = true
			}
		}
		synctest.Wait()
		check(fmt.Sprintf("step %d (%s)", i, st.Kind))
		if len(res.Violations) > 0 {
			break
		}
	}

	// ---- wind-down ----
	// A: every handler returns.
	synctest.Wait()
	for k := 0; k < 64; k++ {
		w.open(k)
		w.open(1000 + k)
	}
	synctest.Wait()
	// (the property sets no deadline: a generous bound, not one tuned to today's DELETE timeout and reconnect delays)
	time.Sleep(settle)
	synctest.Wait()
	w.mu.Lock()
	wasCut := w.cutClock != 0
	blockers := append([]*lblocker(nil), w.blockers...)
	w.mu.Unlock()
	if !wasCut || !isHTTP {
		// Healthy link (or a pipe whose death both ends can see): a Close the script issued returns on its
		// own once the handlers have returned, and so does every call. (On an HTTP link a vanished client is
		// invisible to the server: its unanswered requests are retired when their callers give up, below.)
		for _, bl := range blockers {
			if !bl.returned() && (bl.kind == "close" || bl.kind == "call" || bl.kind == "notify") {
				res.Failf("%s has not returned although every handler has returned and %v have passed (link %s, cut=%v)", bl.what, settle, s.Link, wasCut)
			}
		}
	}
	if !wasCut {
		// "Close and the peer's Wait both return and the session is removed from its Server" - judged on a
		// healthy link, before the wind-down closes anything itself.
		w.mu.Lock()
		clientClosed := w.clientCloseRet != 0
		serverClosed := len(w.serverCloseRet) > 0
		w.mu.Unlock()
		live := 0
		for range server.Sessions() {
			live++
		}
		// (a 2026-07-28 client with a list-changed handler keeps a subscriptions/listen request open on purpose)
		listening := s.Version == "" && s.Listen
		if clientClosed || (s.Link.Kind == wire.Stateless && !listening) {
			// in-memory/pipe: the server reads EOF; legacy SSE: the hanging GET ends; streamable: Close sends DELETE;
			// stateless: every request has a temporary session that ends with the request.
			for _, bl := range blockers {
				if bl.kind == "wait" && strings.Contains(bl.what, "server session") && !bl.returned() {
					res.Failf("ClientSession.Close returned (or the link is stateless) and every handler has returned, yet %v later the %s has not returned: the server side of the session is still up (link %s)", settle, bl.what, s.Link)
				}
			}
			if live != 0 {
				res.Failf("ClientSession.Close returned (or the link is stateless) and every handler has returned, yet %v later the server still lists %d session(s) (link %s)", settle, live, s.Link)
			}
		}
		// The client learns that the server closed the session when the link carries that news: EOF on
		// in-memory/pipe links, the end of the hanging GET on legacy SSE, the end of the standalone stream
		// (then 404 on reconnection) on stateful streamable links that have one.
		tells := s.Link.Kind == wire.InMem || s.Link.Kind == wire.Pipe || s.Link.Kind == wire.SSE || (s.Link.Kind == wire.Stateful && !s.Link.NoStandalone)
		if serverClosed && tells {
			for _, bl := range blockers {
				if bl.what == "ClientSession.Wait" && !bl.returned() {
					res.Failf("a ServerSession.Close returned and every handler has returned, yet %v later ClientSession.Wait has not returned (link %s)", settle, s.Link)
				}
			}
		}
	}
	// B: callers give up (only needed for requests addressed to a peer that vanished), everything is closed.
	if wasCut {
		w.mu.Lock()
		w.cancelClock = w.tick()
		w.mu.Unlock()
		for _, bl := range blockers {
			if bl.cancel != nil {
				bl.cancel()
			}
		}
		w.mu.Lock()
		giveUp := append([]context.CancelFunc(nil), w.giveUp...)
		w.mu.Unlock()
		for _, c := range giveUp {
			c()
		}
		synctest.Wait()
	}
	w.mu.Lock()
	finalClient := len(w.blockers) // index of the blocker created next
	w.mu.Unlock()
	doClose("client", nil, 1, "final ")
	synctest.Wait()
	time.Sleep(2 * time.Minute)
	synctest.Wait()
	w.mu.Lock()
	clientDown := w.blockers[finalClient].returned()
	w.mu.Unlock()
	if clientDown && isHTTP {
		// ClientSession.Close has returned (whatever the server does from here on, it is still up): nothing the
		// client's HTTP connection started may still be running - hanging GET readers, reconnection loops, timers.
		for _, g := range bubbleGoroutines() {
			if strings.Contains(g, "mcp.(*streamableClientConn)") || strings.Contains(g, "mcp.(*sseClientConn)") || strings.Contains(g, "mcp.(*SSEClientTransport)") {
				res.Failf("2 minutes after ClientSession.Close returned a goroutine of the client's connection is still alive (link %s, cut=%v):\n%s", s.Link, wasCut, g)
			}
		}
	}
	for _, ss := range sessions() {
		doClose("server", ss, 1, "final ")
	}
	synctest.Wait()
	time.Sleep(5 * time.Minute)
	synctest.Wait()
	// sessions that appeared late (e.g. a request that was in flight) are closed as well
	for ss := range server.Sessions() {
		doClose("server", ss, 1, "final ")
	}
	synctest.Wait()
	time.Sleep(5 * time.Minute)
	synctest.Wait()
	check("after the wind-down")
	w.mu.Lock()
	blockers = append([]*lblocker(nil), w.blockers...)
	w.mu.Unlock()
	for _, bl := range blockers {
		if !bl.returned() {
			res.Failf("%s never returned although all handlers were released, every session was closed and 10 minutes have passed (link %s, cut=%v)", bl.what, s.Link, wasCut)
		}
	}
	n := 0
	for range server.Sessions() {
		n++
	}
	if n != 0 {
		res.Failf("the server still lists %d session(s) after every session was closed (link %s)", n, s.Link)
	}
	for _, bl := range blockers {
		if bl.cancel != nil {
			bl.cancel() // release the context resources of calls that returned on their own
		}
	}
	w.mu.Lock()
	giveUp2 := append([]context.CancelFunc(nil), w.giveUp...)
	w.mu.Unlock()
	for _, c := range giveUp2 {
		c()
	}

	version := s.Version
	if version == "" {
		version = "latest"
	}
	res.Desc = fmt.Sprintf("%s|%s|%v|%s", s.Link, version, s.Listen, desc.String())
	res.NonTrivial = nt
	res.Class("link_" + s.Link.Kind)
	if s.Link.Kind == wire.Stateful || s.Link.Kind == wire.Stateless {
		res.Class(fmt.Sprintf("streamable_json=%v_store=%v_nostandalone=%v", s.Link.JSON, s.Link.Store, s.Link.NoStandalone))
	}
	res.Class("version_" + version)
	if firstCloser == "" {
		res.Class("first_close_none")
	}
	var cl []string
	for c := range classes {
		cl = append(cl, c)
	}
	sort.Strings(cl)
	res.Class(cl...)
	if s.Version == "" && s.Listen && (s.Link.Kind == wire.InMem || s.Link.Kind == wire.Pipe || s.Link.Kind == wire.Stateless) {
		res.Class("parked_subscriptions_listen")
	}
	if wasCut {
		res.Class("cut")
	} else {
		res.Class("no_cut")
	}
	if double {
		res.Class("double_close")
	}
	if nt {
		res.Class("close_with_traffic_in_flight")
	}
	return res
}

var linksProp = vt.Register(&vt.Prop[LScript]{Property: "C05", Name: "links", Journal: true, Gen: genLinks, Run: runLinks})

func TestC05_Links(t *testing.T) { theT = t; linksProp.Check(t) }
