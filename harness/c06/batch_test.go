package c06

// Legacy JSON-RPC batches POSTed to a stateless streamable endpoint (prop "batch"). A stateless endpoint
// builds a fresh session per POST; when the POST carries no initialize the session starts as if the
// handshake had happened (documented: stateless servers cannot remember it). When the batch DOES carry
// an initialize, the session starts uninitialized and the lifecycle gate applies inside the batch:
// a feature request placed before the initialize is not served, and that initialize is the session's
// first (it is answered with a result, not refused as a duplicate).

import (
	"context"
	"encoding/json"
	"fmt"
	"io"
	"net/http"
	"strings"
	"sync"
	"testing"
	"testing/synctest"

	"github.com/modelcontextprotocol/go-sdk/mcp"
	"github.com/modelcontextprotocol/go-sdk/verif/memhttp"
	"github.com/modelcontextprotocol/go-sdk/verif/vt"
	"pgregory.net/rapid"
)

type BatchScript struct {
	Methods []string `json:"methods"` // initialize | notifications/initialized | ping | tools/call | tools/list
	JSON    bool     `json:"json"`
	Header  string   `json:"header"` // Mcp-Protocol-Version: "" (absent) | 2025-03-26 | 2024-11-05
}

func genBatch(rt *rapid.T) BatchScript {
	s := BatchScript{JSON: rapid.Bool().Draw(rt, "json"), Header: rapid.SampledFrom([]string{"", "", "2025-03-26", "2024-11-05"}).Draw(rt, "header")}
	n := rapid.IntRange(1, 5).Draw(rt, "n")
	for i := 0; i < n; i++ {
		s.Methods = append(s.Methods, rapid.SampledFrom([]string{"initialize", "notifications/initialized", "ping", "tools/call", "tools/call", "tools/list"}).Draw(rt, "method"))
	}
	return s
}

func runBatch(s BatchScript) (res vt.Result) {
	if p := vt.Bubble(theT, func() { res = runBatchInBubble(s) }); p != "" {
		res.Class("teardown_leftover")
	}
	return res
}

func runBatchInBubble(s BatchScript) (res vt.Result) {
	var mu sync.Mutex
	toolRuns := map[int]int{}
	server := mcp.NewServer(&mcp.Implementation{Name: "srv", Version: "1"}, nil)
	type in struct {
		K int `json:"k"`
	}
	mcp.AddTool(server, &mcp.Tool{Name: "probe"}, func(ctx context.Context, req *mcp.CallToolRequest, a in) (*mcp.CallToolResult, any, error) {
		mu.Lock()
		toolRuns[a.K]++
		mu.Unlock()
		return &mcp.CallToolResult{Content: []mcp.Content{&mcp.TextContent{Text: "ok"}}}, nil, nil
	})
	tr := &memhttp.Transport{Handler: mcp.NewStreamableHTTPHandler(func(*http.Request) *mcp.Server { return server }, &mcp.StreamableHTTPOptions{Stateless: true, JSONResponse: s.JSON})}
	var wires []string
	for i, m := range s.Methods {
		switch m {
		case "initialize":
			wires = append(wires, fmt.Sprintf(`{"jsonrpc":"2.0","id":%d,"method":"initialize","params":{"protocolVersion":"2025-03-26","capabilities":{},"clientInfo":{"name":"raw","version":"0"}}}`, i+1))
		case "notifications/initialized":
			wires = append(wires, `{"jsonrpc":"2.0","method":"notifications/initialized"}`)
		case "tools/call":
			wires = append(wires, fmt.Sprintf(`{"jsonrpc":"2.0","id":%d,"method":"tools/call","params":{"name":"probe","arguments":{"k":%d}}}`, i+1, i))
		default:
			wires = append(wires, fmt.Sprintf(`{"jsonrpc":"2.0","id":%d,"method":%q}`, i+1, m))
		}
	}
	req, _ := http.NewRequestWithContext(context.Background(), "POST", "http://mcp.example/mcp", strings.NewReader("["+strings.Join(wires, ",")+"]"))
	req.Header.Set("Content-Type", "application/json")
	req.Header.Set("Accept", "application/json, text/event-stream")
	if s.Header != "" {
		req.Header.Set("Mcp-Protocol-Version", s.Header)
	}
	go func() {
		resp, err := tr.Client().Do(req)
		if err == nil {
			io.Copy(io.Discard, resp.Body)
			resp.Body.Close()
		}
	}()
	synctest.Wait()
	defer func() {
		for ss := range server.Sessions() {
			go ss.Close()
		}
		synctest.Wait()
	}()
	exs := tr.Exchanges()
	if len(exs) != 1 {
		res.Failf("harness: %d exchanges", len(exs))
		return
	}
	ex := exs[0]
	res.Desc = fmt.Sprintf("%v|%v|%s", s.Methods, s.JSON, s.Header)
	firstInit := -1
	for i, m := range s.Methods {
		if m == "initialize" {
			firstInit = i
			break
		}
	}
	if ex.Status() >= 400 {
		// the endpoint may refuse the whole batch (for instance several initialize requests); nothing may
		// have been served then
		mu.Lock()
		n := len(toolRuns)
		mu.Unlock()
		if n > 0 {
			// HTTP status versus side effects is not the property's business: only counted
			res.Class("batch_refused_after_handlers_ran")
		}
		res.Class("batch_refused")
		return
	}
	// collect the responses by id
	byID := map[int]json.RawMessage{}
	collect := func(raw []byte) {
		var one struct {
			ID *int `json:"id"`
		}
		if json.Unmarshal(raw, &one) == nil && one.ID != nil {
			byID[*one.ID] = append(json.RawMessage(nil), raw...)
		}
	}
	body := ex.Written()
	if strings.HasPrefix(ex.RespHeader().Get("Content-Type"), "text/event-stream") {
		for _, ev := range memhttp.ParseSSE(body) {
			if ev.Data != "" {
				collect([]byte(ev.Data))
			}
		}
	} else {
		var arr []json.RawMessage
		if json.Unmarshal(body, &arr) == nil {
			for _, el := range arr {
				collect(el)
			}
		} else {
			collect(body)
		}
	}
	if firstInit < 0 {
		res.Class("batch_without_initialize")
		return // the session starts as if initialized: C02 judges the answers
	}
	res.Class("batch_with_initialize")
	res.NonTrivial = firstInit > 0
	for i, m := range s.Methods[:firstInit] {
		if m != "tools/call" {
			continue
		}
		mu.Lock()
		ran := toolRuns[i]
		mu.Unlock()
		if ran > 0 {
			res.Failf("batch %v: the tools/call at position %d, before the session's initialize (position %d), reached its handler", s.Methods, i, firstInit)
		}
		if raw, ok := byID[i+1]; ok {
			var r struct {
				Error *struct{ Code int } `json:"error"`
			}
			json.Unmarshal(raw, &r)
			if r.Error == nil {
				res.Failf("batch %v: the tools/call at position %d, before initialize, was answered with a result: %s", s.Methods, i, raw)
			}
		}
	}
	if raw, ok := byID[firstInit+1]; ok {
		var r struct {
			Error  *struct{ Message string } `json:"error"`
			Result json.RawMessage           `json:"result"`
		}
		json.Unmarshal(raw, &r)
		if r.Error != nil && strings.Contains(r.Error.Message, "duplicate") {
			res.Failf("batch %v: the session's first initialize (position %d) was refused as a duplicate: %s", s.Methods, firstInit, raw)
		}
	}
	return res
}

var batchProp = vt.Register(&vt.Prop[BatchScript]{Property: "C06", Name: "batch", Gen: genBatch, Run: runBatch})

func TestC06_StatelessBatch(t *testing.T) { theT = t; batchProp.Check(t) }
