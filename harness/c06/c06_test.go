// Package c06 decides property C06: nothing is served before initialize, and
// per-request (2026-07-28) metadata is validated. A raw newline-delimited JSON
// peer (bytes, not SDK types) sends generated message sequences to a real
// Server; the oracle is a reference lifecycle machine plus a receiving
// middleware that records which methods reached server-side handlers.
package c06

import (
	"context"
	"encoding/json"
	"fmt"
	"slices"
	"strings"
	"sync"
	"testing"
	"testing/synctest"

	"github.com/modelcontextprotocol/go-sdk/mcp"
	"github.com/modelcontextprotocol/go-sdk/verif/memio"
	"github.com/modelcontextprotocol/go-sdk/verif/vt"
	"pgregory.net/rapid"
)

func TestMain(m *testing.M) { vt.Main(m) }

var sdkVersions = []string{"2026-07-28", "2025-11-25", "2025-06-18", "2025-03-26", "2024-11-05"}

const modern = "2026-07-28"

const (
	kPV   = "io.modelcontextprotocol/protocolVersion"
	kCI   = "io.modelcontextprotocol/clientInfo"
	kCaps = "io.modelcontextprotocol/clientCapabilities"
)

type Msg struct {
	Method string `json:"method"`
	Meta   string `json:"meta,omitempty"` // "", full, nocaps, badcaps, badinfo, noinfo, newer, nonstring, legacyver
	// MetaKey: the member carrying the metadata is spelt this way instead of "_meta" (_Meta, _META, _mEtA): member
	// names are case-sensitive, so such a member is an unknown one and the message carries no metadata at all.
	MetaKey  string `json:"meta_key,omitempty"`
	Init     string `json:"init,omitempty"`  // initialize params variant: ok:<version> | null | absent | wrongtype | array
	Level    string `json:"level,omitempty"` // logging/setLevel
	CancelID int    `json:"cancel_id,omitempty"`
	// Batched: while the session may still speak a protocol version that has JSON-RPC batches (no initialize
	// accepted yet, or one that negotiated a version before 2025-06-18), the message travels as a batch of one.
	Batched bool `json:"batched,omitempty"`
}

type Script struct {
	Msgs []Msg `json:"msgs"`
	// Spell: how the peer spells its JSON (memio.Respell mode): escape sequences inside strings and spaces
	// that do not change the meaning of any message.
	Spell int `json:"spell,omitempty"`
	// Restored: the server session is connected with ServerSessionOptions.State recording a handshake that had
	// got as far as "accepted" (initialize answered) or "initialized" (notification received) before, as a
	// distributed deployment resuming a session does: the lifecycle goes on from there.
	Restored string `json:"restored,omitempty"`
}

var methods = []string{
	"initialize", "initialize", "notifications/initialized", "notifications/initialized", "ping", "server/discover",
	"tools/list", "tools/call", "prompts/list", "resources/list", "resources/templates/list", "logging/setLevel",
	"resources/subscribe", "resources/unsubscribe", "notifications/roots/list_changed",
	"notifications/cancelled", "notifications/progress", "resources/read", "prompts/get", "completion/complete",
}

var isNotification = func(m string) bool { return strings.HasPrefix(m, "notifications/") }

func genScript(rt *rapid.T) Script {
	var s Script
	n := rapid.IntRange(1, 20).Draw(rt, "n")
	for i := 0; i < n; i++ {
		m := Msg{Method: rapid.SampledFrom(methods).Draw(rt, "method")}
		m.Meta = rapid.SampledFrom([]string{"", "", "", "", "full", "full", "noinfo", "nocaps", "nullcaps", "nullinfo", "badcaps", "badinfo", "newer", "nonstring", "legacyver"}).Draw(rt, "meta")
		if m.Meta != "" && rapid.IntRange(0, 9).Draw(rt, "metakey") == 0 {
			m.MetaKey = rapid.SampledFrom([]string{"_Meta", "_META", "_mEtA"}).Draw(rt, "meta_key")
		}
		switch m.Method {
		case "initialize":
			m.Init = rapid.SampledFrom([]string{"ok:2025-06-18", "ok:2025-11-25", "ok:2024-11-05", "ok:2025-03-26", "ok:2026-07-28", "ok:2024-01-01", "ok:2099-01-01", "ok:", "null", "absent", "wrongtype", "array"}).Draw(rt, "init")
		case "logging/setLevel":
			m.Level = rapid.SampledFrom([]string{"debug", "info", "error", "emergency"}).Draw(rt, "level")
		case "notifications/cancelled":
			m.CancelID = rapid.IntRange(1, 25).Draw(rt, "cid")
		}
		m.Batched = rapid.IntRange(0, 5).Draw(rt, "batched") == 0
		s.Msgs = append(s.Msgs, m)
	}
	s.Spell = rapid.SampledFrom([]int{0, 0, 0, 1, 2, 3, 4, 5}).Draw(rt, "spell")
	s.Restored = rapid.SampledFrom([]string{"", "", "", "", "accepted", "initialized", "initialized"}).Draw(rt, "restored")
	return s
}

func metaJSON(kind string) (string, bool) {
	caps := `"` + kCaps + `":{}`
	info := `"` + kCI + `":{"name":"raw","version":"0"}`
	pv := func(v string) string { return `"` + kPV + `":` + v }
	switch kind {
	case "full":
		return "{" + pv(`"2026-07-28"`) + "," + info + "," + caps + "}", true
	case "noinfo":
		return "{" + pv(`"2026-07-28"`) + "," + caps + "}", true
	case "nocaps":
		return "{" + pv(`"2026-07-28"`) + "," + info + "}", true
	case "nullcaps": // present but null: as good as absent
		return "{" + pv(`"2026-07-28"`) + "," + info + `,"` + kCaps + `":null}`, true
	case "nullinfo": // client info present but null: not an object, refused like any other wrong type
		return "{" + pv(`"2026-07-28"`) + `,"` + kCI + `":null,` + caps + "}", true
	case "badcaps":
		return "{" + pv(`"2026-07-28"`) + "," + info + `,"` + kCaps + `":"yes"}`, true
	case "badinfo":
		return "{" + pv(`"2026-07-28"`) + `,"` + kCI + `":42,` + caps + "}", true
	case "newer":
		return "{" + pv(`"2099-01-01"`) + "," + info + "," + caps + "}", true
	case "nonstring":
		return "{" + pv(`20260728`) + "," + info + "," + caps + "}", true
	case "legacyver":
		return "{" + pv(`"2025-06-18"`) + "," + info + "," + caps + "}", true
	}
	return "", false
}

// wire builds the line for message i (ids are i+1 for calls).
func (m Msg) wire(i int) string {
	var fields []string
	switch m.Method {
	case "initialize":
		switch {
		case strings.HasPrefix(m.Init, "ok:"):
			v, _ := json.Marshal(strings.TrimPrefix(m.Init, "ok:"))
			fields = append(fields, `"protocolVersion":`+string(v), `"capabilities":{}`, `"clientInfo":{"name":"raw","version":"0"}`)
		}
	case "tools/call":
		fields = append(fields, `"name":"probe"`, `"arguments":{}`)
	case "logging/setLevel":
		fields = append(fields, fmt.Sprintf(`"level":%q`, m.Level))
	case "resources/subscribe", "resources/unsubscribe", "resources/read":
		fields = append(fields, `"uri":"file:///a"`)
	case "prompts/get":
		fields = append(fields, `"name":"p"`)
	case "completion/complete":
		fields = append(fields, `"ref":{"type":"ref/prompt","name":"p"}`, `"argument":{"name":"a","value":"v"}`)
	case "notifications/cancelled":
		fields = append(fields, fmt.Sprintf(`"requestId":%d`, m.CancelID))
	case "notifications/progress":
		fields = append(fields, `"progressToken":"t"`, `"progress":1`)
	}
	if mj, ok := metaJSON(m.Meta); ok {
		key := "_meta"
		if m.MetaKey != "" {
			key = m.MetaKey
		}
		fields = append(fields, `"`+key+`":`+mj)
	}
	params := `,"params":{` + strings.Join(fields, ",") + `}`
	if m.Method == "initialize" {
		switch m.Init {
		case "null":
			params = `,"params":null`
		case "absent":
			params = ``
		case "wrongtype":
			params = `,"params":{"protocolVersion":7,"capabilities":"x"}`
		case "array":
			params = `,"params":[1,2]`
		}
	}
	id := ""
	if !isNotification(m.Method) {
		id = fmt.Sprintf(`"id":%d,`, i+1)
	}
	return fmt.Sprintf(`{"jsonrpc":"2.0",%s"method":%q%s}`, id, m.Method, params)
}

var theT *testing.T

func run(s Script) (res vt.Result) {
	if p := vt.Bubble(theT, func() { res = runInBubble(s) }); p != "" {
		res.Failf("bubble did not end cleanly: %s", p)
	}
	return res
}

type response struct {
	ID     *int            `json:"id"`
	Result json.RawMessage `json:"result"`
	Error  *struct {
		Code    int             `json:"code"`
		Message string          `json:"message"`
		Data    json.RawMessage `json:"data"`
	} `json:"error"`
	Method string `json:"method"`
}

// removedInModern are the methods the new protocol no longer has.
var removedInModern = []string{"initialize", "ping", "notifications/initialized", "notifications/roots/list_changed", "logging/setLevel", "resources/subscribe", "resources/unsubscribe"}

// allowedBeforeInit may reach server-side handlers on a fresh legacy session.
var allowedBeforeInit = []string{"initialize", "notifications/initialized", "ping", "notifications/cancelled"}

func runInBubble(s Script) (res vt.Result) {
	var mu sync.Mutex
	var reached []string // methods that reached the receiving middleware, in order
	toolRuns, initializedRuns, rootsRuns, progressRuns := 0, 0, 0, 0
	subRuns := 0
	server := mcp.NewServer(&mcp.Implementation{Name: "srv", Version: "1"}, &mcp.ServerOptions{
		InitializedHandler:          func(context.Context, *mcp.InitializedRequest) { mu.Lock(); initializedRuns++; mu.Unlock() },
		RootsListChangedHandler:     func(context.Context, *mcp.RootsListChangedRequest) { mu.Lock(); rootsRuns++; mu.Unlock() },
		ProgressNotificationHandler: func(context.Context, *mcp.ProgressNotificationServerRequest) { mu.Lock(); progressRuns++; mu.Unlock() },
		SubscribeHandler:            func(context.Context, *mcp.SubscribeRequest) error { mu.Lock(); subRuns++; mu.Unlock(); return nil },
		UnsubscribeHandler:          func(context.Context, *mcp.UnsubscribeRequest) error { mu.Lock(); subRuns++; mu.Unlock(); return nil },
		CompletionHandler: func(context.Context, *mcp.CompleteRequest) (*mcp.CompleteResult, error) {
			return &mcp.CompleteResult{}, nil
		},
	})
	server.AddReceivingMiddleware(func(next mcp.MethodHandler) mcp.MethodHandler {
		return func(ctx context.Context, method string, req mcp.Request) (mcp.Result, error) {
			mu.Lock()
			reached = append(reached, method)
			mu.Unlock()
			return next(ctx, method, req)
		}
	})
	mcp.AddTool(server, &mcp.Tool{Name: "probe"}, func(ctx context.Context, req *mcp.CallToolRequest, in map[string]any) (*mcp.CallToolResult, any, error) {
		mu.Lock()
		toolRuns++
		mu.Unlock()
		return &mcp.CallToolResult{Content: []mcp.Content{&mcp.TextContent{Text: "ok"}}}, nil, nil
	})
	server.AddPrompt(&mcp.Prompt{Name: "p"}, func(context.Context, *mcp.GetPromptRequest) (*mcp.GetPromptResult, error) {
		return &mcp.GetPromptResult{}, nil
	})
	server.AddResource(&mcp.Resource{URI: "file:///a", Name: "a"}, func(context.Context, *mcp.ReadResourceRequest) (*mcp.ReadResourceResult, error) {
		return &mcp.ReadResourceResult{Contents: []*mcp.ResourceContents{{URI: "file:///a", Text: "x"}}}, nil
	})
	a, b := memio.NewPipe()
	var sopts *mcp.ServerSessionOptions
	if s.Restored != "" {
		st := &mcp.ServerSessionState{InitializeParams: &mcp.InitializeParams{ProtocolVersion: "2025-06-18", Capabilities: &mcp.ClientCapabilities{}, ClientInfo: &mcp.Implementation{Name: "earlier", Version: "1"}}}
		if s.Restored == "initialized" {
			st.InitializedParams = &mcp.InitializedParams{}
		}
		sopts = &mcp.ServerSessionOptions{State: st}
		res.Class("session_restored_" + s.Restored)
	}
	ss, err := server.Connect(context.Background(), &mcp.IOTransport{Reader: a, Writer: a}, sopts)
	if err != nil {
		res.Failf("harness: %v", err)
		return
	}
	peer := memio.NewRawPeer(b)
	defer func() {
		peer.Close()
		ss.Close()
	}()

	// ---- reference lifecycle machine ----
	phase := "fresh" // fresh | accepted | initialized
	if s.Restored != "" {
		phase = s.Restored
	}
	mixed := false // a modern request has been served on this session: legacy gating no longer asserted
	// batchesOK: the version in force on this connection has JSON-RPC batches (none negotiated yet, or one before 2025-06-18)
	batchesOK := s.Restored == ""
	modelLevel := ""
	var desc strings.Builder
	ntPre, ntFailedInit, sawMeta, sawLegacy := false, false, false, false
	failedInit := false

	// Log-level probe, part 1: what an emergency log message produces on the untouched session (the SDK's
	// default for "no level set" is its own business; the property only says rejected requests do not change it).
	logProbe := func() int {
		before := len(peer.Received())
		ss.Log(context.Background(), &mcp.LoggingMessageParams{Level: "emergency", Data: "probe"})
		synctest.Wait()
		n := 0
		for _, raw := range peer.Received()[before:] {
			var r response
			json.Unmarshal(raw, &r)
			if r.Method == "notifications/message" {
				n++
			}
		}
		return n
	}
	baselineLogs := logProbe()

	seenResp := len(peer.Received())
	for i, m := range s.Msgs {
		mu.Lock()
		reachedBefore := len(reached)
		toolBefore, initdBefore, rootsBefore, subBefore := toolRuns, initializedRuns, rootsRuns, subRuns
		mu.Unlock()
		ipBefore := ss.InitializeParams()

		line := memio.Respell(m.wire(i), s.Spell)
		if m.Batched && batchesOK && !mixed && m.Meta == "" { // (a message carrying 2026-07-28 metadata belongs to a protocol without batches)
			line = "[" + line + "]"
			res.Class("message_sent_as_a_batch_of_one_" + phase)
		}
		if m.MetaKey != "" {
			m.Meta = "" // judged as what it is: a message without metadata (and one unknown member)
			res.Class("metadata_under_a_differently_cased_member_name")
		}
		if err := peer.Send(line); err != nil {
			res.Failf("msg %d: connection no longer writable (session torn down?): %v", i, err)
			return
		}
		synctest.Wait()
		if ended, err := peer.Ended(); ended {
			res.Failf("msg %d (%s): the server closed the connection: %v", i, line, err)
			return
		}
		recv := peer.Received()
		var resp *response
		for _, raw := range recv[seenResp:] {
			var r response
			if t := strings.TrimSpace(string(raw)); strings.HasPrefix(t, "[") {
				// the answer to a batch is a batch
				var rs []response
				json.Unmarshal(raw, &rs)
				if len(rs) != 1 {
					res.Failf("msg %d: a batch of one was answered with %s", i, raw)
					continue
				}
				r = rs[0]
			} else {
				json.Unmarshal(raw, &r)
			}
			if r.Method != "" {
				continue // server->client notification (e.g. log message)
			}
			if r.ID != nil && *r.ID == i+1 {
				if resp != nil {
					res.Failf("msg %d: two responses for id %d", i, i+1)
				}
				rr := r
				resp = &rr
			} else {
				res.Failf("msg %d: unexpected response %s", i, raw)
			}
		}
		seenResp = len(recv)
		mu.Lock()
		newReached := append([]string(nil), reached[reachedBefore:]...)
		toolDelta, initdDelta, rootsDelta, subDelta := toolRuns-toolBefore, initializedRuns-initdBefore, rootsRuns-rootsBefore, subRuns-subBefore
		mu.Unlock()
		didReach := len(newReached) > 0
		notif := isNotification(m.Method)
		if notif && resp != nil {
			res.Failf("msg %d: notification %s received a response", i, m.Method)
		}
		if !notif && resp == nil {
			res.Failf("msg %d: request %s (id %d) received no response", i, m.Method, i+1)
			return
		}
		isErr := resp != nil && resp.Error != nil
		code := 0
		if isErr {
			code = resp.Error.Code
		}

		// ---- classify the message ----
		modernReq := false
		switch m.Meta {
		case "full", "noinfo", "nocaps", "nullcaps", "nullinfo", "badcaps", "badinfo", "newer":
			modernReq = true
		}
		// initialize with non-object params cannot carry _meta at all
		if m.Method == "initialize" && !strings.HasPrefix(m.Init, "ok:") {
			modernReq = false
		}
		fmt.Fprintf(&desc, "%s/%s/%s;", short(m.Method), m.Meta, m.Init)
		if modernReq {
			sawMeta = true
			metaBad := m.Meta == "nocaps" || m.Meta == "nullcaps" || m.Meta == "nullinfo" || m.Meta == "badcaps" || m.Meta == "badinfo"
			verBad := m.Meta == "newer"
			removed := slices.Contains(removedInModern, m.Method)
			// clientInfo is documented optional; an explicit null may be refused (wrong type) or taken as absent.
			// If it was not refused with -32602 the request is judged like one with complete metadata.
			if m.Meta == "nullinfo" && !(isErr && code == -32602) && (notif && didReach || !notif && resp != nil) {
				metaBad = false
			}
			switch {
			case metaBad || verBad:
				if didReach || toolDelta+initdDelta+rootsDelta+subDelta > 0 {
					res.Failf("msg %d: %s with defective per-request metadata (%s) reached server-side handlers %v", i, m.Method, m.Meta, newReached)
				}
				if !notif {
					want := []int{-32602}
					if verBad {
						want = []int{-32022}
					}
					if removed {
						// two defects at once: the property gives no precedence, method-not-found is as good an answer
						want = append(want, -32601)
					}
					if !isErr || !slices.Contains(want, code) {
						res.Failf("msg %d: %s with metadata defect %q answered %s, want error code %v", i, m.Method, m.Meta, brief(resp), want)
					} else if verBad && code == -32022 {
						var d struct {
							Supported []string `json:"supported"`
						}
						json.Unmarshal(resp.Error.Data, &d)
						if !sameVersions(d.Supported, sdkVersions) {
							res.Failf("msg %d: -32022 lists supported versions %v, want %v", i, d.Supported, sdkVersions)
						}
					}
				}
				if !sameParams(ss.InitializeParams(), ipBefore) {
					res.Failf("msg %d: rejected request changed the session's InitializeParams", i)
				}
			case removed:
				if didReach {
					res.Failf("msg %d: %s does not exist in the 2026-07-28 protocol but reached handlers", i, m.Method)
				}
				if !notif && (!isErr || code != -32601) {
					res.Failf("msg %d: %s carrying 2026-07-28 metadata answered %s, want method-not-found (-32601)", i, m.Method, brief(resp))
				}
			default:
				// complete metadata, supported version: served without a handshake
				if !notif {
					if isErr && (code == -32602 && m.Method != "prompts/get" || code == -32022 || code == -32601 && m.Method != "server/discover" || code == 0) && gateLike(resp.Error.Message) {
						res.Failf("msg %d: %s with complete 2026-07-28 metadata was refused: %s", i, m.Method, brief(resp))
					}
					// (server/discover is session-independent data: a result is proof of service wherever it was produced)
					if !didReach && !(m.Method == "server/discover" && !isErr) {
						res.Failf("msg %d: %s with complete 2026-07-28 metadata did not reach the server's handlers: %s", i, m.Method, brief(resp))
					}
				}
				if didReach && m.Method != "server/discover" {
					mixed = true
				}
				if m.Method == "server/discover" && (didReach || !isErr) {
					mixed = true // discover records the client's parameters on stdio-like transports
				}
			}
			continue
		}

		// ---- legacy-protocol message ----
		sawLegacy = true
		if m.Method == "server/discover" {
			// The property is silent about discover without per-request metadata: on a session no initialize
			// has been accepted on it is gated like any other method (any error will do); afterwards it is not judged.
			if phase == "fresh" && !mixed {
				if didReach {
					res.Failf("msg %d: server/discover without 2026-07-28 metadata reached handlers before any initialize was accepted", i)
				}
				if !isErr {
					res.Failf("msg %d: server/discover without 2026-07-28 metadata was served (%s) before any initialize was accepted", i, brief(resp))
				}
			}
			continue
		}
		if m.Method == "ping" {
			if isErr {
				res.Failf("msg %d: ping must always be served, got %s (phase %s)", i, brief(resp), phase)
			}
			continue
		}
		if mixed {
			// Not a purely legacy session any more. What still holds: a session whose handshake was complete
			// stays initialized whatever 2026-07-28 requests it has served since, so a repeated initialized
			// notification and a second initialize are still refused.
			if phase == "initialized" && m.Method == "notifications/initialized" && initdDelta != 0 {
				res.Failf("msg %d: repeated initialized notification ran the InitializedHandler again (the handshake was complete before the session served a 2026-07-28 request)", i)
			}
			if phase == "initialized" && m.Method == "initialize" && strings.HasPrefix(m.Init, "ok:") && !isErr {
				res.Failf("msg %d: second initialize was accepted (the handshake was complete before the session served a 2026-07-28 request)", i)
			}
			if phase == "initialized" && (m.Method == "notifications/initialized" || m.Method == "initialize") {
				res.Class("handshake_message_repeated_after_a_modern_request")
			}
			continue // only the checks above apply
		}
		switch m.Method {
		case "initialize":
			wellFormed := strings.HasPrefix(m.Init, "ok:")
			if phase == "fresh" && m.Init == "ok:" && isErr {
				wellFormed = false // an empty protocolVersion may be refused as invalid: judged as a failed initialize
			}
			switch {
			case phase == "fresh" && wellFormed:
				if isErr {
					res.Failf("msg %d: first well-formed initialize rejected: %s", i, brief(resp))
					break
				}
				var r struct {
					ProtocolVersion string `json:"protocolVersion"`
				}
				json.Unmarshal(resp.Result, &r)
				if !slices.Contains(sdkVersions, r.ProtocolVersion) || r.ProtocolVersion >= modern {
					res.Failf("msg %d: initialize answered with version %q", i, r.ProtocolVersion)
				}
				if ss.InitializeParams() == nil {
					res.Failf("msg %d: initialize accepted but InitializeParams() is nil", i)
				}
				phase = "accepted"
				batchesOK = r.ProtocolVersion < "2025-06-18" && strings.TrimPrefix(m.Init, "ok:") == r.ProtocolVersion
			case phase == "fresh":
				if !isErr {
					res.Failf("msg %d: initialize with %s params was accepted", i, m.Init)
				}
				if ss.InitializeParams() != nil {
					res.Failf("msg %d: failed initialize (%s) left InitializeParams set", i, m.Init)
				}
				failedInit = true
			default:
				if !isErr {
					res.Failf("msg %d: second initialize was accepted (phase %s)", i, phase)
				}
				if !sameParams(ss.InitializeParams(), ipBefore) {
					res.Failf("msg %d: second initialize changed the session's InitializeParams", i)
				}
			}
		case "notifications/initialized":
			switch phase {
			case "accepted":
				if initdDelta != 1 {
					res.Failf("msg %d: initialized after initialize ran the InitializedHandler %d times, want 1", i, initdDelta)
				}
				phase = "initialized"
			default:
				if initdDelta != 0 {
					res.Failf("msg %d: %s initialized notification ran the InitializedHandler (phase %s)", i, map[string]string{"fresh": "premature", "initialized": "repeated"}[phase], phase)
				}
			}
		case "notifications/cancelled":
			// pre-empted; nothing to assert here (C04)
		default:
			if phase == "fresh" {
				ntPre = true
				if failedInit {
					ntFailedInit = true
				}
				if didReach || toolDelta+rootsDelta+subDelta > 0 {
					res.Failf("msg %d: %s reached server-side handlers %v before any initialize was accepted", i, m.Method, newReached)
				}
				if !notif && !isErr {
					res.Failf("msg %d: %s was served (%s) before any initialize was accepted", i, m.Method, brief(resp))
				}
				if ss.InitializeParams() != nil {
					res.Failf("msg %d: rejected %s changed InitializeParams", i, m.Method)
				}
			} else {
				if m.Method == "logging/setLevel" && !isErr {
					modelLevel = m.Level
				}
				// Judged only once the handshake is complete (the property does not promise service between
				// initialize and initialized) and not for a non-string _meta protocolVersion, which a stricter
				// server may answer with invalid-params as the HTTP layer already does.
				if !notif && isErr && gateLike(resp.Error.Message) && phase == "initialized" && m.Meta != "nonstring" {
					res.Failf("msg %d: %s refused after the handshake was complete: %s", i, m.Method, brief(resp))
				}
			}
		}
	}

	// Log-level probe: a rejected logging/setLevel must not have changed session state.
	if !mixed && len(res.Violations) == 0 {
		got := logProbe() // counts notifications/message only: other notifications are not this check's business
		if modelLevel == "" && got != baselineLogs {
			res.Failf("an emergency log message produced %d notification(s) on the fresh session and %d now although no logging/setLevel was ever accepted: session log level changed by a rejected request", baselineLogs, got)
		}
		if modelLevel != "" && got != 1 {
			res.Failf("log level %q was accepted but an emergency log message produced %d notifications", modelLevel, got)
		}
	}
	res.Desc = desc.String()
	res.NonTrivial = ntPre || ntFailedInit || (sawMeta && sawLegacy)
	if ntPre {
		res.Class("feature_before_initialize")
	}
	if ntFailedInit {
		res.Class("feature_after_failed_initialize")
	}
	if sawMeta && sawLegacy {
		res.Class("mixes_meta_and_legacy")
	}
	res.Class("final_phase_" + phase)
	if s.Spell != 0 {
		res.Class(fmt.Sprintf("respelled_json_mode_%d", s.Spell))
	}
	return res
}

// sameParams compares two InitializeParams by value: an accessor that hands out a defensive copy does
// not change session state (pointer identity is not part of the property).
func sameParams(a, b *mcp.InitializeParams) bool {
	if a == nil || b == nil {
		return a == b
	}
	ja, _ := json.Marshal(a)
	jb, _ := json.Marshal(b)
	return string(ja) == string(jb)
}

// sameVersions compares two version lists as sets: the property says the supported versions are listed,
// not in which order.
func sameVersions(got, want []string) bool {
	if len(got) != len(want) {
		return false
	}
	for _, v := range want {
		if !slices.Contains(got, v) {
			return false
		}
	}
	for _, v := range got {
		if !slices.Contains(want, v) {
			return false
		}
	}
	return true
}

func gateLike(msg string) bool {
	return strings.Contains(msg, "invalid during session initialization") || strings.Contains(msg, "not supported in the new protocol") || strings.Contains(msg, "missing or invalid _meta") || strings.Contains(msg, "unsupported protocol version") || strings.Contains(msg, "only supported in protocol version")
}

func short(m string) string {
	m = strings.TrimPrefix(m, "notifications/")
	return m
}

func brief(r *response) string {
	if r == nil {
		return "(no response)"
	}
	if r.Error != nil {
		return fmt.Sprintf("error %d %q", r.Error.Code, r.Error.Message)
	}
	s := string(r.Result)
	if len(s) > 80 {
		s = s[:80] + "..."
	}
	return "result " + s
}

var prop = vt.Register(&vt.Prop[Script]{Property: "C06", Name: "lifecycle", Gen: genScript, Run: run, Journal: true})

func TestC06_Lifecycle(t *testing.T) { theT = t; prop.Check(t) }
func TestReplay(t *testing.T)        { theT = t; vt.Replay(t) }
func TestRegress(t *testing.T)       { theT = t; vt.Regress(t, "C06") }
func TestKnown(t *testing.T)         { theT = t; vt.Known(t, "C06") }
