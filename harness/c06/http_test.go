package c06

import (
	"context"
	"encoding/json"
	"fmt"
	"io"
	"net/http"
	"slices"
	"strings"
	"sync"
	"testing"
	"testing/synctest"

	"github.com/modelcontextprotocol/go-sdk/mcp"
	"github.com/modelcontextprotocol/go-sdk/verif/memhttp"
	"github.com/modelcontextprotocol/go-sdk/verif/memio"
	"github.com/modelcontextprotocol/go-sdk/verif/vt"
	"pgregory.net/rapid"
)

// The 2026-07-28 path over the stateless streamable endpoint: every POST is its own request,
// carries the per-request metadata in the body and its mirror in the HTTP headers.

type HTTPScript struct {
	Msgs  []Msg `json:"msgs"` // independent requests, all with per-request metadata variants
	JSON  bool  `json:"json"`
	Spell int   `json:"spell,omitempty"` // memio.Respell mode for the request bodies
}

func genHTTP(rt *rapid.T) HTTPScript {
	var s HTTPScript
	s.JSON = rapid.Bool().Draw(rt, "json")
	s.Spell = rapid.SampledFrom([]int{0, 0, 0, 1, 2, 3, 4, 5}).Draw(rt, "spell")
	n := rapid.IntRange(1, 8).Draw(rt, "n")
	for i := 0; i < n; i++ {
		m := Msg{Method: rapid.SampledFrom([]string{"ping", "server/discover", "tools/list", "tools/call", "prompts/list", "resources/list", "logging/setLevel", "resources/subscribe", "resources/unsubscribe", "resources/read", "prompts/get", "initialize"}).Draw(rt, "method")}
		m.Meta = rapid.SampledFrom([]string{"full", "full", "noinfo", "nocaps", "nullcaps", "nullinfo", "badcaps", "badinfo", "newer"}).Draw(rt, "meta")
		if m.Method == "initialize" {
			m.Init = "ok:2026-07-28"
		}
		if m.Method == "logging/setLevel" {
			m.Level = "info"
		}
		s.Msgs = append(s.Msgs, m)
	}
	return s
}

func runHTTP(s HTTPScript) (res vt.Result) {
	if p := vt.Bubble(theT, func() { res = runHTTPInBubble(s) }); p != "" {
		res.Class("teardown_leftover")
	}
	return res
}

func runHTTPInBubble(s HTTPScript) (res vt.Result) {
	var mu sync.Mutex
	var reached []string
	toolRuns := 0
	server := mcp.NewServer(&mcp.Implementation{Name: "srv", Version: "1"}, &mcp.ServerOptions{
		SubscribeHandler:   func(context.Context, *mcp.SubscribeRequest) error { return nil },
		UnsubscribeHandler: func(context.Context, *mcp.UnsubscribeRequest) error { return nil },
	})
	server.AddReceivingMiddleware(func(next mcp.MethodHandler) mcp.MethodHandler {
		return func(ctx context.Context, method string, req mcp.Request) (mcp.Result, error) {
			mu.Lock()
			reached = append(reached, method)
			mu.Unlock()
			return next(ctx, method, req)
		}
	})
	mcp.AddTool(server, &mcp.Tool{Name: "probe"}, func(ctx context.Context, req *mcp.CallToolRequest, in map[string]any) (*mcp.CallToolResult, any, error) {
		mu.Lock()
		toolRuns++
		mu.Unlock()
		return &mcp.CallToolResult{Content: []mcp.Content{&mcp.TextContent{Text: "ok"}}}, nil, nil
	})
	server.AddPrompt(&mcp.Prompt{Name: "p"}, func(context.Context, *mcp.GetPromptRequest) (*mcp.GetPromptResult, error) {
		return &mcp.GetPromptResult{}, nil
	})
	server.AddResource(&mcp.Resource{URI: "file:///a", Name: "a"}, func(context.Context, *mcp.ReadResourceRequest) (*mcp.ReadResourceResult, error) {
		return &mcp.ReadResourceResult{Contents: []*mcp.ResourceContents{{URI: "file:///a", Text: "x"}}}, nil
	})
	h := mcp.NewStreamableHTTPHandler(func(*http.Request) *mcp.Server { return server }, &mcp.StreamableHTTPOptions{Stateless: true, JSONResponse: s.JSON})
	tr := &memhttp.Transport{Handler: h}
	client := tr.Client()
	var desc strings.Builder
	nt := false
	for i, m := range s.Msgs {
		mu.Lock()
		before, toolBefore := len(reached), toolRuns
		mu.Unlock()
		body := memio.Respell(m.wire(i), s.Spell)
		version := "2026-07-28"
		if m.Meta == "newer" {
			version = "2099-01-01"
		}
		req, _ := http.NewRequestWithContext(context.Background(), "POST", "http://mcp.example/mcp", strings.NewReader(body))
		req.Header.Set("Content-Type", "application/json")
		req.Header.Set("Accept", "application/json, text/event-stream")
		req.Header.Set("Mcp-Protocol-Version", version)
		req.Header.Set("Mcp-Method", m.Method)
		switch m.Method {
		case "tools/call":
			req.Header.Set("Mcp-Name", "probe")
		case "prompts/get":
			req.Header.Set("Mcp-Name", "p")
		case "resources/read", "resources/subscribe", "resources/unsubscribe":
			req.Header.Set("Mcp-Name", "file:///a")
		}
		nEx := len(tr.Exchanges())
		go func() {
			resp, err := client.Do(req)
			if err == nil {
				io.Copy(io.Discard, resp.Body)
				resp.Body.Close()
			}
		}()
		synctest.Wait()
		exs := tr.Exchanges()
		if len(exs) <= nEx {
			res.Failf("msg %d: no exchange", i)
			return
		}
		ex := exs[nEx]
		if !ex.HandlerDone() {
			res.Failf("msg %d: POST %s did not complete", i, body)
			return
		}
		status := ex.Status()
		// read the JSON-RPC response (SSE or JSON body)
		var raw string
		if strings.HasPrefix(ex.RespHeader().Get("Content-Type"), "text/event-stream") {
			for _, ev := range memhttp.ParseSSE(ex.Written()) {
				if ev.Data != "" {
					raw = ev.Data
				}
			}
		} else {
			raw = string(ex.Written())
		}
		var resp response
		json.Unmarshal([]byte(raw), &resp)
		isErr := resp.Error != nil
		code := 0
		if isErr {
			code = resp.Error.Code
		}
		mu.Lock()
		newReached := append([]string(nil), reached[before:]...)
		toolDelta := toolRuns - toolBefore
		mu.Unlock()
		fmt.Fprintf(&desc, "%s/%s;", m.Method, m.Meta)
		metaBad := m.Meta == "nocaps" || m.Meta == "nullcaps" || m.Meta == "nullinfo" || m.Meta == "badcaps" || m.Meta == "badinfo"
		verBad := m.Meta == "newer"
		removed := slices.Contains(removedInModern, m.Method)
		// clientInfo is documented optional; an explicit null may be refused (wrong type) or taken as absent.
		// If it was not refused with -32602 the request is judged like one with complete metadata.
		if m.Meta == "nullinfo" && !(isErr && code == -32602) {
			metaBad = false
		}
		switch {
		case metaBad || verBad:
			nt = true
			if len(newReached) > 0 || toolDelta > 0 {
				res.Failf("msg %d: %s with defective per-request metadata (%s) reached server-side handlers %v", i, m.Method, m.Meta, newReached)
			}
			want := -32602
			if verBad {
				want = -32022
			}
			// removed methods with a bad version may also be answered method-not-found by the HTTP pre-validation
			if !(isErr && (code == want || (removed && code == -32601))) || status < 400 {
				res.Failf("msg %d: %s with metadata defect %q answered HTTP %d %s, want error %d", i, m.Method, m.Meta, status, brief(&resp), want)
			} else if verBad && code == -32022 {
				var d struct {
					Supported []string `json:"supported"`
				}
				json.Unmarshal(resp.Error.Data, &d)
				if !sameVersions(d.Supported, sdkVersions) { // as a set: the order is not part of the property
					res.Failf("msg %d: -32022 lists supported versions %v, want %v", i, d.Supported, sdkVersions)
				}
			}
		case removed:
			if len(newReached) > 0 {
				res.Failf("msg %d: %s does not exist in the 2026-07-28 protocol but reached handlers", i, m.Method)
			}
			if !isErr || code != -32601 {
				res.Failf("msg %d: %s carrying 2026-07-28 metadata answered HTTP %d %s, want method-not-found (-32601)", i, m.Method, status, brief(&resp))
			}
		default:
			// (server/discover is session-independent data: a result is proof of service wherever it was produced)
			if len(newReached) == 0 && !(m.Method == "server/discover" && !isErr && resp.Result != nil) {
				res.Failf("msg %d: %s with complete 2026-07-28 metadata did not reach the server's handlers: HTTP %d %s", i, m.Method, status, brief(&resp))
			}
			if isErr && gateLike(resp.Error.Message) {
				res.Failf("msg %d: %s with complete 2026-07-28 metadata was refused: %s", i, m.Method, brief(&resp))
			}
			if m.Method == "tools/call" && toolDelta != 1 {
				res.Failf("msg %d: tools/call with complete metadata ran the tool %d times", i, toolDelta)
			}
		}
	}
	res.Desc = fmt.Sprintf("%v|%s", s.JSON, desc.String())
	res.NonTrivial = nt
	res.Class("http_stateless")
	return res
}

var httpProp = vt.Register(&vt.Prop[HTTPScript]{Property: "C06", Name: "http", Gen: genHTTP, Run: runHTTP, Journal: true})

func TestC06_HTTP(t *testing.T) { theT = t; httpProp.Check(t) }
