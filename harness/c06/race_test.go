package c06

// Concurrent session-state updates (prop "race"): right after initialize, a raw peer writes
// notifications/initialized together with a few logging/setLevel calls (one write, so the server handles
// them at the same time), then repeats notifications/initialized. However the updates interleave, the
// initialized notification is accepted exactly once: the handler runs once, the repeat is refused.
// The outcome depends on the scheduler, so this is mostly a thorough-tier check (many sessions).

import (
	"context"
	"fmt"
	"strings"
	"sync/atomic"
	"testing"
	"testing/synctest"

	"github.com/modelcontextprotocol/go-sdk/mcp"
	"github.com/modelcontextprotocol/go-sdk/verif/memio"
	"github.com/modelcontextprotocol/go-sdk/verif/vt"
	"pgregory.net/rapid"
)

type RaceScript struct {
	Levels  []string `json:"levels"`  // logging/setLevel calls written together with notifications/initialized
	InitPos int      `json:"initpos"` // position of notifications/initialized among them
	Repeats int      `json:"repeats"` // how often notifications/initialized is repeated afterwards
}

func genRace(rt *rapid.T) RaceScript {
	s := RaceScript{Repeats: rapid.IntRange(1, 2).Draw(rt, "repeats")}
	n := rapid.IntRange(1, 4).Draw(rt, "levels")
	for i := 0; i < n; i++ {
		s.Levels = append(s.Levels, rapid.SampledFrom([]string{"debug", "info", "warning", "error"}).Draw(rt, "level"))
	}
	s.InitPos = rapid.IntRange(0, n).Draw(rt, "initpos")
	return s
}

func runRace(s RaceScript) (res vt.Result) {
	if p := vt.Bubble(theT, func() { res = runRaceInBubble(s) }); p != "" {
		res.Class("teardown_leftover")
	}
	return res
}

func runRaceInBubble(s RaceScript) (res vt.Result) {
	var initialized atomic.Int32
	server := mcp.NewServer(&mcp.Implementation{Name: "srv", Version: "1"}, &mcp.ServerOptions{
		InitializedHandler: func(context.Context, *mcp.InitializedRequest) { initialized.Add(1) },
	})
	a, b := memio.NewPipe()
	ss, err := server.Connect(context.Background(), &mcp.IOTransport{Reader: a, Writer: a}, nil)
	if err != nil {
		res.Failf("harness: %v", err)
		return
	}
	peer := memio.NewRawPeer(b)
	defer func() {
		peer.Close()
		ss.Close()
	}()
	peer.Send(`{"jsonrpc":"2.0","id":"hs","method":"initialize","params":{"protocolVersion":"2025-06-18","capabilities":{},"clientInfo":{"name":"raw","version":"0"}}}`)
	synctest.Wait()
	var lines []string
	for i, l := range s.Levels {
		if i == s.InitPos {
			lines = append(lines, `{"jsonrpc":"2.0","method":"notifications/initialized"}`)
		}
		lines = append(lines, fmt.Sprintf(`{"jsonrpc":"2.0","id":%d,"method":"logging/setLevel","params":{"level":%q}}`, i+1, l))
	}
	if s.InitPos >= len(s.Levels) {
		lines = append(lines, `{"jsonrpc":"2.0","method":"notifications/initialized"}`)
	}
	peer.Send(strings.Join(lines, "\n")) // one write: handled concurrently
	synctest.Wait()
	if n := initialized.Load(); n != 1 {
		res.Failf("after initialize + one notifications/initialized (written together with %d logging/setLevel calls) the initialized handler ran %d times", len(s.Levels), n)
		return
	}
	for r := 0; r < s.Repeats; r++ {
		peer.Send(`{"jsonrpc":"2.0","method":"notifications/initialized"}`)
		synctest.Wait()
	}
	if n := initialized.Load(); n != 1 {
		res.Failf("a repeated notifications/initialized was accepted again: the initialized handler ran %d times (the first one had been written together with %d logging/setLevel calls)", n, len(s.Levels))
	}
	res.Desc = fmt.Sprintf("%v|%d|%d", s.Levels, s.InitPos, s.Repeats)
	res.NonTrivial = true
	res.Class(fmt.Sprintf("concurrent_setlevels_%d", len(s.Levels)))
	return res
}

var raceProp = vt.Register(&vt.Prop[RaceScript]{Property: "C06", Name: "race", Gen: genRace, Run: runRace})

func TestC06_Race(t *testing.T) { theT = t; raceProp.Check(t) }
