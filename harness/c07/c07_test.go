// Package c07 decides property C07 (version negotiation across every setup) by
// enumerating the full configuration matrix and re-sampling it with rapid with
// extra free dimensions; each cell runs real Client and Server ends over an
// in-memory link inside a synctest bubble.
package c07

import (
	"context"
	"encoding/json"
	"fmt"
	"io"
	"slices"
	"sync"
	"testing"
	"testing/synctest"
	"time"

	"github.com/modelcontextprotocol/go-sdk/jsonrpc"
	"github.com/modelcontextprotocol/go-sdk/mcp"
	"github.com/modelcontextprotocol/go-sdk/verif/memio"
	"github.com/modelcontextprotocol/go-sdk/verif/vt"
	"github.com/modelcontextprotocol/go-sdk/verif/wire"
	"pgregory.net/rapid"
)

func TestMain(m *testing.M) { vt.Main(m) }

// sdkVersions is the harness' own copy of the supported list (from the SDK documentation /
// shared.go at the pinned commit); the check fails loudly if the SDK reports a version outside it.
var sdkVersions = []string{"2026-07-28", "2025-11-25", "2025-06-18", "2025-03-26", "2024-11-05"}

const modern = "2026-07-28"

type Script struct {
	Requested string      `json:"requested"` // "" = default
	Link      wire.Config `json:"link"`
	// free dimensions
	ListChangedHandler bool   `json:"list_changed_handler"`
	KeepAliveMs        int    `json:"keepalive_ms"`
	NoToolsCap         bool   `json:"no_tools_cap"`
	Arg                string `json:"arg"`
	ExtraTools         int    `json:"extra_tools"`
	// SetupMs > 0: the server's InitializedHandler takes this long (virtual) and then registers the tool "late",
	// as a server that equips itself once it knows its client does. A session that went through the
	// initialize/initialized handshake must see that tool in the very first listing after Connect: the
	// notification's handler finishes before any later message is dispatched (docs/protocol.md, Concurrency).
	SetupMs int `json:"setup_ms,omitempty"`
	// Before: sessions established with the SAME Server over other links before the judged one
	// (what was negotiated there must not influence the judged negotiation).
	Before []Prior `json:"before,omitempty"`
	// Neighbour: before the judged Connect, ANOTHER server of the same process - one whose receiving middleware
	// pins it to the legacy versions by trimming the version list of its own server/discover results in place -
	// has answered a client over a stateless endpoint. What that application does to its own results must not
	// reach the judged server.
	Neighbour bool `json:"neighbour,omitempty"`
}

type Prior struct {
	Link      wire.Config `json:"link"`
	Requested string      `json:"requested"`
	Close     bool        `json:"close"` // the earlier session is closed before the judged Connect
}

var requestedAll = []string{"", "2026-07-28", "2025-11-25", "2025-06-18", "2025-03-26", "2024-11-05", "2024-01-01", "2099-01-01", "abc", "2026-07-27"}

func allLinks() []wire.Config {
	var out []wire.Config
	for _, k := range []string{wire.InMem, wire.Pipe} {
		for _, sub := range []string{"", "legacy", "legacy-old", "none"} {
			out = append(out, wire.Config{Kind: k, Subset: sub})
		}
	}
	out = append(out, wire.Config{Kind: wire.SSE}, wire.Config{Kind: wire.SSE, SlowFlush: true})
	for _, k := range []string{wire.Stateful, wire.Stateless} {
		for _, j := range []bool{false, true} {
			for _, st := range []bool{false, true} {
				out = append(out, wire.Config{Kind: k, JSON: j, Store: st})
			}
		}
	}
	// the client's first message is already waiting when the server session starts reading
	for _, k := range []string{wire.InMem, wire.Pipe} {
		for _, sub := range []string{"legacy", "legacy-old"} {
			out = append(out, wire.Config{Kind: k, Subset: sub, ClientFirst: true})
		}
	}
	// stateful endpoint that issues no session ids (GetSessionID returns ""): still a stateful HTTP endpoint
	for _, j := range []bool{false, true} {
		out = append(out, wire.Config{Kind: wire.Stateful, JSON: j, EmptySessionID: true})
	}
	return out
}

// priorLinks: the links earlier sessions of the same Server may use (no custom session-id option,
// which is a property of the Server and belongs to the judged link).
func priorLinks() []wire.Config {
	var out []wire.Config
	for _, l := range allLinks() {
		if !l.EmptySessionID {
			out = append(out, l)
		}
	}
	return out
}

func genScript(rt *rapid.T) Script {
	links := allLinks()
	s := Script{
		Requested:          rapid.SampledFrom(requestedAll).Draw(rt, "requested"),
		Link:               rapid.SampledFrom(links).Draw(rt, "link"),
		ListChangedHandler: rapid.Bool().Draw(rt, "lch"),
		KeepAliveMs:        rapid.SampledFrom([]int{0, 0, 1000}).Draw(rt, "ka"),
		NoToolsCap:         rapid.Bool().Draw(rt, "notoolscap"),
		Arg:                rapid.StringN(0, 8, -1).Draw(rt, "arg"),
		ExtraTools:         rapid.IntRange(0, 3).Draw(rt, "extra"),
		SetupMs:            rapid.SampledFrom([]int{0, 0, 0, 1, 250}).Draw(rt, "setup_ms"),
	}
	if s.Link.Kind == wire.Stateful || s.Link.Kind == wire.Stateless {
		s.Link.NoStandalone = rapid.Bool().Draw(rt, "nosse")
	}
	for i, n := 0, rapid.SampledFrom([]int{0, 0, 1, 1, 2}).Draw(rt, "before"); i < n; i++ {
		s.Before = append(s.Before, Prior{
			Link:      rapid.SampledFrom(priorLinks()).Draw(rt, "plink"),
			Requested: rapid.SampledFrom(requestedAll).Draw(rt, "prequested"),
			Close:     rapid.Bool().Draw(rt, "pclose"),
		})
	}
	s.Neighbour = rapid.IntRange(0, 3).Draw(rt, "neighbour") == 0
	return s
}

var theT *testing.T

func run(s Script) (res vt.Result) {
	if p := vt.Bubble(theT, func() { res = runInBubble(s) }); p != "" {
		// Teardown leftovers are C05's business; they are only counted here.
		res.Class("teardown_leftover")
	}
	return res
}

type echoIn struct {
	Text string `json:"text"`
}

func runInBubble(s Script) (res vt.Result) {
	var mu sync.Mutex
	seen := map[string]int{}
	var sopts mcp.ServerOptions
	if s.NoToolsCap {
		sopts.Capabilities = &mcp.ServerCapabilities{Tools: &mcp.ToolCapabilities{}}
	}
	if s.Link.EmptySessionID {
		sopts.GetSessionID = func() string { return "" }
	}
	var server *mcp.Server
	if s.SetupMs > 0 {
		sopts.InitializedHandler = func(context.Context, *mcp.InitializedRequest) {
			time.Sleep(time.Duration(s.SetupMs) * time.Millisecond)
			mcp.AddTool(server, &mcp.Tool{Name: "late"}, func(ctx context.Context, req *mcp.CallToolRequest, in echoIn) (*mcp.CallToolResult, any, error) {
				return &mcp.CallToolResult{}, nil, nil
			})
		}
	}
	server = mcp.NewServer(&mcp.Implementation{Name: "srv", Version: "1"}, &sopts)
	server.AddReceivingMiddleware(func(next mcp.MethodHandler) mcp.MethodHandler {
		return func(ctx context.Context, method string, req mcp.Request) (mcp.Result, error) {
			mu.Lock()
			seen[method]++
			mu.Unlock()
			return next(ctx, method, req)
		}
	})
	mcp.AddTool(server, &mcp.Tool{Name: "echo"}, func(ctx context.Context, req *mcp.CallToolRequest, in echoIn) (*mcp.CallToolResult, any, error) {
		return &mcp.CallToolResult{Content: []mcp.Content{&mcp.TextContent{Text: "echo:" + in.Text}}}, nil, nil
	})
	for i := 0; i < s.ExtraTools; i++ {
		mcp.AddTool(server, &mcp.Tool{Name: fmt.Sprintf("extra%d", i)}, func(ctx context.Context, req *mcp.CallToolRequest, in echoIn) (*mcp.CallToolResult, any, error) {
			return &mcp.CallToolResult{}, nil, nil
		})
	}
	if s.Neighbour {
		nb := mcp.NewServer(&mcp.Implementation{Name: "neighbour", Version: "1"}, nil)
		nb.AddReceivingMiddleware(func(next mcp.MethodHandler) mcp.MethodHandler {
			return func(ctx context.Context, method string, req mcp.Request) (mcp.Result, error) {
				r, err := next(ctx, method, req)
				if dr, ok := r.(*mcp.DiscoverResult); ok && dr != nil {
					dr.SupportedVersions = slices.DeleteFunc(dr.SupportedVersions, func(v string) bool { return v >= modern })
				}
				return r, err
			}
		})
		if nl, err := wire.New(nb, wire.Config{Kind: wire.Stateless}); err == nil {
			nc := mcp.NewClient(&mcp.Implementation{Name: "nbclient", Version: "1"}, nil)
			nch := make(chan *mcp.ClientSession, 1)
			go func() {
				ncs, _ := nc.Connect(context.Background(), nl.ClientTransport, nil)
				nch <- ncs
			}()
			for i, got := 0, false; i < 120 && !got; i++ {
				synctest.Wait()
				select {
				case ncs := <-nch:
					got = true
					if ncs != nil {
						go ncs.Close()
					}
				default:
					time.Sleep(time.Second)
				}
			}
			synctest.Wait()
			res.Class("a_neighbour_server_trimmed_its_own_discover_result")
		}
	}
	for _, p := range s.Before {
		pl, err := wire.New(server, p.Link)
		if err != nil {
			res.Failf("harness: building prior link: %v", err)
			return
		}
		pc := mcp.NewClient(&mcp.Implementation{Name: "earlier", Version: "1"}, nil)
		pch := make(chan *mcp.ClientSession, 1)
		go func() {
			var o *mcp.ClientSessionOptions
			if p.Requested != "" {
				o = &mcp.ClientSessionOptions{ProtocolVersion: p.Requested}
			}
			pcs, _ := pc.Connect(context.Background(), pl.ClientTransport, o)
			pch <- pcs
		}()
		var pcs *mcp.ClientSession
		for i, got := 0, false; i < 120 && !got; i++ {
			synctest.Wait()
			select {
			case pcs = <-pch:
				got = true
			default:
				time.Sleep(time.Second)
			}
		}
		if pcs != nil {
			if p.Close {
				pcs.Close()
				synctest.Wait()
			} else {
				defer pcs.Close()
			}
		}
		res.Class("after_earlier_session_on_same_server")
	}
	mu.Lock()
	clear(seen)
	mu.Unlock()
	link, err := wire.New(server, s.Link)
	if err != nil {
		res.Failf("harness: building link: %v", err)
		return
	}
	copts := &mcp.ClientOptions{}
	if s.ListChangedHandler {
		copts.ToolListChangedHandler = func(context.Context, *mcp.ToolListChangedRequest) {}
	}
	if s.KeepAliveMs > 0 {
		copts.KeepAlive = time.Duration(s.KeepAliveMs) * time.Millisecond
	}
	client := mcp.NewClient(&mcp.Implementation{Name: "cli", Version: "1"}, copts)

	type connRes struct {
		cs  *mcp.ClientSession
		err error
	}
	ch := make(chan connRes, 1)
	go func() {
		var o *mcp.ClientSessionOptions
		if s.Requested != "" {
			o = &mcp.ClientSessionOptions{ProtocolVersion: s.Requested}
		}
		cs, err := client.Connect(context.Background(), link.ClientTransport, o)
		ch <- connRes{cs, err}
	}()
	var cr connRes
	got := false
	for i := 0; i < 120 && !got; i++ {
		synctest.Wait()
		select {
		case cr = <-ch:
			got = true
		default:
			time.Sleep(time.Second)
		}
	}
	requested := s.Requested
	if requested == "" {
		requested = sdkVersions[0]
	}
	mutual := slices.Contains(sdkVersions, requested) && s.Link.TransportSupports(requested)
	modernAttempt := requested >= modern
	transportModern := s.Link.TransportSupports(modern)
	res.Desc = fmt.Sprintf("%s|%s", s.Requested, s.Link)
	for _, p := range s.Before {
		res.Desc += fmt.Sprintf("|after %s %s", p.Requested, p.Link)
	}
	defer func() {
		for ss := range server.Sessions() {
			go ss.Close()
		}
		synctest.Wait()
		time.Sleep(10 * time.Second)
		synctest.Wait()
	}()
	if !got {
		res.Failf("Connect(requested=%q over %s) neither failed nor returned within 120s of virtual time", s.Requested, s.Link)
		return
	}
	if cr.err != nil {
		res.Class("connect_error")
		// "fails with an error" is an allowed outcome, except when the version is mutually supported.
		if mutual {
			res.Failf("Connect(requested=%q over %s) failed although the version is supported by both sides and the transport: %v", s.Requested, s.Link, cr.err)
		} else if modernAttempt {
			mu.Lock()
			nothingSent := seen["initialize"]+seen["server/discover"] == 0
			mu.Unlock()
			if !slices.Contains(sdkVersions, requested) && nothingSent {
				// a client may refuse a version string it does not know before talking to the server at all:
				// "fails with an error" is an allowed outcome and no discovery took place to fall back from
				res.Class("unknown_version_refused_by_client")
				return
			}
			// Discovery was unavailable or had no modern overlap; both SDK sides share legacy
			// versions over every transport, so the initialize fallback must have succeeded.
			res.Failf("Connect(requested=%q over %s) failed instead of falling back to the initialize handshake: %v", s.Requested, s.Link, cr.err)
		}
		return
	}
	cs := cr.cs
	defer cs.Close()
	neg := cs.InitializeResult().ProtocolVersion
	res.Class("negotiated_" + neg)
	if !slices.Contains(sdkVersions, neg) {
		res.Failf("negotiated version %q is not a version the SDK supports", neg)
		return
	}
	switch s.Link.Kind {
	case wire.InMem, wire.Pipe:
		// Custom ProtocolVersionSupporter subsets: the documented contract filters server/discover,
		// so only the modern/legacy split is asserted.
		if neg >= modern && !s.Link.TransportSupports(neg) {
			res.Failf("negotiated %q although the server transport does not advertise it (subset %q)", neg, s.Link.Subset)
		}
	default:
		if !s.Link.TransportSupports(neg) {
			res.Failf("negotiated %q over %s, which that transport cannot serve", neg, s.Link)
		}
	}
	if mutual && neg != requested {
		res.Failf("requested %q is supported by both sides and the transport (%s) but %q was negotiated", requested, s.Link, neg)
	}
	mu.Lock()
	sawInit, sawDiscover := seen["initialize"], seen["server/discover"]
	mu.Unlock()
	fallback := sawInit > 0
	if modernAttempt {
		if !transportModern && !fallback {
			res.Failf("discovery cannot yield a modern version over %s, yet the session was established without the initialize fallback (negotiated %q)", s.Link, neg)
		}
		// (only for a mutually supported request: for an unknown one the property asks for some supported
		// version, not for the newest one, so falling back to initialize is as good as renegotiating)
		if transportModern && fallback && mutual {
			res.Failf("server and transport (%s) support %s and the client asked for %q, but the client fell back to initialize (negotiated %q)", s.Link, modern, s.Requested, neg)
		}
		if fallback && neg >= modern {
			res.Failf("initialize fallback negotiated modern version %q", neg)
		}
	} else {
		if !fallback {
			res.Failf("legacy version %q requested but no initialize was received by the server", requested)
		}
		if sawDiscover > 0 {
			// probing server/discover before a legacy handshake is not forbidden by the property: only counted
			res.Class("discover_before_legacy_initialize")
		}
	}
	if neg != requested || fallback && modernAttempt {
		res.NonTrivial = true
	}
	if fallback && modernAttempt {
		res.Class("fallback_from_discover")
	}

	// Every successfully connected session can immediately list and call tools.
	type opRes struct {
		tools []string
		text  string
		err   error
	}
	och := make(chan opRes, 1)
	go func() {
		var r opRes
		lt, err := cs.ListTools(context.Background(), nil)
		if err != nil {
			r.err = fmt.Errorf("ListTools: %w", err)
			och <- r
			return
		}
		for _, t := range lt.Tools {
			r.tools = append(r.tools, t.Name)
		}
		ct, err := cs.CallTool(context.Background(), &mcp.CallToolParams{Name: "echo", Arguments: map[string]any{"text": s.Arg}})
		if err != nil {
			r.err = fmt.Errorf("CallTool: %w", err)
			och <- r
			return
		}
		if ct.IsError {
			r.err = fmt.Errorf("CallTool returned a tool error: %v", ct.Content)
		} else if len(ct.Content) == 1 {
			if tc, ok := ct.Content[0].(*mcp.TextContent); ok {
				r.text = tc.Text
			}
		}
		och <- r
	}()
	var or opRes
	got = false
	for i := 0; i < 60 && !got; i++ {
		synctest.Wait()
		select {
		case or = <-och:
			got = true
		default:
			time.Sleep(time.Second)
		}
	}
	if !got {
		res.Failf("ListTools/CallTool right after Connect (negotiated %q over %s) did not return", neg, s.Link)
		return
	}
	if or.err != nil {
		res.Failf("right after Connect (negotiated %q over %s): %v", neg, s.Link, or.err)
		return
	}
	want := 1 + s.ExtraTools
	if slices.Contains(or.tools, "late") {
		want++
	}
	if !slices.Contains(or.tools, "echo") || len(or.tools) != want {
		res.Failf("ListTools returned %v, want echo + %d extra tools", or.tools, s.ExtraTools)
	}
	if s.SetupMs > 0 && neg != modern && s.Link.Kind != wire.Stateless && !s.Link.EmptySessionID { // (per-request sessions: no connection to order the messages of)
		res.Class("server_equips_itself_in_its_initialized_handler")
		if !slices.Contains(or.tools, "late") {
			res.Failf("negotiated %q over %s: the first ListTools after Connect returned %v although the server's InitializedHandler, which registers \"late\", was to finish before any later message is dispatched", neg, s.Link, or.tools)
		}
	}
	if or.text != "echo:"+s.Arg {
		res.Failf("CallTool returned %q, want %q", or.text, "echo:"+s.Arg)
	}
	return
}

var prop = vt.Register(&vt.Prop[Script]{Property: "C07", Name: "matrix", Gen: genScript, Run: run})

func TestC07_Sample(t *testing.T) { theT = t; prop.Check(t) }

// TestC07_Matrix enumerates requested x link completely.
func TestC07_Matrix(t *testing.T) {
	theT = t
	cells := 0
	// third dimension: no earlier session on the Server, one over a modern-capable transport, one over a legacy-only one
	priors := [][]Prior{nil, {{Link: wire.Config{Kind: wire.InMem}}}, {{Link: wire.Config{Kind: wire.Stateful}, Close: true}}}
	for _, before := range priors {
		for _, r := range requestedAll {
			for _, l := range allLinks() {
				if !prop.RunOne(t, Script{Requested: r, Link: l, Arg: "x", Before: before}) {
					return
				}
				cells++
			}
		}
	}
	vt.Counter("exhaustive_cells", 0) // cells are recorded as ordinary evaluations by RunOne
	_ = cells
}

// ---- raw ends: each SDK side alone must only ever settle on a supported version ----

type RawScript struct {
	Side    string `json:"side"`    // "server": raw client -> SDK server; "client": SDK client -> scripted server; "discover": the same with the client free to discover
	Version string `json:"version"` // version the raw end puts on the wire
	// discover side only: what the client asks for ("" = default), and how the scripted server answers
	// server/discover: "list" (Advertised), "empty" ([]), "null", "absent" (no supportedVersions member), "error".
	Requested  string   `json:"requested,omitempty"`
	Discover   string   `json:"discover,omitempty"`
	Advertised []string `json:"advertised,omitempty"`
}

func genRaw(rt *rapid.T) RawScript {
	if rapid.IntRange(0, 2).Draw(rt, "discover_side") == 0 {
		s := RawScript{Side: "discover",
			Requested: rapid.SampledFrom([]string{"", "", "2026-07-28", "2099-01-01", "2025-11-25"}).Draw(rt, "requested"),
			Discover:  rapid.SampledFrom([]string{"list", "list", "list", "empty", "null", "absent", "error"}).Draw(rt, "discover"),
			Version:   rapid.SampledFrom([]string{"2025-11-25", "2025-06-18", "2025-03-26", "2024-11-05", "2026-07-28", "2024-01-01", "abc"}).Draw(rt, "init_answer"),
		}
		if s.Discover == "list" {
			s.Advertised = rapid.SliceOfNDistinct(rapid.SampledFrom([]string{"2026-07-28", "2025-11-25", "2025-06-18", "2024-11-05", "2099-01-01", "2026-07-29", "abc", ""}), 1, 4, rapid.ID[string]).Draw(rt, "advertised")
		}
		return s
	}
	return RawScript{
		Side: rapid.SampledFrom([]string{"server", "client"}).Draw(rt, "side"),
		Version: rapid.OneOf(
			rapid.SampledFrom(sdkVersions),
			rapid.SampledFrom([]string{"", "2024-01-01", "2099-01-01", "abc", "2026-07-27", "2026-07-29", "2025-11-26", "2025-11-25 ", "1", "DRAFT-2026-v1"}),
			rapid.StringMatching(`20[0-9]{2}-[01][0-9]-[0-3][0-9]`),
		).Draw(rt, "version"),
	}
}

func runRaw(s RawScript) (res vt.Result) {
	if p := vt.Bubble(theT, func() { res = runRawInBubble(s) }); p != "" {
		res.Class("teardown_leftover")
	}
	return res
}

func runRawInBubble(s RawScript) (res vt.Result) {
	res.Desc = s.Side + "|" + s.Version
	known := slices.Contains(sdkVersions, s.Version)
	res.NonTrivial = !known
	if s.Side == "server" {
		server := mcp.NewServer(&mcp.Implementation{Name: "srv", Version: "1"}, nil)
		a, b := memio.NewPipe()
		ss, err := server.Connect(context.Background(), &mcp.IOTransport{Reader: a, Writer: a}, nil)
		if err != nil {
			res.Failf("harness: %v", err)
			return
		}
		peer := memio.NewRawPeer(b)
		defer func() { peer.Close(); ss.Close() }()
		vj, _ := json.Marshal(s.Version)
		peer.Send(fmt.Sprintf(`{"jsonrpc":"2.0","id":1,"method":"initialize","params":{"protocolVersion":%s,"capabilities":{},"clientInfo":{"name":"raw","version":"0"}}}`, vj))
		synctest.Wait()
		// the answer is the message bearing id 1; notifications the server may send along are not judged here
		var answers [][]byte
		for _, raw := range peer.Received() {
			var m struct {
				ID     *int   `json:"id"`
				Method string `json:"method"`
			}
			if json.Unmarshal(raw, &m) == nil && m.Method == "" && m.ID != nil && *m.ID == 1 {
				answers = append(answers, raw)
			}
		}
		recv := answers
		if len(recv) != 1 {
			res.Failf("initialize(%q): got %d responses to it, want 1", s.Version, len(recv))
			return
		}
		var resp struct {
			Result *struct {
				ProtocolVersion string `json:"protocolVersion"`
			} `json:"result"`
			Error *struct{ Code int } `json:"error"`
		}
		json.Unmarshal(recv[0], &resp)
		if resp.Result == nil {
			res.Class("server_rejected")
			if known && s.Version < modern {
				res.Failf("initialize with supported version %q was rejected: %s", s.Version, recv[0])
			}
			return
		}
		got := resp.Result.ProtocolVersion
		if !slices.Contains(sdkVersions, got) {
			res.Failf("server answered initialize(%q) with protocolVersion %q, which the SDK does not support", s.Version, got)
		}
		if got >= modern {
			res.Failf("server negotiated %q through the initialize handshake (modern versions have no handshake)", got)
		}
		if known && s.Version < modern && got != s.Version {
			res.Failf("server answered initialize(%q) with %q although it supports the requested version", s.Version, got)
		}
		return
	}
	if s.Side == "discover" {
		return runRawDiscover(s)
	}
	// SDK client against a scripted server that answers initialize with s.Version.
	sc := memio.NewScriptConn()
	client := mcp.NewClient(&mcp.Implementation{Name: "cli", Version: "1"}, nil)
	type cr struct {
		cs  *mcp.ClientSession
		err error
	}
	ch := make(chan cr, 1)
	go func() {
		cs, err := client.Connect(context.Background(), sc.Transport(), &mcp.ClientSessionOptions{ProtocolVersion: "2025-06-18"})
		ch <- cr{cs, err}
	}()
	// the initialize request is looked for among what the client wrote (up to 30 s of virtual time), whatever else it sends
	var initReq *jsonrpc.Request
	for i := 0; i < 30 && initReq == nil; i++ {
		synctest.Wait()
		for _, m := range sc.Written() {
			if r, ok := m.(*jsonrpc.Request); ok && r.Method == "initialize" {
				initReq = r
			}
		}
		if initReq == nil {
			time.Sleep(time.Second)
		}
	}
	if initReq == nil {
		res.Failf("harness: the client did not send an initialize request (%d messages written)", len(sc.Written()))
		sc.Close()
		return
	}
	vj, _ := json.Marshal(s.Version)
	sc.Inject(&jsonrpc.Response{ID: initReq.ID, Result: json.RawMessage(fmt.Sprintf(`{"protocolVersion":%s,"capabilities":{},"serverInfo":{"name":"x","version":"0"}}`, vj))})
	var r cr
	returned := false
	for i := 0; i < 120 && !returned; i++ { // Connect may take virtual time; only "never" is a failure
		synctest.Wait()
		select {
		case r = <-ch:
			returned = true
		default:
			time.Sleep(time.Second)
		}
	}
	if !returned {
		res.Failf("Connect did not return after the initialize response (version %q)", s.Version)
		sc.Close()
		return
	}
	if r.err != nil {
		res.Class("client_rejected")
		// (only the version the client asked for: refusing a different one is an allowed "fails with an error")
		if s.Version == "2025-06-18" {
			res.Failf("client rejected a server that answered with supported version %q: %v", s.Version, r.err)
		}
		sc.Close()
		return
	}
	defer func() { sc.FailRead(io.EOF); r.cs.Close() }()
	if got := r.cs.InitializeResult().ProtocolVersion; !slices.Contains(sdkVersions, got) {
		res.Failf("client established a session with negotiated version %q, which the SDK does not support (server answered %q)", got, s.Version)
	}
	return
}

// runRawDiscover: the SDK client, free to discover, against a scripted server whose server/discover answer
// takes every shape. Without a handshake the client may only settle on a version the server advertised (and
// the SDK supports); an answer that names no version at all is "no modern overlap": fall back or fail.
func runRawDiscover(s RawScript) (res vt.Result) {
	res.Desc = fmt.Sprintf("discover|%s|%s|%v|%s", s.Requested, s.Discover, s.Advertised, s.Version)
	res.NonTrivial = s.Discover != "list" || !slices.Contains(s.Advertised, modern)
	res.Class("discover_answer_" + s.Discover)
	sc := memio.NewScriptConn()
	client := mcp.NewClient(&mcp.Implementation{Name: "cli", Version: "1"}, nil)
	type cr struct {
		cs  *mcp.ClientSession
		err error
	}
	ch := make(chan cr, 1)
	go func() {
		var o *mcp.ClientSessionOptions
		if s.Requested != "" {
			o = &mcp.ClientSessionOptions{ProtocolVersion: s.Requested}
		}
		cs, err := client.Connect(context.Background(), sc.Transport(), o)
		ch <- cr{cs, err}
	}()
	answered := map[string]bool{}
	sawInit, sawDiscover := false, false
	var r cr
	returned := false
	for i := 0; i < 120 && !returned; i++ {
		synctest.Wait()
		for _, m := range sc.Written() {
			q, ok := m.(*jsonrpc.Request)
			if !ok || !q.IsCall() || answered[fmt.Sprint(q.ID.Raw())] {
				continue
			}
			answered[fmt.Sprint(q.ID.Raw())] = true
			switch q.Method {
			case "server/discover":
				sawDiscover = true
				body := ""
				switch s.Discover {
				case "list":
					vj, _ := json.Marshal(s.Advertised)
					body = `"supportedVersions":` + string(vj) + `,`
				case "empty":
					body = `"supportedVersions":[],`
				case "null":
					body = `"supportedVersions":null,`
				case "error":
					sc.Inject(&jsonrpc.Response{ID: q.ID, Error: &jsonrpc.Error{Code: -32601, Message: "method not found"}})
					continue
				}
				sc.Inject(&jsonrpc.Response{ID: q.ID, Result: json.RawMessage(`{` + body + `"capabilities":{"tools":{}},"_meta":{"io.modelcontextprotocol/serverInfo":{"name":"x","version":"0"}}}`)})
			case "initialize":
				sawInit = true
				vj, _ := json.Marshal(s.Version)
				sc.Inject(&jsonrpc.Response{ID: q.ID, Result: json.RawMessage(fmt.Sprintf(`{"protocolVersion":%s,"capabilities":{"tools":{}},"serverInfo":{"name":"x","version":"0"}}`, vj))})
			default:
				sc.Inject(&jsonrpc.Response{ID: q.ID, Result: json.RawMessage(`{}`)})
			}
		}
		synctest.Wait()
		select {
		case r = <-ch:
			returned = true
		default:
			time.Sleep(time.Second)
		}
	}
	if !returned {
		res.Failf("Connect did not return (discover answered %s %v, initialize answered %q)", s.Discover, s.Advertised, s.Version)
		sc.Close()
		return
	}
	if r.err != nil {
		res.Class("client_rejected") // failing with an error is always an allowed outcome
		sc.Close()
		return
	}
	defer func() { sc.FailRead(io.EOF); r.cs.Close() }()
	got := r.cs.InitializeResult().ProtocolVersion
	if !slices.Contains(sdkVersions, got) {
		res.Failf("client established a session with negotiated version %q, which the SDK does not support", got)
	}
	switch {
	case got >= modern && sawInit:
		// the scripted server answered the initialize request itself with a modern version: its own doing, not judged
		res.Class("modern_version_taken_from_an_initialize_answer")
	case got >= modern && !sawDiscover:
		res.Failf("client settled on %q without asking the server (no server/discover seen)", got)
	case got >= modern && (s.Discover != "list" || !slices.Contains(s.Advertised, got)):
		res.Failf("client settled on %q without a handshake although the server's discover answer (%s %v) does not advertise it", got, s.Discover, s.Advertised)
	case got < modern && !sawInit:
		res.Failf("client reports legacy version %q without having sent initialize", got)
	case got < modern && got != s.Version:
		res.Failf("client reports %q, the server answered initialize with %q", got, s.Version)
	}
	if sawDiscover && sawInit {
		res.Class("fallback_from_discover")
	}
	return
}

var rawProp = vt.Register(&vt.Prop[RawScript]{Property: "C07", Name: "raw", Gen: genRaw, Run: runRaw})

func TestC07_Raw(t *testing.T) { theT = t; rawProp.Check(t) }

func TestReplay(t *testing.T)  { theT = t; vt.Replay(t) }
func TestRegress(t *testing.T) { theT = t; vt.Regress(t, "C07") }
func TestKnown(t *testing.T)   { theT = t; vt.Known(t, "C07") }
