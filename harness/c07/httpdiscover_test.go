package c07

// TestC07_HTTPDiscover: the SDK client over the streamable HTTP client transport against a scripted HTTP
// endpoint that behaves like a server from before server/discover existed: the discover POST is refused at
// the HTTP level (any status, any body), everything else is served. C07: "the client falls back from
// discovery to the initialize handshake whenever discovery is unavailable ... and every successfully
// connected session can immediately list and call tools".

import (
	"context"
	"encoding/json"
	"fmt"
	"io"
	"net/http"
	"slices"
	"sync"
	"testing"
	"testing/synctest"
	"time"

	"github.com/modelcontextprotocol/go-sdk/mcp"
	"github.com/modelcontextprotocol/go-sdk/verif/memhttp"
	"github.com/modelcontextprotocol/go-sdk/verif/vt"
	"pgregory.net/rapid"
)

type HDScript struct {
	Requested string `json:"requested"` // "" = default
	// how the endpoint answers a server/discover POST
	Status int    `json:"status"` // HTTP status (200: a JSON-RPC error answer in the body)
	Body   string `json:"body"`   // plain | empty | html | rpcerror (a JSON-RPC error object with the request's id) | rpcnoid (one without an id)
	Code   int    `json:"code"`   // the JSON-RPC error code in rpcerror/rpcnoid bodies
	// the version the endpoint answers initialize with
	InitVersion  string `json:"init_version"`
	SessionID    bool   `json:"session_id"` // the endpoint issues an Mcp-Session-Id
	SSE          bool   `json:"sse"`        // answers are framed as one-event SSE streams instead of JSON
	NoStandalone bool   `json:"no_standalone"`
}

var hdStatuses = []int{200, 400, 400, 404, 405, 406, 415, 422, 426, 499, 500, 501, 501, 502, 503, 504, 505, 505, 429}

func genHD(rt *rapid.T) HDScript {
	s := HDScript{
		Requested:    rapid.SampledFrom([]string{"", "", "2026-07-28", "2025-11-25"}).Draw(rt, "requested"),
		Status:       rapid.SampledFrom(hdStatuses).Draw(rt, "status"),
		Body:         rapid.SampledFrom([]string{"plain", "plain", "empty", "html", "rpcerror", "rpcnoid"}).Draw(rt, "body"),
		Code:         rapid.SampledFrom([]int{-32601, -32601, -32600, -32602, -32000, -32603}).Draw(rt, "code"),
		InitVersion:  rapid.SampledFrom([]string{"2025-11-25", "2025-11-25", "2025-06-18", "2025-03-26", "2024-11-05"}).Draw(rt, "init_version"),
		SessionID:    rapid.Bool().Draw(rt, "session_id"),
		SSE:          rapid.IntRange(0, 3).Draw(rt, "sse") == 0,
		NoStandalone: rapid.Bool().Draw(rt, "no_standalone"),
	}
	if s.Status == 200 {
		s.Body = "rpcerror" // a 200 that refuses discovery can only do so with a JSON-RPC error
	}
	return s
}

type hdFake struct {
	s  HDScript
	mu sync.Mutex
	// what arrived, in order
	methods []string
	bad     []string
}

func (f *hdFake) answer(w http.ResponseWriter, id json.RawMessage, result string) {
	msg := fmt.Sprintf(`{"jsonrpc":"2.0","id":%s,"result":%s}`, id, result)
	if f.s.SSE {
		w.Header().Set("Content-Type", "text/event-stream")
		w.WriteHeader(200)
		io.WriteString(w, memhttp.FormatSSE("message", "", "", msg))
		return
	}
	w.Header().Set("Content-Type", "application/json")
	w.WriteHeader(200)
	io.WriteString(w, msg)
}

func (f *hdFake) ServeHTTP(w http.ResponseWriter, r *http.Request) {
	switch r.Method {
	case "DELETE":
		w.WriteHeader(204)
		return
	case "GET":
		w.WriteHeader(http.StatusMethodNotAllowed) // no standalone stream
		return
	}
	raw, _ := io.ReadAll(r.Body)
	var msg struct {
		ID     json.RawMessage `json:"id"`
		Method string          `json:"method"`
	}
	if err := json.Unmarshal(raw, &msg); err != nil {
		f.mu.Lock()
		f.bad = append(f.bad, string(raw))
		f.mu.Unlock()
		http.Error(w, "bad request", 400)
		return
	}
	f.mu.Lock()
	f.methods = append(f.methods, msg.Method)
	f.mu.Unlock()
	switch msg.Method {
	case "server/discover":
		body, ct := "", "text/plain; charset=utf-8"
		switch f.s.Body {
		case "plain":
			body = "unsupported method\n"
		case "html":
			body, ct = "<html><body><h1>Not supported</h1></body></html>", "text/html"
		case "rpcerror":
			body, ct = fmt.Sprintf(`{"jsonrpc":"2.0","id":%s,"error":{"code":%d,"message":"server/discover is not supported"}}`, msg.ID, f.s.Code), "application/json"
		case "rpcnoid":
			body, ct = fmt.Sprintf(`{"jsonrpc":"2.0","id":null,"error":{"code":%d,"message":"server/discover is not supported"}}`, f.s.Code), "application/json"
		}
		if body != "" {
			w.Header().Set("Content-Type", ct)
		}
		w.WriteHeader(f.s.Status)
		io.WriteString(w, body)
	case "initialize":
		if f.s.SessionID {
			w.Header().Set("Mcp-Session-Id", "sess-1")
		}
		vj, _ := json.Marshal(f.s.InitVersion)
		f.answer(w, msg.ID, fmt.Sprintf(`{"protocolVersion":%s,"capabilities":{"tools":{}},"serverInfo":{"name":"old","version":"0"}}`, vj))
	case "tools/list":
		f.answer(w, msg.ID, `{"tools":[{"name":"echo","inputSchema":{"type":"object"}}]}`)
	case "tools/call":
		f.answer(w, msg.ID, `{"content":[{"type":"text","text":"echoed"}]}`)
	default:
		if len(msg.ID) > 0 {
			f.answer(w, msg.ID, `{}`)
			return
		}
		w.WriteHeader(202)
	}
}

func runHD(s HDScript) (res vt.Result) {
	if p := vt.Bubble(theT, func() { res = runHDInBubble(s) }); p != "" {
		res.Class("teardown_leftover")
	}
	return res
}

func runHDInBubble(s HDScript) (res vt.Result) {
	res.Desc = fmt.Sprintf("httpdiscover|%s|%d|%s|%d|%s|%v|%v", s.Requested, s.Status, s.Body, s.Code, s.InitVersion, s.SessionID, s.SSE)
	f := &hdFake{s: s}
	tr := &memhttp.Transport{Handler: f}
	client := mcp.NewClient(&mcp.Implementation{Name: "cli", Version: "1"}, nil)
	ct := &mcp.StreamableClientTransport{Endpoint: "http://mcp.example/mcp", HTTPClient: tr.Client(), DisableStandaloneSSE: s.NoStandalone}
	type out struct {
		cs    *mcp.ClientSession
		stage string
		err   error
		tools int
		text  string
	}
	ch := make(chan out, 1)
	go func() {
		var o *mcp.ClientSessionOptions
		if s.Requested != "" {
			o = &mcp.ClientSessionOptions{ProtocolVersion: s.Requested}
		}
		cs, err := client.Connect(context.Background(), ct, o)
		if err != nil {
			ch <- out{stage: "connect", err: err}
			return
		}
		r := out{cs: cs}
		lt, err := cs.ListTools(context.Background(), nil)
		if err != nil {
			r.stage, r.err = "list", err
			ch <- r
			return
		}
		r.tools = len(lt.Tools)
		c, err := cs.CallTool(context.Background(), &mcp.CallToolParams{Name: "echo", Arguments: map[string]any{}})
		if err != nil {
			r.stage, r.err = "call", err
			ch <- r
			return
		}
		if len(c.Content) == 1 {
			if tc, ok := c.Content[0].(*mcp.TextContent); ok {
				r.text = tc.Text
			}
		}
		ch <- r
	}()
	var r out
	returned := false
	for i := 0; i < 600 && !returned; i++ { // retries of a transient status may take virtual time
		synctest.Wait()
		select {
		case r = <-ch:
			returned = true
		default:
			time.Sleep(time.Second)
		}
	}
	defer func() {
		if r.cs != nil {
			go r.cs.Close()
		}
		synctest.Wait()
		time.Sleep(time.Minute)
		synctest.Wait()
	}()
	f.mu.Lock()
	methods := slices.Clone(f.methods)
	bad := slices.Clone(f.bad)
	f.mu.Unlock()
	for _, b := range bad {
		res.Failf("harness: undecodable POST body %q", b)
	}
	wantsModern := s.Requested == "" || s.Requested >= modern
	sawDiscover := slices.Contains(methods, "server/discover")
	sawInit := slices.Contains(methods, "initialize")
	res.Class(fmt.Sprintf("discover_refused_http_%d", s.Status), "refusal_body_"+s.Body)
	res.NonTrivial = wantsModern
	if !returned {
		res.Failf("Connect (then list, call) did not return within 10 minutes of virtual time; the endpoint saw %v", methods)
		return
	}
	if !wantsModern {
		res.Class("legacy_requested")
		if sawDiscover {
			res.Failf("a client asked for %q sent server/discover", s.Requested)
		}
	} else if !sawDiscover {
		res.Failf("a client free to use %q never tried server/discover (the endpoint saw %v)", modern, methods)
	}
	if r.err != nil && r.stage == "connect" {
		// Discovery is unavailable on this endpoint (the POST is refused), the initialize handshake is served:
		// "falls back from discovery to the initialize handshake whenever discovery is unavailable".
		res.Failf("Connect failed (%v) against an endpoint that refuses server/discover with HTTP %d (%s body) but serves the initialize handshake (version %q): the client did not fall back; the endpoint saw %v", r.err, s.Status, s.Body, s.InitVersion, methods)
		return
	}
	if r.err != nil {
		res.Failf("the session was connected but %s failed at once: %v (the endpoint saw %v)", r.stage, r.err, methods)
		return
	}
	got := r.cs.InitializeResult().ProtocolVersion
	if !sawInit {
		res.Failf("the client reports a session (version %q) without having sent initialize to an endpoint that refuses discovery; the endpoint saw %v", got, methods)
	}
	if got != s.InitVersion {
		res.Failf("negotiated %q, the endpoint answered initialize with %q", got, s.InitVersion)
	}
	if r.tools != 1 || r.text != "echoed" {
		res.Failf("list/call right after Connect returned %d tools and %q, want 1 and %q", r.tools, r.text, "echoed")
	}
	if sawDiscover && sawInit {
		res.Class("fallback_from_discover")
	}
	return
}

var hdProp = vt.Register(&vt.Prop[HDScript]{Property: "C07", Name: "httpdiscover", Gen: genHD, Run: runHD})

func TestC07_HTTPDiscover(t *testing.T) { theT = t; hdProp.Check(t) }
