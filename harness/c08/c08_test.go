// Package c08 decides property C08: server-side stream resumption on the
// streamable HTTP handler is exactly-once, in order, with stable event ids.
// A raw HTTP peer (memhttp) posts calls whose handler writes on command,
// cuts exchanges at scripted points and resumes with any Last-Event-ID seen
// so far; ground truth is the append order recorded by a wrapping EventStore;
// every SSE byte is read by an independent parser.
package c08

import (
	"bytes"
	"context"
	"encoding/json"
	"fmt"
	"io"
	"iter"
	"net/http"
	"runtime"
	"strconv"
	"strings"
	"sync"
	"sync/atomic"
	"testing"
	"testing/synctest"
	"time"

	"github.com/modelcontextprotocol/go-sdk/mcp"
	"github.com/modelcontextprotocol/go-sdk/verif/memhttp"
	"github.com/modelcontextprotocol/go-sdk/verif/vt"
	"pgregory.net/rapid"
)

func TestMain(m *testing.M) { vt.Main(m) }

type Step struct {
	Kind   string `json:"kind"`        // post note finish cut resume hclose purge | sget snote scut sresume
	S      int    `json:"s,omitempty"` // which request stream (mod)
	I      int    `json:"i,omitempty"` // which previously seen event id (mod) for resume
	NoWait bool   `json:"nowait,omitempty"`
	// Inject (resume, race variant): right after the server has read the stored events for this resume, the
	// stream's handler is told to write one more message (the write overlaps replay and re-attachment).
	Inject bool `json:"inject,omitempty"`
	// Quiet (cut): the client is gone but the server has not noticed: its next write to the exchange fails, and
	// only that failure ends the exchange (memhttp.CutQuietly). Until then a resume may find the stream taken.
	Quiet bool `json:"quiet,omitempty"`
	// Dies (resume, sresume) > 0: the resuming client vanishes unnoticed while it is being served: the server's
	// write number Dies to that exchange is the first to fail (1: the very first replayed event).
	Dies int `json:"dies,omitempty"`
	// Big (note, snote): the message is larger than the whole budget of a small store (Script.StoreBytes)
	Big bool `json:"big,omitempty"`
}

type Script struct {
	// Yields: the event store's Append yields the processor this many times before storing (race
	// variant): it widens the window between "stored" and "delivered" for a concurrently arriving resume.
	Yields  int    `json:"yields,omitempty"`
	Version string `json:"version"` // 2025-03-26 | 2025-06-18 (no priming) | 2025-11-25 (priming)
	Steps   []Step `json:"steps"`
	// PurgeDuringLastReplay: while the very last resume of the case is being replayed, the store is purged.
	PurgeDuringLastReplay bool `json:"purge_during_last_replay,omitempty"`
	// StoreBytes > 0: the event store keeps this byte budget for the whole case (a store that is short of
	// memory): resumes may be refused because their events are gone, accepted ones must be exact.
	StoreBytes int `json:"store_bytes,omitempty"`
}

func genScript(rt *rapid.T, race bool) Script {
	s := Script{Version: rapid.SampledFrom([]string{"2025-03-26", "2025-06-18", "2025-11-25", "2025-11-25"}).Draw(rt, "version")}
	if race {
		s.Yields = rapid.SampledFrom([]int{0, 2000, 2000, 5000}).Draw(rt, "yields")
	}
	s.PurgeDuringLastReplay = rapid.IntRange(0, 2).Draw(rt, "purge_last") == 0
	if rapid.IntRange(0, 4).Draw(rt, "small_store") == 0 {
		s.StoreBytes = rapid.SampledFrom([]int{300, 700, 2000}).Draw(rt, "store_bytes")
	}
	n := rapid.IntRange(2, 30).Draw(rt, "n")
	posts := 0
	for i := 0; i < n; i++ {
		kinds := []string{"post", "note", "note", "note", "finish", "cut", "cut", "hclose", "purge", "resume", "resume", "resume", "sget", "snote", "snote", "scut", "sresume", "sresume"}
		if posts >= 3 {
			kinds = kinds[1:]
		}
		st := Step{Kind: rapid.SampledFrom(kinds).Draw(rt, "kind"), S: rapid.IntRange(0, 2).Draw(rt, "s"), I: rapid.IntRange(0, 11).Draw(rt, "i")}
		if st.Kind == "post" {
			posts++
		}
		if st.Kind == "cut" {
			st.Quiet = rapid.IntRange(0, 2).Draw(rt, "quiet") == 0
		}
		if (st.Kind == "resume" || st.Kind == "sresume") && rapid.IntRange(0, 4).Draw(rt, "dies") == 0 {
			st.Dies = rapid.IntRange(1, 3).Draw(rt, "dies_at")
		}
		if (st.Kind == "note" || st.Kind == "snote") && s.StoreBytes > 0 {
			st.Big = rapid.IntRange(0, 3).Draw(rt, "big") == 0
		}
		if race {
			st.NoWait = rapid.IntRange(0, 3).Draw(rt, "nowait") == 0
		}
		s.Steps = append(s.Steps, st)
		// the interesting shape, generated on purpose: cut, write while detached, resume
		if (st.Kind == "cut" || st.Kind == "scut" || st.Kind == "hclose") && (race || rapid.IntRange(0, 2).Draw(rt, "macro") > 0) {
			w, r := "note", "resume"
			if st.Kind == "scut" {
				w, r = "snote", "sresume"
			}
			for k := rapid.IntRange(1, 3).Draw(rt, "detached_writes"); k > 0; k-- {
				// in the race variant the last detached write may overlap the resume that follows
				s.Steps = append(s.Steps, Step{Kind: w, S: st.S, Big: s.StoreBytes > 0 && rapid.IntRange(0, 3).Draw(rt, "big_detached") == 0, NoWait: race && k == 1 && rapid.IntRange(0, 3).Draw(rt, "write_races_resume") > 0})
			}
			if st.Kind == "cut" && rapid.IntRange(0, 3).Draw(rt, "finish_detached") == 0 {
				s.Steps = append(s.Steps, Step{Kind: "finish", S: st.S})
			}
			if rapid.IntRange(0, 3).Draw(rt, "dying_resume") == 0 {
				// a resume whose client vanishes while the stored events are replayed to it, then the real one
				s.Steps = append(s.Steps, Step{Kind: r, S: st.S, I: rapid.IntRange(0, 11).Draw(rt, "dri"), Dies: rapid.IntRange(1, 3).Draw(rt, "dies_at")})
			}
			s.Steps = append(s.Steps, Step{Kind: r, S: st.S, I: rapid.IntRange(0, 11).Draw(rt, "ri"), Inject: race && r == "resume" && rapid.Bool().Draw(rt, "inject")})
		}
	}
	// A shape generated on purpose for stores short of memory: a stream gathers ten or more messages, is cut,
	// and a message that needs the whole budget is then written (the purge inside that append drains the
	// stream's stored events in one go), followed by the response and a resume from just before.
	if s.StoreBytes >= 2000 && rapid.IntRange(0, 1).Draw(rt, "drain_macro") == 0 {
		macro := []Step{{Kind: "post"}}
		for i, k := 0, rapid.IntRange(10, 13).Draw(rt, "drain_k"); i < k; i++ {
			macro = append(macro, Step{Kind: "note", S: 0})
		}
		macro = append(macro, Step{Kind: "cut", S: 0}, Step{Kind: "note", S: 0, Big: true}, Step{Kind: "note", S: 0})
		if rapid.Bool().Draw(rt, "drain_finish") {
			macro = append(macro, Step{Kind: "finish", S: 0})
		}
		for _, i := range []int{11, 10, 9, 8} {
			macro = append(macro, Step{Kind: "resume", S: 0, I: i})
		}
		s.Steps = append(macro, s.Steps...)
	}
	return s
}

// recStore records the append order: the ground truth W(stream).
type recStore struct {
	inner      *mcp.MemoryEventStore
	yields     int
	afterCalls atomic.Int64
	purgeNext  atomic.Bool // the next After sees the store purged while its result is being consumed
	// injectOnce, if set, is called once right after the next After has handed out its last item
	injMu      sync.Mutex
	injectOnce func()
	mu         sync.Mutex
	logs       map[string][][]byte // streamID -> payloads in append order
}

func (r *recStore) Open(ctx context.Context, sess, stream string) error {
	return r.inner.Open(ctx, sess, stream)
}
func (r *recStore) Append(ctx context.Context, sess, stream string, data []byte) error {
	r.mu.Lock()
	r.logs[stream] = append(r.logs[stream], append([]byte(nil), data...))
	r.mu.Unlock()
	err := r.inner.Append(ctx, sess, stream, data)
	// the message is stored now; give a concurrently arriving resume the chance to run before the
	// caller goes on to deliver it
	// (bounded: in the correct code a resume waits for the stream lock the caller holds, so the loop
	// simply runs out; nothing here blocks)
	start := r.afterCalls.Load()
	for i := 0; i < r.yields && r.afterCalls.Load() == start; i++ {
		runtime.Gosched()
	}
	if r.afterCalls.Load() != start {
		for i := 0; i < 300; i++ { // let that resume finish replaying and attach
			runtime.Gosched()
		}
	}
	return err
}
func (r *recStore) After(ctx context.Context, sess, stream string, index int) iter.Seq2[[]byte, error] {
	r.afterCalls.Add(1)
	seq := r.inner.After(ctx, sess, stream, index)
	r.injMu.Lock()
	inject := r.injectOnce
	r.injectOnce = nil
	r.injMu.Unlock()
	if inject != nil {
		return func(yield func([]byte, error) bool) {
			for d, err := range seq {
				if !yield(d, err) {
					return
				}
			}
			// The stored events have been read. A write to the same stream starts now and gets every
			// chance to run before the caller goes on (in the correct code it has to wait for the stream
			// lock the caller holds; nothing here blocks).
			inject()
			for i := 0; i < 3000; i++ {
				runtime.Gosched()
			}
		}
	}
	if !r.purgeNext.CompareAndSwap(true, false) {
		return seq
	}
	// While this replay is being consumed the store shrinks to nothing (as when other sessions push it over
	// its byte budget): what After handed out must be a snapshot.
	return func(yield func([]byte, error) bool) {
		n := 0
		for d, err := range seq {
			if n == 1 {
				r.inner.SetMaxBytes(1)
			}
			n++
			if !yield(d, err) {
				return
			}
		}
	}
}
func (r *recStore) SessionClosed(ctx context.Context, sess string) error {
	return r.inner.SessionClosed(ctx, sess)
}
func (r *recStore) log(stream string) [][]byte {
	r.mu.Lock()
	defer r.mu.Unlock()
	return append([][]byte(nil), r.logs[stream]...)
}

type exch struct {
	ex       *memhttp.Exchange
	from     int  // resumed after this index (-1: original exchange / fresh standalone GET)
	hasFrom  bool // a Last-Event-ID was presented
	cut      bool
	conflict bool
	// hclosed: the handler closed this exchange itself (CloseSSEStream); like a cut, later messages are
	// not owed to it.
	hclosed bool
	// quiet: cut without the server noticing (CutQuietly); while the server still runs the exchange's handler
	// the stream counts as taken on its side
	quiet bool
}

// halfOpen reports whether an exchange of the stream was cut quietly and is still held by the server.
func (s *streamRec) halfOpen() bool {
	for _, e := range s.exs {
		if e.quiet && !e.ex.HandlerDone() {
			return true
		}
	}
	return false
}

type streamRec struct {
	k        int    // gate key (request streams)
	sid      string // logical stream id once known
	known    bool
	exs      []*exch
	seenIdx  []int // indices of event ids seen on this stream, in order of first sight
	finished bool  // handler told to return
	posted   bool
	notes    int
}

func (s *streamRec) attached() *exch {
	for _, e := range s.exs {
		if !e.cut && !e.hclosed && !e.conflict && !e.ex.HandlerDone() {
			return e
		}
	}
	return nil
}

type cmd struct {
	finish bool
	big    int // pad the message to at least this many bytes
	// closeResume: the handler closes its SSE stream (RequestExtra.CloseSSEStream) and, on the same
	// goroutine and at once, a client resumes the stream from lastID (a prompt reconnection).
	closeResume bool
	lastID      string
	tag         string
}

var theT *testing.T

func run(s Script) (res vt.Result) {
	if p := vt.Bubble(theT, func() { res = runInBubble(s) }); p != "" {
		res.Class("teardown_leftover")
	}
	return res
}

type emitIn struct {
	K int `json:"k"`
}

func runInBubble(s Script) (res vt.Result) {
	store := &recStore{inner: mcp.NewMemoryEventStore(nil), logs: map[string][][]byte{}, yields: s.Yields}
	var cmu sync.Mutex
	cmds := map[int]chan cmd{}
	cmdCh := func(k int) chan cmd {
		cmu.Lock()
		defer cmu.Unlock()
		if cmds[k] == nil {
			cmds[k] = make(chan cmd, 64)
		}
		return cmds[k]
	}
	var promptResume func(lastID, tag string)
	server := mcp.NewServer(&mcp.Implementation{Name: "srv", Version: "1"}, nil)
	mcp.AddTool(server, &mcp.Tool{Name: "emit"}, func(ctx context.Context, req *mcp.CallToolRequest, in emitIn) (*mcp.CallToolResult, any, error) {
		n := 0
		for c := range cmdCh(in.K) {
			if c.finish {
				break
			}
			if c.closeResume {
				if req.Extra != nil && req.Extra.CloseSSEStream != nil {
					req.Extra.CloseSSEStream(mcp.CloseSSEStreamArgs{RetryAfter: time.Millisecond})
				}
				promptResume(c.lastID, c.tag)
				continue
			}
			n++
			// written with the request's context: routed to this request's stream
			msg := fmt.Sprintf("k%d-n%d", in.K, n)
			if c.big > 0 {
				msg += strings.Repeat(".", c.big)
			}
			req.Session.NotifyProgress(ctx, &mcp.ProgressNotificationParams{ProgressToken: fmt.Sprintf("k%d", in.K), Progress: float64(n), Message: msg})
		}
		return &mcp.CallToolResult{Content: []mcp.Content{&mcp.TextContent{Text: fmt.Sprintf("done-%d", in.K)}}}, nil, nil
	})
	handler := mcp.NewStreamableHTTPHandler(func(*http.Request) *mcp.Server { return server }, &mcp.StreamableHTTPOptions{EventStore: store})
	tr := &memhttp.Transport{Handler: handler}
	client := tr.Client()
	sessionID := ""
	do := func(method, body string, hdr map[string]string) *memhttp.Exchange {
		var rd io.Reader
		if body != "" {
			rd = strings.NewReader(body)
		}
		req, _ := http.NewRequestWithContext(context.Background(), method, "http://mcp.example/mcp", rd)
		if method == "POST" {
			req.Header.Set("Content-Type", "application/json")
			req.Header.Set("Accept", "application/json, text/event-stream")
		} else {
			req.Header.Set("Accept", "text/event-stream")
		}
		if sessionID != "" {
			req.Header.Set("Mcp-Session-Id", sessionID)
			if s.Version >= "2025-06-18" {
				req.Header.Set("Mcp-Protocol-Version", s.Version)
			}
		}
		for k, v := range hdr {
			req.Header.Set(k, v)
		}
		before := len(tr.Exchanges())
		go func() {
			resp, err := client.Do(req)
			if err == nil {
				io.Copy(io.Discard, resp.Body)
				resp.Body.Close()
			}
		}()
		synctest.Wait()
		exs := tr.Exchanges()
		if len(exs) <= before {
			return nil
		}
		return exs[before]
	}
	// promptResume issues the resuming GET on the caller's goroutine (returns once the response headers are
	// in or the request failed); the body is drained in the background.
	promptResume = func(lastID, tag string) {
		req, _ := http.NewRequestWithContext(memhttp.WithTag(context.Background(), tag), "GET", "http://mcp.example/mcp", nil)
		req.Header.Set("Accept", "text/event-stream")
		req.Header.Set("Mcp-Session-Id", sessionID)
		if s.Version >= "2025-06-18" {
			req.Header.Set("Mcp-Protocol-Version", s.Version)
		}
		req.Header.Set("Last-Event-ID", lastID)
		resp, err := client.Do(req)
		if err == nil {
			go func() {
				io.Copy(io.Discard, resp.Body)
				resp.Body.Close()
			}()
		}
	}
	defer func() {
		for k := 0; k < 8; k++ {
			select {
			case cmdCh(k) <- cmd{finish: true}:
			default:
			}
		}
		for _, ex := range tr.Exchanges() {
			ex.Cut(memhttp.ErrCut)
		}
		synctest.Wait()
		for ss := range server.Sessions() {
			go ss.Close()
		}
		synctest.Wait()
	}()

	ex := do("POST", fmt.Sprintf(`{"jsonrpc":"2.0","id":"hs","method":"initialize","params":{"protocolVersion":%q,"capabilities":{},"clientInfo":{"name":"raw","version":"0"}}}`, s.Version), nil)
	if ex == nil || ex.Status() != 200 {
		res.Failf("harness: initialize failed")
		return
	}
	sessionID = ex.RespHeader().Get("Mcp-Session-Id")
	if e2 := do("POST", `{"jsonrpc":"2.0","method":"notifications/initialized"}`, nil); e2 == nil || e2.Status() != 202 {
		res.Failf("harness: initialized failed")
		return
	}
	var ss *mcp.ServerSession
	for x := range server.Sessions() {
		ss = x
	}
	priming := s.Version >= "2025-11-25"

	var streams []*streamRec
	standalone := &streamRec{sid: "", known: true}
	// the stream of the initialize request is a request stream like any other (its POST carries no
	// Mcp-Protocol-Version header: the version is in its params)
	initStream := &streamRec{k: -1, posted: true, finished: true, exs: []*exch{{ex: ex, from: -1}}}
	snotes := 0
	var desc strings.Builder
	nt := false
	detachedWrites := map[*streamRec]bool{}

	parseID := func(id string) (string, int, bool) {
		i := strings.LastIndex(id, "_")
		if i < 0 {
			return "", 0, false
		}
		n, err := strconv.Atoi(id[i+1:])
		if err != nil {
			return "", 0, false
		}
		return id[:i], n, true
	}

	check := func(step int) {
		all := append([]*streamRec{standalone, initStream}, streams...)
		for _, st := range all {
			for xi, e := range st.exs {
				if e.conflict {
					continue
				}
				status := e.ex.Status()
				if status != 200 && status != 0 {
					if !e.hasFrom {
						res.Failf("step %d: the original exchange of stream %q ended with status %d", step, st.sid, status)
					}
					continue
				}
				evs := memhttp.ParseSSE(e.ex.Written())
				next := e.from + 1
				var lastIdx = e.from
				// A GET without Last-Event-ID on the standalone stream is not a resume: the property does not say
				// where it starts (replay from the beginning or live tail), so the first id seen fixes the start.
				anyStart := st == standalone && !e.hasFrom
				for _, ev := range evs {
					if ev.ID == "" {
						if ev.Data != "" && (ev.Name == "" || ev.Name == "message") {
							res.Failf("step %d: stream %q exchange %d carries a message event without an id although an event store is configured: %q", step, st.sid, xi, ev.Data)
						}
						continue
					}
					sid, idx, ok := parseID(ev.ID)
					if !ok {
						res.Failf("step %d: unparsable event id %q", step, ev.ID)
						continue
					}
					if !st.known {
						st.sid, st.known = sid, true
					}
					if sid != st.sid {
						res.Failf("step %d: exchange %d of stream %q carries an event of stream %q", step, xi, st.sid, sid)
						continue
					}
					log := store.log(sid)
					if idx >= len(log) {
						res.Failf("step %d: event id %s names index %d but only %d messages were ever written to that stream", step, ev.ID, idx, len(log))
						continue
					}
					if !bytes.Equal([]byte(ev.Data), log[idx]) {
						res.Failf("step %d: event id %s carried %q, but message #%d written to the stream is %q (ids must denote the same message on every delivery and replay)", step, ev.ID, ev.Data, idx, log[idx])
					}
					if anyStart {
						next, anyStart = idx, false
					}
					if idx != next {
						res.Failf("step %d: stream %q exchange %d (resumed after %d): received index %d where %d was due (lost, duplicated or reordered)", step, st.sid, xi, e.from, idx, next)
					}
					next = idx + 1
					lastIdx = idx
					found := false
					for _, v := range st.seenIdx {
						if v == idx {
							found = true
						}
					}
					if !found {
						st.seenIdx = append(st.seenIdx, idx)
					}
				}
				// An exchange that is still attached (or ended by itself) has everything written so far.
				if st.known && !e.cut && !e.hclosed {
					log := store.log(st.sid)
					if lastIdx != len(log)-1 {
						what := "attached"
						if e.ex.HandlerDone() {
							what = "completed"
						}
						if !(len(log) == 0) {
							res.Failf("step %d: stream %q exchange %d is %s and was never cut, but it received messages only up to index %d of %d written", step, st.sid, xi, what, lastIdx, len(log)-1)
						}
					}
				}
			}
		}
	}

	prevNoWait := false
	hcloses := 0
	purged := s.StoreBytes > 0
	if s.StoreBytes > 0 {
		store.inner.SetMaxBytes(s.StoreBytes)
		res.Class("store_short_of_memory")
	}
	for i, st := range s.Steps {
		racing := st.NoWait || prevNoWait // attachment state is not settled: 200 and 409 are both legitimate
		prevNoWait = st.NoWait
		switch st.Kind {
		case "post":
			if len(streams) >= 3 {
				break
			}
			k := len(streams)
			sr := &streamRec{k: k, posted: true}
			streams = append(streams, sr)
			ex := do("POST", fmt.Sprintf(`{"jsonrpc":"2.0","id":%d,"method":"tools/call","params":{"name":"emit","arguments":{"k":%d}}}`, 100+k, k), nil)
			if ex == nil {
				res.Failf("step %d: POST produced no exchange", i)
				return finish(res, s, &desc, nt)
			}
			if ex.Status() != 200 && ex.Status() != 0 { // 0: headers not committed yet (nothing written so far)
				res.Failf("step %d: tools/call POST answered %d: %s", i, ex.Status(), ex.Written())
				return finish(res, s, &desc, nt)
			}
			sr.exs = append(sr.exs, &exch{ex: ex, from: -1})
			desc.WriteString("P")
		case "note", "finish":
			if len(streams) == 0 {
				break
			}
			sr := streams[st.S%len(streams)]
			if sr.finished {
				break
			}
			if sr.attached() == nil {
				detachedWrites[sr] = true
			}
			if st.Kind == "finish" {
				sr.finished = true
				cmdCh(sr.k) <- cmd{finish: true}
				desc.WriteString("F")
			} else {
				sr.notes++
				if st.Big && s.StoreBytes > 0 {
					cmdCh(sr.k) <- cmd{big: s.StoreBytes + 50}
					res.Class("message_larger_than_the_store_budget")
					desc.WriteString("N")
				} else {
					cmdCh(sr.k) <- cmd{}
					desc.WriteString("n")
				}
			}
		case "cut":
			if len(streams) == 0 {
				break
			}
			sr := streams[st.S%len(streams)]
			if e := sr.attached(); e != nil {
				e.cut = true
				if st.Quiet {
					e.quiet = true
					e.ex.CutQuietly(memhttp.ErrCut)
					res.Class("client_gone_unnoticed_until_a_write_fails")
				} else {
					e.ex.Cut(memhttp.ErrCut)
				}
				desc.WriteString("x")
			}
		case "purge":
			// memory pressure: the store is told to keep at most a few hundred bytes, then gets its budget
			// back. From now on a resume may be refused (its events are gone); one that is accepted must
			// still deliver the right messages under the right ids.
			store.inner.SetMaxBytes([]int{1, 120, 400, 1500}[st.I%4])
			if s.StoreBytes > 0 {
				store.inner.SetMaxBytes(s.StoreBytes)
			} else {
				store.inner.SetMaxBytes(10 << 20)
			}
			purged = true
			desc.WriteString("U")
		case "hclose":
			if len(streams) == 0 {
				break
			}
			sr := streams[st.S%len(streams)]
			e := sr.attached()
			if sr.finished || e == nil || e.hasFrom || !sr.known || len(sr.seenIdx) == 0 {
				break // only the original POST exchange can be closed by its handler, and a client needs an id to resume from
			}
			idx := sr.seenIdx[len(sr.seenIdx)-1]
			hcloses++
			tag := fmt.Sprintf("hclose-%d", hcloses)
			e.hclosed = true
			cmdCh(sr.k) <- cmd{closeResume: true, lastID: fmt.Sprintf("%s_%d", sr.sid, idx), tag: tag}
			synctest.Wait()
			var rex *memhttp.Exchange
			for _, x := range tr.Exchanges() {
				if x.Tag == tag {
					rex = x
				}
			}
			if rex == nil {
				res.Failf("step %d: the prompt resume after CloseSSEStream produced no exchange", i)
				return finish(res, s, &desc, nt)
			}
			ne := &exch{ex: rex, from: idx, hasFrom: true}
			switch rex.Status() {
			case 200, 0:
				res.Class("prompt_resume_accepted")
			case 409:
				// the closing exchange had not let go of the stream yet: the client retries later
				ne.conflict = true
				res.Class("prompt_resume_conflict")
			default:
				if purged && rex.Status() >= 400 && rex.Status() < 500 {
					ne.conflict = true
					break
				}
				res.Failf("step %d: prompt resume of stream %q after CloseSSEStream answered %d: %s", i, sr.sid, rex.Status(), rex.Written())
			}
			sr.exs = append(sr.exs, ne)
			desc.WriteString("H")
		case "resume":
			if len(streams) == 0 {
				break
			}
			sr := streams[st.S%len(streams)]
			if !sr.known || len(sr.seenIdx) == 0 {
				break
			}
			idx := sr.seenIdx[st.I%len(sr.seenIdx)]
			owner := sr.attached()
			wasAttached := owner != nil
			halfOpenBefore := sr.halfOpen()
			if detachedWrites[sr] && !wasAttached {
				nt = true
			}
			if st.Inject && !sr.finished && !wasAttached {
				k := sr.k
				sr.notes++
				store.injMu.Lock()
				store.injectOnce = func() { cmdCh(k) <- cmd{} }
				store.injMu.Unlock()
				res.Class("write_overlapping_resume")
			}
			if st.Dies > 0 {
				tr.DieAfterWrites = func(r *http.Request) int {
					if r.Method == "GET" && r.Header.Get("Last-Event-ID") != "" {
						return st.Dies - 1
					}
					return -1
				}
				res.Class("resuming_client_vanishes_while_served")
			}
			ex := do("GET", "", map[string]string{"Last-Event-ID": fmt.Sprintf("%s_%d", sr.sid, idx)})
			tr.DieAfterWrites = nil
			store.injMu.Lock()
			store.injectOnce = nil
			store.injMu.Unlock()
			if ex == nil {
				res.Failf("step %d: GET produced no exchange", i)
				return finish(res, s, &desc, nt)
			}
			e := &exch{ex: ex, from: idx, hasFrom: true}
			if st.Dies > 0 {
				e.cut, e.quiet = true, true // gone from the start as far as later messages are concerned
			}
			switch ex.Status() {
			case 200, 0: // 0: accepted, nothing to replay yet, headers not committed
				if wasAttached && !racing {
					if owner.ex.HandlerDone() {
						// take-over: the server ended the older exchange in favour of the resume (exclusive replay is
						// the SDK's own defensive choice, not the property's); later messages are not owed to it
						owner.hclosed = true
						res.Class("resume_took_over_attached_stream")
					} else {
						// two exchanges now claim the same stream: one of them must have been refused or ended
						res.Failf("step %d: resume of stream %q was accepted (200) while another exchange still owns the stream", i, sr.sid)
					}
				}
			case 409:
				e.conflict = true
				if !wasAttached && !racing && !halfOpenBefore {
					res.Failf("step %d: resume of stream %q refused with 409 although no exchange is attached to it", i, sr.sid)
				}
			default:
				if purged && ex.Status() >= 400 && ex.Status() < 500 {
					e.conflict = true // refused: its events were purged
					res.Class("resume_refused_after_purge")
					break
				}
				res.Failf("step %d: resume of stream %q from a previously issued event id %s_%d answered %d: %s", i, sr.sid, sr.sid, idx, ex.Status(), ex.Written())
			}
			sr.exs = append(sr.exs, e)
			delete(detachedWrites, sr)
			desc.WriteString("R")
		case "sget":
			if standalone.attached() != nil {
				break
			}
			// A GET without Last-Event-ID (re)opens the standalone stream; the SDK replays it from the
			// beginning, which the property does not speak about: only judged through ids.
			sgetHalfOpen := standalone.halfOpen() // a vanished client's exchange the server has not noticed yet still owns the stream
			ex := do("GET", "", nil)
			if ex != nil && ex.Status() == 409 && (racing || sgetHalfOpen) {
				standalone.exs = append(standalone.exs, &exch{ex: ex, from: -1, conflict: true})
				break
			}
			if ex != nil && purged && ex.Status() >= 400 {
				// The SDK replays the standalone stream from its beginning for a GET without Last-Event-ID;
				// after a purge that beginning is gone. Outside the property (only counted).
				res.Class(fmt.Sprintf("fresh_standalone_get_after_purge_answered_%d", ex.Status()))
				standalone.exs = append(standalone.exs, &exch{ex: ex, from: -1, conflict: true})
				break
			}
			if ex == nil || (ex.Status() != 200 && ex.Status() != 0) { // 0: accepted, headers not committed yet (as for resumes)
				res.Failf("step %d: standalone GET failed", i)
				return finish(res, s, &desc, nt)
			}
			standalone.exs = append(standalone.exs, &exch{ex: ex, from: -1})
			desc.WriteString("G")
		case "snote":
			snotes++
			if standalone.attached() == nil {
				detachedWrites[standalone] = true
			}
			smsg := fmt.Sprintf("s-n%d", snotes)
			if st.Big && s.StoreBytes > 0 {
				smsg += strings.Repeat(".", s.StoreBytes+50)
				res.Class("message_larger_than_the_store_budget")
			}
			ss.NotifyProgress(context.Background(), &mcp.ProgressNotificationParams{ProgressToken: "standalone", Progress: float64(snotes), Message: smsg})
			desc.WriteString("m")
		case "scut":
			if e := standalone.attached(); e != nil {
				e.cut = true
				e.ex.Cut(memhttp.ErrCut)
				desc.WriteString("y")
			}
		case "sresume":
			if len(standalone.seenIdx) == 0 {
				break
			}
			idx := standalone.seenIdx[st.I%len(standalone.seenIdx)]
			owner := standalone.attached()
			wasAttached := owner != nil
			if detachedWrites[standalone] && !wasAttached {
				nt = true
			}
			saHalfOpenBefore := standalone.halfOpen()
			if st.Dies > 0 {
				tr.DieAfterWrites = func(r *http.Request) int {
					if r.Method == "GET" && r.Header.Get("Last-Event-ID") != "" {
						return st.Dies - 1
					}
					return -1
				}
				res.Class("resuming_client_vanishes_while_served")
			}
			ex := do("GET", "", map[string]string{"Last-Event-ID": fmt.Sprintf("_%d", idx)})
			tr.DieAfterWrites = nil
			if ex == nil {
				res.Failf("step %d: GET produced no exchange", i)
				return finish(res, s, &desc, nt)
			}
			e := &exch{ex: ex, from: idx, hasFrom: true}
			if st.Dies > 0 {
				e.cut, e.quiet = true, true
			}
			switch ex.Status() {
			case 200, 0:
				if wasAttached && !racing {
					if owner.ex.HandlerDone() {
						owner.hclosed = true // take-over, as for request streams
						res.Class("resume_took_over_attached_stream")
					} else {
						res.Failf("step %d: resume of the standalone stream accepted while another exchange owns it", i)
					}
				}
			case 409:
				e.conflict = true
				if !wasAttached && !racing && !saHalfOpenBefore {
					res.Failf("step %d: resume of the standalone stream refused with 409 although nothing is attached", i)
				}
			default:
				if purged && ex.Status() >= 400 && ex.Status() < 500 {
					e.conflict = true
					res.Class("resume_refused_after_purge")
					break
				}
				res.Failf("step %d: resume of the standalone stream from _%d answered %d: %s", i, idx, ex.Status(), ex.Written())
			}
			standalone.exs = append(standalone.exs, e)
			delete(detachedWrites, standalone)
			desc.WriteString("S")
		}
		if st.NoWait && i < len(s.Steps)-1 {
			continue
		}
		synctest.Wait()
		check(i)
		if len(res.Violations) > 0 {
			return finish(res, s, &desc, nt)
		}
	}
	// ---- the final response stays obtainable after the original exchange is gone ----
	for _, sr := range streams {
		if !sr.finished {
			sr.finished = true
			cmdCh(sr.k) <- cmd{finish: true}
		}
	}
	synctest.Wait()
	check(len(s.Steps))
	if purged {
		// what "stays obtainable" after a purge depends on what the store evicted: not judged
		return finish(res, s, &desc, nt)
	}
	// the answer to initialize, too, stays obtainable from any event id its stream has handed out
	if len(res.Violations) == 0 && initStream.known && len(initStream.seenIdx) > 0 {
		from := initStream.seenIdx[0]
		ex := do("GET", "", map[string]string{"Last-Event-ID": fmt.Sprintf("%s_%d", initStream.sid, from)})
		if ex == nil || ex.Status() != 200 {
			st := 0
			if ex != nil {
				st = ex.Status()
			}
			res.Failf("final: resuming the stream of the initialize request (%q) after event %d answered %d", initStream.sid, from, st)
		} else {
			initStream.exs = append(initStream.exs, &exch{ex: ex, from: from, hasFrom: true})
			synctest.Wait()
			check(len(s.Steps) + 2)
			got := false
			for _, ev := range memhttp.ParseSSE(ex.Written()) {
				var m struct {
					ID     *string         `json:"id"`
					Result json.RawMessage `json:"result"`
				}
				if json.Unmarshal([]byte(ev.Data), &m) == nil && m.ID != nil && *m.ID == "hs" && m.Result != nil {
					got = true
				}
			}
			if log := store.log(initStream.sid); !got && from < len(log)-1 {
				res.Failf("final: the response to initialize is not obtainable by resuming its stream %q after event %d (%d messages were written to it)", initStream.sid, from, len(log))
			}
			res.Class("initialize_stream_resumed")
		}
	}
	var lastKnown *streamRec
	for _, sr := range streams {
		if sr.known {
			lastKnown = sr
		}
	}
	for _, sr := range streams {
		if len(res.Violations) > 0 {
			break
		}
		if e := sr.attached(); e != nil {
			e.cut = true
			e.ex.Cut(memhttp.ErrCut)
		}
		synctest.Wait()
		if !sr.known {
			// no event id was ever seen (no priming, nothing delivered): nothing to resume from
			continue
		}
		from := sr.seenIdx[0]
		if s.PurgeDuringLastReplay && sr == lastKnown {
			store.purgeNext.Store(true)
			res.Class("store_purged_during_replay")
		}
		ex := do("GET", "", map[string]string{"Last-Event-ID": fmt.Sprintf("%s_%d", sr.sid, from)})
		if ex == nil || ex.Status() != 200 {
			st := 0
			if ex != nil {
				st = ex.Status()
			}
			res.Failf("final: resuming finished stream %q after event %d answered %d", sr.sid, from, st)
			continue
		}
		sr.exs = append(sr.exs, &exch{ex: ex, from: from, hasFrom: true})
		synctest.Wait()
		check(len(s.Steps) + 1)
		// the replay must end with the response to the call
		evs := memhttp.ParseSSE(ex.Written())
		gotResp := false
		for _, ev := range evs {
			var m struct {
				ID     *int            `json:"id"`
				Result json.RawMessage `json:"result"`
			}
			if json.Unmarshal([]byte(ev.Data), &m) == nil && m.ID != nil && *m.ID == 100+sr.k && m.Result != nil {
				gotResp = true
			}
		}
		log := store.log(sr.sid)
		if !gotResp && from < len(log)-1 {
			res.Failf("final: the response of call %d is not obtainable by resuming stream %q after event %d (the original exchange is gone)", 100+sr.k, sr.sid, from)
		}
		if !ex.HandlerDone() {
			// obtainability is the property; whether the replaying exchange then ends by itself is not: only counted
			res.Class("replay_of_finished_stream_left_open")
		}
	}
	_ = priming
	return finish(res, s, &desc, nt)
}

func finish(res vt.Result, s Script, desc *strings.Builder, nt bool) vt.Result {
	res.Desc = s.Version + "|" + desc.String()
	res.NonTrivial = nt
	if s.Version >= "2025-11-25" {
		res.Class("priming")
	} else {
		res.Class("no_priming")
	}
	d := desc.String()
	for _, c := range []struct{ sub, class string }{{"R", "request_stream_resume"}, {"S", "standalone_resume"}, {"x", "cut"}, {"F", "finished"}, {"H", "handler_closed_its_stream"}, {"U", "store_purged"}} {
		if strings.Contains(d, c.sub) {
			res.Class(c.class)
		}
	}
	return res
}

var seqProp = vt.Register(&vt.Prop[Script]{Property: "C08", Name: "seq", Journal: true,
	Gen: func(rt *rapid.T) Script { return genScript(rt, false) }, Run: run})
var onePProp = vt.Register(&vt.Prop[Script]{Property: "C08", Name: "onep", Journal: true,
	Gen: func(rt *rapid.T) Script { return genScript(rt, false) }, Run: run})
var raceProp = vt.Register(&vt.Prop[Script]{Property: "C08", Name: "race", Journal: true,
	Gen: func(rt *rapid.T) Script { return genScript(rt, true) }, Run: run})

func TestC08_Seq(t *testing.T)  { theT = t; seqProp.Check(t) }
func TestC08_Race(t *testing.T) { theT = t; raceProp.Check(t) }

// TestC08_OneP runs the sequential generator on a single processor: a goroutine made runnable by the
// running one (the POST exchange woken by CloseSSEStream) then waits behind whatever the running goroutine
// starts next (the prompt resume), which makes "resume arrives before the closing exchange let go" the
// common order instead of a rare one.
func TestC08_OneP(t *testing.T) {
	theT = t
	defer runtime.GOMAXPROCS(runtime.GOMAXPROCS(1))
	onePProp.Check(t)
}
func TestReplay(t *testing.T)  { theT = t; vt.Replay(t) }
func TestRegress(t *testing.T) { theT = t; vt.Regress(t, "C08") }
func TestKnown(t *testing.T)   { theT = t; vt.Known(t, "C08") }
