package c08

// TestC08_Long: one long request stream. "All Last-Event-ID values previously issued" includes the ids of a
// stream that has carried a hundred thousand messages (a long-running tool reporting progress): the client
// goes away after the first event, the handler writes N messages and its response while nothing is attached,
// and the client then resumes from ids around every power of ten up to N. Each resume must deliver exactly
// what follows that id, under ids that go up by one.

import (
	"context"
	"fmt"
	"io"
	"net/http"
	"strconv"
	"strings"
	"testing"
	"testing/synctest"

	"github.com/modelcontextprotocol/go-sdk/mcp"
	"github.com/modelcontextprotocol/go-sdk/verif/memhttp"
	"github.com/modelcontextprotocol/go-sdk/verif/vt"
	"pgregory.net/rapid"
)

type LongScript struct {
	Version string `json:"version"`
	N       int    `json:"n"`       // messages written while detached
	Resumes []int  `json:"resumes"` // event indices to resume from (each < N + priming)
}

func genLong(rt *rapid.T) LongScript {
	s := LongScript{
		Version: rapid.SampledFrom([]string{"2025-06-18", "2025-11-25"}).Draw(rt, "version"),
		N:       rapid.SampledFrom([]int{100100, 100100, 100100, 10100}).Draw(rt, "n"),
	}
	for p := 10; p <= s.N; p *= 10 {
		s.Resumes = append(s.Resumes, p+rapid.IntRange(-2, 2).Draw(rt, "around"))
	}
	s.Resumes = append(s.Resumes, s.N-rapid.IntRange(0, 3).Draw(rt, "tail"))
	return s
}

type longIn struct {
	N int `json:"n"`
}

func runLong(s LongScript) (res vt.Result) {
	if p := vt.Bubble(theT, func() { res = runLongInBubble(s) }); p != "" {
		res.Class("teardown_leftover")
	}
	return res
}

func runLongInBubble(s LongScript) (res vt.Result) {
	res.Desc = fmt.Sprintf("long|%s|%d|%v", s.Version, s.N, s.Resumes)
	res.NonTrivial = s.N >= 100000
	res.Class(fmt.Sprintf("stream_of_%d_messages", s.N))
	store := mcp.NewMemoryEventStore(nil)
	store.SetMaxBytes(1 << 30) // nothing is purged: every id stays resumable
	server := mcp.NewServer(&mcp.Implementation{Name: "srv", Version: "1"}, nil)
	goOn := make(chan struct{})
	mcp.AddTool(server, &mcp.Tool{Name: "long"}, func(ctx context.Context, req *mcp.CallToolRequest, in longIn) (*mcp.CallToolResult, any, error) {
		req.Session.NotifyProgress(ctx, &mcp.ProgressNotificationParams{ProgressToken: "p", Progress: 0, Message: "m0"})
		<-goOn
		for i := 1; i <= in.N; i++ {
			req.Session.NotifyProgress(ctx, &mcp.ProgressNotificationParams{ProgressToken: "p", Progress: float64(i), Message: "m" + strconv.Itoa(i)})
		}
		return &mcp.CallToolResult{Content: []mcp.Content{&mcp.TextContent{Text: "done"}}}, nil, nil
	})
	handler := mcp.NewStreamableHTTPHandler(func(*http.Request) *mcp.Server { return server }, &mcp.StreamableHTTPOptions{EventStore: store})
	tr := &memhttp.Transport{Handler: handler}
	client := tr.Client()
	sessionID := ""
	do := func(method, body string, hdr map[string]string) *memhttp.Exchange {
		var rd io.Reader
		if body != "" {
			rd = strings.NewReader(body)
		}
		req, _ := http.NewRequestWithContext(context.Background(), method, "http://mcp.example/mcp", rd)
		if method == "POST" {
			req.Header.Set("Content-Type", "application/json")
			req.Header.Set("Accept", "application/json, text/event-stream")
		} else {
			req.Header.Set("Accept", "text/event-stream")
		}
		if sessionID != "" {
			req.Header.Set("Mcp-Session-Id", sessionID)
			req.Header.Set("Mcp-Protocol-Version", s.Version)
		}
		for k, v := range hdr {
			req.Header.Set(k, v)
		}
		before := len(tr.Exchanges())
		go func() {
			resp, err := client.Do(req)
			if err == nil {
				io.Copy(io.Discard, resp.Body)
				resp.Body.Close()
			}
		}()
		synctest.Wait()
		exs := tr.Exchanges()
		if len(exs) <= before {
			return nil
		}
		return exs[before]
	}
	defer func() {
		select {
		case <-goOn:
		default:
			close(goOn)
		}
		for _, ex := range tr.Exchanges() {
			ex.Cut(memhttp.ErrCut)
		}
		synctest.Wait()
		for ss := range server.Sessions() {
			go ss.Close()
		}
		synctest.Wait()
	}()
	ex := do("POST", fmt.Sprintf(`{"jsonrpc":"2.0","id":"hs","method":"initialize","params":{"protocolVersion":%q,"capabilities":{},"clientInfo":{"name":"raw","version":"0"}}}`, s.Version), nil)
	if ex == nil || ex.Status() != 200 {
		res.Failf("harness: initialize failed")
		return
	}
	sessionID = ex.RespHeader().Get("Mcp-Session-Id")
	if e2 := do("POST", `{"jsonrpc":"2.0","method":"notifications/initialized"}`, nil); e2 == nil || e2.Status() != 202 {
		res.Failf("harness: initialized failed")
		return
	}
	call := do("POST", fmt.Sprintf(`{"jsonrpc":"2.0","id":1,"method":"tools/call","params":{"name":"long","arguments":{"n":%d},"_meta":{"progressToken":"p"}}}`, s.N), nil)
	if call == nil || call.Status() != 200 {
		res.Failf("harness: tools/call not accepted")
		return
	}
	first := memhttp.ParseSSE(call.Written())
	if len(first) == 0 || first[len(first)-1].ID == "" {
		res.Failf("harness: no event with an id on the call's stream: %q", call.Written())
		return
	}
	// the logical stream's id, and the index of the event that carried m0
	lastID := first[len(first)-1].ID
	us := strings.LastIndexByte(lastID, '_')
	sid, idx0, err := lastID[:us], 0, error(nil)
	if idx0, err = strconv.Atoi(lastID[us+1:]); err != nil || !strings.Contains(first[len(first)-1].Data, `"m0"`) {
		res.Failf("harness: unexpected first events %q", call.Written())
		return
	}
	call.Cut(memhttp.ErrCut) // the client goes away
	synctest.Wait()
	close(goOn) // N messages and the response are written while nothing is attached
	synctest.Wait()

	// message m_i travels under index idx0+i; the response under idx0+N+1
	for _, r := range s.Resumes {
		if r < 0 || r > s.N {
			continue
		}
		from := idx0 + r
		id := fmt.Sprintf("%s_%d", sid, from)
		rex := do("GET", "", map[string]string{"Last-Event-ID": id})
		if rex == nil {
			res.Failf("resume from %s: no exchange", id)
			return
		}
		if rex.Status() != 200 {
			res.Failf("resume from the previously issued event id %s (message %d of a stream of %d) answered %d: %s", id, r, s.N, rex.Status(), clipB(rex.Written()))
			return
		}
		evs := memhttp.ParseSSE(rex.Written())
		want := s.N - r + 1 // messages r+1..N and the response
		var got []memhttp.SSEvent
		for _, e := range evs {
			if e.Data != "" {
				got = append(got, e)
			}
		}
		if len(got) != want {
			res.Failf("resume from %s (message %d of %d): %d messages delivered, want %d", id, r, s.N, len(got), want)
			return
		}
		for k, e := range got {
			wantID := fmt.Sprintf("%s_%d", sid, from+1+k)
			if e.ID != wantID {
				res.Failf("resume from %s: event %d has id %q, want %q", id, k, e.ID, wantID)
				return
			}
			if k < len(got)-1 {
				if wantMsg := fmt.Sprintf(`"m%d"`, r+1+k); !strings.Contains(e.Data, wantMsg) {
					res.Failf("resume from %s: event %s carries %s, want message %s", id, e.ID, clipB([]byte(e.Data)), wantMsg)
					return
				}
			} else if !strings.Contains(e.Data, `"done"`) {
				res.Failf("resume from %s: the last event %s is not the call's response: %s", id, e.ID, clipB([]byte(e.Data)))
				return
			}
		}
		rex.Cut(memhttp.ErrCut)
		synctest.Wait()
	}
	return res
}

func clipB(b []byte) string {
	if len(b) > 300 {
		return string(b[:300]) + "..."
	}
	return string(b)
}

var longProp = vt.Register(&vt.Prop[LongScript]{Property: "C08", Name: "long", Gen: genLong, Run: runLong})

func TestC08_Long(t *testing.T) { theT = t; longProp.Check(t) }
