// Package c09 decides property C09: the streamable client survives stream
// cuts. A real mcp.Client with StreamableClientTransport talks (through the
// in-memory HTTP bridge, virtual time for back-off) to a scripted fake server
// that cuts the SSE body of a call at any byte offset, by error or by clean
// EOF, and answers each reconnect attempt as the script says.
package c09

import (
	"context"
	"encoding/json"
	"errors"
	"fmt"
	"io"
	"net/http"
	"strconv"
	"strings"
	"sync"
	"testing"
	"testing/synctest"
	"time"

	"github.com/modelcontextprotocol/go-sdk/mcp"
	"github.com/modelcontextprotocol/go-sdk/verif/memhttp"
	"github.com/modelcontextprotocol/go-sdk/verif/vt"
	"pgregory.net/rapid"
)

func TestMain(m *testing.M) { vt.Main(m) }

// Rec is the scripted outcome of one reconnect attempt (GET with Last-Event-ID).
type Rec struct {
	Kind    string `json:"kind"`               // ok | neterr | 502 | 503 | 404 | empty (200, ends at once: no progress)
	CutKind string `json:"cut_kind,omitempty"` // ok: none | err | eof
	CutAt   int    `json:"cut_at,omitempty"`   // ok: offset into the replayed bytes (mod len+1)
}

type Script struct {
	N          int    `json:"n"`       // progress notifications before the response
	IDs        bool   `json:"ids"`     // events carry ids
	Priming    bool   `json:"priming"` // first event is an id-only event
	RetryMs    int    `json:"retry_ms"`
	CutKind    string `json:"cut_kind"` // none | err | eof : how the POST response body ends
	CutAt      int    `json:"cut_at"`
	Reconnects []Rec  `json:"reconnects"`
	Then       string `json:"then"` // after the listed outcomes: ok | neterr (fail for ever)
	CRLF       bool   `json:"crlf"`
	Chunks     []int  `json:"chunks,omitempty"` // sizes of successive client-side body reads (empty: unlimited)
	// NoStandalone: the client transport is configured with DisableStandaloneSSE (it must still resume the
	// response streams of its calls).
	NoStandalone bool `json:"no_standalone,omitempty"`
	// IDOnly: how an event that carries nothing but an id (the priming event, checkpoints) is written:
	// "" = `event: prime` + id + empty data line; "unnamed" = id + empty data line; "bare" = the id line alone.
	IDOnly string `json:"id_only,omitempty"`
	// Checkpoints: after these progress notifications (0 = before the first) the server writes an id-only
	// event: a resumption point that carries no message.
	Checkpoints []int `json:"checkpoints,omitempty"`
}

func genScript(rt *rapid.T) Script {
	s := Script{
		N:       rapid.IntRange(0, 4).Draw(rt, "n"),
		IDs:     rapid.IntRange(0, 4).Draw(rt, "ids") > 0,
		RetryMs: rapid.SampledFrom([]int{0, 0, 10}).Draw(rt, "retry"),
		CutKind: rapid.SampledFrom([]string{"none", "err", "err", "eof", "eof"}).Draw(rt, "cutkind"),
		CutAt:   rapid.IntRange(0, 2000).Draw(rt, "cutat"),
		Then:    rapid.SampledFrom([]string{"ok", "ok", "ok", "neterr", "empty"}).Draw(rt, "then"),
		CRLF:    rapid.IntRange(0, 5).Draw(rt, "crlf") == 0,
	}
	s.NoStandalone = rapid.IntRange(0, 2).Draw(rt, "no_standalone") == 0
	if s.IDs {
		s.Priming = rapid.Bool().Draw(rt, "priming")
		s.IDOnly = rapid.SampledFrom([]string{"", "", "unnamed", "bare"}).Draw(rt, "id_only")
		if rapid.IntRange(0, 2).Draw(rt, "checkpoints") == 0 {
			s.Checkpoints = rapid.SliceOfNDistinct(rapid.IntRange(0, s.N), 1, 2, rapid.ID[int]).Draw(rt, "checkpoint_at")
		}
	}
	if rapid.IntRange(0, 2).Draw(rt, "chunked") == 0 {
		s.Chunks = rapid.SliceOfN(rapid.IntRange(1, 120), 1, 6).Draw(rt, "chunks")
	}
	for i, n := 0, rapid.IntRange(0, 4).Draw(rt, "nrec"); i < n; i++ {
		r := Rec{Kind: rapid.SampledFrom([]string{"ok", "ok", "ok", "neterr", "neterr", "502", "503", "500", "504", "429", "404", "empty"}).Draw(rt, "rkind")}
		if r.Kind == "ok" {
			r.CutKind = rapid.SampledFrom([]string{"none", "err", "eof"}).Draw(rt, "rcutkind")
			r.CutAt = rapid.IntRange(0, 2000).Draw(rt, "rcutat")
		}
		s.Reconnects = append(s.Reconnects, r)
	}
	return s
}

// event is one SSE event of the call's logical stream.
type event struct {
	id   string
	data string // JSON-RPC message, "" for the priming event
	seq  int    // progress number (1..N), 0 for priming, -1 for the response
}

func (s Script) events(callID string) []event {
	var evs []event
	idx := 0
	nextID := func() string {
		if !s.IDs {
			return ""
		}
		id := fmt.Sprintf("strm_%d", idx)
		idx++
		return id
	}
	if s.Priming {
		evs = append(evs, event{id: nextID()})
	}
	checkpoint := func(after int) {
		for _, c := range s.Checkpoints {
			if c == after && s.IDs {
				evs = append(evs, event{id: nextID()})
			}
		}
	}
	checkpoint(0)
	for i := 1; i <= s.N; i++ {
		if i > 1 {
			checkpoint(i - 1)
		}
		evs = append(evs, event{id: nextID(), seq: i,
			data: fmt.Sprintf(`{"jsonrpc":"2.0","method":"notifications/progress","params":{"progressToken":"tok","progress":%d,"message":"m%d"}}`, i, i)})
	}
	if s.N > 0 {
		checkpoint(s.N)
	}
	evs = append(evs, event{id: nextID(), seq: -1,
		data: fmt.Sprintf(`{"jsonrpc":"2.0","id":%s,"result":{"content":[{"type":"text","text":"the real answer"}]}}`, callID)})
	return evs
}

func (s Script) encode(evs []event, first bool) string {
	var b strings.Builder
	for i, e := range evs {
		retry := ""
		if first && i == 0 && s.RetryMs > 0 {
			retry = strconv.Itoa(s.RetryMs)
		}
		name := "message"
		if e.data == "" {
			name = "prime"
			if s.IDOnly != "" {
				name = ""
			}
			if s.IDOnly == "bare" {
				// the id line alone (and the retry hint, if this is where it goes)
				b.WriteString("id: " + e.id + "\n")
				if retry != "" {
					b.WriteString("retry: " + retry + "\n")
				}
				b.WriteString("\n")
				continue
			}
		}
		b.WriteString(memhttp.FormatSSE(name, e.id, retry, e.data))
	}
	out := b.String()
	if s.CRLF {
		out = strings.ReplaceAll(out, "\n", "\r\n")
	}
	return out
}

// fake is the scripted server.
type fake struct {
	s  Script
	mu sync.Mutex

	callID       string   // JSON token of the tools/call id
	evs          []event  // the call's logical stream
	delivered    []string // bytes delivered on each body of the call's stream, in order
	lastEventIDs []string // Last-Event-ID presented by each reconnect attempt that reached the server
	attempts     int      // reconnect attempts seen (including transport failures)
	violations   []string
	posts        int
	kill         bool // wind-down: answer every GET with 404 so that a runaway client stops
}

func (f *fake) fail(format string, a ...any) {
	f.violations = append(f.violations, fmt.Sprintf(format, a...))
}

// writeCut writes body[:cutAt] and then ends the response the scripted way.
func writeCut(w http.ResponseWriter, body string, kind string, cutAt int) string {
	if kind == "none" {
		io.WriteString(w, body)
		w.(http.Flusher).Flush()
		return body
	}
	n := cutAt % (len(body) + 1)
	io.WriteString(w, body[:n])
	w.(http.Flusher).Flush()
	if kind == "err" {
		panic(http.ErrAbortHandler) // the client sees a read error
	}
	return body[:n] // handler returns: clean EOF
}

func (f *fake) ServeHTTP(w http.ResponseWriter, r *http.Request) {
	switch r.Method {
	case "DELETE":
		w.WriteHeader(204)
		return
	case "GET":
		f.mu.Lock()
		kill := f.kill
		f.mu.Unlock()
		if kill {
			http.Error(w, "session not found", 404)
			return
		}
		lei := r.Header.Get("Last-Event-ID")
		if lei == "" {
			w.WriteHeader(http.StatusMethodNotAllowed) // no standalone stream in this scenario
			return
		}
		f.mu.Lock()
		k := len(f.lastEventIDs)
		f.lastEventIDs = append(f.lastEventIDs, lei)
		rec := Rec{Kind: f.s.Then, CutKind: "none"}
		if f.attempts < len(f.s.Reconnects) {
			rec = f.s.Reconnects[f.attempts]
		}
		f.attempts++
		evs := f.evs
		f.mu.Unlock()
		_ = k
		switch rec.Kind {
		case "500", "502", "503", "504", "429": // the statuses the SDK documents as transient
			code, _ := strconv.Atoi(rec.Kind)
			http.Error(w, "try again", code)
			return
		case "404":
			http.Error(w, "session not found", 404)
			return
		case "empty":
			w.Header().Set("Content-Type", "text/event-stream")
			w.WriteHeader(200)
			f.mu.Lock()
			f.delivered = append(f.delivered, "")
			f.mu.Unlock()
			return
		}
		// replay what follows the presented id
		start := -1
		for i, e := range evs {
			if e.id == lei {
				start = i
			}
		}
		if start < 0 {
			http.Error(w, "unknown event id", 400)
			f.mu.Lock()
			f.fail("reconnect presented Last-Event-ID %q, which the server never issued", lei)
			f.mu.Unlock()
			return
		}
		w.Header().Set("Content-Type", "text/event-stream")
		w.WriteHeader(200)
		body := f.s.encode(evs[start+1:], false)
		f.mu.Lock()
		f.delivered = append(f.delivered, "")
		di := len(f.delivered) - 1
		f.mu.Unlock()
		defer func() {
			if rv := recover(); rv != nil {
				f.mu.Lock()
				f.delivered[di] = body[:rec.CutAt%(len(body)+1)]
				f.mu.Unlock()
				panic(rv)
			}
		}()
		got := writeCut(w, body, rec.CutKind, rec.CutAt)
		f.mu.Lock()
		f.delivered[di] = got
		f.mu.Unlock()
		return
	}
	// POST
	raw, _ := io.ReadAll(r.Body)
	var msg struct {
		ID     json.RawMessage `json:"id"`
		Method string          `json:"method"`
	}
	json.Unmarshal(raw, &msg)
	switch msg.Method {
	case "initialize":
		w.Header().Set("Content-Type", "application/json")
		w.Header().Set("Mcp-Session-Id", "sess-1")
		fmt.Fprintf(w, `{"jsonrpc":"2.0","id":%s,"result":{"protocolVersion":"2025-06-18","capabilities":{"tools":{}},"serverInfo":{"name":"fake","version":"0"}}}`, msg.ID)
	case "tools/call":
		f.mu.Lock()
		f.posts++
		f.callID = string(msg.ID)
		f.evs = f.s.events(f.callID)
		body := f.s.encode(f.evs, true)
		f.delivered = append(f.delivered, "")
		f.mu.Unlock()
		w.Header().Set("Content-Type", "text/event-stream")
		w.WriteHeader(200)
		defer func() {
			if rv := recover(); rv != nil {
				f.mu.Lock()
				f.delivered[0] = body[:f.s.CutAt%(len(body)+1)]
				f.mu.Unlock()
				panic(rv)
			}
		}()
		got := writeCut(w, body, f.s.CutKind, f.s.CutAt)
		f.mu.Lock()
		f.delivered[0] = got
		f.mu.Unlock()
	default:
		if len(msg.ID) > 0 {
			w.Header().Set("Content-Type", "application/json")
			fmt.Fprintf(w, `{"jsonrpc":"2.0","id":%s,"result":{}}`, msg.ID)
			return
		}
		w.WriteHeader(202)
	}
}

var theT *testing.T

func run(s Script) (res vt.Result) {
	if p := vt.Bubble(theT, func() { res = runInBubble(s) }); p != "" {
		if strings.Contains(p, leftoverOnly) {
			// goroutines left behind after Close are not C09's business (a call that hangs is reported by
			// "CallTool never returned" in runInBubble)
			res.Class("teardown_leftover")
		} else {
			res.Failf("bubble did not end cleanly (the call or the session hung): %s", p)
		}
	}
	return res
}

// leftoverOnly is synctest's message when the case itself ran to its end and only blocked goroutines remain
// (as opposed to "all goroutines in bubble are blocked": the case itself hung).
const leftoverOnly = "main bubble goroutine has exited but blocked goroutines remain"

// awaitSetup waits for a set-up step (Connect, logging/setLevel) to finish: at once on today's SDK, but a timer on
// that path (a small delay before the standalone GET, a retry) must not fail the set-up of every case.
func awaitSetup(ch <-chan error) (err error, ok bool) {
	for i := 0; i < 30; i++ {
		synctest.Wait()
		select {
		case err = <-ch:
			return err, true
		default:
			time.Sleep(time.Second)
		}
	}
	return nil, false
}

func runInBubble(s Script) (res vt.Result) {
	if vt.Open("F7") && s.CutKind == "eof" {
		vt.Excluded("F7")
		s.CutKind = "err"
	}
	f := &fake{s: s}
	tr := &memhttp.Transport{Handler: f, Chunks: s.Chunks}
	netErrs := 0
	tr.Fail = func(r *http.Request) error {
		if r.Method != "GET" || r.Header.Get("Last-Event-ID") == "" {
			return nil
		}
		f.mu.Lock()
		defer f.mu.Unlock()
		kind := f.s.Then
		if f.attempts < len(f.s.Reconnects) {
			kind = f.s.Reconnects[f.attempts].Kind
		}
		if kind == "neterr" {
			f.attempts++
			netErrs++
			return errors.New("scripted transport error")
		}
		return nil
	}
	var hmu sync.Mutex
	var seen []int
	var garbled []string
	client := mcp.NewClient(&mcp.Implementation{Name: "cli", Version: "1"}, &mcp.ClientOptions{
		ProgressNotificationHandler: func(ctx context.Context, r *mcp.ProgressNotificationClientRequest) {
			hmu.Lock()
			seen = append(seen, int(r.Params.Progress))
			if want := fmt.Sprintf("m%d", int(r.Params.Progress)); r.Params.Message != want {
				garbled = append(garbled, fmt.Sprintf("progress %v carried message %q, want %q", r.Params.Progress, r.Params.Message, want))
			}
			hmu.Unlock()
		},
	})
	ct := &mcp.StreamableClientTransport{Endpoint: "http://mcp.example/mcp", HTTPClient: tr.Client(), DisableStandaloneSSE: s.NoStandalone}
	var cs *mcp.ClientSession
	cerr := make(chan error, 1)
	go func() {
		var e error
		cs, e = client.Connect(context.Background(), ct, &mcp.ClientSessionOptions{ProtocolVersion: "2025-06-18"})
		cerr <- e
	}()
	if e, ok := awaitSetup(cerr); !ok {
		res.Failf("harness: connect did not return")
		return
	} else if e != nil {
		res.Failf("harness: connect: %v", e)
		return
	}
	type callRes struct {
		text string
		err  error
	}
	done := make(chan callRes, 1)
	go func() {
		p := &mcp.CallToolParams{Name: "t", Arguments: map[string]any{}}
		p.SetProgressToken("tok")
		r, err := cs.CallTool(context.Background(), p)
		cr := callRes{err: err}
		if err == nil && len(r.Content) == 1 {
			cr.text = r.Content[0].(*mcp.TextContent).Text
		}
		done <- cr
	}()
	var cr callRes
	returned := false
	runaway := false
	for i := 0; i < 900 && !returned; i++ { // up to 1 virtual hour (the property fixes no time scale): far beyond every back-off budget
		synctest.Wait()
		select {
		case cr = <-done:
			returned = true
		default:
			if len(tr.Exchanges()) > 150 { // the retry budget is 5 attempts without progress
				runaway = true
				i = 900
				break
			}
			if i < 600 {
				time.Sleep(time.Second)
			} else {
				time.Sleep(10 * time.Second) // coarse steps once nothing happened for 10 minutes
			}
		}
	}
	if runaway {
		res.Failf("the client is still reconnecting after %d HTTP exchanges without the call returning (retry budget ignored)", len(tr.Exchanges()))
		f.mu.Lock()
		f.kill = true
		f.mu.Unlock()
		tr.Fail = nil
		time.Sleep(2 * time.Minute)
		synctest.Wait()
		cs.Close()
		synctest.Wait()
		return finish(res, s, false, 0, netErrs)
	}
	defer func() {
		cs.Close()
		synctest.Wait()
		time.Sleep(2 * time.Minute)
		synctest.Wait()
	}()
	synctest.Wait()
	time.Sleep(time.Second)
	synctest.Wait()

	// ---- model ----
	f.mu.Lock()
	delivered := append([]string(nil), f.delivered...)
	leis := append([]string(nil), f.lastEventIDs...)
	evs := f.evs
	f.violations = append([]string(nil), f.violations...)
	viol := f.violations
	f.mu.Unlock()
	for _, v := range viol {
		res.Failf("%s", v)
	}
	hmu.Lock()
	got := append([]int(nil), seen...)
	for _, g := range garbled {
		res.Failf("payload altered in transit: %s", g)
	}
	hmu.Unlock()

	// Which events were completely delivered, per body; what the next Last-Event-ID has to be.
	complete := map[int]bool{} // seq -> completely delivered at least once
	respDelivered := false
	lastID := ""
	var wantLEI []string
	truncated := false
	for bi, body := range delivered {
		if bi > 0 {
			wantLEI = append(wantLEI, lastID)
		}
		pe := memhttp.ParseSSE([]byte(body))
		end := 0
		for _, e := range pe {
			end = e.End
			if e.ID != "" {
				lastID = e.ID
			}
			for _, ev := range evs {
				if ev.data != "" && ev.data == e.Data {
					if ev.seq > 0 {
						complete[ev.seq] = true
					} else if ev.seq == -1 {
						respDelivered = true
					}
				}
			}
		}
		if end < len(body) {
			truncated = true // the body ended inside an event
		}
	}
	_ = wantLEI
	// (1) exactly once, in order, and never a message that was not completely sent
	for i, v := range got {
		if v != i+1 {
			res.Failf("the client delivered progress messages %v: want each server message exactly once and in order", got)
			break
		}
	}
	for _, v := range got {
		if !complete[v] {
			res.Failf("the client surfaced progress message %d although its event was never completely sent (truncated event surfaced)", v)
		}
	}
	// (2) every reconnect that reached the server presented the id of the last completely received event
	// (the fake server already flags ids it never issued); compare in order with the model.
	for i, l := range leis {
		// the i-th GET that reached the server follows some body; find the model value at that point:
		// transport errors do not reach the server and do not add bodies, so GETs and bodies stay aligned
		// except for 5xx/404 answers, which add a GET without a body.
		_ = i
		_ = l
	}
	if len(leis) > 0 {
		// recompute sequentially: walk bodies and GETs in the order they happened
		bi, last := 0, ""
		advance := func() {
			if bi < len(delivered) {
				for _, e := range memhttp.ParseSSE([]byte(delivered[bi])) {
					if e.ID != "" {
						last = e.ID
					}
				}
				bi++
			}
		}
		advance() // POST body
		ri := 0   // index into scripted outcomes that reached the server
		att := 0
		for _, l := range leis {
			// skip transport errors (they never reach the server)
			for att < len(s.Reconnects) && s.Reconnects[att].Kind == "neterr" {
				att++
			}
			kind := s.Then
			if att < len(s.Reconnects) {
				kind = s.Reconnects[att].Kind
			}
			att++
			if l != last {
				res.Failf("reconnect #%d presented Last-Event-ID %q, want %q (the id of the last event received completely)", ri+1, l, last)
			}
			ri++
			if kind == "ok" || kind == "empty" {
				advance()
			}
		}
	}
	// (3) the call
	resumable := s.IDs
	if !returned {
		res.Failf("CallTool never returned (1 hour of virtual time)")
		return finish(res, s, truncated, len(leis), netErrs)
	}
	if cr.err == nil {
		if cr.text != "the real answer" {
			res.Failf("CallTool returned %q, want the server's real response", cr.text)
		}
		if !respDelivered {
			res.Failf("CallTool succeeded although the response event was never completely sent")
		}
		for i := 1; i <= s.N; i++ {
			if i > len(got) {
				res.Failf("CallTool succeeded but progress message %d (sent before the response) was never delivered: got %v", i, got)
				break
			}
		}
	} else {
		// Failure is legitimate only if the stream could not be resumed.
		hopeless := !resumable || s.Then == "neterr" || s.Then == "empty"
		for _, r := range s.Reconnects {
			if r.Kind == "404" {
				hopeless = true
			}
		}
		// a stream without any completely received id cannot be resumed either
		if lastID == "" {
			hopeless = true
		}
		if s.CutKind == "none" {
			res.Failf("CallTool failed (%v) although the response stream was delivered completely", cr.err)
		} else if !hopeless && !has5xx(s) {
			res.Failf("CallTool failed (%v) although the stream is resumable (ids present, reconnects eventually succeed within the budget): script %+v", cr.err, s)
		} else if !hopeless && has5xx(s) {
			if !vt.Open("F19") {
				res.Failf("CallTool failed (%v) after a transient HTTP 5xx on a reconnect attempt although later attempts would have succeeded", cr.err)
			}
		}
	}
	return finish(res, s, truncated, len(leis), netErrs)
}

func has5xx(s Script) bool {
	for _, r := range s.Reconnects {
		if r.Kind == "500" || r.Kind == "502" || r.Kind == "503" || r.Kind == "504" || r.Kind == "429" {
			return true
		}
	}
	return false
}

func finish(res vt.Result, s Script, truncated bool, gets, netErrs int) vt.Result {
	cuts := 0
	if s.CutKind != "none" {
		cuts++
	}
	failedBefore := false
	for _, r := range s.Reconnects {
		if r.Kind == "ok" && r.CutKind != "none" {
			cuts++
		}
		if r.Kind != "ok" {
			failedBefore = true
		}
	}
	res.NonTrivial = truncated || cuts >= 2 || (failedBefore && gets > 0)
	kinds := ""
	for _, r := range s.Reconnects {
		kinds += r.Kind[:1] + r.CutKind
	}
	res.Desc = fmt.Sprintf("%d|%v|%v|%s|%v|%s|%s|%d|%s%v", s.N, s.IDs, s.Priming, s.CutKind, truncated, kinds, s.Then, s.CutAt%97, s.IDOnly, s.Checkpoints)
	if truncated {
		res.Class("cut_inside_event")
	}
	if cuts >= 2 {
		res.Class("two_or_more_cuts")
	}
	if netErrs > 0 {
		res.Class("transport_error_on_reconnect")
	}
	res.Class("cut_" + s.CutKind)
	if len(s.Checkpoints) > 0 {
		res.Class("id_only_checkpoints")
	}
	if s.IDs && (s.Priming || len(s.Checkpoints) > 0) {
		res.Class("id_only_style_" + s.IDOnly)
	}
	if !s.IDs {
		res.Class("no_event_ids")
	}
	if len(s.Chunks) > 0 {
		res.Class("chunked_reads")
	}
	return res
}

var prop = vt.Register(&vt.Prop[Script]{Property: "C09", Name: "call", Gen: genScript, Run: run, Journal: true})

func TestC09_Call(t *testing.T) { theT = t; prop.Check(t) }
func TestReplay(t *testing.T)   { theT = t; vt.Replay(t) }
func TestRegress(t *testing.T)  { theT = t; vt.Regress(t, "C09") }
func TestKnown(t *testing.T)    { theT = t; vt.Known(t, "C09") }
