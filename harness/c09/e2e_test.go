package c09

// TestC09_E2E: the REAL streamable client (mcp.StreamableClientTransport over memhttp) against the REAL
// streamable server (stateful mcp.StreamableHTTPHandler, legacy protocol versions, with or without a
// MemoryEventStore, SSE responses; JSONResponse as a control), inside a bubble. A harness middleware sits
// between the two and ends SSE response bodies where the script says (after a number of complete events
// and, optionally, a number of bytes into the next one; as a clean end of body or as a read error), and
// makes scripted reconnect attempts fail transiently (transport error, 503).
//
// Everything the oracle uses is observed outside the SDK: the bytes the middleware let through on every
// response body (read with memhttp's independent SSE parser), the payloads the tool handler emitted, the
// payloads the client's notification handlers saw, and the results of the calls.

import (
	"bytes"
	"context"
	"encoding/json"
	"errors"
	"fmt"
	"io"
	"net/http"
	"os"
	"sort"
	"strings"
	"sync"
	"testing"
	"testing/synctest"
	"time"

	"github.com/modelcontextprotocol/go-sdk/mcp"
	"github.com/modelcontextprotocol/go-sdk/verif/memhttp"
	"github.com/modelcontextprotocol/go-sdk/verif/vt"
	"pgregory.net/rapid"
)

// E2ECut says where one SSE response body ends.
type E2ECut struct {
	Events int    `json:"events"`          // complete events let through first
	Bytes  int    `json:"bytes,omitempty"` // 0: end on the event boundary; >0: end strictly inside the next event (1+(Bytes-1) mod (len-1) of its bytes pass)
	Kind   string `json:"kind"`            // eof (clean end of body) | err (read error)
	Eager  bool   `json:"eager,omitempty"` // end as soon as Events events have passed (the server then writes while nothing is attached) instead of when the next event is written
}

// E2EPlan is the fault plan of one logical stream (one call's response stream, or the standalone stream).
type E2EPlan struct {
	Cuts     []*E2ECut `json:"cuts,omitempty"`     // i-th SSE body of the stream (the POST response / first GET is body 0, then every accepted reconnect); null: not cut
	Attempts []string  `json:"attempts,omitempty"` // outcome of the j-th reconnect attempt: ok | neterr | 503 (beyond the list: ok)
}

type E2ECall struct {
	N            int     `json:"n"`             // notifications the handler emits on the request context before returning
	Log          bool    `json:"log,omitempty"` // logging notifications instead of progress notifications
	Pauses       []int   `json:"pauses"`        // virtual milliseconds before each notification and before returning (len N+1)
	Out          int     `json:"out,omitempty"` // notifications emitted outside the request (detached context: standalone stream)
	CloseAfter   int     `json:"close_after,omitempty"`
	CloseRetryMs int     `json:"close_retry_ms,omitempty"` // the handler closes its own SSE stream (RequestExtra.CloseSSEStream) after notification CloseAfter
	Conc         bool    `json:"conc,omitempty"`           // issued together with the previous call
	Plan         E2EPlan `json:"plan"`
}

type E2EScript struct {
	Store      bool      `json:"store"`
	JSON       bool      `json:"json,omitempty"` // control: JSONResponse mode (POST responses are not streams)
	Version    string    `json:"version"`        // 2025-03-26 | 2025-06-18 (no priming event) | 2025-11-25 (priming event)
	MaxRetries int       `json:"max_retries"`    // StreamableClientTransport.MaxRetries (0: default 5; <0: none)
	Chunks     []int     `json:"chunks,omitempty"`
	Calls      []E2ECall `json:"calls"`
	Standalone E2EPlan   `json:"standalone"`
}

func genE2ECut(rt *rapid.T, maxEvents int) *E2ECut {
	c := &E2ECut{
		Events: rapid.IntRange(0, maxEvents).Draw(rt, "cut_events"),
		Kind:   rapid.SampledFrom([]string{"eof", "err"}).Draw(rt, "cut_kind"),
		Eager:  rapid.IntRange(0, 3).Draw(rt, "cut_eager") == 0,
	}
	if rapid.Bool().Draw(rt, "cut_inside") {
		c.Bytes = rapid.IntRange(1, 400).Draw(rt, "cut_bytes")
	}
	return c
}

func genE2EPlan(rt *rapid.T, maxEvents int) E2EPlan {
	var p E2EPlan
	for i, n := 0, rapid.IntRange(0, 4).Draw(rt, "ncuts"); i < n; i++ {
		if rapid.IntRange(0, 9).Draw(rt, "uncut") < 2 {
			p.Cuts = append(p.Cuts, nil)
			continue
		}
		p.Cuts = append(p.Cuts, genE2ECut(rt, maxEvents))
	}
	for i, n := 0, rapid.IntRange(0, 5).Draw(rt, "nattempts"); i < n; i++ {
		p.Attempts = append(p.Attempts, rapid.SampledFrom([]string{"ok", "ok", "neterr", "503"}).Draw(rt, "attempt"))
	}
	return p
}

func genE2E(rt *rapid.T) E2EScript {
	s := E2EScript{
		Store:      rapid.IntRange(0, 3).Draw(rt, "store") > 0,
		JSON:       rapid.IntRange(0, 9).Draw(rt, "json") == 0,
		Version:    rapid.SampledFrom([]string{"2025-03-26", "2025-06-18", "2025-11-25", "2025-11-25"}).Draw(rt, "version"),
		MaxRetries: rapid.SampledFrom([]int{0, 0, 1, 2, 2, 3, -1}).Draw(rt, "max_retries"),
	}
	if rapid.IntRange(0, 2).Draw(rt, "chunked") == 0 {
		s.Chunks = rapid.SliceOfN(rapid.IntRange(1, 120), 1, 6).Draw(rt, "chunks")
	}
	for i, n := 0, rapid.IntRange(1, 4).Draw(rt, "ncalls"); i < n; i++ {
		c := E2ECall{
			N:    rapid.IntRange(0, 5).Draw(rt, "n"),
			Log:  rapid.IntRange(0, 2).Draw(rt, "log") == 0,
			Conc: i > 0 && rapid.IntRange(0, 3).Draw(rt, "conc") == 0,
		}
		// The staircase, generated on purpose: the stream is cut again and again, each body bringing
		// exactly one new event (progress), and between two bodies as many reconnect attempts fail as the
		// budget unambiguously allows (MaxRetries-1), so that the failures of all windows together exceed
		// MaxRetries although no single window does.
		budget := e2eBudget(s)
		stair := s.Store && !s.JSON && budget >= 2 && rapid.IntRange(0, 5).Draw(rt, "staircase") == 0
		windows := 0
		if stair {
			windows = budget/(budget-1) + 1
			c.N = max(c.N, windows+1)
		}
		for j := 0; j <= c.N; j++ {
			c.Pauses = append(c.Pauses, rapid.SampledFrom([]int{0, 0, 0, 300, 1500, 4000}).Draw(rt, "pause"))
		}
		if rapid.IntRange(0, 3).Draw(rt, "has_out") == 0 {
			c.Out = rapid.IntRange(1, 3).Draw(rt, "out")
		}
		if !stair && c.N > 0 && rapid.IntRange(0, 6).Draw(rt, "closes") == 0 {
			c.CloseAfter = rapid.IntRange(1, c.N).Draw(rt, "close_after")
			c.CloseRetryMs = rapid.SampledFrom([]int{0, 10, 2500}).Draw(rt, "close_retry")
		}
		if stair {
			for wd := 0; wd < windows; wd++ {
				c.Plan.Cuts = append(c.Plan.Cuts, &E2ECut{
					Events: 1,
					Bytes:  rapid.SampledFrom([]int{0, 0, 7, 60}).Draw(rt, "stair_bytes"),
					Kind:   rapid.SampledFrom([]string{"eof", "err"}).Draw(rt, "stair_kind"),
					Eager:  rapid.IntRange(0, 3).Draw(rt, "stair_eager") == 0,
				})
				for f := 0; f < budget-1; f++ {
					c.Plan.Attempts = append(c.Plan.Attempts, rapid.SampledFrom([]string{"503", "503", "neterr"}).Draw(rt, "stair_attempt"))
				}
				c.Plan.Attempts = append(c.Plan.Attempts, "ok")
			}
		} else {
			c.Plan = genE2EPlan(rt, c.N+2)
		}
		s.Calls = append(s.Calls, c)
	}
	s.Standalone = genE2EPlan(rt, 3)
	return s
}

// ---- the middleware ------------------------------------------------------------------------------------

// e2eEntry is one thing that happened to a logical stream, in the order the client experienced them.
type e2eEntry struct {
	kind string   // body | neterr | 503 | hard (an unexpected non-2xx answer)
	body *e2eBody // kind == body
	code int      // kind == hard
}

// e2eBody is the record of one SSE response body.
type e2eBody struct {
	method string
	lei    string       // Last-Event-ID the request carried
	passed bytes.Buffer // the bytes that were made visible to the client
	cut    *E2ECut
	fired  bool // the cut took effect
	inside bool // ... strictly inside an event
	evAt   int  // complete events that had passed when it took effect
}

type e2eStream struct {
	name     string // "call k" | "standalone"
	call     int    // -1: standalone
	plan     E2EPlan
	log      []e2eEntry
	bodies   int // SSE bodies so far
	attempts int // reconnect attempts so far
	closes   int // times the call's handler closed its own SSE stream (RequestExtra.CloseSSEStream)
}

type e2eWorld struct {
	s  E2EScript
	mu sync.Mutex

	inner       http.Handler
	calls       []*e2eStream
	standalone  *e2eStream
	idOwner     map[string]*e2eStream // every event id that appeared in bytes let through -> its logical stream
	firstGET    bool                  // the initial standalone GET has been seen by the transport
	firstGETh   bool                  // ... by the handler
	anomalies   []string              // non-2xx answers the script did not ask for
	unknownLEI  int
	serverClose int

	emitted []string       // payloads in emission order (recorded by the tool handler just before notifying)
	emitIdx map[string]int // payload -> position in emitted
	seen    []string       // payloads in the order the client's handlers saw them
}

func (w *e2eWorld) emit(p string) {
	w.mu.Lock()
	w.emitIdx[p] = len(w.emitted)
	w.emitted = append(w.emitted, p)
	w.mu.Unlock()
}

func (w *e2eWorld) saw(p string) {
	w.mu.Lock()
	w.seen = append(w.seen, p)
	w.mu.Unlock()
}

// streamFor attributes a GET to a logical stream (w.mu held).
func (w *e2eWorld) streamFor(lei string) *e2eStream {
	if lei == "" {
		return w.standalone
	}
	return w.idOwner[lei]
}

// fail is memhttp's transport-failure hook: scripted transport errors on reconnect attempts.
func (w *e2eWorld) fail(r *http.Request) error {
	if r.Method != "GET" {
		return nil
	}
	lei := r.Header.Get("Last-Event-ID")
	w.mu.Lock()
	defer w.mu.Unlock()
	if lei == "" && !w.firstGET {
		w.firstGET = true // the initial standalone GET is not a reconnect attempt
		return nil
	}
	st := w.streamFor(lei)
	if st == nil {
		return nil
	}
	if st.attempts < len(st.plan.Attempts) && st.plan.Attempts[st.attempts] == "neterr" {
		st.attempts++
		st.log = append(st.log, e2eEntry{kind: "neterr"})
		return errors.New("scripted transport error")
	}
	return nil
}

// cutWriter lets the response through up to the scripted point.
type cutWriter struct {
	w      *e2eWorld
	inner  http.ResponseWriter
	cancel context.CancelFunc
	st     *e2eStream // nil: not a stream the script can cut
	expect bool       // a body record is to be created if the response turns out to be an SSE stream
	method string
	lei    string

	decided bool
	sse     bool
	body    *e2eBody
	status  int
	events  int
	dead    bool
}

func (c *cutWriter) Header() http.Header { return c.inner.Header() }

func (c *cutWriter) WriteHeader(code int) {
	c.w.mu.Lock()
	if c.status == 0 {
		c.status = code
	}
	c.w.mu.Unlock()
	c.inner.WriteHeader(code)
}

// decide runs at the first body byte (w.mu held): is this an SSE body of a logical stream?
func (c *cutWriter) decide() {
	if c.decided {
		return
	}
	c.decided = true
	if c.status == 0 {
		c.status = 200
	}
	ct := c.inner.Header().Get("Content-Type")
	c.sse = c.status == 200 && strings.HasPrefix(ct, "text/event-stream")
	if c.sse && c.expect && c.st != nil {
		b := &e2eBody{method: c.method, lei: c.lei}
		if c.st.bodies < len(c.st.plan.Cuts) {
			b.cut = c.st.plan.Cuts[c.st.bodies]
		}
		c.st.bodies++
		c.st.log = append(c.st.log, e2eEntry{kind: "body", body: b})
		c.body = b
	}
}

func (c *cutWriter) pass(p []byte) {
	c.inner.Write(p)
	if f, ok := c.inner.(http.Flusher); ok {
		f.Flush()
	}
	if c.body != nil {
		c.body.passed.Write(p)
		// every id that appears in bytes the client can read names this logical stream
		for _, line := range strings.Split(c.body.passed.String(), "\n") {
			line = strings.TrimSuffix(line, "\r")
			if v, ok := strings.CutPrefix(line, "id:"); ok {
				c.w.idOwner[strings.TrimSpace(v)] = c.st
			}
		}
	}
}

func (c *cutWriter) fire(inside bool) {
	c.dead = true
	c.body.fired = true
	c.body.inside = inside
	c.body.evAt = c.events
	if f, ok := c.inner.(http.Flusher); ok {
		f.Flush() // commit the header even if no byte passed
	}
	c.cancel() // the client is gone: the SDK handler unwinds
}

func (c *cutWriter) Write(p []byte) (int, error) {
	c.w.mu.Lock()
	defer c.w.mu.Unlock()
	if c.dead {
		return 0, memhttp.ErrCut
	}
	c.decide()
	if c.body == nil || c.body.cut == nil {
		c.pass(p)
		return len(p), nil
	}
	cut := c.body.cut
	isEvent := len(memhttp.ParseSSE(p)) > 0 // the SDK writes one whole event per Write
	if isEvent && c.events == cut.Events && (!cut.Eager || cut.Events == 0) {
		k := 0
		if cut.Bytes > 0 && len(p) > 1 {
			k = 1 + (cut.Bytes-1)%(len(p)-1)
		}
		if k > 0 {
			c.pass(p[:k])
		}
		c.fire(k > 0)
		return k, memhttp.ErrCut
	}
	c.pass(p)
	if isEvent {
		c.events++
	}
	if cut.Eager && c.events >= cut.Events {
		c.fire(false)
	}
	return len(p), nil
}

func (c *cutWriter) Flush() {
	c.w.mu.Lock()
	defer c.w.mu.Unlock()
	if c.dead {
		return
	}
	c.decide()
	if f, ok := c.inner.(http.Flusher); ok {
		f.Flush()
	}
}

func (w *e2eWorld) ServeHTTP(rw http.ResponseWriter, r *http.Request) {
	ctx, cancel := context.WithCancel(r.Context())
	defer cancel()
	cw := &cutWriter{w: w, inner: rw, cancel: cancel, method: r.Method, lei: r.Header.Get("Last-Event-ID")}
	switch r.Method {
	case "DELETE":
		// The client sends its DELETE while holding the lock of its jsonrpc2 connection, and the server
		// answers only after the session's running handlers have returned. A goroutine that waits for
		// that lock meanwhile is not durably blocked, so virtual time (the handlers' pauses) could not
		// advance (DESIGN 2.6, watchdog). The "network" therefore answers 204 at once and hands the
		// request to the real handler in the background; the client ignores the answer anyway.
		go w.inner.ServeHTTP(discardWriter{http.Header{}}, r.Clone(context.WithoutCancel(r.Context())))
		rw.WriteHeader(http.StatusNoContent)
		return
	case "POST":
		raw, _ := io.ReadAll(r.Body)
		r.Body = io.NopCloser(bytes.NewReader(raw))
		var msg struct {
			Method string `json:"method"`
			Params struct {
				Name      string `json:"name"`
				Arguments struct {
					K *int `json:"k"`
				} `json:"arguments"`
			} `json:"params"`
		}
		if json.Unmarshal(raw, &msg) == nil && msg.Method == "tools/call" && msg.Params.Arguments.K != nil {
			if k := *msg.Params.Arguments.K; k >= 0 && k < len(w.calls) {
				cw.st, cw.expect = w.calls[k], true
			}
		}
	case "GET":
		lei := r.Header.Get("Last-Event-ID")
		w.mu.Lock()
		st := w.streamFor(lei)
		initial := lei == "" && !w.firstGETh
		if initial {
			w.firstGETh = true
		}
		if st == nil {
			w.unknownLEI++
		}
		answer503 := false
		if st != nil && !initial {
			if st.attempts < len(st.plan.Attempts) && st.plan.Attempts[st.attempts] == "503" {
				answer503 = true
				st.log = append(st.log, e2eEntry{kind: "503"})
			}
			st.attempts++
		}
		w.mu.Unlock()
		if answer503 {
			http.Error(rw, "scripted: service unavailable", http.StatusServiceUnavailable)
			return
		}
		cw.st, cw.expect = st, st != nil
	}
	w.inner.ServeHTTP(cw, r.WithContext(ctx))
	w.mu.Lock()
	cw.decide()
	if cw.status < 200 || cw.status > 299 {
		w.anomalies = append(w.anomalies, fmt.Sprintf("%s answered %d", r.Method, cw.status))
		if cw.st != nil {
			cw.st.log = append(cw.st.log, e2eEntry{kind: "hard", code: cw.status})
		}
	}
	abort := cw.body != nil && cw.body.fired && cw.body.cut.Kind == "err"
	w.mu.Unlock()
	if abort {
		panic(http.ErrAbortHandler) // the client's read of this body ends with an error after the bytes let through
	}
}

type discardWriter struct{ h http.Header }

func (d discardWriter) Header() http.Header         { return d.h }
func (d discardWriter) Write(p []byte) (int, error) { return len(p), nil }
func (d discardWriter) WriteHeader(int)             {}

// ---- the case ------------------------------------------------------------------------------------------

type e2eEmitIn struct {
	K int `json:"k"`
}

type e2eCallRes struct {
	started  bool
	returned bool
	err      error
	text     string
}

func runE2E(s E2EScript) (res vt.Result) {
	closedBoth := false
	if p := vt.Bubble(theT, func() { res = runE2EInBubble(s, &closedBoth) }); p != "" {
		if closedBoth && strings.Contains(p, leftoverOnly) {
			// goroutines (client or server side) left behind after both ends were closed: not C09's business
			res.Class("teardown_leftover")
		} else if closedBoth {
			res.Failf("after the client session was closed and every server session was shut down the bubble did not end (goroutines left behind or a hang): %s", p)
		} else {
			res.Failf("the case did not reach its teardown: %s", p)
		}
	}
	return res
}

func e2ePayload(k, i, n int) string { return fmt.Sprintf("call %d / %d of %d", k, i, n) }
func e2eOut(k, i, n int) string     { return fmt.Sprintf("out-of-request %d / %d of %d", k, i, n) }

func runE2EInBubble(s E2EScript, closedBoth *bool) (res vt.Result) {
	w := &e2eWorld{s: s, idOwner: map[string]*e2eStream{}, emitIdx: map[string]int{}}
	for k, c := range s.Calls {
		w.calls = append(w.calls, &e2eStream{name: fmt.Sprintf("call %d", k), call: k, plan: c.Plan})
	}
	w.standalone = &e2eStream{name: "standalone", call: -1, plan: s.Standalone}

	server := mcp.NewServer(&mcp.Implementation{Name: "srv", Version: "1"}, nil)
	mcp.AddTool(server, &mcp.Tool{Name: "emit"}, func(ctx context.Context, req *mcp.CallToolRequest, in e2eEmitIn) (*mcp.CallToolResult, any, error) {
		k := in.K
		if k < 0 || k >= len(s.Calls) {
			return nil, nil, fmt.Errorf("no such call %d", k)
		}
		c := s.Calls[k]
		notify := func(ctx context.Context, payload string, seq int) {
			w.emit(payload)
			if c.Log {
				req.Session.Log(ctx, &mcp.LoggingMessageParams{Level: "info", Data: payload})
			} else {
				req.Session.NotifyProgress(ctx, &mcp.ProgressNotificationParams{ProgressToken: fmt.Sprintf("tok-%d", k), Progress: float64(seq), Message: payload})
			}
		}
		out := 0
		for i := 1; i <= c.N; i++ {
			if i-1 < len(c.Pauses) && c.Pauses[i-1] > 0 {
				time.Sleep(time.Duration(c.Pauses[i-1]) * time.Millisecond)
			}
			notify(ctx, e2ePayload(k, i, c.N), i)
			if out < c.Out {
				out++
				notify(context.Background(), e2eOut(k, out, c.Out), out)
			}
			if c.CloseAfter == i && req.Extra != nil && req.Extra.CloseSSEStream != nil {
				w.mu.Lock()
				w.serverClose++
				w.calls[k].closes++
				w.mu.Unlock()
				req.Extra.CloseSSEStream(mcp.CloseSSEStreamArgs{RetryAfter: time.Duration(c.CloseRetryMs) * time.Millisecond})
			}
		}
		for out < c.Out {
			out++
			notify(context.Background(), e2eOut(k, out, c.Out), out)
		}
		if c.N < len(c.Pauses) && c.Pauses[c.N] > 0 {
			time.Sleep(time.Duration(c.Pauses[c.N]) * time.Millisecond)
		}
		return &mcp.CallToolResult{Content: []mcp.Content{&mcp.TextContent{Text: fmt.Sprintf("result of call %d", k)}}}, nil, nil
	})
	opts := &mcp.StreamableHTTPOptions{JSONResponse: s.JSON}
	if s.Store {
		opts.EventStore = mcp.NewMemoryEventStore(nil)
	}
	w.inner = mcp.NewStreamableHTTPHandler(func(*http.Request) *mcp.Server { return server }, opts)
	tr := &memhttp.Transport{Handler: w, Chunks: s.Chunks, Fail: w.fail}

	client := mcp.NewClient(&mcp.Implementation{Name: "cli", Version: "1"}, &mcp.ClientOptions{
		ProgressNotificationHandler: func(ctx context.Context, r *mcp.ProgressNotificationClientRequest) {
			w.saw(r.Params.Message)
		},
		LoggingMessageHandler: func(ctx context.Context, r *mcp.LoggingMessageRequest) {
			if v, ok := r.Params.Data.(string); ok {
				w.saw(v)
			} else {
				w.saw(fmt.Sprintf("<non-string log data %v>", r.Params.Data))
			}
		},
	})
	ct := &mcp.StreamableClientTransport{Endpoint: "http://mcp.example/mcp", HTTPClient: tr.Client(), MaxRetries: s.MaxRetries}
	var cs *mcp.ClientSession
	cerr := make(chan error, 1)
	go func() {
		var e error
		cs, e = client.Connect(context.Background(), ct, &mcp.ClientSessionOptions{ProtocolVersion: s.Version})
		cerr <- e
	}()
	e, connected := awaitSetup(cerr)
	switch {
	case connected:
		if e != nil {
			// The standalone stream may be cut beyond the retry budget while Connect is still finishing:
			// the session then breaks at once, which is a clean outcome. Anything else is a harness problem.
			w.mu.Lock()
			sa := analyseE2E(w.standalone, e2eBudget(s), nil)
			w.mu.Unlock()
			if sa.inBudget {
				res.Failf("harness: connect: %v", e)
			}
			res.Class("connect_failed_outside_budget")
			res.Desc = "connect failed"
			for x := range server.Sessions() {
				go x.Close()
			}
			synctest.Wait()
			time.Sleep(5 * time.Minute)
			synctest.Wait()
			return
		}
	default:
		res.Failf("harness: connect did not return")
		return
	}
	teardown := func() {
		synctest.Wait()
		cs.Close()
		synctest.Wait()
		for x := range server.Sessions() {
			go x.Close()
		}
		synctest.Wait()
		*closedBoth = true
		time.Sleep(5 * time.Minute)
		synctest.Wait()
	}
	if v := cs.InitializeResult().ProtocolVersion; v != s.Version {
		res.Failf("harness: negotiated version %q, want %q", v, s.Version)
		teardown()
		return
	}
	// logging notifications flow only after the client has set a level
	lvl := make(chan error, 1)
	go func() { lvl <- cs.SetLoggingLevel(context.Background(), &mcp.SetLoggingLevelParams{Level: "debug"}) }()
	lvlFailed := false
	if e, ok := awaitSetup(lvl); ok {
		// the standalone stream may already have been cut beyond the retry budget: the session is then
		// broken before the first call, which is a legitimate (clean) outcome; the calls will fail
		lvlFailed = e != nil
	} else {
		res.Failf("harness: logging/setLevel did not return")
		teardown()
		return
	}

	// ---- the calls, group by group ----
	results := make([]e2eCallRes, len(s.Calls))
	var rmu sync.Mutex
	runaway := false
	for g := 0; g < len(s.Calls); {
		h := g + 1
		for h < len(s.Calls) && s.Calls[h].Conc {
			h++
		}
		for k := g; k < h; k++ {
			rmu.Lock()
			results[k].started = true
			rmu.Unlock()
			go func(k int) {
				p := &mcp.CallToolParams{Name: "emit", Arguments: map[string]any{"k": k}}
				p.SetProgressToken(fmt.Sprintf("tok-%d", k))
				r, err := cs.CallTool(context.Background(), p)
				rmu.Lock()
				defer rmu.Unlock()
				results[k].returned, results[k].err = true, err
				if err == nil {
					if r.IsError {
						results[k].text = "<tool error>"
					}
					for _, c := range r.Content {
						if tc, ok := c.(*mcp.TextContent); ok {
							results[k].text += tc.Text
						}
					}
				}
			}(k)
		}
		// virtual time runs until every call of the group has returned: up to 15 minutes, far beyond
		// every handler pause and every back-off budget
		for i := 0; i < 900; i++ {
			synctest.Wait()
			all := true
			rmu.Lock()
			for k := g; k < h; k++ {
				all = all && results[k].returned
			}
			rmu.Unlock()
			if all {
				break
			}
			if len(tr.Exchanges()) > 400 {
				runaway = true
				break
			}
			if i < 600 {
				time.Sleep(time.Second)
			} else {
				time.Sleep(10 * time.Second) // up to 1 virtual hour in all: the property fixes no time scale
			}
		}
		g = h
		if runaway {
			break
		}
	}
	// quiescence: let the standalone stream reconnect and deliver what it still has
	synctest.Wait()
	time.Sleep(3 * time.Minute)
	synctest.Wait()
	if runaway {
		res.Failf("the client is still reconnecting after %d HTTP exchanges (retry budget ignored)", len(tr.Exchanges()))
	}

	// ---- oracle ----
	w.mu.Lock()
	rmu.Lock()
	judgeE2E(&res, s, w, results, tr, lvlFailed)
	rmu.Unlock()
	w.mu.Unlock()

	teardown()
	// every class counts once per case
	seen := map[string]bool{}
	uniq := res.Classes[:0]
	for _, c := range res.Classes {
		if !seen[c] {
			seen[c] = true
			uniq = append(uniq, c)
		}
	}
	res.Classes = uniq
	return res
}

// e2eAnalysis is what the delivery model says about one logical stream.
type e2eAnalysis struct {
	complete   bool // a body carried the call's response completely
	resumable  bool // every body that ended early left the client with an event id to resume from
	inBudget   bool // the failures between two points of progress stayed strictly inside the retry budget
	resumes    int  // bodies obtained by a GET carrying Last-Event-ID
	cutsFired  int
	ntCut      bool // a cut took effect after >=1 complete event with >=1 event still to come, and a resume followed
	complEvent map[string]bool
}

func analyseE2E(st *e2eStream, budget int, respMatch func(data string) bool) e2eAnalysis {
	a := e2eAnalysis{resumable: true, inBudget: true, complEvent: map[string]bool{}}
	last, prev := "", ""
	window := 0 // fruitless reconnects since the last progress
	note := func() {
		if window > budget-1 {
			a.inBudget = false
		}
	}
	pendingNT := false
	closeLeft := st.closes
	for _, e := range st.log {
		switch e.kind {
		case "neterr", "503":
			window++
			note()
		case "hard":
			a.inBudget = false
		case "body":
			b := e.body
			if b.lei != "" {
				a.resumes++
				if pendingNT {
					a.ntCut = true
				}
			}
			evs := memhttp.ParseSSE(b.passed.Bytes())
			hasResp := false
			for _, ev := range evs {
				if ev.ID != "" {
					last = ev.ID
				}
				if ev.Data != "" {
					a.complEvent[ev.Data] = true
					if respMatch != nil && respMatch(ev.Data) {
						hasResp = true
					}
				}
			}
			if b.fired {
				a.cutsFired++
			}
			if hasResp {
				a.complete = true
				return a
			}
			// Only interruptions the script caused use up the budget: a cut that took effect, or the
			// handler closing its own stream. A correct server never ends a call's body by itself before
			// the response, so a body that simply ended (or is still open) excuses nothing.
			if !b.fired {
				if st.call < 0 || closeLeft == 0 {
					continue
				}
				closeLeft--
			}
			if b.fired && len(evs) >= 1 && (st.call >= 0 || !b.cut.Eager) {
				pendingNT = true // the event that triggered the cut, or at least the response, is still to come
			}
			if last == "" && st.call >= 0 {
				a.resumable = false
				return a
			}
			if last != "" && last != prev {
				window, prev = 0, last
			} else {
				window++
			}
			if budget < 1 {
				a.inBudget = false // no reconnect attempt at all is made
			}
			note()
		}
	}
	return a
}

// e2eBudget is the documented meaning of StreamableClientTransport.MaxRetries.
func e2eBudget(s E2EScript) int {
	switch {
	case s.MaxRetries == 0:
		return 5
	case s.MaxRetries < 0:
		return 0
	}
	return s.MaxRetries
}

func judgeE2E(res *vt.Result, s E2EScript, w *e2eWorld, results []e2eCallRes, tr *memhttp.Transport, lvlFailed bool) {
	budget := e2eBudget(s)
	// (5) nothing the server did not emit, nothing twice
	count := map[string]int{}
	for _, p := range w.seen {
		count[p]++
		if _, ok := w.emitIdx[p]; !ok {
			res.Failf("the client delivered notification %q, which the server never emitted", p)
		}
	}
	dups := []string{}
	for p, n := range count {
		if n > 1 {
			dups = append(dups, fmt.Sprintf("%q x%d", p, n))
		}
	}
	sort.Strings(dups)
	if len(dups) > 0 {
		res.Failf("notifications delivered more than once: %s (client saw %q)", strings.Join(dups, ", "), w.seen)
	}

	respMatch := func(k int) func(string) bool {
		want := fmt.Sprintf("result of call %d", k)
		return func(data string) bool {
			var m struct {
				ID     json.RawMessage `json:"id"`
				Result *struct {
					Content []struct {
						Text string `json:"text"`
					} `json:"content"`
				} `json:"result"`
			}
			if json.Unmarshal([]byte(data), &m) != nil || len(m.ID) == 0 || m.Result == nil {
				return false
			}
			for _, c := range m.Result.Content {
				if c.Text == want {
					return true
				}
			}
			return false
		}
	}
	sa := analyseE2E(w.standalone, budget, nil)
	an := make([]e2eAnalysis, len(s.Calls))
	allInBudget := sa.inBudget && len(w.anomalies) == 0 && w.unknownLEI == 0
	for k := range s.Calls {
		an[k] = analyseE2E(w.calls[k], budget, respMatch(k))
		allInBudget = allInBudget && an[k].inBudget
	}

	okCalls, errCalls, must := 0, 0, 0
	for k, c := range s.Calls {
		r := results[k]
		if !r.started {
			continue
		}
		// (3) every call returns
		if !r.returned {
			res.Failf("call %d never returned (1 hour of virtual time): stream history %s", k, describeE2E(w.calls[k]))
			continue
		}
		var mine []string // this call's request-context notifications, in the order the client saw them
		for _, p := range w.seen {
			if strings.HasPrefix(p, fmt.Sprintf("call %d / ", k)) {
				mine = append(mine, p)
			}
		}
		// control mode: the call's notifications travel on the standalone stream, where they may be lost
		// (documented); what arrives is in emission order
		lastIdx := -1
		for _, p := range mine {
			if r.err != nil || !s.JSON {
				break
			}
			if i, ok := w.emitIdx[p]; ok {
				if i < lastIdx {
					res.Failf("call %d: its notifications reached the client out of emission order: %q", k, mine)
					break
				}
				lastIdx = i
			}
		}
		if r.err == nil {
			okCalls++
			// (1) the real result ...
			if want := fmt.Sprintf("result of call %d", k); r.text != want {
				res.Failf("call %d returned %q, want its real result %q", k, r.text, want)
			}
			if !s.JSON {
				// ... which must have been sent completely on one of the stream's bodies (also clause 4)
				if !an[k].complete {
					res.Failf("call %d succeeded although its response event was never completely sent on any body of its stream: %s", k, describeE2E(w.calls[k]))
				}
				// ... and each of its notifications exactly once, in emission order
				var want []string
				for i := 1; i <= c.N; i++ {
					want = append(want, e2ePayload(k, i, c.N))
				}
				if lvlFailed && c.Log {
					want = mine // the level was never set: the server sends no log notifications
				}
				if strings.Join(mine, "|") != strings.Join(want, "|") {
					res.Failf("call %d succeeded but the client saw its notifications as %q, want each of %q exactly once and in order; stream history %s", k, mine, want, describeE2E(w.calls[k]))
				}
				for _, p := range mine {
					found := false
					for data := range an[k].complEvent {
						if strings.Contains(data, fmt.Sprintf("%q", p)) {
							found = true
						}
					}
					if !found {
						res.Failf("call %d: notification %q was surfaced although its event was never completely sent", k, p)
					}
				}
			}
		} else {
			errCalls++
			// (2) resumable and unambiguously inside the retry budget: the call must complete with its result
			if s.Store && !s.JSON && allInBudget && an[k].resumable && len(w.calls[k].log) > 0 {
				res.Failf("call %d failed (%v) although an event store is configured, every interrupted body left an event id to resume from and all reconnects were inside the retry budget (MaxRetries %d): stream history %s; standalone %s",
					k, r.err, s.MaxRetries, describeE2E(w.calls[k]), describeE2E(w.standalone))
			}
			// (4) without event ids a cut fails the call: accepted; nothing to assert beyond "it returned"
		}
		if s.Store && !s.JSON && allInBudget && an[k].resumable {
			must++
		}
	}

	if os.Getenv("C09_DEBUG") != "" {
		fmt.Printf("DEBUG budget=%d allInBudget=%v anomalies=%v seen=%q\n", budget, allInBudget, w.anomalies, w.seen)
		for k := range s.Calls {
			fmt.Printf("DEBUG call %d: returned=%v err=%v text=%q complete=%v resumable=%v inBudget=%v %s\n", k, results[k].returned, results[k].err, results[k].text, an[k].complete, an[k].resumable, an[k].inBudget, describeE2E(w.calls[k]))
		}
		fmt.Printf("DEBUG %s\n", describeE2E(w.standalone))
	}
	// ---- statistics ----
	nt := false
	resumes, fired, neterr, s503 := sa.resumes, 0, 0, 0
	all := append([]*e2eStream{w.standalone}, w.calls...)
	for k := range an {
		nt = nt || an[k].ntCut
		resumes += an[k].resumes
	}
	nt = nt || sa.ntCut
	var desc strings.Builder
	fmt.Fprintf(&desc, "%v|%v|%s|%d|", s.Store, s.JSON, s.Version, s.MaxRetries)
	for _, st := range all {
		desc.WriteString(describeE2E(st) + ";")
		for _, e := range st.log {
			switch e.kind {
			case "neterr":
				neterr++
			case "503":
				s503++
			case "body":
				b := e.body
				if b.cut != nil && !b.fired {
					res.Class("pos_after_last_event")
				}
				if !b.fired {
					continue
				}
				fired++
				res.Class("cut_" + b.cut.Kind)
				switch {
				case b.inside:
					res.Class("pos_inside_event")
				case b.evAt == 0:
					res.Class("pos_before_first_event")
				default:
					res.Class("pos_between_events")
				}
				if b.cut.Eager {
					res.Class("cut_eager")
				}
			}
		}
	}
	// the resume the non-trivial rule asks for must be visible in memhttp's own exchange record
	getWithLEI := 0
	for _, ex := range tr.Exchanges() {
		if ex.Method == "GET" && ex.Header.Get("Last-Event-ID") != "" {
			getWithLEI++
		}
	}
	res.NonTrivial = nt && getWithLEI > 0
	res.Desc = desc.String()
	if s.Store {
		res.Class("store")
	} else {
		res.Class("no_store")
	}
	if s.JSON {
		res.Class("json_response_mode")
	}
	if s.Version >= "2025-11-25" {
		res.Class("priming")
	} else {
		res.Class("no_priming")
	}
	switch {
	case resumes == 0:
		res.Class("resumes_0")
	case resumes == 1:
		res.Class("resumes_1")
	case resumes == 2:
		res.Class("resumes_2")
	default:
		res.Class("resumes_3plus")
	}
	if fired == 0 {
		res.Class("no_cut_fired")
	}
	if okCalls > 0 {
		res.Class("outcome_ok")
	}
	if errCalls > 0 {
		res.Class("outcome_error")
	}
	if must > 0 {
		res.Class("must_succeed_judged")
	}
	if neterr > 0 {
		res.Class("transient_transport_error")
	}
	if s503 > 0 {
		res.Class("transient_503")
	}
	if w.serverClose > 0 {
		res.Class("handler_closed_its_stream")
	}
	if lvlFailed {
		res.Class("session_broken_before_first_call")
	}
	if len(w.anomalies) > 0 {
		res.Class("unscripted_http_error")
	}
	if !allInBudget {
		res.Class("outside_retry_budget")
	}
	if sa.cutsFired > 0 {
		res.Class("standalone_cut")
	}
	conc := false
	for _, c := range s.Calls {
		conc = conc || c.Conc
	}
	if conc {
		res.Class("concurrent_calls")
	}
}

// describeE2E is a compact history of one logical stream (for messages and for distinct counting).
func describeE2E(st *e2eStream) string {
	var b strings.Builder
	b.WriteString(st.name + "[")
	for i, e := range st.log {
		if i > 0 {
			b.WriteString(" ")
		}
		switch e.kind {
		case "body":
			evs := memhttp.ParseSSE(e.body.passed.Bytes())
			fmt.Fprintf(&b, "%s", e.body.method)
			if e.body.lei != "" {
				b.WriteString("+lei")
			}
			fmt.Fprintf(&b, ":%dev", len(evs))
			if e.body.fired {
				fmt.Fprintf(&b, ",cut-%s", e.body.cut.Kind)
				if e.body.inside {
					b.WriteString("-inside")
				}
				if e.body.cut.Eager {
					b.WriteString("-eager")
				}
			}
		case "hard":
			fmt.Fprintf(&b, "http%d", e.code)
		default:
			b.WriteString(e.kind)
		}
	}
	b.WriteString("]")
	return b.String()
}

var e2eProp = vt.Register(&vt.Prop[E2EScript]{Property: "C09", Name: "e2e", Gen: genE2E, Run: runE2E, Journal: true})

func TestC09_E2E(t *testing.T) { theT = t; e2eProp.Check(t) }
