package c09

import (
	"context"
	"errors"
	"fmt"
	"io"
	"net/http"
	"os"
	"strconv"
	"strings"
	"sync"
	"testing"
	"testing/synctest"
	"time"

	"github.com/modelcontextprotocol/go-sdk/mcp"
	"github.com/modelcontextprotocol/go-sdk/verif/memhttp"
	"github.com/modelcontextprotocol/go-sdk/verif/vt"
	"pgregory.net/rapid"
)

// The standalone stream: the server pushes N log notifications (with event ids) on the GET stream the
// client opens after initialization; the body is cut at any offset and reconnects are scripted.

type SAScript struct {
	N          int    `json:"n"`
	CutKind    string `json:"cut_kind"` // err | eof
	CutAt      int    `json:"cut_at"`
	Reconnects []Rec  `json:"reconnects"`
	CRLF       bool   `json:"crlf"`
	Chunks     []int  `json:"chunks,omitempty"`
	RetryMs    int    `json:"retry_ms"`
}

func genSA(rt *rapid.T) SAScript {
	s := SAScript{
		N:       rapid.IntRange(1, 5).Draw(rt, "n"),
		CutKind: rapid.SampledFrom([]string{"err", "eof"}).Draw(rt, "cutkind"),
		CutAt:   rapid.IntRange(0, 2000).Draw(rt, "cutat"),
		CRLF:    rapid.IntRange(0, 5).Draw(rt, "crlf") == 0,
		RetryMs: rapid.SampledFrom([]int{0, 0, 10}).Draw(rt, "retry"),
	}
	if rapid.IntRange(0, 2).Draw(rt, "chunked") == 0 {
		s.Chunks = rapid.SliceOfN(rapid.IntRange(1, 120), 1, 6).Draw(rt, "chunks")
	}
	for i, n := 0, rapid.IntRange(0, 4).Draw(rt, "nrec"); i < n; i++ {
		r := Rec{Kind: rapid.SampledFrom([]string{"ok", "ok", "ok", "neterr", "502", "500", "504", "429", "empty"}).Draw(rt, "rkind")}
		if r.Kind == "ok" {
			r.CutKind = rapid.SampledFrom([]string{"err", "eof"}).Draw(rt, "rcutkind")
			r.CutAt = rapid.IntRange(0, 2000).Draw(rt, "rcutat")
		}
		s.Reconnects = append(s.Reconnects, r)
	}
	return s
}

type saFake struct {
	s         SAScript
	mu        sync.Mutex
	evs       []event
	delivered []string
	leis      []string
	before    []int // number of bodies delivered before each recorded reconnect
	allGETs   int   // GETs seen by the transport (including ones failed before reaching the server)
	attempts  int
	gets      int
	hold      chan struct{} // the final (uncut) stream stays open until the test ends
	viol      []string
}

func (f *saFake) ServeHTTP(w http.ResponseWriter, r *http.Request) {
	switch r.Method {
	case "DELETE":
		w.WriteHeader(204)
		return
	case "POST":
		raw, _ := io.ReadAll(r.Body)
		if strings.Contains(string(raw), `"initialize"`) {
			id := raw[strings.Index(string(raw), `"id":`)+5:]
			idTok := strings.TrimSpace(string(id[:strings.IndexAny(string(id), ",}")]))
			w.Header().Set("Content-Type", "application/json")
			w.Header().Set("Mcp-Session-Id", "sess-1")
			fmt.Fprintf(w, `{"jsonrpc":"2.0","id":%s,"result":{"protocolVersion":"2025-06-18","capabilities":{"logging":{}},"serverInfo":{"name":"fake","version":"0"}}}`, idTok)
			return
		}
		w.WriteHeader(202)
		return
	}
	// GET
	lei := r.Header.Get("Last-Event-ID")
	f.mu.Lock()
	f.gets++
	first := f.gets == 1
	var rec Rec
	if first {
		rec = Rec{Kind: "ok", CutKind: f.s.CutKind, CutAt: f.s.CutAt}
	} else {
		f.leis = append(f.leis, lei)
		f.before = append(f.before, len(f.delivered))
		rec = Rec{Kind: "ok", CutKind: "none"}
		if f.attempts < len(f.s.Reconnects) {
			rec = f.s.Reconnects[f.attempts]
		}
		f.attempts++
	}
	evs := f.evs
	f.mu.Unlock()
	switch rec.Kind {
	case "502", "500", "504", "429": // the statuses the SDK documents as transient
		code, _ := strconv.Atoi(rec.Kind)
		http.Error(w, "try again", code)
		return
	case "empty":
		w.Header().Set("Content-Type", "text/event-stream")
		w.WriteHeader(200)
		f.mu.Lock()
		f.delivered = append(f.delivered, "")
		f.mu.Unlock()
		return
	}
	start := -1
	if lei != "" {
		found := false
		for i, e := range evs {
			if e.id == lei {
				start, found = i, true
			}
		}
		if !found {
			f.mu.Lock()
			f.viol = append(f.viol, fmt.Sprintf("reconnect presented Last-Event-ID %q, which the server never issued", lei))
			f.mu.Unlock()
			http.Error(w, "unknown event id", 400)
			return
		}
	}
	var b strings.Builder
	for i, e := range evs[start+1:] {
		retry := ""
		if first && i == 0 && f.s.RetryMs > 0 {
			retry = strconv.Itoa(f.s.RetryMs)
		}
		b.WriteString(memhttp.FormatSSE("message", e.id, retry, e.data))
	}
	body := b.String()
	if f.s.CRLF {
		body = strings.ReplaceAll(body, "\n", "\r\n")
	}
	w.Header().Set("Content-Type", "text/event-stream")
	w.WriteHeader(200)
	f.mu.Lock()
	f.delivered = append(f.delivered, "")
	di := len(f.delivered) - 1
	f.mu.Unlock()
	if rec.CutKind == "none" {
		io.WriteString(w, body)
		w.(http.Flusher).Flush()
		f.mu.Lock()
		f.delivered[di] = body
		f.mu.Unlock()
		select {
		case <-f.hold:
		case <-r.Context().Done():
		}
		return
	}
	n := rec.CutAt % (len(body) + 1)
	io.WriteString(w, body[:n])
	w.(http.Flusher).Flush()
	f.mu.Lock()
	f.delivered[di] = body[:n]
	f.mu.Unlock()
	if rec.CutKind == "err" {
		panic(http.ErrAbortHandler)
	}
}

func runSA(s SAScript) (res vt.Result) {
	if p := vt.Bubble(theT, func() { res = runSAInBubble(s) }); p != "" {
		if strings.Contains(p, leftoverOnly) {
			res.Class("teardown_leftover") // goroutines left behind after Close are not C09's business
		} else {
			res.Failf("bubble did not end cleanly: %s", p)
		}
	}
	return res
}

func runSAInBubble(s SAScript) (res vt.Result) {
	f := &saFake{s: s, hold: make(chan struct{})}
	for i := 1; i <= s.N; i++ {
		f.evs = append(f.evs, event{id: fmt.Sprintf("_%d", i-1), seq: i,
			data: fmt.Sprintf(`{"jsonrpc":"2.0","method":"notifications/message","params":{"level":"info","data":%d}}`, i)})
	}
	tr := &memhttp.Transport{Handler: f, Chunks: s.Chunks}
	netErrs := 0
	tr.Fail = func(r *http.Request) error {
		if r.Method != "GET" {
			return nil
		}
		f.mu.Lock()
		defer f.mu.Unlock()
		f.allGETs++
		if f.allGETs == 1 {
			return nil // the initial standalone GET
		}
		if f.attempts < len(f.s.Reconnects) && f.s.Reconnects[f.attempts].Kind == "neterr" {
			f.attempts++
			netErrs++
			return errors.New("scripted transport error")
		}
		return nil
	}
	var hmu sync.Mutex
	var seen []int
	client := mcp.NewClient(&mcp.Implementation{Name: "cli", Version: "1"}, &mcp.ClientOptions{
		LoggingMessageHandler: func(ctx context.Context, r *mcp.LoggingMessageRequest) {
			hmu.Lock()
			if v, ok := r.Params.Data.(float64); ok {
				seen = append(seen, int(v))
			} else {
				seen = append(seen, -1)
			}
			hmu.Unlock()
		},
	})
	ct := &mcp.StreamableClientTransport{Endpoint: "http://mcp.example/mcp", HTTPClient: tr.Client()}
	var cs *mcp.ClientSession
	cerr := make(chan error, 1)
	go func() {
		var e error
		cs, e = client.Connect(context.Background(), ct, &mcp.ClientSessionOptions{ProtocolVersion: "2025-06-18"})
		cerr <- e
	}()
	if e, ok := awaitSetup(cerr); !ok {
		res.Failf("harness: connect did not return")
		return
	} else if e != nil {
		res.Failf("harness: connect: %v", e)
		return
	}
	// let every reconnect happen (back-off is bounded; the property fixes no time scale: about 1 virtual hour)
	for i := 0; i < 300; i++ {
		synctest.Wait()
		if len(tr.Exchanges()) > 200 {
			break
		}
		if i < 200 {
			time.Sleep(time.Second)
		} else {
			time.Sleep(30 * time.Second) // coarse steps for slower back-off settings
		}
	}
	synctest.Wait()
	close(f.hold)
	cs.Close()
	synctest.Wait()
	time.Sleep(2 * time.Minute)
	synctest.Wait()

	f.mu.Lock()
	delivered := append([]string(nil), f.delivered...)
	leis := append([]string(nil), f.leis...)
	viol := append([]string(nil), f.viol...)
	f.mu.Unlock()
	for _, v := range viol {
		res.Failf("%s", v)
	}
	if os.Getenv("C09_DEBUG") != "" {
		fmt.Printf("DEBUG leis=%q delivered=%q\n", leis, delivered)
	}
	hmu.Lock()
	got := append([]int(nil), seen...)
	hmu.Unlock()
	complete := map[int]bool{}
	truncated := false
	last := ""
	bi := 0
	advance := func() {
		if bi < len(delivered) {
			pe := memhttp.ParseSSE([]byte(delivered[bi]))
			end := 0
			for _, e := range pe {
				end = e.End
				if e.ID != "" {
					last = e.ID
				}
				for _, ev := range f.evs {
					if ev.data == e.Data {
						complete[ev.seq] = true
					}
				}
			}
			if end < len(delivered[bi]) {
				truncated = true
			}
			bi++
		}
	}
	f.mu.Lock()
	before := append([]int(nil), f.before...)
	f.mu.Unlock()
	for ri, l := range leis {
		for bi < before[ri] {
			advance()
		}
		if l != last {
			res.Failf("standalone reconnect #%d presented Last-Event-ID %q, want %q (last event received completely)", ri+1, l, last)
		}
	}
	for bi < len(delivered) {
		advance()
	}
	for i, v := range got {
		if v != i+1 {
			res.Failf("the client delivered log messages %v: want each server message exactly once and in order", got)
			break
		}
	}
	for _, v := range got {
		if !complete[v] {
			res.Failf("the client surfaced message %d although its event was never completely sent", v)
		}
	}
	// when the scripted failures are within the budget, everything the server has arrives eventually
	hopeless := false
	consecutive := 0
	for _, r := range s.Reconnects {
		if r.Kind == "neterr" || r.Kind == "502" || r.Kind == "500" || r.Kind == "504" || r.Kind == "429" || r.Kind == "empty" {
			consecutive++
			if consecutive >= 4 {
				hopeless = true
			}
		} else {
			consecutive = 0
		}
	}
	if last == "" {
		hopeless = true // nothing with an id was ever received completely: resumption impossible by construction
	}
	if !hopeless && len(got) != s.N {
		res.Failf("the standalone stream was resumable (failures within the retry budget) but only %v of %d messages were delivered", got, s.N)
	}
	kinds := ""
	for _, r := range s.Reconnects {
		kinds += r.Kind[:1] + r.CutKind
	}
	res.Desc = fmt.Sprintf("sa|%d|%s|%v|%s|%d", s.N, s.CutKind, truncated, kinds, s.CutAt%97)
	res.NonTrivial = truncated || len(leis) >= 2
	res.Class("standalone_stream")
	if truncated {
		res.Class("cut_inside_event")
	}
	return res
}

var saProp = vt.Register(&vt.Prop[SAScript]{Property: "C09", Name: "standalone", Gen: genSA, Run: runSA, Journal: true})

func TestC09_Standalone(t *testing.T) { theT = t; saProp.Check(t) }
