// Package c10 decides property C10: the streamable server routes every message
// to the right stream and never across sessions. Several sessions run
// concurrent tools/call requests that use the SAME JSON-RPC ids; handlers emit
// tagged messages on command; every byte of every HTTP response is attributed
// to the (session, request) that opened it and checked against the tags.
package c10

import (
	"context"
	"encoding/json"
	"fmt"
	"io"
	"net/http"
	"strings"
	"sync"
	"testing"
	"testing/synctest"
	"time"

	"github.com/google/jsonschema-go/jsonschema"
	"github.com/modelcontextprotocol/go-sdk/mcp"
	"github.com/modelcontextprotocol/go-sdk/verif/memhttp"
	"github.com/modelcontextprotocol/go-sdk/verif/vt"
	"pgregory.net/rapid"
)

func TestMain(m *testing.M) { vt.Main(m) }

type Step struct {
	Kind   string `json:"kind"` // note detached finish after duppair resupd sreq sreqcancel cutreuse lateget quietcut
	S      int    `json:"s"`
	R      int    `json:"r"`
	T      int    `json:"t,omitempty"` // resupd: the session whose subscribed resource is reported as updated
	NoWait bool   `json:"nowait,omitempty"`
}

type Script struct {
	Stateless  bool   `json:"stateless"`
	JSON       bool   `json:"json"`
	Store      bool   `json:"store"`
	Sessions   int    `json:"sessions"`
	Calls      []int  `json:"calls"`      // calls per session
	Standalone []bool `json:"standalone"` // session opens the standalone GET stream
	Steps      []Step `json:"steps"`
	// StoreDelayUs makes the event store's Open/Append take this long (virtual time): it opens
	// interleaving windows inside the handler's critical paths without touching the SDK.
	StoreDelayUs int `json:"store_delay_us,omitempty"`
	// InitNote: while the server handles a session's initialize request, a receiving middleware reports progress
	// with that request's context: the notification belongs to the initialize request's exchange.
	InitNote bool `json:"init_note,omitempty"`
	// CaseIDs (stateful): the application chooses the session ids (ServerOptions.GetSessionID) and they differ
	// only in the case of their letters: opaque, case-sensitive strings all the same.
	CaseIDs bool `json:"case_ids,omitempty"`
}

func genScript(rt *rapid.T, race bool) Script {
	s := Script{
		Stateless: rapid.IntRange(0, 3).Draw(rt, "stateless") == 0,
		JSON:      rapid.IntRange(0, 2).Draw(rt, "json") == 0,
		Store:     rapid.Bool().Draw(rt, "store"),
		Sessions:  rapid.IntRange(1, 4).Draw(rt, "sessions"),
	}
	for i := 0; i < s.Sessions; i++ {
		s.Calls = append(s.Calls, rapid.IntRange(1, 5).Draw(rt, "calls"))
		s.Standalone = append(s.Standalone, rapid.IntRange(0, 3).Draw(rt, "standalone") > 0)
	}
	if s.Store {
		s.StoreDelayUs = rapid.SampledFrom([]int{0, 0, 100, 1000}).Draw(rt, "store_delay")
	}
	s.InitNote = !s.Stateless && rapid.Bool().Draw(rt, "init_note")
	s.CaseIDs = !s.Stateless && rapid.IntRange(0, 2).Draw(rt, "case_ids") == 0
	n := rapid.IntRange(1, 40).Draw(rt, "n")
	for i := 0; i < n; i++ {
		st := Step{Kind: rapid.SampledFrom([]string{"note", "note", "note", "detached", "finish", "after", "duppair", "resupd", "sreq", "sreq", "sreqcancel", "cutreuse", "lateget", "quietcut", "ask"}).Draw(rt, "kind")}
		st.S = rapid.IntRange(0, s.Sessions-1).Draw(rt, "s")
		st.R = rapid.IntRange(0, s.Calls[st.S]-1).Draw(rt, "r")
		if st.Kind == "resupd" {
			st.T = rapid.IntRange(0, s.Sessions-1).Draw(rt, "t")
		}
		if race {
			st.NoWait = rapid.Bool().Draw(rt, "nowait")
		}
		s.Steps = append(s.Steps, st)
	}
	return s
}

type cmd struct {
	kind string
	t    int
	// loose (sreq): the step is not followed by quiescence, so the request, which is written from its own
	// goroutine, may be overtaken by the handler's response; then the standalone stream is its documented route.
	loose bool
}

// slowStore delays Open by a virtual duration. (Append is called under the stream mutex; sleeping there
// would park mutex waiters, which synctest cannot treat as durably blocked.)
type slowStore struct {
	*mcp.MemoryEventStore
	d time.Duration
}

func (s *slowStore) Open(ctx context.Context, sess, stream string) error {
	time.Sleep(s.d)
	return s.MemoryEventStore.Open(ctx, sess, stream)
}

type in struct {
	Tag string `json:"tag"`
}

var theT *testing.T

func run(s Script) (res vt.Result) {
	if p := vt.Bubble(theT, func() { res = runInBubble(s) }); p != "" {
		res.Class("teardown_leftover")
	}
	return res
}

type callRec struct {
	s, r     int
	tag      string
	ex       *memhttp.Exchange
	finished bool
	cmds     chan cmd
	cut      bool // the client dropped this exchange while the call was in flight
	asked    bool // its handler answered with an input request the SDK put to the client; nobody answers: still in flight
}

func runInBubble(s Script) (res vt.Result) {
	var mu sync.Mutex
	chans := map[string]chan cmd{}
	chanOf := func(tag string) chan cmd {
		mu.Lock()
		defer mu.Unlock()
		if chans[tag] == nil {
			chans[tag] = make(chan cmd, 128)
		}
		return chans[tag]
	}
	seq := map[string]int{}
	sopts := &mcp.ServerOptions{
		SubscribeHandler:   func(context.Context, *mcp.SubscribeRequest) error { return nil },
		UnsubscribeHandler: func(context.Context, *mcp.UnsubscribeRequest) error { return nil },
	}
	if s.CaseIDs {
		caseIDs := []string{"k7QxR2mZ-session", "K7qXr2Mz-SESSION", "k7qxr2mz-session", "K7QXR2MZ-SESSION", "k7QXr2mZ-Session", "K7qxR2Mz-sESSION"}
		var idMu sync.Mutex
		issued := 0
		sopts.GetSessionID = func() string {
			idMu.Lock()
			defer idMu.Unlock()
			issued++
			if issued <= len(caseIDs) {
				return caseIDs[issued-1]
			}
			return fmt.Sprintf("k7QxR2mZ-session-%d", issued)
		}
	}
	server := mcp.NewServer(&mcp.Implementation{Name: "srv", Version: "1"}, sopts)
	initSeq := 0
	if s.InitNote {
		server.AddReceivingMiddleware(func(next mcp.MethodHandler) mcp.MethodHandler {
			return func(ctx context.Context, method string, req mcp.Request) (mcp.Result, error) {
				if ss, ok := req.GetSession().(*mcp.ServerSession); ok && method == "initialize" {
					ss.NotifyProgress(ctx, &mcp.ProgressNotificationParams{ProgressToken: "init", Progress: 1, Message: fmt.Sprintf("init%d|initnote|x", initSeq)})
					initSeq++
				}
				return next(ctx, method, req)
			}
		})
	}
	server.AddResource(&mcp.Resource{URI: "file:///any", Name: "any"}, func(context.Context, *mcp.ReadResourceRequest) (*mcp.ReadResourceResult, error) {
		return &mcp.ReadResourceResult{Contents: []*mcp.ResourceContents{{URI: "file:///any", Text: "x"}}}, nil
	})
	mcp.AddTool(server, &mcp.Tool{Name: "emit"}, func(ctx context.Context, req *mcp.CallToolRequest, a in) (*mcp.CallToolResult, any, error) {
		note := func(c context.Context, kind string) {
			mu.Lock()
			seq[a.Tag]++
			n := seq[a.Tag]
			mu.Unlock()
			req.Session.NotifyProgress(c, &mcp.ProgressNotificationParams{ProgressToken: a.Tag, Progress: float64(n), Message: fmt.Sprintf("%s|%s|%d", a.Tag, kind, n)})
		}
		// sreq: a server->client request (elicitation/create) carrying the tag; it is issued from its own
		// goroutine because nobody may answer it before the session ends.
		var pendingCancels []context.CancelFunc // nested requests of this handler that nobody answered yet
		strictIssued := 0                       // ordinal of the next "sreq"-kind request of this handler
		sreq := func(c context.Context, kind string) {
			mu.Lock()
			seq[a.Tag]++
			n := seq[a.Tag]
			mu.Unlock()
			c, cancel := context.WithCancel(c)
			ord := -1
			if kind == "sreq" {
				ord = strictIssued
				strictIssued++
				pendingCancels = append(pendingCancels, cancel)
			} else {
				defer func() { _ = cancel }()
			}
			go req.Session.Elicit(c, &mcp.ElicitParams{Message: fmt.Sprintf("%s|%s|%d|%d", a.Tag, kind, n, ord), RequestedSchema: &jsonschema.Schema{Type: "object"}})
		}
		ch := chanOf(a.Tag)
		for c := range ch {
			switch c.kind {
			case "note":
				note(ctx, "inreq")
			case "sreqcancel":
				// the handler gives up on its oldest unanswered nested request: the SDK sends
				// notifications/cancelled for it, "issued while handling" this request
				if len(pendingCancels) > 0 {
					pendingCancels[0]()
					pendingCancels = pendingCancels[1:]
				}
			case "sreq":
				if c.loose {
					sreq(ctx, "sreqloose")
				} else {
					sreq(ctx, "sreq")
				}
			case "ask":
				// The handler needs input from the client: it answers with an input request and nothing else. For
				// a client of an older protocol version the SDK then puts that request to the client itself, on the
				// handler's behalf and while the call is still being handled: it belongs to this request's stream.
				mu.Lock()
				seq[a.Tag]++
				n := seq[a.Tag]
				mu.Unlock()
				return &mcp.CallToolResult{InputRequests: mcp.InputRequestMap{"q": &mcp.ElicitParams{Mode: "form", Message: fmt.Sprintf("%s|sdkreq|%d|-1", a.Tag, n), RequestedSchema: &jsonschema.Schema{Type: "object"}}}}, nil, nil
			case "detached":
				note(context.Background(), "detached")
			case "resupd":
				// a handler of one session reports a resource as updated, passing its own context along
				server.ResourceUpdated(ctx, &mcp.ResourceUpdatedNotificationParams{URI: fmt.Sprintf("file:///s%d", c.t)})
			case "finish":
				// after the response: keep emitting with the request's values but an uncancelled context
				late := context.WithoutCancel(ctx)
				go func() {
					for c := range ch {
						if c.kind == "after" {
							note(late, "after")
						} else if c.kind == "sreq" {
							sreq(late, "sreqafter")
						} else if c.kind == "detached" {
							note(context.Background(), "detached")
						}
					}
				}()
				return &mcp.CallToolResult{Content: []mcp.Content{&mcp.TextContent{Text: "done|" + a.Tag}}}, nil, nil
			}
		}
		return &mcp.CallToolResult{}, nil, nil
	})
	opts := &mcp.StreamableHTTPOptions{Stateless: s.Stateless, JSONResponse: s.JSON}
	if s.Store {
		opts.EventStore = mcp.NewMemoryEventStore(nil)
		if s.StoreDelayUs > 0 {
			opts.EventStore = &slowStore{mcp.NewMemoryEventStore(nil), time.Duration(s.StoreDelayUs) * time.Microsecond}
		}
	}
	handler := mcp.NewStreamableHTTPHandler(func(*http.Request) *mcp.Server { return server }, opts)
	tr := &memhttp.Transport{Handler: handler}
	client := tr.Client()
	// settle: quiescence, also across the slow store's virtual delays
	settle := func() {
		synctest.Wait()
		if s.StoreDelayUs > 0 {
			time.Sleep(50 * time.Millisecond)
			synctest.Wait()
		}
	}
	do := func(method, body, sessionID string) *memhttp.Exchange {
		var rd io.Reader
		if body != "" {
			rd = strings.NewReader(body)
		}
		req, _ := http.NewRequestWithContext(context.Background(), method, "http://mcp.example/mcp", rd)
		if method == "POST" {
			req.Header.Set("Content-Type", "application/json")
			req.Header.Set("Accept", "application/json, text/event-stream")
		} else {
			req.Header.Set("Accept", "text/event-stream")
		}
		if sessionID != "" {
			req.Header.Set("Mcp-Session-Id", sessionID)
		}
		req.Header.Set("Mcp-Protocol-Version", "2025-06-18")
		before := len(tr.Exchanges())
		go func() {
			resp, err := client.Do(req)
			if err == nil {
				io.Copy(io.Discard, resp.Body)
				resp.Body.Close()
			}
		}()
		settle()
		exs := tr.Exchanges()
		if len(exs) <= before {
			return nil
		}
		return exs[before]
	}
	// fire starts a request without waiting for quiescence; collect() finds its exchange later by tag.
	fire := func(body, sessionID, tag string) {
		req, _ := http.NewRequestWithContext(memhttp.WithTag(context.Background(), tag), "POST", "http://mcp.example/mcp", strings.NewReader(body))
		req.Header.Set("Content-Type", "application/json")
		req.Header.Set("Accept", "application/json, text/event-stream")
		if sessionID != "" {
			req.Header.Set("Mcp-Session-Id", sessionID)
		}
		req.Header.Set("Mcp-Protocol-Version", "2025-06-18")
		go func() {
			resp, err := client.Do(req)
			if err == nil {
				io.Copy(io.Discard, resp.Body)
				resp.Body.Close()
			}
		}()
	}
	byTag := func(tag string) *memhttp.Exchange {
		for _, ex := range tr.Exchanges() {
			if ex.Tag == tag {
				return ex
			}
		}
		return nil
	}
	defer func() {
		mu.Lock()
		for _, ch := range chans {
			close(ch)
		}
		chans = map[string]chan cmd{}
		mu.Unlock()
		synctest.Wait()
		for _, ex := range tr.Exchanges() {
			ex.Cut(memhttp.ErrCut)
		}
		synctest.Wait()
		for ss := range server.Sessions() {
			go ss.Close()
		}
		synctest.Wait()
	}()

	sessionIDs := make([]string, s.Sessions)
	var initEx []*memhttp.Exchange // the exchanges of the initialize requests, by session
	standalone := make([]*memhttp.Exchange, s.Sessions)
	for i := 0; i < s.Sessions; i++ {
		if s.Stateless {
			continue
		}
		ex := do("POST", `{"jsonrpc":"2.0","id":"hs","method":"initialize","params":{"protocolVersion":"2025-06-18","capabilities":{"elicitation":{}},"clientInfo":{"name":"raw","version":"0"}}}`, "")
		if ex != nil && ex.Status() == 0 {
			// set-up: an answer that is flushed a little later (not at the same virtual instant) is still an answer
			time.Sleep(time.Second)
			synctest.Wait()
		}
		if ex == nil || ex.Status() != 200 {
			res.Failf("harness: initialize of session %d failed", i)
			return
		}
		sessionIDs[i] = ex.RespHeader().Get("Mcp-Session-Id")
		initEx = append(initEx, ex)
		do("POST", `{"jsonrpc":"2.0","method":"notifications/initialized"}`, sessionIDs[i])
		if s.Standalone[i] {
			standalone[i] = do("GET", "", sessionIDs[i])
		}
		do("POST", fmt.Sprintf(`{"jsonrpc":"2.0","id":"sub","method":"resources/subscribe","params":{"uri":"file:///s%d"}}`, i), sessionIDs[i])
	}
	var calls []*callRec
	byKey := map[[2]int]*callRec{}
	for i := 0; i < s.Sessions; i++ {
		for j := 0; j < s.Calls[i]; j++ {
			c := &callRec{s: i, r: j, tag: fmt.Sprintf("s%dr%d", i, j)}
			// the same JSON-RPC id j in every session
			c.ex = do("POST", fmt.Sprintf(`{"jsonrpc":"2.0","id":%d,"method":"tools/call","params":{"name":"emit","arguments":{"tag":%q},"_meta":{"progressToken":%q}}}`, j, c.tag, c.tag), sessionIDs[i])
			if c.ex == nil {
				res.Failf("harness: POST for %s produced no exchange", c.tag)
				return
			}
			calls = append(calls, c)
			byKey[[2]int{i, j}] = c
		}
	}

	type found struct {
		tag, kind string
		isResp    bool
		respID    string
		reqID     string // sreq: the JSON-RPC id of the server's request; cancelnote: the id it cancels
		ord       int    // sreq: ordinal among the handler's cancellable nested requests (-1: none)
	}
	// messagesOf extracts the JSON-RPC messages an exchange body carries so far.
	messagesOf := func(ex *memhttp.Exchange) []found {
		var out []found
		parse := func(raw string) {
			var m struct {
				ID     json.RawMessage `json:"id"`
				Method string          `json:"method"`
				Params struct {
					Message   string          `json:"message"`
					URI       string          `json:"uri"`
					RequestID json.RawMessage `json:"requestId"`
				} `json:"params"`
				Result *struct {
					Content []struct{ Text string } `json:"content"`
				} `json:"result"`
				Error json.RawMessage `json:"error"`
			}
			if json.Unmarshal([]byte(raw), &m) != nil {
				return
			}
			if m.Method == "" && (m.Result != nil || m.Error != nil) {
				f := found{isResp: true, respID: string(m.ID)}
				if m.Result != nil && len(m.Result.Content) == 1 {
					f.tag = strings.TrimPrefix(m.Result.Content[0].Text, "done|")
				}
				out = append(out, f)
				return
			}
			if m.Method == "notifications/cancelled" {
				out = append(out, found{kind: "cancelnote", reqID: string(m.Params.RequestID)})
				return
			}
			if m.Method == "notifications/resources/updated" {
				out = append(out, found{tag: strings.TrimPrefix(m.Params.URI, "file:///"), kind: "resupd"})
				return
			}
			parts := strings.Split(m.Params.Message, "|")
			if len(parts) >= 3 {
				f := found{tag: parts[0], kind: parts[1], reqID: string(m.ID), ord: -1}
				if len(parts) == 4 {
					fmt.Sscan(parts[3], &f.ord)
				}
				out = append(out, f)
			}
		}
		ct := ex.RespHeader().Get("Content-Type")
		data := ex.Written()
		if strings.HasPrefix(ct, "text/event-stream") {
			for _, ev := range memhttp.ParseSSE(data) {
				if ev.Data != "" && (ev.Name == "" || ev.Name == "message") {
					parse(ev.Data)
				}
			}
		} else if strings.HasPrefix(ct, "application/json") && ex.HandlerDone() {
			parse(string(data))
		}
		return out
	}

	sreqOnRequest, sreqOnStandalone, cancelOnRequest := false, false, false
	// resupdBy[tag][target]: the handler of tag was told to report the resource of session target as updated
	// with its own request context.
	resupdBy := map[string]map[string]bool{}
	// responsesOn counts the JSON-RPC responses an exchange carries so far.
	responsesOn := func(ex *memhttp.Exchange) int {
		n := 0
		for _, f := range messagesOf(ex) {
			if f.isResp {
				n++
			}
		}
		return n
	}
	// Mirror of each handler's bookkeeping: how many cancellable nested requests it was told to issue, how
	// many it was told to cancel, and which of those cancellations (by ordinal) were followed by quiescence
	// while the handler was still running.
	strictIssued, cancelSent := map[string]int{}, map[string]int{}
	strictCancel := map[string]map[int]bool{}
	check := func(step int) {
		// the nested requests seen so far, per session and JSON-RPC id (ids of server requests are per session)
		nested := map[int]map[string]found{}
		note := func(sess int, fs []found) {
			for _, f := range fs {
				if strings.HasPrefix(f.kind, "sreq") && f.reqID != "" {
					if nested[sess] == nil {
						nested[sess] = map[string]found{}
					}
					nested[sess][f.reqID] = f
				}
			}
		}
		for _, c := range calls {
			note(c.s, messagesOf(c.ex))
		}
		for i, ex := range standalone {
			if ex != nil {
				note(i, messagesOf(ex))
			}
		}
		for _, c := range calls {
			resp := 0
			for _, f := range messagesOf(c.ex) {
				if f.kind == "cancelnote" {
					if n, ok := nested[c.s][f.reqID]; ok && n.tag != c.tag {
						res.Failf("step %d: the exchange of %s carries the cancellation of nested request %s, which was issued by the handler of %s", step, c.tag, f.reqID, n.tag)
					}
					if s.JSON {
						res.Failf("step %d: JSON-response exchange of %s carries a non-response message", step, c.tag)
					}
					cancelOnRequest = true
					continue
				}
				if f.isResp {
					resp++
					// accepted as well: a refused POST (status >= 400) answered with a null id - that is the
					// exchange's own error answer (JSON-RPC allows null there), not somebody else's response
					if f.respID != fmt.Sprint(c.r) && !(c.ex.Status() >= 400 && f.respID == "null") {
						res.Failf("step %d: the exchange of %s received a response with id %s", step, c.tag, f.respID)
					}
					if f.tag != "" && f.tag != c.tag {
						res.Failf("step %d: the exchange of %s received the response of %s (same JSON-RPC id, other session/request)", step, c.tag, f.tag)
					}
					continue
				}
				if f.kind == "resupd" {
					// accepted: the notification for the handler's OWN session on the exchange of the very request
					// whose handler reported the update with its request context (SSE mode) - that is the
					// request's stream of clause 2; today the SDK happens to use the standalone stream
					if own := f.tag == fmt.Sprintf("s%d", c.s) && resupdBy[c.tag][f.tag] && !s.JSON; own {
						res.Class("resource_updated_on_issuing_request_stream")
						continue
					}
					res.Failf("step %d: a resource-updated notification for session %s (issued by another request's handler) travelled on the request exchange of %s", step, f.tag, c.tag)
					continue
				}
				if f.tag != c.tag {
					res.Failf("step %d: the exchange of %s carries a message tagged %s (%s)", step, c.tag, f.tag, f.kind)
				}
				if f.kind == "sreq" || f.kind == "sreqloose" {
					sreqOnRequest = true
				}
				if f.kind == "detached" {
					res.Failf("step %d: a notification issued outside any request (tag %s) travelled on the request exchange of %s", step, f.tag, c.tag)
				}
				if s.JSON {
					res.Failf("step %d: JSON-response exchange of %s carries a non-response message", step, c.tag)
				}
			}
			if resp > 1 {
				res.Failf("step %d: the exchange of %s carries %d responses", step, c.tag, resp)
			}
			if c.finished && resp == 0 && c.ex.Status() < 400 && !c.cut {
				// the property fixes no timing: a response that becomes visible a little later (delayed or
				// coalesced flush) is not missing - look again after a virtual second
				time.Sleep(time.Second)
				synctest.Wait()
				resp = responsesOn(c.ex)
			}
			if c.finished && resp != 1 && c.ex.Status() < 400 && !c.cut {
				res.Failf("step %d: %s finished but its exchange carries %d responses (status %d)", step, c.tag, resp, c.ex.Status())
			}
		}
		for i, ex := range standalone {
			if ex == nil {
				continue
			}
			for _, f := range messagesOf(ex) {
				if f.isResp {
					res.Failf("step %d: the standalone stream of session %d carries a response (id %s)", step, i, f.respID)
					continue
				}
				if f.kind == "initnote" && s.JSON {
					continue // a JSON response carries nothing but the response: the standalone stream is the only route left
				}
				if f.kind == "initnote" {
					res.Failf("step %d: a notification issued with the context of an initialize request (%s) travelled on the standalone stream of session %d instead of that request's exchange", step, f.tag, i)
					continue
				}
				if f.kind == "cancelnote" {
					// Cancellation of a nested request that was both issued and given up while its handler was
					// demonstrably still running (strictCancel): it was "issued while handling a request".
					if n, ok := nested[i][f.reqID]; ok && n.kind == "sreq" && strictCancel[n.tag][n.ord] && !s.JSON {
						res.Failf("step %d: the cancellation of nested request %s, issued while handling request %s (SSE mode), travelled on the standalone stream instead of the request's stream", step, f.reqID, n.tag)
					}
					continue
				}
				if f.kind == "resupd" {
					if f.tag != fmt.Sprintf("s%d", i) {
						res.Failf("step %d: the standalone stream of session %d carries a resource-updated notification for %s, which only that other session subscribed to", step, i, f.tag)
					}
					continue
				}
				if !strings.HasPrefix(f.tag, fmt.Sprintf("s%dr", i)) {
					res.Failf("step %d: the standalone stream of session %d carries a message of %s", step, i, f.tag)
				}
				if f.kind == "sreq" || f.kind == "sreqafter" || f.kind == "sreqloose" {
					sreqOnStandalone = true
				}
				if (f.kind == "inreq" || f.kind == "sreq" || f.kind == "sdkreq") && !s.JSON {
					res.Failf("step %d: a %s message issued while handling request %s (SSE mode) travelled on the standalone stream instead of the request's stream", step, f.kind, f.tag)
				}
			}
		}
	}

	var desc strings.Builder
	dupN, sreqN, reuses, askN := 0, 0, 0, 0
	initNoteOK := func() {
		if !s.InitNote || s.JSON {
			return
		}
		res.Class("notification_sent_while_handling_initialize")
		for i, ex := range initEx {
			seen := false
			for _, f := range messagesOf(ex) {
				if f.kind == "initnote" && f.tag == fmt.Sprintf("init%d", i) {
					seen = true
				} else if f.kind == "initnote" {
					res.Failf("the exchange of session %d's initialize request carries the notification %s of another initialize request", i, f.tag)
				}
			}
			if !seen {
				res.Failf("the notification the server sent with the context of session %d's initialize request did not travel on that request's exchange (SSE mode): %q", i, ex.Written())
			}
		}
	}
	initNoteOK()
	if len(res.Violations) > 0 {
		return res
	}
	for i, st := range s.Steps {
		if st.Kind == "duppair" {
			if s.Stateless {
				continue
			}
			// Two POSTs with the same fresh JSON-RPC id hit one session at the same instant. At most one may be
			// accepted; whatever happens, each exchange may only ever carry its own messages.
			dupN++
			id := 50 + dupN
			var pair []*callRec
			for _, suffix := range []string{"a", "b"} {
				c := &callRec{s: st.S, r: id, tag: fmt.Sprintf("s%dr%ddup%s", st.S, id, suffix)}
				fire(fmt.Sprintf(`{"jsonrpc":"2.0","id":%d,"method":"tools/call","params":{"name":"emit","arguments":{"tag":%q},"_meta":{"progressToken":%q}}}`, id, c.tag, c.tag), sessionIDs[st.S], c.tag)
				pair = append(pair, c)
			}
			synctest.Wait()
			time.Sleep(10 * time.Millisecond)
			synctest.Wait()
			accepted := 0
			for _, c := range pair {
				c.ex = byTag(c.tag)
				if c.ex == nil {
					res.Failf("step %d: POST for %s produced no exchange", i, c.tag)
					continue
				}
				if c.ex.Status() < 400 {
					accepted++
				}
				calls = append(calls, c)
				// both handlers (if they run) emit one message and finish
				chanOf(c.tag) <- cmd{kind: "note"}
				chanOf(c.tag) <- cmd{kind: "finish"}
				if c.ex.Status() < 400 {
					c.finished = true
				}
			}
			if accepted > 1 {
				// Not a violation by itself (the statement forbids misdelivery, not acceptance; cutreuse treats
				// it the same way): both exchanges are judged by what travels on them in check() below.
				res.Class("concurrent_duplicate_id_both_accepted")
			}
			desc.WriteString("D")
			synctest.Wait()
			time.Sleep(10 * time.Millisecond)
			synctest.Wait()
			check(i)
			if len(res.Violations) > 0 {
				break
			}
			continue
		}
		if st.Kind == "lateget" {
			// A session that had no standalone stream opens one now: whatever was stored for it while nothing
			// was attached is replayed - its own messages only.
			if s.Stateless || standalone[st.S] != nil {
				continue
			}
			standalone[st.S] = do("GET", "", sessionIDs[st.S])
			desc.WriteString("G")
			res.Class("standalone_stream_opened_late")
			settle()
			check(i)
			if len(res.Violations) > 0 {
				break
			}
			continue
		}
		if st.Kind == "quietcut" {
			// The client of a call that is still being handled is gone, but the server only learns of it when
			// its next write to that exchange fails (memhttp.CutQuietly). Whatever the handler sends from now on
			// is owed to nobody on that exchange - and must not turn up on anybody else's.
			c := byKey[[2]int{st.S, st.R}]
			if c.finished || c.cut || c.ex == nil || c.ex.Status() >= 400 || c.ex.HandlerDone() {
				continue
			}
			c.cut = true
			c.ex.CutQuietly(memhttp.ErrCut)
			chanOf(c.tag) <- cmd{kind: "note"}
			desc.WriteString("Q")
			res.Class("client_gone_unnoticed_until_a_write_fails")
			settle()
			check(i)
			if len(res.Violations) > 0 {
				break
			}
			continue
		}
		if st.Kind == "cutreuse" {
			// The client drops the exchange of a call that is still being handled and, without waiting for
			// anything, sends a new call re-using its JSON-RPC id on the same session. The id is still in
			// flight: the new POST is refused, or at least never receives the first call's messages.
			c := byKey[[2]int{st.S, st.R}]
			if s.Stateless || c.finished || c.cut || c.ex == nil || c.ex.Status() >= 400 {
				continue
			}
			c.cut = true
			c.ex.Cut(memhttp.ErrCut)
			settle()
			reuses++
			c2 := &callRec{s: c.s, r: c.r, tag: fmt.Sprintf("%sreuse%d", c.tag, reuses)}
			c2.ex = do("POST", fmt.Sprintf(`{"jsonrpc":"2.0","id":%d,"method":"tools/call","params":{"name":"emit","arguments":{"tag":%q},"_meta":{"progressToken":%q}}}`, c.r, c2.tag, c2.tag), sessionIDs[c.s])
			if c2.ex == nil {
				res.Failf("step %d: POST for %s produced no exchange", i, c2.tag)
				break
			}
			calls = append(calls, c2)
			if c2.ex.Status() < 400 {
				res.Class("reuse_of_abandoned_inflight_id_accepted")
			} else {
				res.Class("reuse_of_abandoned_inflight_id_refused")
			}
			// the first handler goes on and answers; the second (if it runs at all) does too
			chanOf(c.tag) <- cmd{kind: "note"}
			c.finished = true
			chanOf(c.tag) <- cmd{kind: "finish"}
			chanOf(c2.tag) <- cmd{kind: "note"}
			chanOf(c2.tag) <- cmd{kind: "finish"}
			if c2.ex.Status() < 400 {
				c2.cut = true // whether it is answered is C02's business; only what travels on it is judged
			}
			desc.WriteString("X")
			settle()
			check(i)
			if len(res.Violations) > 0 {
				break
			}
			continue
		}
		c := byKey[[2]int{st.S, st.R}]
		kind := st.Kind
		if c.finished && (kind == "note" || kind == "finish") {
			kind = "after"
		}
		if !c.finished && kind == "after" {
			kind = "note"
		}
		if kind == "ask" && (c.finished || c.cut || s.Stateless) {
			kind = "note"
			if c.finished {
				kind = "after"
			}
		}
		if kind == "ask" {
			// nobody answers the SDK's request: the call stays unanswered; only what travels where is judged
			c.finished, c.cut, c.asked = true, true, true
			askN++
		}
		if kind == "finish" {
			c.finished = true
		}
		if kind == "resupd" && (c.finished || s.Stateless) {
			continue
		}
		if kind == "resupd" {
			if resupdBy[c.tag] == nil {
				resupdBy[c.tag] = map[string]bool{}
			}
			resupdBy[c.tag][fmt.Sprintf("s%d", st.T)] = true
		}
		if kind == "sreq" {
			sreqN++
			if !c.finished && !st.NoWait {
				strictIssued[c.tag]++
			}
		}
		if kind == "sreqcancel" {
			if c.finished || cancelSent[c.tag] >= strictIssued[c.tag] {
				continue // nothing to cancel: not sent
			}
			if strictCancel[c.tag] == nil {
				strictCancel[c.tag] = map[int]bool{}
			}
			// strict only if this very step ends in quiescence with the handler still running
			strictCancel[c.tag][cancelSent[c.tag]] = !st.NoWait
			cancelSent[c.tag]++
		}
		select {
		case chanOf(c.tag) <- cmd{kind: kind, t: st.T, loose: st.NoWait}:
		default:
		}
		desc.WriteString(kind[:1])
		if st.NoWait && i < len(s.Steps)-1 {
			continue
		}
		settle()
		check(i)
		if len(res.Violations) > 0 {
			break
		}
	}
	if len(res.Violations) == 0 {
		for _, c := range calls {
			if !c.finished {
				c.finished = true
				chanOf(c.tag) <- cmd{kind: "finish"}
			}
		}
		settle()
		check(len(s.Steps))
	}
	// Second round: every session re-uses JSON-RPC id 0, whose first request has completed. The new
	// request must be accepted and answered on its own exchange with its own payload.
	if len(res.Violations) == 0 {
		for i := 0; i < s.Sessions; i++ {
			if first := byKey[[2]int{i, 0}]; first != nil && first.asked {
				continue // id 0 of this session is still in flight (its handler is waiting for the client's input)
			}
			c := &callRec{s: i, r: 0, tag: fmt.Sprintf("s%dr0again", i)}
			c.ex = do("POST", fmt.Sprintf(`{"jsonrpc":"2.0","id":0,"method":"tools/call","params":{"name":"emit","arguments":{"tag":%q},"_meta":{"progressToken":%q}}}`, c.tag, c.tag), sessionIDs[i])
			if c.ex == nil {
				res.Failf("second round: POST for %s produced no exchange", c.tag)
				continue
			}
			if st := c.ex.Status(); st >= 400 {
				res.Failf("second round: re-using id 0 in session %d after its first request completed was refused with HTTP %d: %s", i, st, c.ex.Written())
				continue
			}
			calls = append(calls, c)
			chanOf(c.tag) <- cmd{kind: "note"}
			c.finished = true
			chanOf(c.tag) <- cmd{kind: "finish"}
		}
		settle()
		check(len(s.Steps) + 1)
	}
	overlap := s.Sessions >= 2
	res.NonTrivial = overlap
	res.Desc = fmt.Sprintf("%v|%v|%v|%v|%v|%s", s.Stateless, s.JSON, s.Store, s.Calls, s.Standalone, desc.String())
	res.Class(fmt.Sprintf("stateless_%v_json_%v", s.Stateless, s.JSON))
	if s.CaseIDs && s.Sessions > 1 {
		res.Class("session_ids_differing_only_in_case")
	}
	if askN > 0 {
		res.Class("input_request_put_to_the_client_by_the_sdk")
	}
	if sreqN > 0 {
		res.Class("server_to_client_request")
	}
	if sreqOnRequest {
		res.Class("server_request_seen_on_request_stream")
	}
	if sreqOnStandalone {
		res.Class("server_request_seen_on_standalone_stream")
	}
	if cancelOnRequest {
		res.Class("nested_cancellation_seen_on_request_stream")
	}
	return res
}

var seqProp = vt.Register(&vt.Prop[Script]{Property: "C10", Name: "seq", Journal: true,
	Gen: func(rt *rapid.T) Script { return genScript(rt, false) }, Run: run})
var raceProp = vt.Register(&vt.Prop[Script]{Property: "C10", Name: "race", Journal: true,
	Gen: func(rt *rapid.T) Script { return genScript(rt, true) }, Run: run})

func TestC10_Seq(t *testing.T)  { theT = t; seqProp.Check(t) }
func TestC10_Race(t *testing.T) { theT = t; raceProp.Check(t) }
func TestReplay(t *testing.T)   { theT = t; vt.Replay(t) }
func TestRegress(t *testing.T)  { theT = t; vt.Regress(t, "C10") }
func TestKnown(t *testing.T)    { theT = t; vt.Known(t, "C10") }
