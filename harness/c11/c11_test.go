// Package c11 checks property C11 (streamable HTTP session ids: one live session per id,
// dead after termination, bound to the user that created it; stateless endpoints neither
// issue nor honour ids).
//
// A raw HTTP peer (memhttp: http.RoundTripper -> http.Handler, every exchange recorded)
// drives mcp.NewStreamableHTTPHandler, bare or behind auth.RequireBearerToken, inside a
// synctest bubble (virtual clock: the idle-session timer fires at exact instants). The
// oracle is a reference table id -> {state, owner, posts in flight, expiry window} that is
// updated from the script only; the SDK is observed through HTTP statuses, response
// headers, a receiving middleware (which *ServerSession served which carried id) and
// Server.Sessions().
package c11

import (
	"context"
	"encoding/json"
	"errors"
	"fmt"
	"io"
	"math"
	"net/http"
	"os"
	"sort"
	"strings"
	"sync"
	"testing"
	"testing/synctest"
	"time"

	"github.com/modelcontextprotocol/go-sdk/auth"
	"github.com/modelcontextprotocol/go-sdk/mcp"
	"github.com/modelcontextprotocol/go-sdk/verif/memhttp"
	"github.com/modelcontextprotocol/go-sdk/verif/vt"
	"pgregory.net/rapid"
)

func TestMain(m *testing.M) { vt.Main(m) }

const (
	hdrSID   = "Mcp-Session-Id"
	hdrPV    = "Mcp-Protocol-Version"
	legacyPV = "2025-06-18"
	endpoint = "http://mcp.example/mcp"
)

// ---- script -------------------------------------------------------------------

type Script struct {
	Stateless  bool   `json:"stateless,omitempty"`
	TimeoutNS  int64  `json:"timeout_ns,omitempty"` // StreamableHTTPOptions.SessionTimeout
	Auth       string `json:"auth"`                 // none | required (RequireBearerToken) | optional (bearer checked only when a header is sent)
	CounterIDs bool   `json:"counter_ids,omitempty"`
	JSON       bool   `json:"json,omitempty"` // StreamableHTTPOptions.JSONResponse
	// Store: "" (no event store) | memory (MemoryEventStore) | failclose (a MemoryEventStore whose
	// SessionClosed reports an error after doing its work, as a remote store that has become unreachable would)
	Store string `json:"store,omitempty"`
	// SkewNS > 0: RequireBearerToken is given this ClockSkew and the token "tok-alice2" is one whose expiry passed
	// SkewNS/2 ago at every use: still a good credential of user alice under the documented tolerance.
	SkewNS int64 `json:"skew_ns,omitempty"`
	// SloppyTool: the "echo" tool reports its progress as done/total of an empty job (0/0, not a number): the
	// notification cannot be encoded, the tool ignores that error and answers as usual.
	SloppyTool bool   `json:"sloppy_tool,omitempty"`
	Steps      []Step `json:"steps"`
}

type Step struct {
	// init | initbad | other | post | long | get | del | release | close | adv | advrace | race
	Kind string `json:"k"`
	User int    `json:"u,omitempty"` // index into users (for mine/foreign targets: a hint among the fitting users)
	// mine | foreign | live | stale | never | variant | none
	Target string `json:"t,omitempty"`
	Pick   int    `json:"p,omitempty"` // index modulo the current candidate set
	Sub    string `json:"s,omitempty"` // ping | list | notif | echo | init ; race: ping | long
	Keep   bool   `json:"keep,omitempty"`
	Mode   string `json:"m,omitempty"` // adv: small | mult | expiry
	K      int    `json:"n,omitempty"`
	Delta  int64  `json:"d,omitempty"`     // ns offset from the multiple / the expiry instant
	First  string `json:"first,omitempty"` // race: which request is started first (del | post)
}

type userT struct{ name, token, uid string }

// failCloseStore is an event store whose SessionClosed fails (after releasing the session's data).
type failCloseStore struct{ *mcp.MemoryEventStore }

func (s failCloseStore) SessionClosed(ctx context.Context, id string) error {
	s.MemoryEventStore.SessionClosed(ctx, id)
	return errors.New("event store unreachable")
}

// users[0] sends no Authorization header; "empty" is a valid token whose TokenInfo has no
// UserID; alice2 is a second token of user alice (sessions are bound to users, not tokens).
var users = []userT{
	{"none", "", ""},
	{"alice", "tok-alice", "alice"},
	{"bob", "tok-bob", "bob"},
	{"empty", "tok-empty", ""},
	{"alice2", "tok-alice2", "alice"},
}

var smallSteps = []time.Duration{1, 2, time.Microsecond, time.Millisecond, 10 * time.Millisecond, 49 * time.Millisecond, 400 * time.Millisecond}

func gen(rt *rapid.T) Script {
	var s Script
	s.Stateless = rapid.IntRange(0, 7).Draw(rt, "stateless") == 0
	s.Auth = rapid.SampledFrom([]string{"none", "required", "required", "optional", "optional"}).Draw(rt, "auth")
	if !s.Stateless {
		s.TimeoutNS = rapid.SampledFrom([]int64{0, int64(50 * time.Millisecond), int64(50 * time.Millisecond), int64(50 * time.Millisecond), int64(time.Second), int64(time.Second)}).Draw(rt, "timeout")
	}
	s.CounterIDs = rapid.IntRange(0, 4).Draw(rt, "counter") == 0
	s.JSON = rapid.IntRange(0, 3).Draw(rt, "json") == 0
	if s.Stateless {
		// (a stateless endpoint may be given an event store all the same: it neither issues nor honours ids)
		s.Store = rapid.SampledFrom([]string{"", "memory"}).Draw(rt, "stateless_store")
	}
	if !s.Stateless {
		s.Store = rapid.SampledFrom([]string{"", "", "memory", "failclose"}).Draw(rt, "store")
		s.SloppyTool = rapid.IntRange(0, 2).Draw(rt, "sloppy_tool") == 0
	}
	if s.Auth != "none" && rapid.IntRange(0, 2).Draw(rt, "skew") == 0 {
		s.SkewNS = int64(rapid.SampledFrom([]time.Duration{2, time.Second, time.Minute}).Draw(rt, "skew_ns"))
	}
	n := rapid.IntRange(3, 28).Draw(rt, "n")
	kinds := []string{"init", "init", "init", "initbad", "other", "post", "post", "post", "post", "post", "post", "long", "long", "get", "get", "del", "del", "release", "release", "close", "adv", "adv", "adv", "adv", "advrace", "race"}
	if s.Stateless {
		kinds = []string{"init", "other", "post", "post", "post", "get", "del", "adv"}
	}
	for i := 0; i < n; i++ {
		st := Step{Kind: rapid.SampledFrom(kinds).Draw(rt, "kind")}
		if i == 0 && !s.Stateless {
			st.Kind = "init"
		}
		st.User = rapid.IntRange(0, len(users)-1).Draw(rt, "user")
		st.Pick = rapid.IntRange(0, 5).Draw(rt, "pick")
		switch st.Kind {
		case "other":
			st.Sub = rapid.SampledFrom([]string{"ping", "list", "notif", "echo"}).Draw(rt, "sub")
		case "post":
			st.Sub = rapid.SampledFrom([]string{"ping", "ping", "list", "notif", "echo", "init"}).Draw(rt, "sub")
			st.Target = rapid.SampledFrom([]string{"mine", "mine", "mine", "mine", "foreign", "foreign", "live", "stale", "stale", "stale", "never", "variant"}).Draw(rt, "target")
		case "long":
			st.Target = rapid.SampledFrom([]string{"mine", "mine", "mine", "mine", "mine", "foreign", "stale", "never"}).Draw(rt, "target")
		case "get", "del":
			st.Target = rapid.SampledFrom([]string{"mine", "mine", "mine", "foreign", "foreign", "live", "stale", "stale", "stale", "never", "variant", "none"}).Draw(rt, "target")
			st.Keep = st.Kind == "get" && rapid.Bool().Draw(rt, "keep")
		case "adv":
			st.Mode = rapid.SampledFrom([]string{"small", "mult", "mult", "expiry", "expiry", "expiry", "long"}).Draw(rt, "mode")
			st.K = rapid.IntRange(0, 6).Draw(rt, "k")
			st.Delta = rapid.SampledFrom([]int64{-1, 0, 1}).Draw(rt, "delta")
		case "race":
			st.Sub = rapid.SampledFrom([]string{"ping", "ping", "long"}).Draw(rt, "sub")
			st.First = rapid.SampledFrom([]string{"del", "post"}).Draw(rt, "first")
		}
		s.Steps = append(s.Steps, st)
	}
	return s
}

// ---- world ---------------------------------------------------------------------

const (
	stLive = iota
	stMaybe
	stClosing
	stDead
)

var stName = []string{"live", "maybe", "closing", "dead"}

// rec is the reference model's entry for one minted id.
type rec struct {
	id    string
	owner string // UserID bound at creation ("" = reachable by anyone)
	ptr   *mcp.ServerSession
	state int // stLive | stClosing | stDead (stMaybe is derived from the clock)
	cause string
	posts int // parked long POSTs
	// With a timeout and no POST in flight the session is certainly alive before lo and
	// certainly dead after hi. lo = end of last POST + timeout. hi >= lo accounts for the
	// documentation ("no new HTTP requests") being read as GET also postponing expiry, and for
	// the property not fixing the instant of expiry (hi = lo + grace: a sweeper or a lazily
	// evaluated deadline closes an idle session a little later than a timer per session).
	lo, hi    time.Duration
	maybeDead bool // a request raced with the idle timer: may already be gone
	gets      []*memhttp.Exchange
	// delEx: the DELETE that found handlers of this session still running (state stClosing). Once it has been
	// answered with a success code the client has been told that the session is gone.
	delEx *memhttp.Exchange
}

type inv struct {
	method, carried, ssID string
	ptr                   *mcp.ServerSession
}

type parked struct {
	gate     int
	r        *rec
	ex       *memhttp.Exchange
	released bool
}

type world struct {
	s       Script
	res     *vt.Result
	server  *mcp.Server
	tr      *memhttp.Transport
	client  *http.Client
	start   time.Time
	timeout time.Duration

	mu       sync.Mutex
	invs     []inv
	parkLog  map[int]*mcp.ServerSession
	gates    map[int]chan struct{}
	opened   map[int]bool
	sidCalls int

	recs    []*rec
	byID    map[string]*rec
	seen    map[string]bool // every Mcp-Session-Id value a response has carried
	checked map[*memhttp.Exchange]bool
	parkeds []*parked
	tagN    int
	rpcN    int
	gateN   int
	step    int

	desc        strings.Builder
	ntStale     bool
	ntForeign   bool
	ntExpiry    bool
	ntStateless bool
	failed      bool
	labels      map[string]bool
	inFinal     bool // the closing sweep of the harness does not count for the non-trivial rule
}

func (w *world) failf(format string, a ...any) {
	w.failed = true
	w.res.Failf("step %d (%s): %s", w.step, w.stepJSON(), fmt.Sprintf(format, a...))
}

func (w *world) stepJSON() string {
	if w.step < 0 || w.step >= len(w.s.Steps) {
		return "final"
	}
	b, _ := json.Marshal(w.s.Steps[w.step])
	return string(b)
}

func (w *world) now() time.Duration { return time.Since(w.start) }

func (w *world) label(l string) {
	if !w.inFinal {
		w.labels[l] = true
	}
}

func (w *world) gate(n int) chan struct{} {
	w.mu.Lock()
	defer w.mu.Unlock()
	if w.gates[n] == nil {
		w.gates[n] = make(chan struct{})
	}
	return w.gates[n]
}

// openGate lets the handler parked on gate n return (idempotent).
func (w *world) openGate(n int) {
	ch := w.gate(n)
	w.mu.Lock()
	defer w.mu.Unlock()
	if !w.opened[n] {
		w.opened[n] = true
		close(ch)
	}
}

type ident struct {
	rejected bool // the bearer middleware answers 401 before the MCP handler sees the request
	hasToken bool
	uid      string
}

func (w *world) ident(u int) ident {
	switch w.s.Auth {
	case "required":
		if u == 0 {
			return ident{rejected: true}
		}
		return ident{hasToken: true, uid: users[u].uid}
	case "optional":
		if u == 0 {
			return ident{}
		}
		return ident{hasToken: true, uid: users[u].uid}
	}
	return ident{}
}

func foreign(owner string, id ident) bool {
	return owner != "" && (!id.hasToken || id.uid != owner)
}

// ownerUser returns a user that may reach r.
func (w *world) ownerUser(r *rec, hint int) int {
	switch r.owner {
	case "alice":
		if hint%2 == 0 {
			return 1
		}
		return 4
	case "bob":
		return 2
	}
	u := hint % len(users)
	if w.ident(u).rejected {
		u = 3
	}
	return u
}

// strangerUser returns a user that is admitted by the middleware but is not r's owner (-1: none).
func (w *world) strangerUser(r *rec, hint int) int {
	var c []int
	for u := range users {
		id := w.ident(u)
		if !id.rejected && foreign(r.owner, id) {
			c = append(c, u)
		}
	}
	if len(c) == 0 {
		return -1
	}
	return c[hint%len(c)]
}

// status derives the model state of r at the current virtual instant.
func (w *world) status(r *rec) int {
	if r.state == stDead || r.state == stClosing {
		return r.state
	}
	if w.timeout > 0 && r.posts == 0 {
		now := w.now()
		if now > r.hi {
			r.state, r.cause = stDead, "timeout"
			return stDead
		}
		if now >= r.lo {
			return stMaybe
		}
	}
	if r.maybeDead {
		return stMaybe
	}
	return stLive
}

func (w *world) kill(r *rec, cause string) {
	r.state, r.cause = stDead, cause
}

// grace is how much later than "idle for SessionTimeout" a session may still be around: the
// documentation promises closing after the idle period, not the instant (one more timeout).
func (w *world) grace() time.Duration { return w.timeout }

// touchPOST records that a POST to r ended now and r is known to be alive.
func (w *world) touchPOST(r *rec) {
	r.maybeDead = false
	if r.posts == 0 {
		r.lo = w.now() + w.timeout
		r.hi = r.lo + w.grace()
	}
}

func (w *world) touchGET(r *rec) {
	r.maybeDead = false
	if h := w.now() + w.timeout + w.grace(); h > r.hi {
		r.hi = h
	}
}

// ---- HTTP plumbing ---------------------------------------------------------------

func (w *world) fire(tag, method, sid string, u int, body string, isInit bool) {
	var rd io.Reader
	if method == "POST" {
		rd = strings.NewReader(body)
	}
	req, _ := http.NewRequestWithContext(memhttp.WithTag(context.Background(), tag), method, endpoint, rd)
	switch method {
	case "POST":
		req.Header.Set("Content-Type", "application/json")
		req.Header.Set("Accept", "application/json, text/event-stream")
	case "GET":
		req.Header.Set("Accept", "text/event-stream")
	}
	if !isInit {
		req.Header.Set(hdrPV, legacyPV)
	}
	if sid != "" {
		req.Header.Set(hdrSID, sid)
	}
	if users[u].token != "" {
		req.Header.Set("Authorization", "Bearer "+users[u].token)
	}
	go func() {
		resp, err := w.client.Do(req)
		if err == nil {
			io.Copy(io.Discard, resp.Body)
			resp.Body.Close()
		}
	}()
}

func (w *world) find(tag string) *memhttp.Exchange {
	for _, ex := range w.tr.Exchanges() {
		if ex.Tag == tag {
			return ex
		}
	}
	return nil
}

func (w *world) newTag() string { w.tagN++; return fmt.Sprintf("x%d", w.tagN) }

func (w *world) do(method, sid string, u int, body string, isInit bool) *memhttp.Exchange {
	tag := w.newTag()
	w.fire(tag, method, sid, u, body, isInit)
	synctest.Wait()
	ex := w.find(tag)
	if ex == nil {
		w.failf("harness: %s produced no exchange", method)
	}
	return ex
}

func (w *world) body(sub string, gate int) (string, int) {
	w.rpcN++
	id := w.rpcN
	switch sub {
	case "ping":
		return fmt.Sprintf(`{"jsonrpc":"2.0","id":%d,"method":"ping"}`, id), id
	case "list":
		return fmt.Sprintf(`{"jsonrpc":"2.0","id":%d,"method":"tools/list"}`, id), id
	case "echo":
		return fmt.Sprintf(`{"jsonrpc":"2.0","id":%d,"method":"tools/call","params":{"name":"echo","arguments":{}}}`, id), id
	case "notif":
		return `{"jsonrpc":"2.0","method":"notifications/roots/list_changed"}`, 0
	case "init":
		return fmt.Sprintf(`{"jsonrpc":"2.0","id":%d,"method":"initialize","params":{"protocolVersion":%q,"capabilities":{},"clientInfo":{"name":"raw","version":"0"}}}`, id, legacyPV), id
	case "initbad":
		return fmt.Sprintf(`{"jsonrpc":"2.0","id":%d,"method":"initialize","params":null}`, id), id
	case "long":
		return fmt.Sprintf(`{"jsonrpc":"2.0","id":%d,"method":"tools/call","params":{"name":"park","arguments":{"g":%d}}}`, id, gate), id
	}
	panic("unknown sub " + sub)
}

// reply looks for the JSON-RPC response in the body of ex.
func reply(ex *memhttp.Exchange) (found, hasResult bool) {
	data := ex.Written()
	var payloads []string
	if strings.HasPrefix(ex.RespHeader().Get("Content-Type"), "text/event-stream") {
		for _, ev := range memhttp.ParseSSE(data) {
			if ev.Data != "" {
				payloads = append(payloads, ev.Data)
			}
		}
	} else {
		payloads = []string{string(data)}
	}
	for _, p := range payloads {
		var m struct {
			ID     json.RawMessage `json:"id"`
			Method string          `json:"method"`
			Result json.RawMessage `json:"result"`
		}
		if json.Unmarshal([]byte(p), &m) == nil && m.Method == "" && len(m.ID) > 0 {
			return true, len(m.Result) > 0
		}
	}
	return false, false
}

// takeInvs returns the middleware invocations recorded since the last call.
func (w *world) takeInvs() []inv {
	w.mu.Lock()
	defer w.mu.Unlock()
	out := w.invs
	w.invs = nil
	return out
}

func (w *world) parkedOn(g int) (*mcp.ServerSession, bool) {
	w.mu.Lock()
	defer w.mu.Unlock()
	p, ok := w.parkLog[g]
	return p, ok
}

// ---- oracle pieces -----------------------------------------------------------------

// headerRule is clause (1): an Mcp-Session-Id in a response is the id the request carried,
// or a never-seen id handed to a POST that carried none.
func (w *world) headerRule() (minted map[*memhttp.Exchange]string) {
	minted = map[*memhttp.Exchange]string{}
	for _, ex := range w.tr.Exchanges() {
		if w.checked[ex] || ex.Status() == 0 {
			continue
		}
		w.checked[ex] = true
		vals := ex.RespHeader().Values(hdrSID)
		if len(vals) == 0 {
			continue
		}
		carried := ex.Header.Get(hdrSID)
		if w.s.Stateless {
			w.failf("stateless endpoint issued a session id: %s response (status %d) carries %s %q", ex.Method, ex.Status(), hdrSID, vals)
			continue
		}
		if len(vals) > 1 {
			w.failf("%s response carries %d %s values %q", ex.Method, len(vals), hdrSID, vals)
			continue
		}
		v := vals[0]
		switch {
		case carried != "":
			if v != carried {
				w.failf("%s carrying session id %q was answered (status %d) with a different %s %q", ex.Method, carried, ex.Status(), hdrSID, v)
			}
		case ex.Method != "POST":
			w.failf("%s without a session id was answered with %s %q (only a POST creates a session)", ex.Method, hdrSID, v)
		case v == "":
			w.failf("POST without a session id was answered with an empty %s", hdrSID)
		case w.seen[v]:
			w.failf("POST without a session id was handed session id %q, which was issued before", v)
		default:
			minted[ex] = v
		}
		w.seen[v] = true
	}
	return minted
}

// checkInvs is clause (2) for requests that carried an id: they ran on that id's one session.
func (w *world) checkInvs(invs []inv) {
	for _, in := range invs {
		if w.s.Stateless {
			// honoured or issued = the carried id, or an id some response announced; an internal
			// never-exposed ID() of the temporary session is neither
			if in.ssID != "" && (in.ssID == in.carried || w.seen[in.ssID]) {
				w.failf("stateless endpoint: %s (carrying %q) was handled by a session with id %q", in.method, in.carried, in.ssID)
			}
			continue
		}
		if in.carried == "" {
			continue
		}
		r := w.byID[in.carried]
		if r == nil {
			w.failf("%s carrying the never-issued id %q reached a handler (session %p, id %q)", in.method, in.carried, in.ptr, in.ssID)
			continue
		}
		if r.ptr != nil && in.ptr != r.ptr {
			w.failf("%s carrying id %q was handled by session %p (id %q); that id belongs to session %p", in.method, in.carried, in.ptr, in.ssID, r.ptr)
		}
		if in.ssID != in.carried {
			w.failf("%s carrying id %q was handled by a session whose ID() is %q", in.method, in.carried, in.ssID)
		}
	}
}

func (w *world) noEffect(invs []inv, what string) {
	if len(invs) > 0 {
		w.failf("%s, yet it reached the server session: %d handler invocation(s), first %s on session %q", what, len(invs), invs[0].method, invs[0].ssID)
	}
}

// invariants is clause (3)'s second half, checked at quiescence after every step.
func (w *world) invariants() {
	for _, r := range w.recs {
		if r.state == stClosing && r.delEx != nil && r.delEx.HandlerDone() && is2xx(r.delEx.Status()) {
			// the DELETE has been answered: whatever the server still has to finish, the id is dead for every client
			w.label("del:answered-after-waiting")
			w.kill(r, "deleted (its DELETE has been answered)")
		}
	}
	present := map[*mcp.ServerSession]bool{}
	n := 0
	for ss := range w.server.Sessions() {
		present[ss] = true
		n++
	}
	if w.s.Stateless {
		if n != 0 {
			w.failf("stateless endpoint keeps %d server session(s) after the requests ended", n)
		}
		return
	}
	lo, hi := 0, 0
	for _, r := range w.recs {
		st := w.status(r)
		switch st {
		case stLive:
			lo++
			hi++
			if r.ptr != nil && !present[r.ptr] {
				w.failf("session %q is alive in the model but Server.Sessions() no longer lists it", r.id)
			}
			for _, g := range r.gets {
				if g.HandlerDone() {
					// a server may end an SSE stream of a live session at any time (the property is about
					// the id, not about the stream): recorded only
					w.label("standalone-GET-of-live-session-ended-by-server")
				}
			}
		case stDead:
			if r.ptr != nil && present[r.ptr] {
				w.failf("session %q is terminated (%s) but Server.Sessions() still lists it (not closed/forgotten)", r.id, r.cause)
			}
			for _, ex := range w.tr.Exchanges() {
				if ex.Header.Get(hdrSID) == r.id && !ex.HandlerDone() {
					w.failf("session %q is terminated (%s) but its %s request #%d is still hanging (session not closed)", r.id, r.cause, ex.Method, ex.N)
				}
			}
			r.gets = nil
		default:
			hi++
		}
	}
	if n < lo || n > hi {
		w.failf("Server.Sessions() lists %d sessions; the model has %d certainly alive and %d possibly alive", n, lo, hi-lo)
	}
}

// ---- target resolution ----------------------------------------------------------------

func (w *world) notDead() []*rec {
	var out []*rec
	for _, r := range w.recs {
		if w.status(r) != stDead {
			out = append(out, r)
		}
	}
	return out
}

func (w *world) neverIDs() []string {
	out := []string{"never-issued", "0", "AAAAAAAAAAAAAAAAAAAAAAAAAA", "sid-0"}
	if w.s.CounterIDs {
		w.mu.Lock()
		out = append(out, fmt.Sprintf("sid-%d", w.sidCalls+2)) // will be issued later
		w.mu.Unlock()
	}
	var ok []string
	for _, id := range out {
		if w.byID[id] == nil {
			ok = append(ok, id)
		}
	}
	return ok
}

// resolve turns the step's abstract target into a concrete header value and user.
func (w *world) resolve(st Step) (sid string, u int) {
	u = st.User
	live := w.notDead()
	never := w.neverIDs()
	pickNever := func() string { return never[st.Pick%len(never)] }
	switch st.Target {
	case "none":
		return "", u
	case "never":
		return pickNever(), u
	case "stale":
		var dead []*rec
		for _, r := range w.recs {
			if w.status(r) == stDead {
				dead = append(dead, r)
			}
		}
		if len(dead) == 0 {
			return pickNever(), u
		}
		r := dead[st.Pick%len(dead)]
		if st.User%3 != 0 { // mostly as a user that could reach it when it was alive
			u = w.ownerUser(r, st.User)
		}
		return r.id, u
	case "variant":
		if len(live) == 0 {
			return pickNever(), u
		}
		r := live[st.Pick%len(live)]
		v := strings.ToLower(r.id)
		switch {
		case st.User%3 == 1:
			v = r.id + "A"
		case st.User%3 == 2 && len(r.id) > 1:
			v = r.id[:len(r.id)-1]
		case v == r.id:
			v = strings.ToUpper(r.id)
			if v == r.id {
				v = r.id + "a"
			}
		}
		return v, w.ownerUser(r, st.User)
	case "foreign":
		var owned []*rec
		for _, r := range live {
			if r.owner != "" && w.strangerUser(r, 0) >= 0 {
				owned = append(owned, r)
			}
		}
		if len(owned) > 0 {
			r := owned[st.Pick%len(owned)]
			return r.id, w.strangerUser(r, st.User)
		}
		fallthrough
	case "live":
		if len(live) == 0 {
			return pickNever(), u
		}
		return live[st.Pick%len(live)].id, u
	default: // mine
		if len(live) == 0 {
			return pickNever(), u
		}
		r := live[st.Pick%len(live)]
		return r.id, w.ownerUser(r, st.User)
	}
}

// ---- step interpreters -------------------------------------------------------------------

// create handles POSTs without a session id on a stateful endpoint.
func (w *world) create(st Step) {
	sub := st.Sub
	if st.Kind == "init" || st.Kind == "initbad" {
		sub = st.Kind
	}
	before := w.sessionCount()
	body, _ := w.body(sub, 0)
	ex := w.do("POST", "", st.User, body, sub == "init" || sub == "initbad")
	if ex == nil {
		return
	}
	invs := w.takeInvs()
	minted := w.headerRule()
	id := w.ident(st.User)
	fmt.Fprintf(&w.desc, "%s/%s/%d;", st.Kind, sub, ex.Status())
	if id.rejected {
		if ex.Status() != 401 {
			w.failf("POST without bearer token behind RequireBearerToken: status %d, want 401", ex.Status())
		}
		w.noEffect(invs, "the request was refused with 401")
		return
	}
	if !ex.HandlerDone() {
		w.failf("POST %s without a session id is still hanging", sub)
		return
	}
	sid, has := minted[ex]
	if sub != "init" {
		// No live session may result: a session that was not initialized is cleaned up.
		if has {
			r := &rec{id: sid, state: stDead, cause: "never initialized (" + sub + ")"}
			w.recs = append(w.recs, r)
			w.byID[sid] = r
		}
		if n := w.sessionCount(); n != before {
			w.failf("POST %s without a session id (no successful initialize) changed the number of server sessions from %d to %d", sub, before, n)
		}
		return
	}
	if ex.Status() != 200 {
		w.failf("initialize without a session id: status %d, want 200", ex.Status())
		return
	}
	if found, ok := reply(ex); !found || !ok {
		w.failf("initialize without a session id: no result in the response body %q", ex.Written())
		return
	}
	if !has {
		w.failf("initialize without a session id succeeded but the response carries no %s", hdrSID)
		return
	}
	r := &rec{id: sid, state: stLive}
	if id.hasToken {
		r.owner = id.uid
	}
	for _, in := range invs {
		if in.method != "initialize" {
			continue
		}
		r.ptr = in.ptr
		if in.ssID != sid {
			w.failf("initialize was handled by a session whose ID() is %q but the response announced %q", in.ssID, sid)
		}
	}
	if r.ptr != nil {
		for _, o := range w.recs {
			if o.ptr == r.ptr {
				w.failf("new session id %q is served by the same *ServerSession as id %q", sid, o.id)
			}
		}
	}
	r.lo = w.now() + w.timeout
	r.hi = r.lo + w.grace()
	w.recs = append(w.recs, r)
	w.byID[sid] = r
}

func (w *world) sessionCount() int {
	n := 0
	for range w.server.Sessions() {
		n++
	}
	return n
}

// classify says what the model knows about (sid, user) right now.
func (w *world) classify(sid string, id ident) (r *rec, st int, fgn bool, label string) {
	r = w.byID[sid]
	if r == nil {
		w.label("req:unknown")
		return nil, stDead, false, "unknown"
	}
	st = w.status(r)
	fgn = foreign(r.owner, id)
	label = stName[st]
	if fgn {
		label += "+foreign"
	}
	if st == stDead && !w.inFinal {
		w.ntStale = true // the id changed liveness and is used afterwards
	}
	if fgn && st != stDead && !w.inFinal {
		w.ntForeign = true
	}
	w.label("req:" + label)
	return
}

// request handles POST (ping/list/notif/echo/init/long), GET and DELETE carrying sid on a stateful endpoint.
func (w *world) request(method, sub, sid string, u int, keep bool) {
	id := w.ident(u)
	r, st, fgn, label := w.classify(sid, id)
	gate := 0
	var body string
	if method == "POST" {
		if sub == "long" {
			w.gateN++
			gate = w.gateN
		}
		body, _ = w.body(sub, gate)
	}
	if method == "GET" && r != nil && len(r.gets) > 0 {
		// one standalone stream per session: the client drops the old one first
		for _, g := range r.gets {
			g.Cut(memhttp.ErrCut)
		}
		r.gets = nil
		synctest.Wait()
	}
	ex := w.do(method, sid, u, body, false)
	if ex == nil {
		return
	}
	invs := w.takeInvs()
	w.headerRule()
	w.checkInvs(invs)
	status := ex.Status()
	what := fmt.Sprintf("%s %s with id %q (%s) as %s", method, sub, sid, label, users[u].name)
	defer func() { fmt.Fprintf(&w.desc, "%s/%s/%s/%d;", method, sub, label, ex.Status()) }()

	// A GET that was admitted hangs; drop it unless the script keeps it.
	settleGET := func() {
		if method != "GET" || ex.HandlerDone() {
			return
		}
		if keep && r != nil {
			r.gets = []*memhttp.Exchange{ex}
			return
		}
		ex.Cut(memhttp.ErrCut)
		synctest.Wait()
	}
	// a parked long POST is accounted for whatever the model expected
	parkedNow := false
	if sub == "long" {
		if ptr, ok := w.parkedOn(gate); ok {
			parkedNow = true
			if r == nil || (r.ptr != nil && ptr != r.ptr) {
				w.failf("%s: the tool handler ran on session %p, which is not the session of that id", what, ptr)
			}
			if r != nil {
				r.posts++
				w.parkeds = append(w.parkeds, &parked{gate: gate, r: r, ex: ex})
			}
		}
	}

	switch {
	case id.rejected:
		if status != 401 {
			w.failf("%s: status %d, want 401 from the bearer middleware", what, status)
		}
		w.noEffect(invs, what+" was refused with 401")
		settleGET()
		return
	case sid == "":
		// GET/DELETE without an id: nothing of the property applies beyond "no id minted, no effect".
		w.noEffect(invs, what)
		settleGET()
		return
	case r == nil || st == stDead:
		if status != 404 {
			w.failf("%s: status %d, want 404 (the id is %s)", what, status, deadWhy(r))
		}
		w.noEffect(invs, what+" addresses no live session")
		settleGET()
		return
	case st == stClosing:
		// Racing with the shutdown of the session: 404, 403 or served are all legitimate.
		settleGET()
		return
	case fgn:
		if st == stMaybe && status == 404 {
			w.kill(r, "timeout")
		} else if status != 403 {
			w.failf("%s: status %d, want 403 (session owned by %q)", what, status, r.owner)
		}
		w.noEffect(invs, what+" comes from another user")
		if parkedNow {
			w.failf("%s: the foreign request reached the tool handler", what)
		}
		settleGET()
		return
	}

	// Right user (or ownerless session), session alive or at its expiry instant.
	if st == stMaybe && status == 404 {
		w.kill(r, "timeout")
		w.noEffect(invs, what+" was answered 404")
		return
	}
	switch method {
	case "POST":
		switch sub {
		case "long":
			if !parkedNow {
				w.failf("%s: the request did not reach the tool handler (status %d, body %q)", what, status, ex.Written())
				return
			}
			r.maybeDead = false
		case "notif":
			if status != 202 {
				w.failf("%s: status %d, want 202", what, status)
				return
			}
			w.touchPOST(r)
		default:
			if status != 200 || !ex.HandlerDone() {
				w.failf("%s: status %d (done=%v), want a completed 200", what, status, ex.HandlerDone())
				return
			}
			found, ok := reply(ex)
			if !found || (!ok && sub != "init") {
				w.failf("%s: the response carries no result: %q", what, ex.Written())
				return
			}
			w.touchPOST(r)
		}
	case "GET":
		if status != 200 || ex.HandlerDone() {
			w.failf("%s: status %d (done=%v), want a hanging 200 stream", what, status, ex.HandlerDone())
		}
		w.touchGET(r)
		settleGET()
	case "DELETE":
		if r.posts > 0 {
			// Close is graceful: it waits for the parked handlers; the session is shutting down meanwhile.
			if ex.HandlerDone() && !is2xx(status) { // the success code of DELETE is not fixed anywhere
				w.failf("%s: status %d, want 2xx", what, status)
			}
			if ex.HandlerDone() {
				w.kill(r, "deleted")
			} else {
				r.state = stClosing
				r.delEx = ex
				w.label("del:with-POST-in-progress")
			}
			return
		}
		if !is2xx(status) || !ex.HandlerDone() { // the success code of DELETE is not fixed anywhere
			w.failf("%s: status %d (done=%v), want a completed 2xx", what, status, ex.HandlerDone())
			return
		}
		w.kill(r, "deleted")
	}
}

func is2xx(status int) bool { return status >= 200 && status <= 299 }

// outcome is what a response means, without its incidental bytes: status, media type, and whether it
// carries a JSON-RPC result or an error.
func outcome(ex *memhttp.Exchange) string {
	ct, _, _ := strings.Cut(ex.RespHeader().Get("Content-Type"), ";")
	found, hasResult := reply(ex)
	return fmt.Sprintf("%d %s response=%v result=%v", ex.Status(), strings.ToLower(strings.TrimSpace(ct)), found, hasResult)
}

func deadWhy(r *rec) string {
	if r == nil {
		return "unknown"
	}
	return "stale: " + r.cause
}

func (w *world) release(st Step) {
	var open []*parked
	for _, p := range w.parkeds {
		if !p.released {
			open = append(open, p)
		}
	}
	if len(open) == 0 {
		w.desc.WriteString("rel-;")
		return
	}
	p := open[st.Pick%len(open)]
	p.released = true
	stBefore := w.status(p.r)
	w.openGate(p.gate)
	synctest.Wait()
	w.takeInvs()
	w.headerRule()
	p.r.posts--
	fmt.Fprintf(&w.desc, "rel/%s/%d;", stName[stBefore], p.ex.Status())
	switch stBefore {
	case stLive:
		if !p.ex.HandlerDone() || p.ex.Status() != 200 {
			w.failf("released long POST on live session %q: status %d done=%v, want a completed 200", p.r.id, p.ex.Status(), p.ex.HandlerDone())
			return
		}
		if found, ok := reply(p.ex); !found || !ok {
			w.failf("released long POST on live session %q: no result in %q", p.r.id, p.ex.Written())
			return
		}
		w.touchPOST(p.r)
	case stClosing:
		if p.r.posts == 0 {
			w.kill(p.r, "closed after its last handler returned")
		}
	}
}

func (w *world) serverClose(st Step) {
	var c []*rec
	for _, r := range w.recs {
		if s := w.status(r); s == stLive && r.ptr != nil {
			c = append(c, r)
		}
	}
	if len(c) == 0 {
		w.desc.WriteString("close-;")
		return
	}
	r := c[st.Pick%len(c)]
	for ss := range w.server.Sessions() {
		if ss == r.ptr {
			go ss.Close()
		}
	}
	synctest.Wait()
	w.takeInvs()
	if r.posts > 0 {
		r.state = stClosing
		w.desc.WriteString("close/busy;")
		w.label("close:with-POST-in-progress")
	} else {
		w.kill(r, "closed by the server")
		w.desc.WriteString("close/idle;")
	}
}

func (w *world) advance(st Step) {
	unit := w.timeout
	if unit == 0 {
		unit = 50 * time.Millisecond
	}
	var d time.Duration
	mode := st.Mode
	if mode == "expiry" {
		var c []*rec
		for _, r := range w.recs {
			if w.timeout > 0 && w.status(r) == stLive && r.posts == 0 && !r.maybeDead {
				c = append(c, r)
			}
		}
		if len(c) > 0 {
			d = c[st.Pick%len(c)].lo + time.Duration(st.Delta) - w.now()
		}
		if d <= 0 {
			mode = "mult"
		}
	}
	switch mode {
	case "small":
		d = smallSteps[st.K%len(smallSteps)]
	case "mult":
		d = time.Duration(st.K%3+1)*unit + time.Duration(st.Delta)
	case "long":
		d = 6*time.Second + time.Duration(st.Delta) // longer than any delay the SDK puts on a shutdown step
	}
	for _, r := range w.recs {
		if r.state == stLive && r.posts > 0 && w.timeout > 0 && d >= w.timeout {
			w.label("adv:>=timeout-with-POST-in-progress")
		}
	}
	time.Sleep(d)
	synctest.Wait()
	w.takeInvs()
	w.headerRule()
	near := false
	for _, r := range w.recs {
		if r.state == stLive && w.timeout > 0 && r.posts == 0 {
			if x := w.now() - r.lo; x >= -1 && x <= 1 {
				near = true
			}
		}
	}
	if near {
		w.ntExpiry = true
		fmt.Fprintf(&w.desc, "adv/%s/near%d;", mode, st.Delta)
	} else {
		fmt.Fprintf(&w.desc, "adv/%s;", mode)
	}
}

// advRace lets a POST arrive at the very instant the idle timer of its session fires.
func (w *world) advRace(st Step) {
	var c []*rec
	for _, r := range w.recs {
		if w.timeout > 0 && w.status(r) == stLive && r.posts == 0 && !r.maybeDead && r.lo > w.now() {
			c = append(c, r)
		}
	}
	if len(c) == 0 {
		w.desc.WriteString("advrace-;")
		return
	}
	r := c[st.Pick%len(c)]
	d := r.lo - w.now()
	u := w.ownerUser(r, st.User)
	tag := w.newTag()
	body, _ := w.body("ping", 0)
	go func() {
		time.Sleep(d)
		w.fire(tag, "POST", r.id, u, body, false)
	}()
	time.Sleep(d)
	synctest.Wait()
	w.ntExpiry = true
	ex := w.find(tag)
	if ex == nil {
		w.failf("harness: racing POST produced no exchange")
		return
	}
	invs := w.takeInvs()
	w.headerRule()
	w.checkInvs(invs)
	fmt.Fprintf(&w.desc, "advrace/%d;", ex.Status())
	w.label(fmt.Sprintf("advrace:%d", ex.Status()))
	switch s := ex.Status(); {
	case s == 404:
		w.kill(r, "timeout")
		w.noEffect(invs, "POST at the expiry instant was answered 404")
	case s >= 200 && s < 300:
		// Served: either the timer was stopped in time (alive, idle again from now) or it
		// had fired and the session closes behind the request.
		r.maybeDead = true
		r.lo = w.now() + w.timeout
		r.hi = r.lo + w.grace()
	default:
		w.failf("POST ping at the expiry instant of session %q: status %d, want 2xx or 404", r.id, s)
	}
}

// race fires a DELETE and a POST at the same live session without waiting in between.
func (w *world) race(st Step) {
	var c []*rec
	for _, r := range w.recs {
		if w.status(r) == stLive {
			c = append(c, r)
		}
	}
	if len(c) == 0 {
		w.desc.WriteString("race-;")
		return
	}
	r := c[st.Pick%len(c)]
	u := w.ownerUser(r, st.User)
	gate := 0
	if st.Sub == "long" {
		w.gateN++
		gate = w.gateN
	}
	body, _ := w.body(st.Sub, gate)
	tagD, tagP := w.newTag(), w.newTag()
	if st.First == "del" {
		w.fire(tagD, "DELETE", r.id, u, "", false)
		w.fire(tagP, "POST", r.id, u, body, false)
	} else {
		w.fire(tagP, "POST", r.id, u, body, false)
		w.fire(tagD, "DELETE", r.id, u, "", false)
	}
	synctest.Wait()
	exD, exP := w.find(tagD), w.find(tagP)
	if exD == nil || exP == nil {
		w.failf("harness: racing requests produced no exchange")
		return
	}
	invs := w.takeInvs()
	w.headerRule()
	w.checkInvs(invs)
	if gate != 0 {
		if ptr, ok := w.parkedOn(gate); ok {
			if r.ptr != nil && ptr != r.ptr {
				w.failf("racing long POST with id %q ran on session %p, not on the session of that id", r.id, ptr)
			}
			r.posts++
			w.parkeds = append(w.parkeds, &parked{gate: gate, r: r, ex: exP})
		}
	}
	fmt.Fprintf(&w.desc, "race/%s/%d/%d;", st.Sub, exD.Status(), exP.Status())
	w.label(fmt.Sprintf("race:%s:del=%d,post=%d", st.Sub, exD.Status(), exP.Status()))
	if exD.HandlerDone() {
		if !is2xx(exD.Status()) {
			w.failf("DELETE of live session %q (racing a POST): status %d, want 2xx", r.id, exD.Status())
		}
		if r.posts > 0 {
			r.state = stClosing // cannot happen with a graceful close; stay permissive
		} else {
			w.kill(r, "deleted")
		}
		return
	}
	if r.posts == 0 {
		w.failf("DELETE of session %q is hanging although no handler of that session is running", r.id)
		return
	}
	r.state = stClosing
}

// stateless handles every request kind against a stateless endpoint.
func (w *world) stateless(st Step) {
	id := w.ident(st.User)
	ids := []string{"", "never-issued", "AAAAAAAAAAAAAAAAAAAAAAAAAA", "sid-1", "0", "x y"}
	sid := ids[st.Pick%len(ids)]
	if st.Kind == "init" || st.Kind == "other" {
		if st.Pick%2 == 0 {
			sid = ""
		}
	}
	switch st.Kind {
	case "adv":
		time.Sleep(time.Duration(st.K+1) * 50 * time.Millisecond)
		synctest.Wait()
		w.desc.WriteString("adv;")
		return
	case "get", "del":
		m := map[string]string{"get": "GET", "del": "DELETE"}[st.Kind]
		ex := w.do(m, sid, st.User, "", false)
		if ex == nil {
			return
		}
		w.noEffect(w.takeInvs(), "stateless "+m)
		w.headerRule()
		fmt.Fprintf(&w.desc, "%s/%v/%d;", m, sid != "", ex.Status())
		if sid != "" {
			w.ntStateless = true
		}
		if id.rejected {
			if ex.Status() != 401 {
				w.failf("stateless %s without bearer token: status %d, want 401", m, ex.Status())
			}
			return
		}
		if ex.Status() != 405 || ex.RespHeader().Get("Allow") == "" {
			w.failf("stateless %s (session id header %q): status %d Allow=%q, want 405 with an Allow header", m, sid, ex.Status(), ex.RespHeader().Get("Allow"))
		}
		return
	}
	sub := st.Sub
	if st.Kind == "init" {
		sub = "init"
	}
	body, _ := w.body(sub, 0)
	exA := w.do("POST", sid, st.User, body, sub == "init")
	invsA := w.takeInvs()
	exB := w.do("POST", "", st.User, body, sub == "init")
	invsB := w.takeInvs()
	if exA == nil || exB == nil {
		return
	}
	w.headerRule()
	w.checkInvs(invsA)
	w.checkInvs(invsB)
	fmt.Fprintf(&w.desc, "POST/%s/%v/%d;", sub, sid != "", exA.Status())
	if sid != "" {
		w.ntStateless = true
	}
	if id.rejected {
		if exA.Status() != 401 || exB.Status() != 401 {
			w.failf("stateless POST without bearer token: status %d/%d, want 401", exA.Status(), exB.Status())
		}
		return
	}
	if !exA.HandlerDone() || !exB.HandlerDone() {
		w.failf("stateless POST %s is hanging", sub)
		return
	}
	ctA, ctB := exA.RespHeader().Get("Content-Type"), exB.RespHeader().Get("Content-Type")
	// "not honoured" = the same outcome (status, media type, result or error), not the same bytes: a response
	// may vary in incidental ways (event ids, timestamps) between any two requests
	if outcome(exA) != outcome(exB) || (sub != "notif" && len(invsA) != len(invsB)) {
		// (a notification races with the end of its one-request session, so whether its handler runs is not compared)
		w.failf("stateless POST %s carrying %s %q is not treated like the same request without it: status %d vs %d, content type %q vs %q, body %q vs %q, handler invocations %d vs %d",
			sub, hdrSID, sid, exA.Status(), exB.Status(), ctA, ctB, exA.Written(), exB.Written(), len(invsA), len(invsB))
		return
	}
	want := 200
	if sub == "notif" {
		want = 202
	}
	if exA.Status() != want {
		w.failf("stateless POST %s: status %d, want %d", sub, exA.Status(), want)
		return
	}
	if sub != "notif" {
		if found, ok := reply(exA); !found || !ok {
			w.failf("stateless POST %s: no result in %q", sub, exA.Written())
		}
	}
}

// ---- run --------------------------------------------------------------------------------------

var theT *testing.T

func run(s Script) (res vt.Result) {
	if p := vt.Bubble(theT, func() { res = runInBubble(s) }); p != "" {
		// goroutines left behind after the case are not C11's business (a dead session with a request still
		// hanging, or a DELETE that hangs, is reported by invariants() and race())
		res.Class("teardown_leftover")
	}
	return res
}

func runInBubble(s Script) (res vt.Result) {
	w := &world{s: s, res: &res, start: time.Now(), timeout: time.Duration(s.TimeoutNS),
		parkLog: map[int]*mcp.ServerSession{}, gates: map[int]chan struct{}{}, opened: map[int]bool{},
		labels: map[string]bool{}, byID: map[string]*rec{}, seen: map[string]bool{}, checked: map[*memhttp.Exchange]bool{}}
	opts := &mcp.ServerOptions{}
	if s.CounterIDs {
		opts.GetSessionID = func() string {
			w.mu.Lock()
			defer w.mu.Unlock()
			w.sidCalls++
			return fmt.Sprintf("sid-%d", w.sidCalls)
		}
	}
	server := mcp.NewServer(&mcp.Implementation{Name: "srv", Version: "1"}, opts)
	w.server = server
	mcp.AddTool(server, &mcp.Tool{Name: "echo"}, func(ctx context.Context, req *mcp.CallToolRequest, in map[string]any) (*mcp.CallToolResult, any, error) {
		if s.SloppyTool {
			_ = req.Session.NotifyProgress(ctx, &mcp.ProgressNotificationParams{ProgressToken: "job", Progress: math.NaN()})
		}
		return &mcp.CallToolResult{Content: []mcp.Content{&mcp.TextContent{Text: "echo"}}}, nil, nil
	})
	mcp.AddTool(server, &mcp.Tool{Name: "park"}, func(ctx context.Context, req *mcp.CallToolRequest, in map[string]any) (*mcp.CallToolResult, any, error) {
		n, _ := in["g"].(float64)
		w.mu.Lock()
		w.parkLog[int(n)] = req.Session
		w.mu.Unlock()
		select {
		case <-w.gate(int(n)):
		case <-ctx.Done():
		}
		return &mcp.CallToolResult{Content: []mcp.Content{&mcp.TextContent{Text: "parked"}}}, nil, nil
	})
	server.AddReceivingMiddleware(func(next mcp.MethodHandler) mcp.MethodHandler {
		return func(ctx context.Context, method string, req mcp.Request) (mcp.Result, error) {
			in := inv{method: method}
			if ss, ok := req.GetSession().(*mcp.ServerSession); ok && ss != nil {
				in.ptr, in.ssID = ss, ss.ID()
			}
			if ex := req.GetExtra(); ex != nil && ex.Header != nil {
				in.carried = ex.Header.Get(hdrSID)
			}
			w.mu.Lock()
			w.invs = append(w.invs, in)
			w.mu.Unlock()
			return next(ctx, method, req)
		}
	})
	var store mcp.EventStore
	switch s.Store {
	case "memory":
		store = mcp.NewMemoryEventStore(nil)
	case "failclose":
		store = failCloseStore{mcp.NewMemoryEventStore(nil)}
	}
	base := mcp.NewStreamableHTTPHandler(func(*http.Request) *mcp.Server { return server }, &mcp.StreamableHTTPOptions{
		Stateless: s.Stateless, SessionTimeout: w.timeout, JSONResponse: s.JSON, EventStore: store,
	})
	verifier := func(ctx context.Context, token string, _ *http.Request) (*auth.TokenInfo, error) {
		for _, u := range users[1:] {
			if u.token == token {
				if s.SkewNS > 0 && u.name == "alice2" {
					return &auth.TokenInfo{UserID: u.uid, Expiration: time.Now().Add(-time.Duration(s.SkewNS / 2))}, nil
				}
				return &auth.TokenInfo{UserID: u.uid, Expiration: time.Now().Add(10000 * time.Hour)}, nil
			}
		}
		return nil, auth.ErrInvalidToken
	}
	var bearerOpts *auth.RequireBearerTokenOptions
	if s.SkewNS > 0 {
		bearerOpts = &auth.RequireBearerTokenOptions{ClockSkew: time.Duration(s.SkewNS)}
		w.res.Class("credential_inside_the_clock_skew_tolerance")
	}
	protected := auth.RequireBearerToken(verifier, bearerOpts)(base)
	var handler http.Handler = base
	switch s.Auth {
	case "required":
		handler = protected
	case "optional":
		handler = http.HandlerFunc(func(rw http.ResponseWriter, r *http.Request) {
			if r.Header.Get("Authorization") == "" {
				base.ServeHTTP(rw, r)
				return
			}
			protected.ServeHTTP(rw, r)
		})
	}
	w.tr = &memhttp.Transport{Handler: handler}
	w.client = w.tr.Client()

	teardown := func() {
		for n := 0; n <= w.gateN; n++ {
			w.openGate(n)
		}
		synctest.Wait()
		for _, ex := range w.tr.Exchanges() {
			if !ex.HandlerDone() {
				ex.Cut(memhttp.ErrCut)
			}
		}
		for ss := range server.Sessions() {
			go ss.Close()
		}
		synctest.Wait()
	}
	defer teardown()

	w.desc.WriteString(fmt.Sprintf("stateless=%v/auth=%s/t=%d/ctr=%v/json=%v:", s.Stateless, s.Auth, s.TimeoutNS, s.CounterIDs, s.JSON))
	for i, st := range s.Steps {
		w.step = i
		switch {
		case s.Stateless:
			w.stateless(st)
		case st.Kind == "init" || st.Kind == "initbad" || st.Kind == "other":
			w.create(st)
		case st.Kind == "post" || st.Kind == "long" || st.Kind == "get" || st.Kind == "del":
			sid, u := w.resolve(st)
			method, sub := "POST", st.Sub
			switch st.Kind {
			case "long":
				sub = "long"
			case "get":
				method, sub = "GET", ""
			case "del":
				method, sub = "DELETE", ""
			}
			if method == "POST" && sid == "" {
				sid = w.neverIDs()[0]
			}
			w.request(method, sub, sid, u, st.Keep)
		case st.Kind == "release":
			w.release(st)
		case st.Kind == "close":
			w.serverClose(st)
		case st.Kind == "adv":
			w.advance(st)
		case st.Kind == "advrace":
			w.advRace(st)
		case st.Kind == "race":
			w.race(st)
		}
		if w.failed {
			break
		}
		w.invariants()
		if w.failed {
			break
		}
	}
	if !w.failed {
		w.final()
	}
	if s.Stateless && s.CounterIDs {
		w.mu.Lock()
		if w.sidCalls != 0 {
			w.step = len(s.Steps)
			w.failf("stateless endpoint consulted ServerOptions.GetSessionID %d time(s)", w.sidCalls)
		}
		w.mu.Unlock()
	}

	res.Desc = w.desc.String()
	if os.Getenv("C11_TRACE") != "" {
		fmt.Printf("C11-TRACE %s\n", res.Desc)
	}
	res.NonTrivial = w.ntStale || w.ntForeign || w.ntExpiry || w.ntStateless
	res.Class(map[bool]string{true: "mode:stateless", false: "mode:stateful"}[s.Stateless], "auth:"+s.Auth)
	if !s.Stateless {
		res.Class(fmt.Sprintf("timeout:%v", w.timeout))
	}
	for k, v := range map[string]bool{"nt:stale-id-used": w.ntStale, "nt:foreign-user": w.ntForeign, "nt:expiry-1ns": w.ntExpiry, "nt:stateless-id": w.ntStateless} {
		if v {
			res.Class(k)
		}
	}
	if !res.NonTrivial {
		res.Class("trivial")
	}
	var ls []string
	for l := range w.labels {
		ls = append(ls, l)
	}
	sort.Strings(ls)
	res.Class(ls...)
	causes := map[string]bool{}
	for _, r := range w.recs {
		if r.state == stDead {
			causes[strings.SplitN(r.cause, " ", 2)[0]] = true
		}
	}
	for _, c := range []string{"deleted", "timeout", "closed", "never"} {
		if causes[c] {
			res.Class("death:" + c)
		}
	}
	return res
}

// final releases every parked handler and then probes every id ever minted as its owner.
func (w *world) final() {
	w.step = len(w.s.Steps)
	w.inFinal = true
	if w.s.Stateless {
		return
	}
	for {
		open := false
		for _, p := range w.parkeds {
			if !p.released {
				open = true
			}
		}
		if !open || w.failed {
			break
		}
		w.release(Step{Kind: "release"})
		if !w.failed {
			w.invariants()
		}
	}
	if w.failed {
		return
	}
	w.desc.WriteString("|")
	for i, r := range w.recs {
		if w.failed {
			return
		}
		w.request("POST", "ping", r.id, w.ownerUser(r, i), false)
		if !w.failed {
			w.invariants()
		}
	}
}

var prop = vt.Register(&vt.Prop[Script]{Property: "C11", Name: "sessions", Journal: true, Gen: gen, Run: run})

func TestC11_Sessions(t *testing.T) { theT = t; prop.Check(t) }
func TestReplay(t *testing.T)       { theT = t; vt.Replay(t) }
func TestRegress(t *testing.T)      { theT = t; vt.Regress(t, "C11") }
func TestKnown(t *testing.T)        { theT = t; vt.Known(t, "C11") }
