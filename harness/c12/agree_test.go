package c12

import (
	"context"
	"encoding/json"
	"errors"
	"fmt"
	"math/big"
	"net/http"
	"strings"
	"sync"
	"testing/synctest"
	"time"

	"github.com/modelcontextprotocol/go-sdk/jsonrpc"
	"github.com/modelcontextprotocol/go-sdk/mcp"
	"github.com/modelcontextprotocol/go-sdk/verif/memhttp"
	"github.com/modelcontextprotocol/go-sdk/verif/vt"
	"github.com/modelcontextprotocol/go-sdk/verif/wire"
	"golang.org/x/oauth2"
	"pgregory.net/rapid"
)

// AgreeScript is one case of the agreement direction: a tool, its arguments and the link.
type AgreeScript struct {
	Link      string `json:"link"`      // stateless | stateful
	Requested string `json:"requested"` // protocol version the client asks for ("" = default, i.e. 2026-07-28)
	JSON      bool   `json:"json"`      // JSONResponse on the server
	Tool      string `json:"tool"`
	Nodes     []Node `json:"nodes"`
	Form      string `json:"form"`  // raw (json.RawMessage arguments) | go (map of Go values)
	Decoy     bool   `json:"decoy"` // a second tool re-using the same header names on other properties
	// OAuth: the client transport has an OAuthHandler (the server asks for no authorization): "nil" (no token
	// source), "token" (a valid token), "lapsed" (the token source reports invalid_grant, e.g. an expired refresh
	// token: documented as "skip the Authorization header and proceed with the request")
	OAuth string `json:"oauth,omitempty"`
}

const modern = "2026-07-28"

func (s AgreeScript) modern() bool {
	return s.Link == wire.Stateless && (s.Requested == "" || s.Requested == modern)
}

func genAgree(rt *rapid.T) AgreeScript {
	s := AgreeScript{
		Link:      rapid.SampledFrom([]string{wire.Stateless, wire.Stateless, wire.Stateless, wire.Stateless, wire.Stateful}).Draw(rt, "link"),
		Requested: rapid.SampledFrom([]string{"", "", "", "", modern, "2025-11-25", "2025-06-18"}).Draw(rt, "requested"),
		JSON:      rapid.Bool().Draw(rt, "json"),
		Tool:      rapid.SampledFrom([]string{"t", "echo", "Tool.v2", "a-b_c", "T"}).Draw(rt, "tool"),
		Form:      rapid.SampledFrom([]string{"raw", "raw", "go"}).Draw(rt, "form"),
		Decoy:     rapid.IntRange(0, 3).Draw(rt, "decoy") == 3,
	}
	s.Nodes = genTool(rt, true)
	s.OAuth = rapid.SampledFrom([]string{"", "", "", "nil", "token", "lapsed", "lapsed"}).Draw(rt, "oauth")
	return s
}

// scriptedOAuth is an auth.OAuthHandler for a server that never asks for authorization.
type scriptedOAuth struct{ kind string }

func (o scriptedOAuth) TokenSource(context.Context) (oauth2.TokenSource, error) {
	if o.kind == "nil" {
		return nil, nil
	}
	return o, nil
}

func (o scriptedOAuth) Token() (*oauth2.Token, error) {
	if o.kind == "lapsed" {
		return nil, &oauth2.RetrieveError{ErrorCode: "invalid_grant", ErrorDescription: "refresh token expired"}
	}
	return &oauth2.Token{AccessToken: "tok", TokenType: "Bearer"}, nil
}

func (o scriptedOAuth) Authorize(_ context.Context, _ *http.Request, resp *http.Response) error {
	if resp != nil && resp.Body != nil {
		resp.Body.Close()
	}
	return errors.New("scripted: this client cannot obtain an authorization")
}

// callRecord is what the server side saw.
type callRecord struct {
	mu      sync.Mutex
	methods map[string]int
	calls   map[string][]json.RawMessage // tool name -> arguments of each invocation
}

func newRecord() *callRecord {
	return &callRecord{methods: map[string]int{}, calls: map[string][]json.RawMessage{}}
}

func (r *callRecord) middleware(next mcp.MethodHandler) mcp.MethodHandler {
	return func(ctx context.Context, method string, req mcp.Request) (mcp.Result, error) {
		r.mu.Lock()
		r.methods[method]++
		r.mu.Unlock()
		return next(ctx, method, req)
	}
}

func (r *callRecord) tool(name string) mcp.ToolHandler {
	return func(ctx context.Context, req *mcp.CallToolRequest) (*mcp.CallToolResult, error) {
		r.mu.Lock()
		r.calls[name] = append(r.calls[name], append(json.RawMessage(nil), req.Params.Arguments...))
		r.mu.Unlock()
		return &mcp.CallToolResult{Content: []mcp.Content{&mcp.TextContent{Text: "ran:" + name}}}, nil
	}
}

func (r *callRecord) total() (methods, calls int) {
	r.mu.Lock()
	defer r.mu.Unlock()
	for _, n := range r.methods {
		methods += n
	}
	for _, c := range r.calls {
		calls += len(c)
	}
	return
}

// decoyNodes builds a second tool that re-uses the header names on differently placed properties.
func decoyNodes(nodes []Node) []Node {
	var out []Node
	for i, l := range annotated(nodes) {
		out = append(out, Node{Name: fmt.Sprintf("d%d", i), Kind: "string", Header: l.node.Header, Arg: "absent"})
	}
	return out
}

func runAgree(s AgreeScript) (res vt.Result) {
	if p := vt.Bubble(theT, func() { res = runAgreeInBubble(s) }); p != "" {
		res.Class("teardown_leftover") // C05's business
	}
	return res
}

func runAgreeInBubble(s AgreeScript) (res vt.Result) {
	rec := newRecord()
	server := mcp.NewServer(&mcp.Implementation{Name: "srv", Version: "1"}, nil)
	server.AddReceivingMiddleware(rec.middleware)
	server.AddTool(&mcp.Tool{Name: s.Tool, InputSchema: schemaOf(s.Nodes, true)}, rec.tool(s.Tool))
	if s.Decoy {
		server.AddTool(&mcp.Tool{Name: s.Tool + "-decoy", InputSchema: schemaOf(decoyNodes(s.Nodes), true)}, rec.tool(s.Tool+"-decoy"))
	}
	link, err := wire.New(server, wire.Config{Kind: s.Link, JSON: s.JSON, NoStandalone: true})
	if err != nil {
		res.Failf("harness: building link: %v", err)
		return
	}
	client := mcp.NewClient(&mcp.Implementation{Name: "cli", Version: "1"}, nil)
	if s.OAuth != "" {
		if ct, ok := link.ClientTransport.(*mcp.StreamableClientTransport); ok {
			ct.OAuthHandler = scriptedOAuth{s.OAuth}
			res.Class("client_oauth_handler_" + s.OAuth)
		}
	}

	var args any
	if s.Form == "go" {
		args = goArgs(s.Nodes)
	} else {
		args = json.RawMessage(rawArgs(s.Nodes))
	}

	type outcome struct {
		stage string
		err   error
		neg   string
		text  string
		tools int
	}
	ch := make(chan outcome, 1)
	var csMu sync.Mutex
	var session *mcp.ClientSession
	go func() {
		var o *mcp.ClientSessionOptions
		if s.Requested != "" {
			o = &mcp.ClientSessionOptions{ProtocolVersion: s.Requested}
		}
		cs, err := client.Connect(context.Background(), link.ClientTransport, o)
		if err != nil {
			ch <- outcome{stage: "connect", err: err}
			return
		}
		csMu.Lock()
		session = cs
		csMu.Unlock()
		out := outcome{neg: cs.InitializeResult().ProtocolVersion}
		lt, err := cs.ListTools(context.Background(), nil)
		if err != nil {
			out.stage, out.err = "list", err
			ch <- out
			return
		}
		out.tools = len(lt.Tools)
		ct, err := cs.CallTool(context.Background(), &mcp.CallToolParams{Name: s.Tool, Arguments: args})
		if err != nil {
			out.stage, out.err = "call", err
			ch <- out
			return
		}
		if ct.IsError {
			out.stage, out.err = "call", fmt.Errorf("tool error result: %v", ct.Content)
		} else if len(ct.Content) == 1 {
			if tc, ok := ct.Content[0].(*mcp.TextContent); ok {
				out.text = tc.Text
			}
		}
		ch <- out
	}()
	var out outcome
	got := false
	for i := 0; i < 120 && !got; i++ {
		synctest.Wait()
		select {
		case out = <-ch:
			got = true
		default:
			time.Sleep(time.Second)
		}
	}
	defer func() {
		csMu.Lock()
		cs := session
		csMu.Unlock()
		if cs != nil {
			go cs.Close()
		}
		for ss := range server.Sessions() {
			go ss.Close()
		}
		synctest.Wait()
		time.Sleep(10 * time.Second)
		synctest.Wait()
	}()

	// descriptor and non-trivial rule
	leaves := annotated(s.Nodes)
	isInert := inert(s.Nodes)
	var desc strings.Builder
	fmt.Fprintf(&desc, "%s|%s|%v|%s|", s.Link, s.Requested, s.JSON, s.Form)
	nt := false
	for _, l := range leaves {
		cls := "absent"
		if l.present {
			v := refCanonical(l.node)
			cls = l.node.Kind
			switch {
			case l.node.Kind == "string" && v == "":
				cls = "string-empty"
			case l.node.Kind == "string" && refNeedsBase64(v):
				cls = "string-b64"
				nt = true
			case l.node.Kind == "integer" && (l.node.Int == maxSafe || l.node.Int == -maxSafe):
				cls = "integer-endpoint"
				nt = true
			}
			if l.node.Kind == "integer" {
				cls += "-" + l.node.Style
			}
			if l.depth >= 2 {
				nt = true
			}
			res.Class("arg_" + cls)
		}
		res.Class(fmt.Sprintf("leaf_depth%d", l.depth))
		fmt.Fprintf(&desc, "%d:%s:%s=%s;", l.depth, l.node.Header, cls, digest(refCanonicalOrEmpty(l)))
	}
	if isInert {
		res.Class("inert_array_type")
	}
	res.Desc = desc.String()

	if !got {
		res.Failf("Connect/ListTools/CallTool over %s did not return within 120s of virtual time", s.Link)
		return
	}
	if out.err != nil {
		var werr *jsonrpc.Error
		code := ""
		if errors.As(out.err, &werr) {
			code = fmt.Sprintf(" (JSON-RPC code %d)", werr.Code)
		}
		res.Failf("%s failed%s for schema-valid arguments %s of tool schema %s over %s/requested=%q: %v",
			out.stage, code, rawArgs(s.Nodes), mustJSON(schemaOf(s.Nodes, true)), s.Link, s.Requested, out.err)
		return
	}
	res.Class("negotiated_" + out.neg)
	if s.modern() {
		// both ends support 2026-07-28 over this link: nothing the client sent may have been refused
		for _, ex := range link.HTTP.Exchanges() {
			if ex.Method != "POST" {
				continue // the clause is about the messages the client posts, not about probes (GET, OPTIONS, ...) a server may decline
			}
			if st := ex.Status(); st < 200 || st > 299 {
				res.Failf("the SDK client's own request %s %s (header %v, body %s) was refused with HTTP %d: %s", ex.Method, ex.URL, ex.Header, clip(ex.Body), st, clip(ex.Written()))
			}
		}
		if len(res.Violations) > 0 {
			return
		}
	}
	isModern := out.neg >= modern
	if s.modern() != isModern {
		// C07's business; without it the case does not exercise what it was drawn for.
		res.Failf("harness: expected modern=%v over %s/requested=%q but negotiated %q", s.modern(), s.Link, s.Requested, out.neg)
		return
	}
	res.NonTrivial = nt && isModern && !isInert

	wantTools := 1
	if s.Decoy {
		wantTools = 2
	}
	if out.tools != wantTools {
		res.Failf("ListTools returned %d tools, the server has %d (a tool with valid annotations was dropped)", out.tools, wantTools)
	}
	if out.text != "ran:"+s.Tool {
		res.Failf("CallTool result text %q, want %q", out.text, "ran:"+s.Tool)
	}
	rec.mu.Lock()
	calls := rec.calls[s.Tool]
	nCallMethod := rec.methods["tools/call"]
	var other int
	for name, c := range rec.calls {
		if name != s.Tool {
			other += len(c)
		}
	}
	rec.mu.Unlock()
	if len(calls) != 1 || nCallMethod != 1 || other != 0 {
		res.Failf("tool handler ran %d times (tools/call seen %d times by the middleware, other tools ran %d times), want exactly once", len(calls), nCallMethod, other)
		return
	}
	gotArgs, err := decodeAbstract(calls[0])
	if err != nil {
		res.Failf("tool handler received undecodable arguments %q: %v", calls[0], err)
		return
	}
	if !jsonEqual(gotArgs, any(modelValue(s.Nodes))) {
		res.Failf("tool handler received arguments %s, sent %s", calls[0], rawArgs(s.Nodes))
	}

	// The request the client put on the wire must itself satisfy the documented preconditions.
	ex := findCall(link.HTTP)
	if ex == nil {
		res.Failf("harness: no tools/call exchange recorded")
		return
	}
	if ex.Status() < 200 || ex.Status() > 299 {
		res.Failf("tools/call exchange answered HTTP %d", ex.Status())
	}
	if isModern && !isInert {
		usedB64 := false
		for _, l := range leaves {
			name := http.CanonicalHeaderKey("Mcp-Param-" + l.node.Header)
			vals, has := ex.Header[name]
			switch {
			case !l.present && has:
				res.Failf("client sent %s: %q for an absent/null argument %v", name, vals, l.path)
			case l.present && !has:
				res.Failf("client sent no %s header for argument %v = %q", name, l.path, refCanonical(l.node))
			case l.present:
				if len(vals) != 1 {
					res.Failf("client sent %d values for %s", len(vals), name)
					break
				}
				dec, ok := refDecode(vals[0])
				if !ok || !sameValue(l.node, dec) {
					res.Failf("client sent %s: %q for argument %v = %q (does not decode to the body value)", name, vals[0], l.path, refCanonical(l.node))
				}
				if !validFieldValue(vals[0]) {
					res.Failf("client sent %s: %q, which is not a valid HTTP field value", name, vals[0])
				}
				if strings.HasPrefix(vals[0], b64Open) {
					usedB64 = true
				}
			}
		}
		if usedB64 {
			res.Class("wire_base64")
		}
		if ex.Header.Get("Mcp-Method") != "tools/call" || ex.Header.Get("Mcp-Name") != s.Tool || ex.Header.Get("Mcp-Protocol-Version") != out.neg {
			res.Failf("client headers Mcp-Method=%q Mcp-Name=%q Mcp-Protocol-Version=%q do not mirror the body (tools/call, %q, %q)",
				ex.Header.Get("Mcp-Method"), ex.Header.Get("Mcp-Name"), ex.Header.Get("Mcp-Protocol-Version"), s.Tool, out.neg)
		}
	}
	return res
}

func refCanonicalOrEmpty(l leaf) string {
	if !l.present {
		return ""
	}
	return refCanonical(l.node)
}

// sameValue: the decoded header denotes the body value (integers numerically in plain
// decimal, the rest literally).
func sameValue(n *Node, dec string) bool {
	if n.Kind == "integer" {
		r, ok := new(big.Rat).SetString(dec)
		return ok && r.Cmp(new(big.Rat).SetInt64(n.Int)) == 0
	}
	return dec == refCanonical(n)
}

// validFieldValue: RFC 9110 field-value = visible ASCII plus inner blanks/tabs (obs-text not used by the encoding rules).
func validFieldValue(v string) bool {
	for i := 0; i < len(v); i++ {
		c := v[i]
		if c != '\t' && (c < 0x20 || c > 0x7e) {
			return false
		}
	}
	return v == strings.Trim(v, " \t")
}

func digest(s string) string {
	if len(s) <= 24 {
		return fmt.Sprintf("%q", s)
	}
	return fmt.Sprintf("%q..%d", s[:24], len(s))
}

func mustJSON(v any) string {
	b, err := json.Marshal(v)
	if err != nil {
		return "<" + err.Error() + ">"
	}
	return string(b)
}

// findCall returns the exchange that carried the tools/call request.
func findCall(tr *memhttp.Transport) *memhttp.Exchange {
	for _, ex := range tr.Exchanges() {
		if ex.Method != "POST" {
			continue
		}
		var m struct {
			Method string `json:"method"`
		}
		if json.Unmarshal(ex.Body, &m) == nil && m.Method == "tools/call" {
			return ex
		}
	}
	return nil
}

var agreeProp = vt.Register(&vt.Prop[AgreeScript]{Property: "C12", Name: "agree", Gen: genAgree, Run: runAgree})
