package c12

import (
	"bytes"
	"context"
	"encoding/json"
	"fmt"
	"io"
	"net/http"
	"slices"
	"strings"
	"testing/synctest"
	"time"
	"unicode"

	"github.com/modelcontextprotocol/go-sdk/mcp"
	"github.com/modelcontextprotocol/go-sdk/verif/memhttp"
	"github.com/modelcontextprotocol/go-sdk/verif/vt"
	"pgregory.net/rapid"
)

// GateScript is one raw HTTP request against one of the SDK's HTTP handlers.
// Every field is a literal of the request or a small recipe ("mode") from which
// run() computes a literal; the reference predicate judges the literals only.
type GateScript struct {
	Endpoint string `json:"endpoint"` // stateless | stateful | sse
	JSON     bool   `json:"json"`     // JSONResponse (streamable)
	Verb     string `json:"verb"`     // POST | GET (stateful: standalone stream, sse: session creation)
	Session  string `json:"session"`  // stateful/sse: version of the legacy session the probe belongs to
	Modern   bool   `json:"modern"`   // the body carries the 2026-07-28 per-request _meta
	MetaVer  string `json:"meta_ver"` // version written in _meta (Modern)
	Info     bool   `json:"info"`     // _meta carries clientInfo (Modern)
	RPC      string `json:"rpc"`      // tools/call | tools/list | prompts/get | resources/read
	// EmptyID (stateful endpoint, modern probe): ServerOptions.GetSessionID returns "" - no Mcp-Session-Id is
	// issued and every request gets its own session - which does not turn the endpoint into one that serves 2026-07-28.
	EmptyID bool `json:"empty_id,omitempty"`

	Local  string   `json:"local"`  // local address of the listener ("" = not exposed)
	Host   string   `json:"host"`   // Host of the request
	CT     *string  `json:"ct"`     // Content-Type (nil = absent)
	Accept []string `json:"accept"` // Accept header lines (nil = absent)
	PV     *string  `json:"pv"`     // Mcp-Protocol-Version (nil = absent)
	Size   string   `json:"size"`   // "" (default limit) | limit-1 | limit | limit+1 | limit+100
	// Chunked: the POST body is sent without a declared length (Transfer-Encoding: chunked, or HTTP/2
	// without content-length): the server sees ContentLength == -1.
	Chunked bool `json:"chunked,omitempty"`

	MethodHdr string   `json:"method_hdr"` // none | ok | wrong | case
	NameHdr   string   `json:"name_hdr"`   // none | ok | wrong | case | other
	// DupName: behind its name (tools/call, prompts/get) or uri (resources/read) the params carry a member whose
	// name differs from it only in letter case and whose value names something else that exists ("Name":"other").
	// Member names are case-sensitive: that member is an unknown one and changes nothing.
	DupName bool `json:"dup_name,omitempty"`
	Tool      string   `json:"tool"`
	Nodes     []Node   `json:"nodes"`
	ParamHdr  []string `json:"param_hdr"` // per annotated leaf: none | ok | b64 | plain | wrong | case | badb64 | b64wrong | stray
}

// ---- hand-labelled value pools (label = what the documented rule says about the value) ----

var localAddrs = map[string]bool{ // value -> loopback?
	"127.0.0.1:8080": true, "[::1]:8080": true, "127.0.0.5:9": true,
	"192.168.1.10:8080": false, "0.0.0.0:8080": false, "[2001:db8::1]:443": false, "10.0.0.1:80": false,
}

var hosts = map[string]bool{ // value -> names the local machine (localhost, 127.0.0.0/8, ::1, with or without port)?
	"localhost": true, "localhost:8080": true, "127.0.0.1": true, "127.0.0.1:8080": true, "127.0.0.1:1": true,
	"[::1]": true, "[::1]:8080": true, "127.8.8.8:80": true,
	"evil.com": false, "evil.com:8080": false, "localhost.evil.com": false, "localhost.evil.com:80": false,
	"127.0.0.1.evil.com": false, "127.0.0.1.evil.com:8080": false, "": false, "example.com": false,
	"192.168.1.10:8080": false, "[2001:db8::1]:443": false, "mcp.example": false, "notlocalhost": false,
	"1.1.1.1": false, "0.0.0.0:8080": false, "localhost-evil.com": false, "127.0.0.1-evil.com:80": false,
}

var contentTypes = map[string]bool{ // value -> is application/json?
	"application/json": true, "application/json; charset=utf-8": true, "application/json;charset=UTF-8": true,
	"Application/JSON": true, "APPLICATION/JSON; Charset=utf-8": true, `application/json; profile="x"`: true,
	"text/plain": false, "application/x-www-form-urlencoded": false, "text/json": false, "application/jsonx": false,
	"application/json-seq": false, "json": false, "application/": false, "/json": false, ";": false,
	"application json": false, "multipart/form-data; boundary=x": false, "text/event-stream": false, "*/*": false,
}

var acceptPool = [][]string{
	{"application/json, text/event-stream"}, {"text/event-stream, application/json"}, {"application/json", "text/event-stream"},
	{"*/*"}, {"application/*, text/*"}, {"application/json;q=0.9, text/event-stream;q=0.8"}, {"application/json, text/*"},
	{"APPLICATION/JSON, TEXT/EVENT-STREAM"}, {"text/html, */*;q=0.1"}, {"application/json , text/event-stream ; charset=utf-8"},
	{"text/html", "application/*", "text/event-stream"}, {"application/*,text/event-stream"},
	// not admitting both
	{"application/json"}, {"text/event-stream"}, {"application/*"}, {"text/*"}, {"text/html"},
	{"application/jsonx, text/event-streams"}, {""}, {"application/json; text/event-stream"}, {"text/plain", "text/html"},
	{"application/xml, text/event-stream"}, {"json, event-stream"}, {"application/jsonx, text/event-stream"}, {"json, text/event-stream"},
	{"application/json, text/event-streams"}, {"application/json, event-stream"}, {"application/json+ld, text/event-stream"},
}

var supported = []string{"2026-07-28", "2025-11-25", "2025-06-18", "2025-03-26", "2024-11-05"}
var legacyVersions = supported[1:]
var pvPool = []string{"2026-07-28", "2025-11-25", "2025-06-18", "2025-03-26", "2024-11-05", "2024-01-01", "2099-01-01", "abc", "1.0", "2026-7-28", "2025-06-19"}

// refAccepts: which of the two response media types an Accept header (all lines) admits.
// Media ranges are compared case-insensitively without parameters; type/* and */* are wildcards.
func refAccepts(lines []string) (jsonOK, sseOK bool) {
	for _, line := range lines {
		for _, item := range strings.Split(line, ",") {
			mr := item
			if i := strings.IndexByte(mr, ';'); i >= 0 {
				mr = mr[:i]
			}
			mr = strings.ToLower(strings.TrimFunc(mr, unicode.IsSpace))
			switch mr {
			case "*/*":
				jsonOK, sseOK = true, true
			case "application/json", "application/*":
				jsonOK = true
			case "text/event-stream", "text/*":
				sseOK = true
			}
		}
	}
	return
}

// ---- generator ----

func ptr(s string) *string { return &s }

func genGates(rt *rapid.T) GateScript {
	s := GateScript{Verb: "POST", RPC: "tools/call", MetaVer: modern, MethodHdr: "none", NameHdr: "none"}
	switch rapid.SampledFrom([]string{"stateless-modern", "stateless-modern", "stateless-modern", "stateless-modern", "stateless-modern",
		"stateless-legacy", "stateless-legacy", "stateful-legacy", "stateful-legacy", "stateful-modern", "stateful-get", "sse", "sse", "sse-get"}).Draw(rt, "setup") {
	case "stateless-modern":
		s.Endpoint, s.Modern = "stateless", true
	case "stateless-legacy":
		s.Endpoint = "stateless"
	case "stateful-legacy":
		s.Endpoint = "stateful"
	case "stateful-modern":
		s.Endpoint, s.Modern = "stateful", true
		s.EmptyID = rapid.Bool().Draw(rt, "empty_id")
	case "stateful-get":
		s.Endpoint, s.Verb = "stateful", "GET"
	case "sse":
		s.Endpoint = "sse"
	case "sse-get":
		s.Endpoint, s.Verb = "sse", "GET"
	}
	s.JSON = rapid.Bool().Draw(rt, "json")
	s.Session = rapid.SampledFrom(legacyVersions).Draw(rt, "session")
	s.Info = rapid.Bool().Draw(rt, "info")
	s.RPC = rapid.SampledFrom([]string{"tools/call", "tools/call", "tools/call", "tools/call", "tools/list", "prompts/get", "resources/read"}).Draw(rt, "rpc")
	s.Tool = rapid.SampledFrom([]string{"t", "echo", "Tool.v2", "a-b_c", "T"}).Draw(rt, "tool")
	s.Nodes = genTool(rt, false)

	// which aspects are to be broken (intent only: the verdict comes from the reference predicate)
	dims := []string{"host", "ct"}
	if s.Endpoint != "sse" {
		dims = append(dims, "accept", "pv")
		if s.Verb == "POST" {
			dims = append(dims, "size")
		}
	}
	if s.Modern && s.Endpoint == "stateless" {
		dims = append(dims, "method", "name", "param", "param", "param", "metaver")
	}
	k := rapid.SampledFrom([]int{0, 0, 1, 1, 1, 1, 1, 2, 2, 3}).Draw(rt, "nbroken")
	broken := map[string]bool{}
	for i := 0; i < k; i++ {
		broken[rapid.SampledFrom(dims).Draw(rt, "broken")] = true
	}

	// Host / local address
	var lbLocals, otherLocals, lbHosts, otherHosts []string
	for _, a := range sortedKeys(localAddrs) {
		if localAddrs[a] {
			lbLocals = append(lbLocals, a)
		} else {
			otherLocals = append(otherLocals, a)
		}
	}
	for _, h := range sortedKeys(hosts) {
		if hosts[h] {
			lbHosts = append(lbHosts, h)
		} else {
			otherHosts = append(otherHosts, h)
		}
	}
	if broken["host"] {
		s.Local = rapid.SampledFrom(lbLocals).Draw(rt, "local")
		s.Host = rapid.SampledFrom(otherHosts).Draw(rt, "host")
	} else {
		switch rapid.IntRange(0, 3).Draw(rt, "hostcase") {
		case 0, 1:
			s.Local = rapid.SampledFrom(lbLocals).Draw(rt, "local")
			s.Host = rapid.SampledFrom(lbHosts).Draw(rt, "host")
		case 2:
			s.Local = rapid.SampledFrom(otherLocals).Draw(rt, "local")
			s.Host = rapid.SampledFrom(sortedKeys(hosts)).Draw(rt, "host")
		default:
			s.Local = ""
			s.Host = rapid.SampledFrom(sortedKeys(hosts)).Draw(rt, "host")
		}
	}

	// Content-Type
	var okCT, badCT []string
	for _, c := range sortedKeys(contentTypes) {
		if contentTypes[c] {
			okCT = append(okCT, c)
		} else {
			badCT = append(badCT, c)
		}
	}
	if broken["ct"] {
		if rapid.IntRange(0, 4).Draw(rt, "ctabsent") == 0 {
			s.CT = nil
		} else {
			s.CT = ptr(rapid.SampledFrom(badCT).Draw(rt, "ct"))
		}
	} else {
		s.CT = ptr(rapid.SampledFrom(okCT).Draw(rt, "ct"))
	}

	// Accept
	need := func(a []string) bool {
		j, e := refAccepts(a)
		if s.Verb == "GET" {
			return e
		}
		return j && e
	}
	var okAcc, badAcc [][]string
	for _, a := range acceptPool {
		if need(a) {
			okAcc = append(okAcc, a)
		} else {
			badAcc = append(badAcc, a)
		}
	}
	switch {
	case s.Endpoint == "sse":
		s.Accept = rapid.SampledFrom([][]string{nil, {"*/*"}, {"text/event-stream"}, {"application/json, text/event-stream"}}).Draw(rt, "accept")
	case broken["accept"]:
		if rapid.IntRange(0, 4).Draw(rt, "accabsent") == 0 {
			s.Accept = nil
		} else {
			s.Accept = rapid.SampledFrom(badAcc).Draw(rt, "accept")
		}
	default:
		s.Accept = rapid.SampledFrom(okAcc).Draw(rt, "accept")
	}

	// Mcp-Protocol-Version
	switch {
	case s.Endpoint == "sse":
		s.PV = nil // the 2024-11-05 HTTP+SSE transport knows no version header: not generated
	case s.Modern:
		s.PV = ptr(modern)
		if broken["metaver"] {
			// a version the SDK does not know, or a legacy one (legal in _meta, then mirrored like any other)
			s.MetaVer = rapid.SampledFrom([]string{"2099-01-01", "2099-01-01", "2025-03-26", "2025-03-26", "2025-06-18", "2025-11-25", "2024-11-05"}).Draw(rt, "metaver")
			s.PV = ptr(s.MetaVer)
		}
		if broken["pv"] {
			if rapid.IntRange(0, 3).Draw(rt, "pvabsent") == 0 {
				s.PV = nil
			} else {
				s.PV = ptr(rapid.SampledFrom(pvPool).Draw(rt, "pv")) // may coincide with the valid one
			}
		}
	default:
		okPV := []*string{nil, nil}
		if s.Endpoint == "stateless" {
			for _, v := range legacyVersions {
				okPV = append(okPV, ptr(v))
			}
		} else {
			okPV = append(okPV, ptr(s.Session), ptr(s.Session))
		}
		if broken["pv"] && s.Verb == "GET" {
			// GET carries no body: only versions older than every supported one are unambiguous here
			s.PV = ptr(rapid.SampledFrom([]string{"2024-01-01", "1.0", "2025-06-19"}).Draw(rt, "pv"))
		} else if broken["pv"] {
			s.PV = ptr(rapid.SampledFrom([]string{"2026-07-28", "2024-01-01", "2099-01-01", "abc", "1.0", "2026-7-28", "2025-06-19"}).Draw(rt, "pv"))
		} else {
			s.PV = okPV[rapid.IntRange(0, len(okPV)-1).Draw(rt, "pvok")]
		}
	}

	// body size relative to MaxRequestBodyBytes
	if s.Verb == "POST" && s.Endpoint != "sse" {
		if broken["size"] {
			s.Size = rapid.SampledFrom([]string{"limit+1", "limit+1", "limit+100"}).Draw(rt, "size")
		} else {
			s.Size = rapid.SampledFrom([]string{"", "limit-1", "limit", "limit"}).Draw(rt, "size")
		}
		s.Chunked = rapid.IntRange(0, 2).Draw(rt, "chunked") == 0
	}

	// mirrored headers
	leaves := annotated(s.Nodes)
	s.ParamHdr = make([]string, len(leaves))
	mirrored := s.Modern || rapid.IntRange(0, 3).Draw(rt, "legacy_with_mcp_headers") == 0
	s.DupName = rapid.IntRange(0, 4).Draw(rt, "dup_name") == 0
	if mirrored {
		s.MethodHdr, s.NameHdr = "ok", "ok"
		if broken["method"] {
			s.MethodHdr = rapid.SampledFrom([]string{"none", "wrong", "case"}).Draw(rt, "method_hdr")
		}
		if broken["name"] {
			s.NameHdr = rapid.SampledFrom([]string{"none", "wrong", "case", "other"}).Draw(rt, "name_hdr")
		}
		victim := -1
		if broken["param"] && len(leaves) > 0 {
			victim = rapid.IntRange(0, len(leaves)-1).Draw(rt, "victim")
		}
		for i, l := range leaves {
			mode := "ok"
			if l.present && l.node.Kind == "string" && rapid.IntRange(0, 4).Draw(rt, "b64anyway") == 0 {
				mode = "b64"
			}
			if !l.present {
				mode = "none"
			}
			if i == victim && l.present && rapid.IntRange(0, 4).Draw(rt, "null_with_header") == 0 {
				// the argument is JSON null, yet a header claims a value for it: as stray as one for an absent argument
				l.node.Arg, l.present = "null", false
				leaves[i].present = false
			}
			if i == victim {
				if l.present && l.node.Kind == "string" && rapid.IntRange(0, 3).Draw(rt, "make_lookalike") == 0 {
					l.node.Str, l.node.Rep = rapid.SampledFrom([]string{"=?base64?literal?=", "=?base64??=", "=?base64?YWJj?=", "=?base64?@@?=", "=?base64?YQ?="}).Draw(rt, "lookalike"), 0
				}
				if l.present && l.node.Kind == "string" && lookalike(l.node.str()) {
					// a value that looks like the wrapper must itself be wrapped: "plain" sends it as it is
					mode = rapid.SampledFrom([]string{"plain", "plain", "plain", "wrong", "badb64"}).Draw(rt, "param_hdr")
				} else if l.present {
					mode = rapid.SampledFrom([]string{"none", "wrong", "case", "badb64", "b64wrong"}).Draw(rt, "param_hdr")
				} else {
					mode = "stray"
				}
			}
			s.ParamHdr[i] = mode
		}
	} else {
		for i := range leaves {
			s.ParamHdr[i] = "none"
		}
		if !s.Modern && rapid.Bool().Draw(rt, "legacy_garbage_headers") {
			// earlier protocol versions do not recognise the mirrored headers at all
			s.MethodHdr, s.NameHdr = "wrong", "wrong"
		}
	}
	return s
}

func lookalike(s string) bool { return strings.HasPrefix(s, b64Open) && strings.HasSuffix(s, b64Close) }

func sortedKeys(m map[string]bool) []string {
	out := make([]string, 0, len(m))
	for k := range m {
		out = append(out, k)
	}
	slices.Sort(out)
	return out
}

// ---- building the literal request ----

func swapCase(s string) string {
	return strings.Map(func(r rune) rune {
		switch {
		case unicode.IsUpper(r):
			return unicode.ToLower(r)
		case unicode.IsLower(r):
			return unicode.ToUpper(r)
		}
		return r
	}, s)
}

const (
	promptName  = "p1"
	resourceURI = "file:///r1"
	otherTool   = "other"
)

func (s *GateScript) principal() (string, bool) {
	switch s.RPC {
	case "tools/call":
		return s.Tool, true
	case "prompts/get":
		return promptName, true
	case "resources/read":
		return resourceURI, true
	}
	return "", false
}

func (s *GateScript) body(pad int) []byte {
	var meta []string
	if s.Modern {
		meta = append(meta, fmt.Sprintf(`"io.modelcontextprotocol/protocolVersion":%s`, jsonString(s.MetaVer)))
		meta = append(meta, `"io.modelcontextprotocol/clientCapabilities":{}`)
		if s.Info {
			meta = append(meta, `"io.modelcontextprotocol/clientInfo":{"name":"raw","version":"0"}`)
		}
	}
	if pad >= 0 {
		meta = append(meta, fmt.Sprintf(`"pad":"%s"`, strings.Repeat("x", pad)))
	}
	var params []string
	if len(meta) > 0 {
		params = append(params, `"_meta":{`+strings.Join(meta, ",")+`}`)
	}
	switch s.RPC {
	case "tools/call":
		params = append(params, fmt.Sprintf(`"name":%s`, jsonString(s.Tool)), `"arguments":`+rawArgs(s.Nodes))
		if s.DupName {
			params = append(params, fmt.Sprintf(`"Name":%q`, otherTool))
		}
	case "prompts/get":
		params = append(params, fmt.Sprintf(`"name":%q`, promptName))
		if s.DupName {
			params = append(params, `"NAME":"another-prompt"`)
		}
	case "resources/read":
		params = append(params, fmt.Sprintf(`"uri":%q`, resourceURI))
		if s.DupName {
			params = append(params, `"URI":"file:///another"`)
		}
	}
	return []byte(fmt.Sprintf(`{"jsonrpc":"2.0","id":1,"method":%q,"params":{%s}}`, s.RPC, strings.Join(params, ",")))
}

const (
	limitSlack = 64
	minLimit   = 256
)

// literal computes body, body-size limit and header of the probe.
func (s *GateScript) literal(sessionID string) (body []byte, limit int64, h http.Header) {
	h = http.Header{}
	if s.Verb == "POST" {
		switch s.Size {
		case "":
			body = s.body(-1)
		default:
			base := len(s.body(0))
			slack := max(limitSlack, minLimit-base) // the session set-up requests must fit as well
			limit = int64(base + slack)
			delta := map[string]int{"limit-1": -1, "limit": 0, "limit+1": 1, "limit+100": 100}[s.Size]
			body = s.body(slack + delta)
		}
	}
	if s.CT != nil {
		h.Set("Content-Type", *s.CT)
	}
	for _, a := range s.Accept {
		h.Add("Accept", a)
	}
	if s.PV != nil {
		h.Set("Mcp-Protocol-Version", *s.PV)
	}
	if sessionID != "" {
		h.Set("Mcp-Session-Id", sessionID)
	}
	if s.Verb != "POST" {
		return
	}
	switch s.MethodHdr {
	case "ok":
		h.Set("Mcp-Method", s.RPC)
	case "wrong":
		if s.RPC == "tools/list" {
			h.Set("Mcp-Method", "tools/call")
		} else {
			h.Set("Mcp-Method", "tools/list")
		}
	case "case":
		h.Set("Mcp-Method", swapCase(s.RPC))
	}
	if name, ok := s.principal(); ok {
		switch s.NameHdr {
		case "ok":
			h.Set("Mcp-Name", name)
		case "wrong":
			h.Set("Mcp-Name", name+"x")
		case "case":
			h.Set("Mcp-Name", swapCase(name))
		case "other":
			h.Set("Mcp-Name", otherTool)
		}
	}
	if s.RPC == "tools/call" {
		for i, l := range annotated(s.Nodes) {
			if i >= len(s.ParamHdr) {
				break
			}
			key := "Mcp-Param-" + l.node.Header
			if !l.present {
				if s.ParamHdr[i] == "stray" {
					h.Set(key, "stray")
				}
				continue
			}
			v := refCanonical(l.node)
			switch s.ParamHdr[i] {
			case "ok", "stray":
				h.Set(key, refEncode(v))
			case "b64":
				h.Set(key, refWrap(v))
			case "plain":
				if l.node.Kind == "string" && lookalike(v) {
					h.Set(key, v)
				} else {
					h.Set(key, refEncode(v))
				}
			case "wrong":
				w := v + "x"
				switch l.node.Kind {
				case "boolean":
					w = fmt.Sprint(!l.node.Bool)
				case "integer":
					if l.node.Int == maxSafe {
						w = fmt.Sprint(l.node.Int - 1)
					} else {
						w = fmt.Sprint(l.node.Int + 1)
					}
				}
				h.Set(key, refEncode(w))
			case "case":
				if l.node.Kind == "string" {
					h.Set(key, refEncode(swapCase(v)))
				} else {
					h.Set(key, refEncode(v))
				}
			case "badb64":
				h.Set(key, b64Open+"@@not base64@@"+b64Close)
			case "b64wrong":
				h.Set(key, refWrap(v+"y"))
			}
		}
	}
	return
}

// ---- the reference predicate ----

// violation is one broken precondition with what the documentation mandates for it.
type violation struct {
	what   string
	status int
	codes  []int // acceptable JSON-RPC error codes if the answer carries one (nil: any answer with that status)
	// any4xx: no documentation or specification fixes the status of this refusal (415 and 400 are what the
	// SDK answers today; 406, 400, 415 would all be refusals): any client-error status is accepted.
	any4xx bool
}

const (
	codeHeaderMismatch = -32020
	codeInvalidParams  = -32602
	codeUnsupportedVer = -32022
)

// judge lists the documented preconditions the literal request breaks.
func judge(s *GateScript, body []byte, limit int64, h http.Header) []violation {
	var v []violation
	// 1. a listener bound to a loopback address only serves requests whose Host names the local machine
	if s.Local != "" && localAddrs[s.Local] && !hosts[s.Host] {
		v = append(v, violation{"host", 403, nil, false})
	}
	if s.Endpoint == "sse" {
		if s.Verb == "POST" {
			if ct, ok := h["Content-Type"]; !ok || !contentTypes[ct[0]] {
				v = append(v, violation{"content-type", 415, nil, true})
			}
		}
		return v
	}
	// 2..4 streamable
	jsonOK, sseOK := refAccepts(h["Accept"])
	pv, hasPV := "", false
	if vals, ok := h["Mcp-Protocol-Version"]; ok {
		pv, hasPV = vals[0], true
	}
	if s.Verb == "GET" {
		if !sseOK {
			v = append(v, violation{"accept", 400, nil, true})
		}
		if hasPV && !slices.Contains(supported, pv) {
			v = append(v, violation{"version-unsupported", 400, nil, false})
		}
		return v
	}
	if ct, ok := h["Content-Type"]; !ok || !contentTypes[ct[0]] {
		v = append(v, violation{"content-type", 415, nil, true})
	}
	if !jsonOK || !sseOK {
		v = append(v, violation{"accept", 400, nil, true})
	}
	if limit > 0 && int64(len(body)) > limit {
		v = append(v, violation{"size", 413, nil, false})
	}
	// 5. protocol version: what the body says and what the header declares
	var msg struct {
		Method string `json:"method"`
		Params struct {
			Meta      map[string]any             `json:"_meta"`
			Name      string                     `json:"name"`
			URI       string                     `json:"uri"`
			Arguments map[string]json.RawMessage `json:"arguments"`
		} `json:"params"`
	}
	// (member names are matched exactly: encoding/json would fold "Name" onto "name")
	var outer struct {
		Method string                     `json:"method"`
		Params map[string]json.RawMessage `json:"params"`
	}
	if err := json.Unmarshal(body, &outer); err != nil {
		panic("judge: own body does not parse: " + err.Error())
	}
	msg.Method = outer.Method
	json.Unmarshal(outer.Params["_meta"], &msg.Params.Meta)
	json.Unmarshal(outer.Params["name"], &msg.Params.Name)
	json.Unmarshal(outer.Params["uri"], &msg.Params.URI)
	json.Unmarshal(outer.Params["arguments"], &msg.Params.Arguments)
	metaVer, _ := msg.Params.Meta["io.modelcontextprotocol/protocolVersion"].(string)
	if hasPV && !slices.Contains(supported, pv) {
		v = append(v, violation{"version-unsupported", 400, nil, false})
	}
	if metaVer != "" && !slices.Contains(supported, metaVer) {
		v = append(v, violation{"version-unsupported", 400, []int{codeUnsupportedVer}, false})
	}
	declaredModern := metaVer >= modern || (hasPV && pv >= modern)
	if declaredModern && s.Endpoint == "stateful" {
		// 2026-07-28 is served by stateless endpoints only (C07's business; accepted as is)
		v = append(v, violation{"modern-on-stateful", 400, nil, false})
	}
	if metaVer != "" && (!hasPV || pv != metaVer) {
		v = append(v, violation{"version-mirror", 400, []int{codeHeaderMismatch}, false})
	}
	if metaVer == "" && hasPV && pv >= modern {
		// header declares the per-request protocol but the body carries no version to mirror
		v = append(v, violation{"version-mirror", 400, []int{codeHeaderMismatch, codeInvalidParams}, false})
	}
	// 6. mirrored headers, only under 2026-07-28
	if !(hasPV && pv >= modern && metaVer == pv) {
		return v
	}
	mismatch := func(what string) { v = append(v, violation{what, 400, []int{codeHeaderMismatch}, false}) }
	if m, ok := h["Mcp-Method"]; !ok || m[0] != msg.Method {
		mismatch("mcp-method")
	}
	var principal string
	switch msg.Method {
	case "tools/call", "prompts/get":
		principal = msg.Params.Name
	case "resources/read":
		principal = msg.Params.URI
	}
	if msg.Method != "tools/list" {
		if n, ok := h["Mcp-Name"]; !ok || n[0] != principal {
			mismatch("mcp-name")
		}
	}
	if msg.Method == "tools/call" && principal == s.Tool {
		for _, l := range annotated(s.Nodes) {
			vals, has := h[http.CanonicalHeaderKey("Mcp-Param-"+l.node.Header)]
			switch {
			case !l.present && has:
				mismatch("mcp-param-stray")
			case l.present && !has:
				mismatch("mcp-param-missing")
			case l.present:
				dec, ok := refDecode(vals[0])
				if !ok {
					mismatch("mcp-param-bad-base64")
				} else if dec != refCanonical(l.node) {
					mismatch("mcp-param-value")
				}
			}
		}
	}
	return v
}

// exotic reports whether the (flawless) probe uses a form the SDK's own client never produces. The property
// demands that bad requests are stopped and that the SDK client's requests pass; a server that is stricter
// about such forms (literal media types only, canonical encodings only, declared lengths only, ...) satisfies
// it, so for these a clean refusal is accepted next to being served.
func (s *GateScript) exotic(h http.Header) bool {
	for _, line := range h["Accept"] {
		for _, item := range strings.Split(line, ",") {
			if m := strings.TrimSpace(item); m != "application/json" && m != "text/event-stream" {
				return true // wildcards, parameters, other media types, unusual case
			}
		}
	}
	if ct, ok := h["Content-Type"]; ok && ct[0] != "application/json" {
		return true
	}
	if s.Chunked || (s.Modern && s.MetaVer < modern) {
		return true // body of undeclared length; a legacy version inside the per-request _meta
	}
	for i, l := range annotated(s.Nodes) {
		if i < len(s.ParamHdr) && s.ParamHdr[i] == "b64" && l.present && !refNeedsBase64(refCanonical(l.node)) {
			return true // base64 wrapper around a value that does not need one
		}
	}
	return false
}

// ---- execution ----

func runGates(s GateScript) (res vt.Result) {
	if p := vt.Bubble(theT, func() { res = runGatesInBubble(s) }); p != "" {
		res.Class("teardown_leftover")
	}
	return res
}

type rawPeer struct {
	tr *memhttp.Transport
}

// do sends one request and returns its exchange once everything has settled.
func (p *rawPeer) do(verb, target, host string, h http.Header, body []byte) *memhttp.Exchange {
	return p.doLen(verb, target, host, h, body, false)
}

func (p *rawPeer) doLen(verb, target, host string, h http.Header, body []byte, unknownLength bool) *memhttp.Exchange {
	var rd io.Reader
	if body != nil {
		rd = bytes.NewReader(body)
	}
	req, err := http.NewRequestWithContext(context.Background(), verb, target, rd)
	if err != nil {
		panic(err)
	}
	req.Header = h.Clone()
	req.Host = host
	if unknownLength && body != nil {
		req.ContentLength = -1
	}
	before := len(p.tr.Exchanges())
	go func() {
		resp, err := p.tr.RoundTrip(req)
		if err == nil {
			io.Copy(io.Discard, resp.Body)
			resp.Body.Close()
		}
	}()
	synctest.Wait()
	exs := p.tr.Exchanges()
	if len(exs) <= before {
		return nil
	}
	return exs[before]
}

// rpcAnswer extracts the JSON-RPC response (if any) an exchange carries.
type rpcAnswer struct {
	found  bool
	code   *int
	result bool
}

func parseAnswer(ct string, data []byte) (a rpcAnswer) {
	try := func(b []byte) {
		var m struct {
			ID     json.RawMessage `json:"id"`
			Result json.RawMessage `json:"result"`
			Error  *struct {
				Code int `json:"code"`
			} `json:"error"`
			Method string `json:"method"`
		}
		if json.Unmarshal(b, &m) != nil || m.Method != "" || (m.Result == nil && m.Error == nil) {
			return
		}
		a.found = true
		if m.Error != nil {
			a.code = &m.Error.Code
		} else {
			a.result = true
		}
	}
	if strings.HasPrefix(ct, "text/event-stream") {
		for _, ev := range memhttp.ParseSSE(data) {
			if ev.Data != "" && (ev.Name == "" || ev.Name == "message") {
				try([]byte(ev.Data))
			}
		}
		return
	}
	try(bytes.TrimSpace(data))
	return
}

func runGatesInBubble(s GateScript) (res vt.Result) {
	rec := newRecord()
	var sopts *mcp.ServerOptions
	if s.EmptyID {
		sopts = &mcp.ServerOptions{GetSessionID: func() string { return "" }}
		res.Class("stateful_endpoint_that_issues_no_session_id")
	}
	server := mcp.NewServer(&mcp.Implementation{Name: "srv", Version: "1"}, sopts)
	server.AddReceivingMiddleware(rec.middleware)
	server.AddTool(&mcp.Tool{Name: s.Tool, InputSchema: schemaOf(s.Nodes, true)}, rec.tool(s.Tool))
	server.AddTool(&mcp.Tool{Name: otherTool, InputSchema: map[string]any{"type": "object"}}, rec.tool(otherTool))
	server.AddPrompt(&mcp.Prompt{Name: promptName}, func(context.Context, *mcp.GetPromptRequest) (*mcp.GetPromptResult, error) {
		return &mcp.GetPromptResult{Messages: []*mcp.PromptMessage{{Role: "user", Content: &mcp.TextContent{Text: "hi"}}}}, nil
	})
	server.AddResource(&mcp.Resource{URI: resourceURI, Name: "r1"}, func(context.Context, *mcp.ReadResourceRequest) (*mcp.ReadResourceResult, error) {
		return &mcp.ReadResourceResult{Contents: []*mcp.ResourceContents{{URI: resourceURI, Text: "data"}}}, nil
	})

	_, limit, _ := s.literal("")
	getServer := func(*http.Request) *mcp.Server { return server }
	var handler http.Handler
	target := "/mcp"
	if s.Endpoint == "sse" {
		handler = mcp.NewSSEHandler(getServer, nil)
		target = "/sse"
	} else {
		handler = mcp.NewStreamableHTTPHandler(getServer, &mcp.StreamableHTTPOptions{
			Stateless: s.Endpoint == "stateless", JSONResponse: s.JSON, MaxRequestBodyBytes: limit})
	}
	setup := &rawPeer{tr: &memhttp.Transport{Handler: handler}} // no local address: the Host check does not apply
	probe := &rawPeer{tr: &memhttp.Transport{Handler: handler}}
	if s.Local != "" {
		probe.tr.LocalAddr = memhttp.Addr(s.Local)
	}
	defer func() {
		for _, tr := range []*memhttp.Transport{setup.tr, probe.tr} {
			for _, ex := range tr.Exchanges() {
				if !ex.HandlerDone() {
					ex.Cut(memhttp.ErrCut)
				}
			}
		}
		for ss := range server.Sessions() {
			go ss.Close()
		}
		synctest.Wait()
		time.Sleep(10 * time.Second)
		synctest.Wait()
	}()

	// establish the legacy session the probe belongs to
	okHdr := http.Header{"Content-Type": {"application/json"}, "Accept": {"application/json, text/event-stream"}}
	initBody := []byte(fmt.Sprintf(`{"jsonrpc":"2.0","id":"hs","method":"initialize","params":{"protocolVersion":%q,"capabilities":{},"clientInfo":{"name":"raw","version":"0"}}}`, s.Session))
	initialized := []byte(`{"jsonrpc":"2.0","method":"notifications/initialized"}`)
	sessionID := ""
	var sseGet *memhttp.Exchange
	switch {
	case s.Endpoint == "stateful" && !s.Modern:
		ex := setup.do("POST", target, "mcp.example", okHdr, initBody)
		if ex == nil || ex.Status() != 200 {
			res.Failf("harness: initialize on the stateful endpoint failed")
			return
		}
		sessionID = ex.RespHeader().Get("Mcp-Session-Id")
		h2 := okHdr.Clone()
		h2.Set("Mcp-Session-Id", sessionID)
		if ex := setup.do("POST", target, "mcp.example", h2, initialized); ex == nil || ex.Status() != 202 {
			res.Failf("harness: initialized notification on the stateful endpoint failed")
			return
		}
	case s.Endpoint == "sse" && s.Verb == "POST":
		sseGet = setup.do("GET", target, "mcp.example", http.Header{}, nil)
		if sseGet == nil || sseGet.Status() != 200 {
			res.Failf("harness: SSE GET failed")
			return
		}
		evs := memhttp.ParseSSE(sseGet.Written())
		// (other events next to it - a keep-alive, a retry hint - do not spoil the set-up)
		ep := slices.IndexFunc(evs, func(e memhttp.SSEvent) bool { return e.Name == "endpoint" })
		if ep < 0 {
			res.Failf("harness: SSE GET did not announce an endpoint event: %q", sseGet.Written())
			return
		}
		target = evs[ep].Data
		if !strings.HasPrefix(target, "/") {
			target = "/sse" + target
		}
		if ex := setup.do("POST", target, "mcp.example", okHdr, initBody); ex == nil || ex.Status() != 202 {
			res.Failf("harness: SSE initialize failed")
			return
		}
		if ex := setup.do("POST", target, "mcp.example", okHdr, initialized); ex == nil || ex.Status() != 202 {
			res.Failf("harness: SSE initialized failed")
			return
		}
	}
	seenEvents := 0
	if sseGet != nil {
		seenEvents = len(memhttp.ParseSSE(sseGet.Written()))
	}
	sessionsBefore := 0
	for range server.Sessions() {
		sessionsBefore++
	}
	methodsBefore, callsBefore := rec.total()

	// the probe
	body, limit, h := s.literal(sessionID)
	viol := judge(&s, body, limit, h)
	ex := probe.doLen(s.Verb, target, s.Host, h, body, s.Chunked)
	if s.Chunked {
		res.Class("body_without_declared_length")
	}
	if ex == nil {
		res.Failf("harness: the probe produced no exchange")
		return
	}
	status := ex.Status()
	ct := ex.RespHeader().Get("Content-Type")
	ans := parseAnswer(ct, ex.Written())
	methodsAfter, callsAfter := rec.total()
	reached := methodsAfter != methodsBefore || callsAfter != callsBefore

	// descriptor
	var whats []string
	for _, v := range viol {
		if !slices.Contains(whats, v.what) {
			whats = append(whats, v.what)
		}
	}
	setupName := fmt.Sprintf("%s-%s-%s", s.Endpoint, strings.ToLower(s.Verb), map[bool]string{true: "modern", false: "legacy"}[s.Modern])
	res.Class("setup_" + setupName)
	res.Class(fmt.Sprintf("violations_%d", len(whats)))
	for _, w := range whats {
		res.Class("broken_" + w)
	}
	if len(whats) == 1 {
		res.Class("single_" + whats[0])
	}
	res.NonTrivial = len(whats) == 1
	res.Desc = fmt.Sprintf("%s|%v|%s|%s|%q|%q|%v|%q|%v|%s|%s|%s|%v|%v", setupName, s.JSON, s.RPC, s.MetaVer, s.Local, s.Host, deref(s.CT), s.Accept, deref(s.PV), s.Size, s.MethodHdr, s.NameHdr, s.ParamHdr, whats)

	describe := func() string {
		return fmt.Sprintf("%s %s Host=%q local=%q header=%v body(%d bytes, limit %d)=%s", s.Verb, target, s.Host, s.Local, h, len(body), limit, clip(body))
	}

	if len(viol) > 0 {
		matched := false
		for _, v := range viol {
			if status != v.status && !(v.any4xx && status >= 400 && status <= 499) {
				continue
			}
			if v.codes == nil || (ans.code != nil && slices.Contains(v.codes, *ans.code)) {
				matched = true
			}
		}
		if !matched {
			code := "none"
			if ans.code != nil {
				code = fmt.Sprint(*ans.code)
			}
			res.Failf("request breaking %v was answered HTTP %d (JSON-RPC error code %s): %s\n  request: %s", whats, status, code, clip(ex.Written()), describe())
		}
		if reached {
			res.Failf("request breaking %v reached the server (receiving middleware saw %d messages, tool handlers ran %d times)\n  request: %s", whats, methodsAfter-methodsBefore, callsAfter-callsBefore, describe())
		}
		if s.Endpoint == "sse" && s.Verb == "GET" {
			n := 0
			for range server.Sessions() {
				n++
			}
			if n != sessionsBefore {
				res.Failf("request breaking %v created a server session\n  request: %s", whats, describe())
			}
		}
		return res
	}

	// The request meets every precondition: it must be served and reach the handler.
	if s.exotic(h) && status >= 400 && status <= 499 && !reached {
		res.Class("exotic_valid_form_refused") // see exotic(): accepted, and nothing reached the server
		return res
	}
	if s.Verb == "GET" {
		if status != 200 || !strings.HasPrefix(ct, "text/event-stream") {
			res.Failf("valid GET was answered HTTP %d (%s): %s\n  request: %s", status, ct, clip(ex.Written()), describe())
		}
		return res
	}
	if status < 200 || status > 299 {
		code := ""
		if ans.code != nil {
			code = fmt.Sprintf(" (JSON-RPC error %d)", *ans.code)
		}
		res.Failf("request meeting every precondition was answered HTTP %d%s: %s\n  request: %s", status, code, clip(ex.Written()), describe())
		return res
	}
	if s.Endpoint == "sse" {
		evs := memhttp.ParseSSE(sseGet.Written())
		ans = rpcAnswer{}
		for _, ev := range evs[min(seenEvents, len(evs)):] {
			if a := parseAnswer("application/json", []byte(ev.Data)); a.found {
				ans = a
			}
		}
	}
	if !ans.found || !ans.result {
		res.Failf("request meeting every precondition got no result (HTTP %d): %s\n  request: %s", status, clip(ex.Written()), describe())
	}
	if methodsAfter-methodsBefore != 1 {
		res.Failf("request meeting every precondition: the receiving middleware saw %d messages, want 1\n  request: %s", methodsAfter-methodsBefore, describe())
	}
	wantCalls := 0
	if s.RPC == "tools/call" {
		wantCalls = 1
	}
	if callsAfter-callsBefore != wantCalls {
		res.Failf("request meeting every precondition: tool handlers ran %d times, want %d\n  request: %s", callsAfter-callsBefore, wantCalls, describe())
	}
	return res
}

func deref(p *string) string {
	if p == nil {
		return "<absent>"
	}
	return *p
}

func clip(b []byte) string {
	if len(b) > 400 {
		return fmt.Sprintf("%s...(%d bytes)", b[:400], len(b))
	}
	return string(b)
}

var gatesProp = vt.Register(&vt.Prop[GateScript]{Property: "C12", Name: "gates", Gen: genGates, Run: runGates})
