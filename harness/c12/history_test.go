package c12

// TestC12_History: the agreement direction over a client's whole history. A 2026-07-28 client learns tool
// definitions page by page, calls tools in between, lists again after the server has replaced, removed or
// added tools, and calls again. Whenever the client has listed a tool since the server's latest change (in a
// complete traversal of the pages, or in the traversal under way), a call with arguments valid under its
// schema must reach the handler with exactly those arguments: the headers the client derives from what it
// knows agree with what the server checks. (Calls made on an outdated or unknown definition - every real
// caller lists before it calls - are made, counted and not judged.)

import (
	"context"
	"encoding/json"
	"errors"
	"fmt"
	"sort"
	"strings"
	"sync"
	"testing"
	"testing/synctest"
	"time"

	"github.com/modelcontextprotocol/go-sdk/jsonrpc"
	"github.com/modelcontextprotocol/go-sdk/mcp"
	"github.com/modelcontextprotocol/go-sdk/verif/vt"
	"github.com/modelcontextprotocol/go-sdk/verif/wire"
	"pgregory.net/rapid"
)

type HStep struct {
	Kind  string `json:"kind"`            // list (first page) | page (next page of the traversal, or first) | all (every page) | call | replace | remove | add
	Name  string `json:"name,omitempty"`  // call, replace, remove, add
	Nodes []Node `json:"nodes,omitempty"` // replace, add: the tool's new definition and the arguments used for it
	Form  string `json:"form,omitempty"`  // call: raw | go
}

type HistScript struct {
	PageSize int               `json:"page_size"`
	JSON     bool              `json:"json"`
	Listen   bool              `json:"listen"` // the client has a ToolListChangedHandler: list-changed notifications empty its cache
	Tools    map[string][]Node `json:"tools"`  // registered before the client connects
	Steps    []HStep           `json:"steps"`
}

var histNames = []string{"a", "b", "c", "d", "e"}

func genHist(rt *rapid.T) HistScript {
	s := HistScript{
		PageSize: rapid.IntRange(1, 3).Draw(rt, "page_size"),
		JSON:     rapid.Bool().Draw(rt, "json"),
		Listen:   rapid.IntRange(0, 3).Draw(rt, "listen") == 0,
		Tools:    map[string][]Node{},
	}
	cur := map[string]bool{}
	for _, n := range rapid.SliceOfNDistinct(rapid.SampledFrom(histNames), 1, 4, rapid.ID[string]).Draw(rt, "initial") {
		s.Tools[n] = genTool(rt, true)
		cur[n] = true
	}
	names := func() []string {
		var out []string
		for n := range cur {
			out = append(out, n)
		}
		sort.Strings(out)
		return out
	}
	n := rapid.IntRange(2, 12).Draw(rt, "steps")
	for i := 0; i < n; i++ {
		// callduring: the call is made while a re-listing of the first page is on its way (another goroutine
		// of the application refreshes its view of the tools)
		kinds := []string{"list", "page", "page", "all", "all", "call", "call", "call", "callduring"}
		if len(cur) > 0 {
			kinds = append(kinds, "replace", "replace", "remove")
		}
		if len(cur) < len(histNames) {
			kinds = append(kinds, "add")
		}
		st := HStep{Kind: rapid.SampledFrom(kinds).Draw(rt, "kind")}
		switch st.Kind {
		case "call", "callduring":
			if len(cur) == 0 {
				continue
			}
			st.Name = rapid.SampledFrom(names()).Draw(rt, "name")
			st.Form = rapid.SampledFrom([]string{"raw", "raw", "go"}).Draw(rt, "form")
		case "replace":
			st.Name = rapid.SampledFrom(names()).Draw(rt, "name")
			st.Nodes = genTool(rt, true)
		case "remove":
			st.Name = rapid.SampledFrom(names()).Draw(rt, "name")
			delete(cur, st.Name)
		case "add":
			var free []string
			for _, n := range histNames {
				if !cur[n] {
					free = append(free, n)
				}
			}
			st.Name = rapid.SampledFrom(free).Draw(rt, "name")
			st.Nodes = genTool(rt, true)
			cur[st.Name] = true
		}
		s.Steps = append(s.Steps, st)
	}
	return s
}

func runHist(s HistScript) (res vt.Result) {
	if p := vt.Bubble(theT, func() { res = runHistInBubble(s) }); p != "" {
		res.Class("teardown_leftover") // C05's business
	}
	return res
}

func runHistInBubble(s HistScript) (res vt.Result) {
	rec := newRecord()
	server := mcp.NewServer(&mcp.Implementation{Name: "srv", Version: "1"}, &mcp.ServerOptions{PageSize: s.PageSize})
	server.AddReceivingMiddleware(rec.middleware)
	type def struct {
		ver   int
		nodes []Node
	}
	defs := map[string]*def{}
	vers := 0
	register := func(name string, nodes []Node) {
		vers++
		defs[name] = &def{ver: vers, nodes: nodes}
		server.AddTool(&mcp.Tool{Name: name, InputSchema: schemaOf(nodes, true)}, rec.tool(name))
	}
	var initial []string
	for n := range s.Tools {
		initial = append(initial, n)
	}
	sort.Strings(initial)
	for _, n := range initial {
		register(n, s.Tools[n])
	}
	link, err := wire.New(server, wire.Config{Kind: wire.Stateless, JSON: s.JSON, NoStandalone: true})
	if err != nil {
		res.Failf("harness: building link: %v", err)
		return
	}
	copts := &mcp.ClientOptions{}
	var cs *mcp.ClientSession
	var hmu sync.Mutex
	relistedAt := 0 // clock at which the handler's own complete listing began (0: none yet)
	var relistedSeen map[string]bool
	var relist func() // set below: lists every page inside the list-changed handler
	if s.Listen {
		copts.ToolListChangedHandler = func(context.Context, *mcp.ToolListChangedRequest) {
			if relist != nil {
				relist()
			}
		}
	}
	client := mcp.NewClient(&mcp.Implementation{Name: "cli", Version: "1"}, copts)
	// holdList: the next tools/list request waits here (its answer is on its way) until released
	var holdList chan struct{}
	var held chan struct{}
	client.AddSendingMiddleware(func(next mcp.MethodHandler) mcp.MethodHandler {
		return func(ctx context.Context, method string, req mcp.Request) (mcp.Result, error) {
			if method == "tools/list" {
				hmu.Lock()
				h, sig := holdList, held
				holdList, held = nil, nil
				hmu.Unlock()
				if h != nil {
					close(sig)
					<-h
				}
			}
			return next(ctx, method, req)
		}
	})

	// do runs f (a blocking client operation) and waits for it in virtual time.
	do := func(f func()) bool {
		done := make(chan struct{})
		go func() { f(); close(done) }()
		for i := 0; i < 120; i++ {
			synctest.Wait()
			select {
			case <-done:
				return true
			default:
				time.Sleep(time.Second)
			}
		}
		return false
	}
	var cerr error
	if !do(func() { cs, cerr = client.Connect(context.Background(), link.ClientTransport, nil) }) || cerr != nil {
		res.Failf("harness: connect: returned=%v err=%v", cs != nil, cerr)
		return
	}
	defer func() {
		go cs.Close()
		for ss := range server.Sessions() {
			go ss.Close()
		}
		synctest.Wait()
		time.Sleep(10 * time.Second)
		synctest.Wait()
	}()
	if got := cs.InitializeResult().ProtocolVersion; got < modern {
		res.Failf("harness: expected a %s session over a stateless link, negotiated %q", modern, got)
		return
	}

	// What the client has been shown, in terms of traversals (following cursors from the first page). A server
	// change (and, with Listen, the notification that empties the client's cache) outdates everything fetched
	// before it. A call is judged when the tool was listed (1) in a traversal that ran from the first page to
	// the last entirely after the latest change, or (2) in the traversal now under way, begun after that change.
	clock := 0
	lastChange := 0                 // clock of the latest server-side change
	travStart := 0                  // clock at which the traversal under way fetched its first page (0: none)
	travSeen := map[string]bool{}   // tools listed by it so far
	doneStart := 0                  // the same for the latest traversal that reached the last page
	doneSeen := map[string]bool{}   //
	cursor, traversing := "", false // where the traversal under way continues
	fetch := func(cur string) (next string, ok bool) {
		clock++
		if cur == "" {
			travStart, travSeen = clock, map[string]bool{}
		}
		var lt *mcp.ListToolsResult
		var err error
		if !do(func() { lt, err = cs.ListTools(context.Background(), &mcp.ListToolsParams{Cursor: cur}) }) {
			res.Failf("ListTools(cursor %q) did not return", cur)
			return "", false
		}
		if err != nil {
			// a cursor that went stale (its item was removed) may be refused: the traversal is over
			res.Class("list_page_refused")
			travStart = 0
			return "", false
		}
		for _, t := range lt.Tools {
			travSeen[t.Name] = true
		}
		if lt.NextCursor == "" && travStart != 0 {
			doneStart, doneSeen = travStart, travSeen
		}
		return lt.NextCursor, true
	}
	known := func(name string) bool {
		hmu.Lock()
		inHandler := relistedAt == lastChange && relistedAt != 0 && relistedSeen[name]
		hmu.Unlock()
		return (doneStart > lastChange && doneSeen[name]) || (travStart > lastChange && travSeen[name]) || inHandler
	}
	// relist is what the list-changed handler does: it lists every page at once, inside the handler. It was
	// told about the latest change, so what it lists is the client's knowledge since that change.
	relist = func() {
		hmu.Lock()
		after := lastChange
		hmu.Unlock()
		seen := map[string]bool{}
		cur := ""
		for k := 0; k < 20; k++ {
			lt, err := cs.ListTools(context.Background(), &mcp.ListToolsParams{Cursor: cur})
			if err != nil {
				return
			}
			for _, t := range lt.Tools {
				seen[t.Name] = true
			}
			if lt.NextCursor == "" {
				hmu.Lock()
				relistedAt, relistedSeen = after, seen
				hmu.Unlock()
				return
			}
			cur = lt.NextCursor
		}
	}
	changed := func() {
		clock++
		hmu.Lock()
		lastChange = clock
		hmu.Unlock()
		if s.Listen {
			// the server tells the client (debounced); the client then forgets what it had cached
			time.Sleep(time.Second)
			synctest.Wait()
		}
	}
	var desc strings.Builder
	judged, unjudged := 0, 0
	for i, st := range s.Steps {
		switch st.Kind {
		case "list":
			next, ok := fetch("")
			cursor, traversing = next, ok && next != ""
			desc.WriteString("L")
		case "page":
			cur := ""
			if traversing {
				cur = cursor
			}
			next, ok := fetch(cur)
			cursor, traversing = next, ok && next != ""
			desc.WriteString("P")
		case "all":
			cur := ""
			for k := 0; k < 20; k++ {
				next, ok := fetch(cur)
				if !ok || next == "" {
					break
				}
				cur = next
			}
			cursor, traversing = "", false
			desc.WriteString("A")
		case "replace", "add":
			register(st.Name, st.Nodes)
			changed()
			desc.WriteString(map[string]string{"replace": "R", "add": "+"}[st.Kind])
		case "remove":
			server.RemoveTools(st.Name)
			delete(defs, st.Name)
			changed()
			desc.WriteString("-")
		case "call", "callduring":
			d := defs[st.Name]
			if d == nil {
				break
			}
			wasKnown := known(st.Name)
			var release chan struct{}
			var listDone chan struct{}
			if st.Kind == "callduring" {
				// another goroutine of the application re-lists the first page; its request is on its way
				// (held in the client's sending middleware) while the call is made
				h, sig := make(chan struct{}), make(chan struct{})
				hmu.Lock()
				holdList, held = h, sig
				hmu.Unlock()
				listDone = make(chan struct{})
				go func() {
					cs.ListTools(context.Background(), &mcp.ListToolsParams{})
					close(listDone)
				}()
				synctest.Wait()
				select {
				case <-sig:
					release = h
					res.Class("call_made_while_a_relisting_is_on_its_way")
				default:
					hmu.Lock()
					holdList, held = nil, nil
					hmu.Unlock()
				}
			}
			var args any = json.RawMessage(rawArgs(d.nodes))
			if st.Form == "go" {
				args = goArgs(d.nodes)
			}
			rec.mu.Lock()
			before := len(rec.calls[st.Name])
			rec.mu.Unlock()
			var ct *mcp.CallToolResult
			var err error
			if !do(func() {
				ct, err = cs.CallTool(context.Background(), &mcp.CallToolParams{Name: st.Name, Arguments: args})
			}) {
				res.Failf("step %d: CallTool(%s) did not return", i, st.Name)
				return
			}
			if release != nil {
				close(release)
			}
			if listDone != nil {
				do(func() { <-listDone })
				// (what that listing of the first page taught the client is not modelled: a traversal under way is over)
				travStart, traversing = 0, false
			}
			if !wasKnown {
				// the client was never shown this definition, or only before the server's latest change
				unjudged++
				desc.WriteString("c")
				break
			}
			judged++
			desc.WriteString("C")
			if len(annotated(d.nodes)) > 0 {
				res.NonTrivial = true
			}
			if err != nil {
				var werr *jsonrpc.Error
				code := ""
				if errors.As(err, &werr) {
					code = fmt.Sprintf(" (JSON-RPC code %d)", werr.Code)
				}
				res.Failf("step %d: CallTool(%s) failed%s for schema-valid arguments %s although the client has listed the tool since the server's latest change, with its current schema %s (history %s): %v",
					i, st.Name, code, rawArgs(d.nodes), mustJSON(schemaOf(d.nodes, true)), desc.String(), err)
				return
			}
			if ct.IsError {
				res.Failf("step %d: CallTool(%s) returned a tool error for schema-valid arguments %s: %v", i, st.Name, rawArgs(d.nodes), ct.Content)
				return
			}
			rec.mu.Lock()
			calls := rec.calls[st.Name]
			rec.mu.Unlock()
			if len(calls) != before+1 {
				res.Failf("step %d: the handler of %s ran %d times for one call", i, st.Name, len(calls)-before)
				return
			}
			got, derr := decodeAbstract(calls[len(calls)-1])
			if derr != nil || !jsonEqual(got, any(modelValue(d.nodes))) {
				res.Failf("step %d: the handler of %s received arguments %s, sent %s", i, st.Name, calls[len(calls)-1], rawArgs(d.nodes))
			}
		}
		if len(res.Violations) > 0 {
			return
		}
	}
	res.Desc = fmt.Sprintf("hist|%d|%v|%v|%s", s.PageSize, s.JSON, s.Listen, desc.String())
	if judged > 0 {
		res.Class("calls_judged")
	}
	if unjudged > 0 {
		res.Class("calls_on_an_outdated_or_unknown_definition_not_judged")
	}
	d := desc.String()
	if strings.Contains(d, "PC") || strings.Contains(d, "LC") {
		res.Class("call_between_two_pages")
	}
	if i := strings.IndexAny(d, "R+-"); i >= 0 && strings.ContainsAny(d[i:], "LPA") && strings.Contains(d[i:], "C") {
		res.Class("call_after_a_change_and_a_new_listing")
	}
	return res
}

var histProp = vt.Register(&vt.Prop[HistScript]{Property: "C12", Name: "history", Gen: genHist, Run: runHist})

func TestC12_History(t *testing.T) { theT = t; histProp.Check(t) }
