// Package c12 decides property C12 (HTTP preconditions hold before dispatch; the
// SDK client always satisfies them) in two directions:
//
//   - gates (soundness, server side): raw HTTP requests, built by mutating one or
//     several aspects of a valid request, are judged by a reference predicate
//     written from the property statement and the SDK documentation; a request
//     the predicate calls a violation must receive its mandated status and must
//     not reach the MCP server, a request it calls fine must be served.
//   - agree (agreement, client side): the real SDK client lists and calls tools
//     whose input schemas carry x-mcp-header annotations with schema-valid
//     arguments; the call must reach the tool handler exactly once with the
//     arguments that were sent.
package c12

import (
	"testing"

	"github.com/modelcontextprotocol/go-sdk/verif/vt"
)

func TestMain(m *testing.M) { vt.Main(m) }

var theT *testing.T

func TestC12_Gates(t *testing.T) { theT = t; gatesProp.Check(t) }
func TestC12_Agree(t *testing.T) { theT = t; agreeProp.Check(t) }

func TestReplay(t *testing.T)  { theT = t; vt.Replay(t) }
func TestRegress(t *testing.T) { theT = t; vt.Regress(t, "C12") }
func TestKnown(t *testing.T)   { theT = t; vt.Known(t, "C12") }
