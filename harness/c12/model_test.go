package c12

import (
	"bytes"
	"encoding/base64"
	"encoding/json"
	"fmt"
	"math/big"
	"sort"
	"strconv"
	"strings"
	"unicode"

	"pgregory.net/rapid"
)

// ---- tool model: an input schema with x-mcp-header annotations plus one argument object ----

// Node is one property of a tool's input schema together with the argument
// value the case sends for it.
type Node struct {
	Name     string `json:"name"`
	Kind     string `json:"kind"`               // string | integer | boolean | number | object
	Header   string `json:"header,omitempty"`   // x-mcp-header annotation ("" = none)
	Required bool   `json:"required,omitempty"` // listed in the parent's "required"
	NoType   bool   `json:"no_type,omitempty"`  // object only: the schema omits "type" (so null is valid too)
	Nullable bool   `json:"nullable,omitempty"` // unannotated only: "type":[kind,"null"]
	Kids     []Node `json:"kids,omitempty"`

	Arg   string `json:"arg"`             // absent | null | value
	Str   string `json:"str,omitempty"`   // string value (repeated Rep times if Rep > 1)
	Rep   int    `json:"rep,omitempty"`   //
	Int   int64  `json:"int,omitempty"`   // integer value
	Style string `json:"style,omitempty"` // integer spelling: plain exp Exp dot0 sci negzero float number
	Bool  bool   `json:"bool,omitempty"`
	Num   string `json:"num,omitempty"` // number literal (exactly representable in binary)
}

func (n *Node) str() string {
	if n.Rep > 1 {
		return strings.Repeat(n.Str, n.Rep)
	}
	return n.Str
}

const maxSafe = 1<<53 - 1

// intLiteral is the JSON spelling of integer v in the given style (raw argument form).
func intLiteral(v int64, style string) string {
	plain := strconv.FormatInt(v, 10)
	switch style {
	case "exp", "Exp":
		m, k := v, 0
		for m != 0 && m%10 == 0 {
			m /= 10
			k++
		}
		if style == "exp" {
			return fmt.Sprintf("%de%d", m, k)
		}
		return fmt.Sprintf("%dE+%d", m, k)
	case "dot0":
		return plain + ".0"
	case "sci":
		sign, digits := "", plain
		if v < 0 {
			sign, digits = "-", plain[1:]
		}
		frac := strings.TrimRight(digits[1:], "0")
		if frac != "" {
			frac = "." + frac
		}
		return fmt.Sprintf("%s%s%se%d", sign, digits[:1], frac, len(digits)-1)
	case "negzero":
		if v == 0 {
			return "-0"
		}
	}
	return plain
}

// schemaOf builds the JSON Schema (as the generic map a tool author would write).
func schemaOf(nodes []Node, withType bool) map[string]any {
	props := map[string]any{}
	var req []string
	for i := range nodes {
		n := &nodes[i]
		var p map[string]any
		if n.Kind == "object" {
			p = schemaOf(n.Kids, !n.NoType)
		} else {
			p = map[string]any{"type": n.Kind}
			if n.Nullable {
				p["type"] = []any{n.Kind, "null"}
			}
		}
		if n.Header != "" {
			p["x-mcp-header"] = n.Header
		}
		props[n.Name] = p
		if n.Required {
			req = append(req, n.Name)
		}
	}
	out := map[string]any{"properties": props}
	if withType {
		out["type"] = "object"
	}
	if len(req) > 0 {
		sort.Strings(req)
		out["required"] = req
	}
	return out
}

// inert reports whether the schema contains an array-valued "type": the SDK's
// annotation reader then sees no annotation at all (on both sides alike), so
// header expectations are not derived for such tools.
func inert(nodes []Node) bool {
	for i := range nodes {
		if nodes[i].Nullable || inert(nodes[i].Kids) {
			return true
		}
	}
	return false
}

// rawArgs serialises the argument object in node order (own serialiser; strings via encoding/json).
func rawArgs(nodes []Node) string {
	var b strings.Builder
	b.WriteByte('{')
	first := true
	for i := range nodes {
		n := &nodes[i]
		if n.Arg == "absent" {
			continue
		}
		if !first {
			b.WriteByte(',')
		}
		first = false
		b.Write(jsonString(n.Name))
		b.WriteByte(':')
		if n.Arg == "null" {
			b.WriteString("null")
			continue
		}
		switch n.Kind {
		case "object":
			b.WriteString(rawArgs(n.Kids))
		case "string":
			b.Write(jsonString(n.str()))
		case "integer":
			b.WriteString(intLiteral(n.Int, n.Style))
		case "boolean":
			b.WriteString(strconv.FormatBool(n.Bool))
		case "number":
			b.WriteString(n.Num)
		}
	}
	b.WriteByte('}')
	return b.String()
}

func jsonString(s string) []byte {
	var buf bytes.Buffer
	enc := json.NewEncoder(&buf)
	enc.SetEscapeHTML(false)
	enc.Encode(s)
	return bytes.TrimRight(buf.Bytes(), "\n")
}

// goArgs builds the argument object as Go values (what an application passes to CallTool).
func goArgs(nodes []Node) map[string]any {
	m := map[string]any{}
	for i := range nodes {
		n := &nodes[i]
		if n.Arg == "absent" {
			continue
		}
		if n.Arg == "null" {
			m[n.Name] = nil
			continue
		}
		switch n.Kind {
		case "object":
			m[n.Name] = goArgs(n.Kids)
		case "string":
			m[n.Name] = n.str()
		case "integer":
			switch n.Style {
			case "float":
				m[n.Name] = float64(n.Int) // exact: |Int| <= 2^53-1
			case "plain", "":
				m[n.Name] = n.Int
			default:
				m[n.Name] = json.Number(intLiteral(n.Int, n.Style))
			}
		case "boolean":
			m[n.Name] = n.Bool
		case "number":
			m[n.Name] = json.Number(n.Num)
		}
	}
	return m
}

// modelValue is the argument object as an abstract JSON value (numbers as *big.Rat).
func modelValue(nodes []Node) map[string]any {
	m := map[string]any{}
	for i := range nodes {
		n := &nodes[i]
		if n.Arg == "absent" {
			continue
		}
		if n.Arg == "null" {
			m[n.Name] = nil
			continue
		}
		switch n.Kind {
		case "object":
			m[n.Name] = modelValue(n.Kids)
		case "string":
			m[n.Name] = n.str()
		case "integer":
			m[n.Name] = new(big.Rat).SetInt64(n.Int)
		case "boolean":
			m[n.Name] = n.Bool
		case "number":
			r, _ := new(big.Rat).SetString(n.Num)
			m[n.Name] = r
		}
	}
	return m
}

// decodeAbstract parses JSON text into the same abstract form as modelValue.
func decodeAbstract(data []byte) (any, error) {
	dec := json.NewDecoder(bytes.NewReader(data))
	dec.UseNumber()
	var v any
	if err := dec.Decode(&v); err != nil {
		return nil, err
	}
	return abstract(v)
}

func abstract(v any) (any, error) {
	switch x := v.(type) {
	case json.Number:
		r, ok := new(big.Rat).SetString(string(x))
		if !ok {
			return nil, fmt.Errorf("bad number %q", x)
		}
		return r, nil
	case map[string]any:
		out := map[string]any{}
		for k, e := range x {
			a, err := abstract(e)
			if err != nil {
				return nil, err
			}
			out[k] = a
		}
		return out, nil
	case []any:
		out := make([]any, len(x))
		for i, e := range x {
			a, err := abstract(e)
			if err != nil {
				return nil, err
			}
			out[i] = a
		}
		return out, nil
	}
	return v, nil
}

// jsonEqual compares two abstract JSON values.
func jsonEqual(a, b any) bool {
	switch x := a.(type) {
	case nil:
		return b == nil
	case *big.Rat:
		y, ok := b.(*big.Rat)
		return ok && x.Cmp(y) == 0
	case string:
		y, ok := b.(string)
		return ok && x == y
	case bool:
		y, ok := b.(bool)
		return ok && x == y
	case map[string]any:
		y, ok := b.(map[string]any)
		if !ok || len(x) != len(y) {
			return false
		}
		for k, e := range x {
			f, ok := y[k]
			if !ok || !jsonEqual(e, f) {
				return false
			}
		}
		return true
	case []any:
		y, ok := b.([]any)
		if !ok || len(x) != len(y) {
			return false
		}
		for i := range x {
			if !jsonEqual(x[i], y[i]) {
				return false
			}
		}
		return true
	}
	return false
}

// ---- the documented Mcp-Param-* rules, written independently of the SDK ----

// leaf is an annotated property together with the argument the case sends at its path.
type leaf struct {
	path    []string
	node    *Node
	present bool // a non-null value is present at the path
	depth   int
}

// annotated returns the annotated leaves of the tool in node order.
func annotated(nodes []Node) []leaf {
	var out []leaf
	var walk func(ns []Node, path []string, reach bool)
	walk = func(ns []Node, path []string, reach bool) {
		for i := range ns {
			n := &ns[i]
			p := append(append([]string(nil), path...), n.Name)
			if n.Header != "" {
				out = append(out, leaf{path: p, node: n, present: reach && n.Arg == "value", depth: len(p)})
			}
			if n.Kind == "object" {
				walk(n.Kids, p, reach && n.Arg == "value")
			}
		}
	}
	walk(nodes, nil, true)
	return out
}

// refCanonical is the documented string form of a primitive argument: strings as they
// are, booleans lower-case true/false, integers in decimal.
func refCanonical(n *Node) string {
	switch n.Kind {
	case "string":
		return n.str()
	case "boolean":
		return strconv.FormatBool(n.Bool)
	case "integer":
		return strconv.FormatInt(n.Int, 10)
	}
	panic("refCanonical: " + n.Kind)
}

const (
	b64Open  = "=?base64?"
	b64Close = "?="
)

// refNeedsBase64: values with non-ASCII or control characters, leading/trailing
// blank or tab, or that look like the base64 wrapper themselves must be wrapped.
func refNeedsBase64(s string) bool {
	if s == "" {
		return false
	}
	if strings.HasPrefix(s, " ") || strings.HasPrefix(s, "\t") || strings.HasSuffix(s, " ") || strings.HasSuffix(s, "\t") {
		return true
	}
	for i := 0; i < len(s); i++ {
		if s[i] < 0x20 || s[i] > 0x7e {
			return true
		}
	}
	return strings.HasPrefix(s, b64Open) && strings.HasSuffix(s, b64Close)
}

func refWrap(s string) string {
	return b64Open + base64.StdEncoding.EncodeToString([]byte(s)) + b64Close
}

func refEncode(s string) string {
	if refNeedsBase64(s) {
		return refWrap(s)
	}
	return s
}

// refDecode undoes the wrapper; ok=false for a wrapper with an invalid payload.
func refDecode(h string) (string, bool) {
	if rest, ok := strings.CutPrefix(h, b64Open); ok {
		if payload, ok := strings.CutSuffix(rest, b64Close); ok {
			dec, err := base64.StdEncoding.DecodeString(payload)
			if err != nil {
				return "", false
			}
			return string(dec), true
		}
	}
	return h, true
}

// ---- generators ----

var tchars = []rune("!#$%&'*+-.^_`|~0123456789ABCDEFGHIJKLMNOPQRSTUVWXYZabcdefghijklmnopqrstuvwxyz")

func genHeaderName(rt *rapid.T, used map[string]bool) string {
	name := rapid.OneOf(
		rapid.SampledFrom([]string{"Region", "region-id", "X", "a", "!#$%&'*+-.^_`|~", "Tenant_ID", "0", "~", "a.b", "A-b-C", "rEgIoN", "trace-ID", "x-y-", "-"}),
		rapid.StringOfN(rapid.SampledFrom(tchars), 1, 12, -1),
	).Draw(rt, "header")
	// Header names must be unique per tool ignoring case: make them so by construction.
	for i := 0; used[strings.ToLower(name)]; i++ {
		name += strconv.Itoa(i)
	}
	used[strings.ToLower(name)] = true
	return name
}

func genPropName(rt *rapid.T, used map[string]bool) string {
	name := rapid.OneOf(
		rapid.SampledFrom([]string{"region", "a", "b", "value", "x-mcp-header", "type", "properties", "required", "a.b", "é", "k k", "_meta", "name", "arguments", "Z", "0"}),
		rapid.StringOfN(rapid.RuneFrom([]rune("abcXYZ019_.-/ é日\"\\")), 0, 6, -1),
	).Draw(rt, "prop")
	for i := 0; used[name]; i++ {
		name += strconv.Itoa(i)
	}
	used[name] = true
	return name
}

var lookalikes = []string{"=?base64?literal?=", "=?base64??=", "=?base64?YWJj?=", "=?BASE64?abc?=", "=?base64?abc", "abc?=", "=?base64?=", "=?base64?5pel?= ", "x=?base64?YQ==?="}

func genString(rt *rapid.T) (string, int) {
	switch rapid.SampledFrom([]string{"empty", "ascii", "ascii", "nonascii", "blank", "ctl", "lookalike", "long"}).Draw(rt, "strclass") {
	case "empty":
		return "", 0
	case "ascii":
		return rapid.StringOfN(rapid.RuneFrom(nil, asciiPrintable), 1, 16, -1).Draw(rt, "ascii"), 0
	case "nonascii":
		s := rapid.OneOf(
			rapid.SampledFrom([]string{"日本語", "café", "Ünïcödé", "🙂", "naïve ", "\u0080", "ÿ", "a\u00a0b", "\ufeffx", "Hello, 世界"}),
			rapid.StringN(1, 8, -1),
		).Draw(rt, "nonascii")
		return strings.ToValidUTF8(s, "?"), 0
	case "blank":
		return rapid.SampledFrom([]string{" x", "x ", " x ", "\tx", "x\t", " ", "\t", "  ", " \t ", " us-west1"}).Draw(rt, "blank"), 0
	case "ctl":
		return rapid.SampledFrom([]string{"a\nb", "a\r\nb", "\x00", "a\x00b", "\x7f", "a\x1fb", "\x1b[0m", "line\n", "\rx", "a\tb"}).Draw(rt, "ctl"), 0
	case "lookalike":
		return rapid.SampledFrom(lookalikes).Draw(rt, "lookalike"), 0
	default:
		return rapid.SampledFrom([]string{"x", "ab ", "é", "0123456789", "=?base64?"}).Draw(rt, "longbase"), rapid.IntRange(300, 3000).Draw(rt, "rep")
	}
}

var asciiPrintable = &unicode.RangeTable{R16: []unicode.Range16{{Lo: 0x20, Hi: 0x7e, Stride: 1}}, LatinOffset: 1}

func genInt(rt *rapid.T) (int64, string) {
	v := rapid.OneOf(
		rapid.SampledFrom([]int64{0, 1, -1, 42, -7, 1000, -1000, 1e15, -1e15, maxSafe - 1, -(maxSafe - 1),
			1 << 31, 1 << 32, 1e9, 123456789012345, 1<<52 + 1, 9e15, 1e6, 100, 9007199254740990}),
		rapid.SampledFrom([]int64{maxSafe, -maxSafe}),
		rapid.Int64Range(-maxSafe, maxSafe),
	).Draw(rt, "int")
	style := rapid.SampledFrom([]string{"plain", "plain", "exp", "Exp", "dot0", "sci", "float", "negzero"}).Draw(rt, "style")
	return v, style
}

var numLiterals = []string{"0.5", "-1.25", "1024.75", "1.5e3", "0.0", "-0.0", "2.5E-1", "7", "-3"}

// genProps draws the properties of one object level. spine > 0 asks for the first
// property to lead to an annotated leaf at exactly that depth.
func genProps(rt *rapid.T, depth, spine int, headers map[string]bool, allowNullable bool) []Node {
	n := rapid.IntRange(1, 3).Draw(rt, "nprops")
	names := map[string]bool{}
	var out []Node
	for i := 0; i < n; i++ {
		var nd Node
		nd.Name = genPropName(rt, names)
		nd.Required = rapid.IntRange(0, 9).Draw(rt, "required") < 4
		kinds := []string{"string", "string", "integer", "integer", "boolean", "number"}
		if depth < maxDepth {
			kinds = append(kinds, "object", "object")
		}
		kind := rapid.SampledFrom(kinds).Draw(rt, "kind")
		annotate := rapid.IntRange(0, 9).Draw(rt, "annotate") < 7
		childSpine := 0
		if i == 0 && spine > 0 {
			if depth == spine {
				if kind == "number" || kind == "object" {
					kind = "string"
				}
				annotate = true
			} else {
				kind, childSpine = "object", spine
			}
		}
		nd.Kind = kind
		switch kind {
		case "object":
			nd.NoType = rapid.IntRange(0, 9).Draw(rt, "notype") < 2
			nd.Kids = genProps(rt, depth+1, childSpine, headers, allowNullable)
		case "number":
			nd.Num = rapid.SampledFrom(numLiterals).Draw(rt, "num")
			nd.Nullable = allowNullable && rapid.IntRange(0, 9).Draw(rt, "nullable") < 1
		default:
			if annotate {
				nd.Header = genHeaderName(rt, headers)
			} else {
				nd.Nullable = allowNullable && rapid.IntRange(0, 19).Draw(rt, "nullable") < 1
			}
			switch kind {
			case "string":
				nd.Str, nd.Rep = genString(rt)
			case "integer":
				nd.Int, nd.Style = genInt(rt)
			case "boolean":
				nd.Bool = rapid.Bool().Draw(rt, "bool")
			}
		}
		// which argument is sent for this property
		choices := []string{"value", "value", "value", "value"}
		if !nd.Required {
			choices = append(choices, "absent")
		}
		if nd.Nullable || (nd.Kind == "object" && nd.NoType) {
			choices = append(choices, "null")
		}
		nd.Arg = rapid.SampledFrom(choices).Draw(rt, "arg")
		out = append(out, nd)
	}
	return out
}

const maxDepth = 6

func genTool(rt *rapid.T, allowNullable bool) []Node {
	// depths up to 6: "at any depth" in the property; deeper paths exercise slice growth in path building
	spine := rapid.SampledFrom([]int{1, 2, 2, 3, 3, 4, 4, 5, 6}).Draw(rt, "spine")
	return genProps(rt, 1, spine, map[string]bool{}, allowNullable)
}

// eachNode visits every node of the tree.
func eachNode(nodes []Node, f func(*Node)) {
	for i := range nodes {
		f(&nodes[i])
		eachNode(nodes[i].Kids, f)
	}
}
