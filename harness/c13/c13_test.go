// Package c13 decides property C13 (keep-alive failure detector) against a
// reference failure detector under virtual time: a scripted peer answers or
// ignores each ping according to a generated pattern and the exact instant of
// the session's termination is compared with the model's.
package c13

import (
	"context"
	"encoding/json"
	"errors"
	"fmt"
	"strings"
	"testing"
	"testing/synctest"
	"time"

	"github.com/modelcontextprotocol/go-sdk/internal/jsonrpc2"
	"github.com/modelcontextprotocol/go-sdk/jsonrpc"
	"github.com/modelcontextprotocol/go-sdk/mcp"
	"github.com/modelcontextprotocol/go-sdk/verif/memio"
	"github.com/modelcontextprotocol/go-sdk/verif/vt"
	"pgregory.net/rapid"
)

func TestMain(m *testing.M) { vt.Main(m) }

type Tick struct {
	Outcome string `json:"o"`           // ok late never mnf err reject
	DelayNS int64  `json:"d,omitempty"` // answer latency (ok: < I/2; late: > I/2; err: < I/2)
}

type Script struct {
	Side       string `json:"side"` // server | server-restored (connected with ServerSessionOptions.State of an initialized session) | client | client-fallback
	IntervalNS int64  `json:"interval_ns"`
	Threshold  int    `json:"threshold"`
	Pattern    []Tick `json:"pattern"`
	CloseAt    int    `json:"close_at"` // explicit Close after this many ticks (0: never)
	// CloseFails: the transport's own Close reports an error after closing (the session is closed all the same)
	CloseFails bool `json:"close_fails,omitempty"`
	// Listens (server sides): before the pattern starts the peer opens this many subscriptions/listen
	// requests (2026-07-28 requests, parked on the server for the life of the session) and ends those listed
	// in EndListens, in that order, by cancelling them.
	Listens    int   `json:"listens,omitempty"`
	EndListens []int `json:"end_listens,omitempty"`
}

func genScript(rt *rapid.T) Script {
	var s Script
	s.Side = rapid.SampledFrom([]string{"server", "server-restored", "client", "client-fallback"}).Draw(rt, "side")
	s.IntervalNS = int64(rapid.SampledFrom([]time.Duration{2 * time.Millisecond, 3 * time.Millisecond, 10 * time.Millisecond, time.Second, 30 * time.Second, time.Hour, 7 * time.Nanosecond * 1000}).Draw(rt, "interval"))
	s.Threshold = rapid.SampledFrom([]int{-1, 0, 1, 2, 2, 3, 3, 5}).Draw(rt, "threshold")
	half := s.IntervalNS / 2
	n := rapid.IntRange(1, 30).Draw(rt, "ticks")
	for i := 0; i < n; i++ {
		var t Tick
		t.Outcome = rapid.SampledFrom([]string{"ok", "ok", "ok", "never", "never", "late", "err", "reject", "mnf"}).Draw(rt, "o")
		switch t.Outcome {
		case "ok", "err", "mnf":
			t.DelayNS = rapid.SampledFrom([]int64{0, 1, half / 2, half - 1}).Draw(rt, "d")
		case "late":
			t.DelayNS = rapid.SampledFrom([]int64{half + 1, half + half/2, s.IntervalNS - 1}).Draw(rt, "d")
		}
		s.Pattern = append(s.Pattern, t)
	}
	if rapid.IntRange(0, 3).Draw(rt, "explicit_close") == 0 {
		s.CloseAt = rapid.IntRange(1, n).Draw(rt, "close_at")
	}
	s.CloseFails = rapid.IntRange(0, 3).Draw(rt, "close_fails") == 0
	if strings.HasPrefix(s.Side, "server") && rapid.IntRange(0, 2).Draw(rt, "listens") == 0 {
		s.Listens = rapid.IntRange(1, 3).Draw(rt, "n_listens")
		order := rapid.Permutation([]int{0, 1, 2}[:s.Listens]).Draw(rt, "end_order")
		s.EndListens = order[:rapid.IntRange(0, s.Listens-1).Draw(rt, "n_end")]
	}
	return s
}

var theT *testing.T

func run(s Script) (res vt.Result) {
	if p := vt.Bubble(theT, func() { res = runInBubble(s) }); p != "" {
		judgeLeftover(&res, p)
	}
	return res
}

// judgeLeftover: the property speaks of keep-alive's own timer and goroutine; a leftover goroutine of the
// SDK that has nothing to do with keep-alive is only recorded (class teardown_leftover).
func judgeLeftover(res *vt.Result, p string) {
	if strings.Contains(p, "startKeepalive") || strings.Contains(strings.ToLower(p), "keepalive") {
		res.Failf("bubble did not end cleanly (keep-alive timer/goroutine left behind): %s", p)
		return
	}
	res.Class("teardown_leftover")
}

func pings(sc *memio.ScriptConn) (reqs []*jsonrpc.Request, times []time.Time) {
	ts := sc.WriteTimes()
	for i, m := range sc.Written() {
		if r, ok := m.(*jsonrpc.Request); ok && r.Method == "ping" && r.IsCall() {
			reqs = append(reqs, r)
			times = append(times, ts[i])
		}
	}
	return
}

func runInBubble(s Script) (res vt.Result) {
	I := time.Duration(s.IntervalNS)
	sc := memio.NewScriptConn()
	if s.CloseFails {
		sc.CloseErr = errors.New("scripted: the transport reports a problem with its own shutdown")
		res.Class("transport_close_reports_an_error")
	}
	sc.Rejected = fmt.Errorf("%w: scripted rejection", jsonrpc2.ErrRejected)
	var wait func() error
	var closeS func() error
	var manualPing func(context.Context) error
	rejectNext := false
	sc.OnWrite = nil
	switch s.Side {
	case "server", "server-restored":
		server := mcp.NewServer(&mcp.Implementation{Name: "s", Version: "1"}, &mcp.ServerOptions{KeepAlive: I, KeepAliveFailureThreshold: s.Threshold})
		mcp.AddTool(server, &mcp.Tool{Name: "t"}, func(context.Context, *mcp.CallToolRequest, map[string]any) (*mcp.CallToolResult, any, error) {
			return &mcp.CallToolResult{}, nil, nil
		})
		var opts *mcp.ServerSessionOptions
		if s.Side == "server-restored" {
			opts = &mcp.ServerSessionOptions{State: &mcp.ServerSessionState{
				InitializeParams:  &mcp.InitializeParams{ProtocolVersion: "2025-06-18", ClientInfo: &mcp.Implementation{Name: "restored", Version: "1"}, Capabilities: &mcp.ClientCapabilities{}},
				InitializedParams: &mcp.InitializedParams{},
			}}
		}
		ss, err := server.Connect(context.Background(), sc.Transport(), opts)
		if err != nil {
			res.Failf("harness: setup: %v", err)
			return
		}
		if s.Side == "server" {
			// The peer performs the documented initialize handshake (it takes no virtual time), so that an
			// SDK which starts keep-alive only once the session is initialized is accepted as well.
			sc.InjectRaw(`{"jsonrpc":"2.0","id":"init","method":"initialize","params":{"protocolVersion":"2025-06-18","capabilities":{},"clientInfo":{"name":"scripted","version":"1"}}}`)
			synctest.Wait()
			sc.InjectRaw(`{"jsonrpc":"2.0","method":"notifications/initialized"}`)
			synctest.Wait()
		}
		if s.Listens > 0 {
			const meta = `"_meta":{"io.modelcontextprotocol/protocolVersion":"2026-07-28","io.modelcontextprotocol/clientInfo":{"name":"scripted","version":"1"},"io.modelcontextprotocol/clientCapabilities":{}}`
			for k := 0; k < s.Listens; k++ {
				sc.InjectRaw(fmt.Sprintf(`{"jsonrpc":"2.0","id":"listen-%d","method":"subscriptions/listen","params":{"notifications":{"toolsListChanged":true},%s}}`, k, meta))
				synctest.Wait()
			}
			for _, k := range s.EndListens {
				sc.InjectRaw(fmt.Sprintf(`{"jsonrpc":"2.0","method":"notifications/cancelled","params":{"requestId":"listen-%d","reason":"no longer interested"}}`, k))
				synctest.Wait()
			}
			res.Class(fmt.Sprintf("listen_streams_open_%d", s.Listens-len(s.EndListens)))
			if len(s.EndListens) > 0 {
				res.Class("listen_streams_ended_before_the_pattern")
			}
		}
		wait, closeS = ss.Wait, ss.Close
		manualPing = func(ctx context.Context) error { return ss.Ping(ctx, nil) }
	default:
		client := mcp.NewClient(&mcp.Implementation{Name: "c", Version: "1"}, &mcp.ClientOptions{KeepAlive: I, KeepAliveFailureThreshold: s.Threshold})
		var cs *mcp.ClientSession
		var err error
		if s.Side == "client-fallback" {
			// default (2026-07-28) requested, discover rejected, legacy session via the initialize fallback
			cs, err = memio.ConnectClientFallback(client, sc, "2025-11-25")
		} else {
			cs, err = memio.ConnectClient(client, sc, "2025-06-18", "")
		}
		if err != nil {
			res.Failf("harness: setup: %v", err)
			return
		}
		wait, closeS = cs.Wait, cs.Close
		manualPing = func(ctx context.Context) error { return cs.Ping(ctx, nil) }
	}
	sc.ResetWritten()
	t0 := time.Now()
	waitDone := make(chan struct{})
	go func() { wait(); close(waitDone) }()
	isWaitDone := func() bool {
		select {
		case <-waitDone:
			return true
		default:
			return false
		}
	}
	_ = rejectNext

	thr := s.Threshold
	if thr < 1 {
		thr = 1
	}
	misses := 0
	seenPings := 0
	var desc strings.Builder
	recovered, thrReached := false, false
	state := "alive" // alive | closed | ended (mnf) | userclosed
	var expectClose, closeBound time.Duration
	half := I / 2

	sleepUntil := func(d time.Duration) { // absolute offset from t0
		if now := time.Since(t0); d > now {
			time.Sleep(d - now)
		}
		synctest.Wait()
	}

loop:
	for k := 1; k <= len(s.Pattern); k++ {
		tk := s.Pattern[k-1]
		at := time.Duration(k) * I
		sent := at // when ping #k was really sent
		// One tick before: if the peer must reject this ping's write, arm it now.
		if tk.Outcome == "reject" {
			sleepUntil(at - 1)
			sc.GateWrites = true
		}
		sleepUntil(at)
		if tk.Outcome == "reject" {
			// the ping write is parked: reject it
			for _, pw := range sc.Pending() {
				if r, ok := pw.Msg.(*jsonrpc.Request); ok && r.Method == "ping" {
					sc.Release(pw, memio.WriteRejected)
				} else {
					sc.Release(pw, memio.WriteOK)
				}
			}
			sc.GateWrites = false
			synctest.Wait()
			seenPings++ // a rejected write never shows up in Written
		}
		reqs, times := pings(sc)
		if tk.Outcome != "reject" {
			if len(reqs) != seenPings+1 {
				res.Failf("tick %d (t=%v): expected keep-alive ping #%d to have been sent, peer has seen %d pings (state %s)", k, at, seenPings+1, len(reqs), state)
				break loop
			}
			seenPings++
			// The property bounds the closing instant, not the instant of each ping: ping #k may be sent at any
			// instant of the k-th interval (one ping per interval is the documented "interval for regular ping
			// requests"); answers, time-outs and the closing instant are counted from when it was really sent.
			sent = times[len(times)-1].Sub(t0)
			if sent > at || sent <= at-I {
				res.Failf("tick %d: ping sent at t=%v, want within the interval (%v, %v]", k, sent, at-I, at)
				break loop
			}
		} else if len(reqs) != seenPings-1 && len(reqs) != seenPings {
			// nothing to assert about Written for rejected writes beyond count sanity
		}
		var req *jsonrpc.Request
		if tk.Outcome != "reject" {
			req = reqs[len(reqs)-1]
		} else {
			seenPings = len(reqs) // re-sync: rejected ping is not in Written
			sent = at             // the rejected write was released by the peer at this instant
		}
		desc.WriteString(tk.Outcome[:1])
		failed := false
		lat := time.Duration(0)
		switch tk.Outcome {
		case "ok":
			sleepUntil(sent + time.Duration(tk.DelayNS))
			sc.Inject(&jsonrpc.Response{ID: req.ID, Result: json.RawMessage(`{}`)})
		case "late":
			failed, lat = true, half
			go func(d time.Duration, id jsonrpc.ID) {
				time.Sleep(d)
				sc.Inject(&jsonrpc.Response{ID: id, Result: json.RawMessage(`{}`)})
			}(max(0, sent+time.Duration(tk.DelayNS)-time.Since(t0)), req.ID)
		case "never":
			failed, lat = true, half
		case "err":
			failed, lat = true, time.Duration(tk.DelayNS)
			sleepUntil(sent + lat)
			sc.Inject(&jsonrpc.Response{ID: req.ID, Error: &jsonrpc.Error{Code: -32603, Message: "scripted internal error"}})
		case "reject":
			failed, lat = true, 0
		case "mnf":
			sleepUntil(sent + time.Duration(tk.DelayNS))
			sc.Inject(&jsonrpc.Response{ID: req.ID, Error: &jsonrpc.Error{Code: -32601, Message: "ping unsupported"}})
			state = "ended"
		}
		synctest.Wait()
		if state == "ended" {
			break loop
		}
		if failed {
			misses++
			if misses >= thr {
				state = "closed"
				expectClose = sent + lat
				closeBound = sent + half // "that many intervals plus one ping timeout"
				if thr >= 2 {
					thrReached = true
				}
				break loop
			}
		} else {
			if misses > 0 {
				recovered = true
			}
			misses = 0
		}
		// still alive: must not be closed, now or at any time before the next tick
		if sc.IsClosed() || isWaitDone() {
			res.Failf("tick %d: session was closed at t=%v although only %d consecutive pings failed (threshold %d)", k, sc.ClosedAt.Sub(t0), misses, thr)
			break loop
		}
		if s.CloseAt == k {
			state = "userclosed"
			break loop
		}
	}
	if len(res.Violations) > 0 {
		sc.Close()
		closeS()
		return finish(res, s, &desc, recovered, thrReached)
	}

	switch state {
	case "closed":
		// The close must happen exactly at expectClose: not before, not later.
		early := time.Since(t0) < expectClose
		sleepUntil(expectClose - 1)
		if early && sc.IsClosed() {
			res.Failf("session closed at t=%v, before the failing ping could have timed out (expected %v)", sc.ClosedAt.Sub(t0), expectClose)
			break
		}
		sleepUntil(expectClose)
		if expectClose < closeBound && (!sc.IsClosed() || !isWaitDone()) {
			// The last ping failed at once (error answer, refused write): the property bounds the closing instant
			// by one ping timeout after the ping, it does not demand the very instant of the failure.
			sleepUntil(closeBound)
			if !sc.IsClosed() || !isWaitDone() {
				res.Failf("session not closed at t=%v although %d consecutive keep-alive pings failed (threshold %d)", closeBound, misses, thr)
			}
			res.Class("closed_by_keepalive")
			break
		}
		if !sc.IsClosed() || !isWaitDone() {
			res.Failf("session not closed at t=%v although %d consecutive keep-alive pings failed (threshold %d)", expectClose, misses, thr)
			break
		}
		if got := sc.ClosedAt.Sub(t0); got != expectClose {
			res.Failf("session closed at t=%v, want exactly %v", got, expectClose)
		}
		res.Class("closed_by_keepalive")
	case "ended":
		// method-not-found: keep-alive ends silently, session stays usable.
		n0, _ := pings(sc)
		time.Sleep(10 * I)
		synctest.Wait()
		if n1, _ := pings(sc); len(n1) != len(n0) {
			res.Failf("keep-alive kept pinging (%d more) after the peer reported ping as unsupported", len(n1)-len(n0))
		}
		if sc.IsClosed() {
			res.Failf("session was closed after the peer reported ping as unsupported")
			break
		}
		errc := make(chan error, 1)
		go func() { errc <- manualPing(context.Background()) }()
		synctest.Wait()
		rs, _ := pings(sc)
		sc.Inject(&jsonrpc.Response{ID: rs[len(rs)-1].ID, Result: json.RawMessage(`{}`)})
		synctest.Wait()
		select {
		case err := <-errc:
			if err != nil {
				res.Failf("manual ping after keep-alive ended failed: %v", err)
			}
		default:
			res.Failf("manual ping after keep-alive ended did not return")
		}
		res.Class("ended_by_method_not_found")
	case "alive", "userclosed":
		if sc.IsClosed() {
			res.Failf("session closed at t=%v although the pattern never reached %d consecutive misses", sc.ClosedAt.Sub(t0), thr)
			break
		}
		if state == "alive" {
			res.Class("survived_pattern")
		}
	}
	// explicit close; afterwards no ping may be sent and nothing may be left running.
	if !sc.IsClosed() {
		done := make(chan struct{})
		go func() { closeS(); close(done) }()
		// An unanswered keep-alive ping may still be in flight; it is bounded by its own timeout (I/2).
		time.Sleep(half + 1)
		synctest.Wait()
		select {
		case <-done:
		default:
			// Close "waits for ongoing requests to return" (its doc comment); how long its own shutdown may take
			// is not the property's business: give it a generous (virtual) grace period before judging.
			time.Sleep(I + time.Minute)
			synctest.Wait()
			select {
			case <-done:
			default:
				res.Failf("Close did not return")
				sc.Close()
			}
		}
	}
	// Right after the session is closed (and any in-flight ping has timed out) the
	// keep-alive goroutine and its ticker must be gone, not merely dying out later.
	for _, g := range vt.LiveBubbleGoroutines() {
		if strings.Contains(g, "startKeepalive") {
			res.Failf("keep-alive goroutine still running after the session was closed:\n%s", g)
			break
		}
	}
	n0, _ := pings(sc)
	time.Sleep(10 * I)
	synctest.Wait()
	if n1, _ := pings(sc); len(n1) != len(n0) {
		res.Failf("%d keep-alive pings were sent after the session was closed", len(n1)-len(n0))
	}
	return finish(res, s, &desc, recovered, thrReached)
}

func finish(res vt.Result, s Script, desc *strings.Builder, recovered, thrReached bool) vt.Result {
	res.Desc = fmt.Sprintf("%s/%d/%d/%s/%d", s.Side, s.IntervalNS, s.Threshold, desc.String(), s.CloseAt)
	res.NonTrivial = recovered || thrReached
	if recovered {
		res.Class("recovery_below_threshold")
	}
	if thrReached {
		res.Class("threshold_ge2_reached")
	}
	res.Class("side_" + s.Side)
	return res
}

var prop = vt.Register(&vt.Prop[Script]{Property: "C13", Name: "keepalive", Gen: genScript, Run: run})

func TestC13_KeepAlive(t *testing.T) { theT = t; prop.Check(t) }
func TestReplay(t *testing.T)        { theT = t; vt.Replay(t) }
func TestRegress(t *testing.T)       { theT = t; vt.Regress(t, "C13") }
func TestKnown(t *testing.T)         { theT = t; vt.Known(t, "C13") }
