package c13

// The keep-alive failure detector of a client session that runs over the streamable HTTP client
// transport (prop "http"). The peer is a scripted HTTP endpoint: it answers each keep-alive ping at once,
// after a delay, with the response headers at once but the body late (after the ping has timed out), or
// not at all, in JSON or SSE framing. The reference detector is the same as in c13_test.go: only
// Threshold consecutive failed pings end the session; anything else leaves it alive and usable.

import (
	"context"
	"encoding/json"
	"fmt"
	"io"
	"net/http"
	"strings"
	"sync"
	"testing"
	"testing/synctest"
	"time"

	"github.com/modelcontextprotocol/go-sdk/mcp"
	"github.com/modelcontextprotocol/go-sdk/verif/memhttp"
	"github.com/modelcontextprotocol/go-sdk/verif/vt"
	"pgregory.net/rapid"
)

type HTick struct {
	Outcome string `json:"o"`           // ok | latebody | never | ssecut (SSE framing: an event id and a retry hint longer than the ping's time-out, then the stream ends without the answer)
	DelayNS int64  `json:"d,omitempty"` // ok: < I/2 before anything is sent; latebody: > I/2 between headers and body
}

type HTTPScript struct {
	SSE        bool    `json:"sse"` // responses framed as text/event-stream instead of application/json
	IntervalNS int64   `json:"interval_ns"`
	Threshold  int     `json:"threshold"`
	Pattern    []HTick `json:"pattern"`
	// Retries: StreamableClientTransport.MaxRetries (-1: the client never reconnects; 0: the default budget)
	Retries int `json:"retries"`
}

func genHTTP(rt *rapid.T) HTTPScript {
	var s HTTPScript
	s.SSE = rapid.Bool().Draw(rt, "sse")
	s.IntervalNS = int64(rapid.SampledFrom([]time.Duration{10 * time.Millisecond, time.Second, 30 * time.Second}).Draw(rt, "interval"))
	s.Threshold = rapid.SampledFrom([]int{0, 1, 2, 2, 3, 3, 5}).Draw(rt, "threshold")
	half := s.IntervalNS / 2
	s.Retries = rapid.SampledFrom([]int{-1, -1, 0}).Draw(rt, "retries")
	outcomes := []string{"ok", "ok", "ok", "latebody", "latebody", "never"}
	if s.SSE && s.Retries == 0 {
		// (with reconnection switched off such a stream end is a broken link, whatever the keep-alive settings)
		outcomes = append(outcomes, "ssecut", "ssecut")
	}
	n := rapid.IntRange(1, 20).Draw(rt, "ticks")
	for i := 0; i < n; i++ {
		t := HTick{Outcome: rapid.SampledFrom(outcomes).Draw(rt, "o")}
		switch t.Outcome {
		case "ok":
			t.DelayNS = rapid.SampledFrom([]int64{0, 1, half / 2, half - 1}).Draw(rt, "d")
		case "latebody":
			t.DelayNS = rapid.SampledFrom([]int64{half + 1, half + half/2, s.IntervalNS - 1}).Draw(rt, "d")
		}
		s.Pattern = append(s.Pattern, t)
	}
	return s
}

func runHTTP(s HTTPScript) (res vt.Result) {
	if p := vt.Bubble(theT, func() { res = runHTTPInBubble(s) }); p != "" {
		judgeLeftover(&res, p) // only keep-alive's own leftovers are the property's business
	}
	return res
}

func runHTTPInBubble(s HTTPScript) (res vt.Result) {
	I := time.Duration(s.IntervalNS)
	half := I / 2
	var mu sync.Mutex
	cur := HTick{Outcome: "ok"}
	pingTimes := []time.Time{}
	write := func(w http.ResponseWriter, payload string) {
		if s.SSE {
			fmt.Fprintf(w, "data: %s\n\n", payload)
		} else {
			io.WriteString(w, payload)
		}
	}
	handler := http.HandlerFunc(func(w http.ResponseWriter, r *http.Request) {
		switch r.Method {
		case "GET":
			http.Error(w, "no standalone stream", http.StatusMethodNotAllowed)
			return
		case "DELETE":
			w.WriteHeader(http.StatusNoContent)
			return
		}
		body, _ := io.ReadAll(r.Body)
		var m struct {
			ID     json.RawMessage `json:"id"`
			Method string          `json:"method"`
		}
		json.Unmarshal(body, &m)
		ct := "application/json"
		if s.SSE {
			ct = "text/event-stream"
		}
		switch {
		case m.Method == "initialize":
			w.Header().Set("Content-Type", ct)
			w.Header().Set("Mcp-Session-Id", "s1")
			write(w, fmt.Sprintf(`{"jsonrpc":"2.0","id":%s,"result":{"protocolVersion":"2025-06-18","capabilities":{},"serverInfo":{"name":"scripted","version":"0"}}}`, m.ID))
		case m.ID == nil:
			w.WriteHeader(http.StatusAccepted)
		case m.Method == "ping":
			mu.Lock()
			t := cur
			pingTimes = append(pingTimes, time.Now())
			mu.Unlock()
			answer := fmt.Sprintf(`{"jsonrpc":"2.0","id":%s,"result":{}}`, m.ID)
			switch t.Outcome {
			case "ok":
				select {
				case <-time.After(time.Duration(t.DelayNS)):
				case <-r.Context().Done():
					return
				}
				w.Header().Set("Content-Type", ct)
				write(w, answer)
			case "latebody":
				w.Header().Set("Content-Type", ct)
				w.WriteHeader(200)
				w.(http.Flusher).Flush()
				select {
				case <-time.After(time.Duration(t.DelayNS)):
					write(w, answer)
				case <-r.Context().Done():
				}
			case "ssecut":
				// a resumable stream that ends before the answer, with a reconnection delay no ping outlives
				w.Header().Set("Content-Type", ct)
				fmt.Fprintf(w, "id: ping%d_0\nretry: %d\ndata: \n\n", len(pingTimes), 4*I.Milliseconds()+1000)
			default: // never
				<-r.Context().Done()
			}
		default:
			w.Header().Set("Content-Type", ct)
			write(w, fmt.Sprintf(`{"jsonrpc":"2.0","id":%s,"error":{"code":-32601,"message":"unsupported"}}`, m.ID))
		}
	})
	tr := &memhttp.Transport{Handler: handler}
	client := mcp.NewClient(&mcp.Implementation{Name: "c", Version: "1"}, &mcp.ClientOptions{KeepAlive: I, KeepAliveFailureThreshold: s.Threshold})
	var cs *mcp.ClientSession
	cerr := make(chan error, 1)
	go func() {
		var e error
		cs, e = client.Connect(context.Background(), &mcp.StreamableClientTransport{Endpoint: "http://mcp.example/mcp", HTTPClient: tr.Client(), DisableStandaloneSSE: true, MaxRetries: s.Retries},
			&mcp.ClientSessionOptions{ProtocolVersion: "2025-06-18"})
		cerr <- e
	}()
	synctest.Wait()
	select {
	case e := <-cerr:
		if e != nil {
			res.Failf("harness: connect: %v", e)
			return
		}
	default:
		res.Failf("harness: connect did not return")
		return
	}
	t0 := time.Now()
	waitDone := make(chan struct{})
	go func() { cs.Wait(); close(waitDone) }()
	ended := func() bool {
		select {
		case <-waitDone:
			return true
		default:
			return false
		}
	}
	sleepUntil := func(d time.Duration) {
		if now := time.Since(t0); d > now {
			time.Sleep(d - now)
		}
		synctest.Wait()
	}
	thr := s.Threshold
	if thr < 1 {
		thr = 1
	}
	misses := 0
	var desc strings.Builder
	recovered, thrReached, closed := false, false, false
	var expectClose time.Duration
	for k := 1; k <= len(s.Pattern) && !closed; k++ {
		tk := s.Pattern[k-1]
		at := time.Duration(k) * I
		sleepUntil(at - 1)
		mu.Lock()
		cur = tk
		mu.Unlock()
		sleepUntil(at)
		mu.Lock()
		n := len(pingTimes)
		var last time.Time
		if n > 0 {
			last = pingTimes[n-1]
		}
		mu.Unlock()
		if n != k {
			res.Failf("tick %d (t=%v): the endpoint has seen %d keep-alive pings, want %d", k, at, n, k)
			break
		}
		// The property bounds the closing instant, not the instant of each ping: ping #k may arrive at any instant
		// of the k-th interval; time-outs and the closing instant are counted from when it really arrived.
		sent := last.Sub(t0)
		if sent > at || sent <= at-I {
			res.Failf("tick %d: ping received at t=%v, want within the interval (%v, %v]", k, sent, at-I, at)
			break
		}
		desc.WriteString(tk.Outcome[:1])
		if tk.Outcome == "ok" {
			sleepUntil(sent + time.Duration(tk.DelayNS))
			if misses > 0 {
				recovered = true
			}
			misses = 0
		} else {
			// the ping fails when its own timeout (I/2) expires, whatever arrives later
			misses++
			if misses >= thr {
				closed, expectClose = true, sent+half
				thrReached = thr >= 2
				break
			}
			sleepUntil(sent + half)
		}
		if ended() {
			res.Failf("tick %d (%s): the session ended at or before t=%v although only %d consecutive keep-alive pings failed (threshold %d)", k, tk.Outcome, time.Since(t0), misses, thr)
			break
		}
	}
	if len(res.Violations) == 0 {
		if closed {
			sleepUntil(expectClose - 1)
			if ended() {
				res.Failf("the session ended before t=%v, when the failing ping could time out", expectClose)
			} else {
				sleepUntil(expectClose + half)
				if !ended() {
					res.Failf("the session is still alive at t=%v although %d consecutive keep-alive pings failed (threshold %d)", time.Since(t0), misses, thr)
				}
				res.Class("closed_by_keepalive")
			}
		} else {
			// alive: an ordinary call must still work (the connection was not damaged by late bodies)
			sleepUntil(time.Duration(len(s.Pattern))*I + I - 2)
			mu.Lock()
			cur = HTick{Outcome: "ok"}
			mu.Unlock()
			if ended() {
				res.Failf("the session ended although the pattern never reached %d consecutive misses", thr)
			} else {
				errc := make(chan error, 1)
				go func() { errc <- cs.Ping(context.Background(), nil) }()
				synctest.Wait()
				select {
				case err := <-errc:
					if err != nil {
						res.Failf("a manual ping after the pattern failed although the session is alive: %v", err)
					}
				default:
					res.Failf("a manual ping after the pattern did not return")
				}
				res.Class("survived_pattern")
			}
		}
	}
	mu.Lock()
	cur = HTick{Outcome: "ok"}
	mu.Unlock()
	done := make(chan struct{})
	go func() { cs.Close(); close(done) }()
	time.Sleep(half + 1)
	synctest.Wait()
	select {
	case <-done:
	default:
		// how long Close's own shutdown may take is not the property's business: a generous (virtual) grace period
		time.Sleep(I + time.Minute)
		synctest.Wait()
		select {
		case <-done:
		default:
			res.Failf("Close did not return")
		}
	}
	for _, ex := range tr.Exchanges() {
		ex.Cut(memhttp.ErrCut)
	}
	synctest.Wait()
	res.Desc = fmt.Sprintf("http/%v/%d/%d/%d/%s", s.SSE, s.IntervalNS, s.Threshold, s.Retries, desc.String())
	res.NonTrivial = recovered || thrReached
	if recovered {
		res.Class("recovery_below_threshold")
	}
	if thrReached {
		res.Class("threshold_ge2_reached")
	}
	if strings.Contains(desc.String(), "l") {
		res.Class("body_after_ping_timeout")
	}
	if strings.Contains(desc.String(), "s") {
		res.Class("ping_stream_ended_with_a_long_retry_hint")
	}
	res.Class(map[bool]string{true: "framing_sse", false: "framing_json"}[s.SSE])
	return res
}

var httpProp = vt.Register(&vt.Prop[HTTPScript]{Property: "C13", Name: "http", Gen: genHTTP, Run: runHTTP})

func TestC13_HTTP(t *testing.T) { theT = t; httpProp.Check(t) }
