package c13

// TestC13_Stdio: keep-alive on a session that runs over a stdio-like transport (mcp.IOTransport with a
// separate reader and writer). The reader behaves like a process's standard input - closing it does not
// interrupt a Read that is waiting - and either Close may report an error. The raw peer answers pings for a
// while and then goes silent without hanging up: the session must be closed (Wait returns) once the
// configured number of consecutive pings has failed, and never while the peer still answers.

import (
	"context"
	"encoding/json"
	"errors"
	"fmt"
	"testing"
	"testing/synctest"
	"time"

	"github.com/modelcontextprotocol/go-sdk/mcp"
	"github.com/modelcontextprotocol/go-sdk/verif/memio"
	"github.com/modelcontextprotocol/go-sdk/verif/vt"
	"pgregory.net/rapid"
)

type StdioKAScript struct {
	IntervalMs    int  `json:"interval_ms"`
	Threshold     int  `json:"threshold"`
	Answered      int  `json:"answered"` // pings the peer answers before it goes silent
	ReadCloseErr  bool `json:"read_close_err,omitempty"`
	WriteCloseErr bool `json:"write_close_err,omitempty"`
	StdinLike     bool `json:"stdin_like,omitempty"` // closing the reader does not interrupt a waiting Read
}

func genStdioKA(rt *rapid.T) StdioKAScript {
	return StdioKAScript{
		IntervalMs:    rapid.SampledFrom([]int{10, 1000, 30000}).Draw(rt, "interval"),
		Threshold:     rapid.SampledFrom([]int{0, 1, 2, 3}).Draw(rt, "threshold"),
		Answered:      rapid.IntRange(0, 4).Draw(rt, "answered"),
		ReadCloseErr:  rapid.Bool().Draw(rt, "read_close_err"),
		WriteCloseErr: rapid.Bool().Draw(rt, "write_close_err"),
		StdinLike:     rapid.IntRange(0, 2).Draw(rt, "stdin_like") > 0,
	}
}

func runStdioKA(s StdioKAScript) (res vt.Result) {
	if p := vt.Bubble(theT, func() { res = runStdioKAInBubble(s) }); p != "" {
		res.Class("teardown_leftover")
	}
	return res
}

func runStdioKAInBubble(s StdioKAScript) (res vt.Result) {
	res.Desc = fmt.Sprintf("stdio-ka|%d|%d|%d|%v|%v|%v", s.IntervalMs, s.Threshold, s.Answered, s.ReadCloseErr, s.WriteCloseErr, s.StdinLike)
	res.NonTrivial = s.StdinLike || s.ReadCloseErr || s.WriteCloseErr
	I := time.Duration(s.IntervalMs) * time.Millisecond
	a, b := memio.NewPipe()
	var rerr, werr error
	if s.ReadCloseErr {
		rerr = errors.New("close: broken pipe")
	}
	if s.WriteCloseErr {
		werr = errors.New("close: broken pipe")
	}
	rd, wr := a.Halves(rerr, werr)
	if s.StdinLike {
		rd = a.StdinLikeReader(rerr)
		res.Class("reader_close_does_not_interrupt_a_waiting_read")
	}
	server := mcp.NewServer(&mcp.Implementation{Name: "s", Version: "1"}, &mcp.ServerOptions{KeepAlive: I, KeepAliveFailureThreshold: s.Threshold})
	ss, err := server.Connect(context.Background(), &mcp.IOTransport{Reader: rd, Writer: wr}, nil)
	if err != nil {
		res.Failf("harness: %v", err)
		return
	}
	peer := memio.NewRawPeer(b)
	defer func() { b.Close(); go ss.Close(); synctest.Wait() }()
	peer.Send(`{"jsonrpc":"2.0","id":"init","method":"initialize","params":{"protocolVersion":"2025-06-18","capabilities":{},"clientInfo":{"name":"raw","version":"0"}}}`)
	synctest.Wait()
	peer.Send(`{"jsonrpc":"2.0","method":"notifications/initialized"}`)
	synctest.Wait()
	waitDone := make(chan struct{})
	go func() { ss.Wait(); close(waitDone) }()
	closed := func() bool {
		select {
		case <-waitDone:
			return true
		default:
			return false
		}
	}
	seen := len(peer.Received())
	answered := 0
	thr := max(1, s.Threshold)
	// the peer answers the first Answered pings at once; afterwards it reads them and says nothing
	deadline := time.Duration(s.Answered+thr+2)*I + I // generous: every tick up to the closing one, plus one ping time-out and one interval
	start := time.Now()
	for time.Since(start) < deadline && !closed() {
		synctest.Wait()
		rcv := peer.Received()
		for ; seen < len(rcv); seen++ {
			var m struct {
				ID     json.RawMessage `json:"id"`
				Method string          `json:"method"`
			}
			json.Unmarshal(rcv[seen], &m)
			if m.Method == "ping" && answered < s.Answered {
				answered++
				peer.Send(fmt.Sprintf(`{"jsonrpc":"2.0","id":%s,"result":{}}`, m.ID))
			}
		}
		synctest.Wait()
		if closed() && answered < s.Answered {
			res.Failf("the session was closed after %v although the peer had answered every ping so far (%d)", time.Since(start), answered)
			return
		}
		time.Sleep(I / 4)
	}
	synctest.Wait()
	if !closed() {
		res.Failf("the peer answered %d pings and then none: %v later (interval %v, threshold %d) the session is still not closed (Wait has not returned)", answered, time.Since(start), I, s.Threshold)
		return
	}
	res.Class("closed_by_keepalive")
	return res
}

var stdioKAProp = vt.Register(&vt.Prop[StdioKAScript]{Property: "C13", Name: "stdio", Gen: genStdioKA, Run: runStdioKA})

func TestC13_Stdio(t *testing.T) { theT = t; stdioKAProp.Check(t) }
