// Package c14 decides property C14 (bearer-token middleware) against a reference
// admission predicate, with the clock owned by a synctest bubble so expiry
// boundaries are exact.
package c14

import (
	"context"
	"errors"
	"fmt"
	"net/http"
	"net/http/httptest"
	"reflect"
	"strings"
	"testing"
	"time"

	"github.com/modelcontextprotocol/go-sdk/auth"
	"github.com/modelcontextprotocol/go-sdk/verif/vt"
	"pgregory.net/rapid"
)

func TestMain(m *testing.M) { vt.Main(m) }

type Script struct {
	Headers  []string `json:"headers"`  // Authorization header values, in order (nil: absent)
	Verifier string   `json:"verifier"` // ok invalid oauth other nilinfo both
	// InfoWithErr: a verifier that fails hands back the token info it had read next to its error (as a JWT
	// library passing on the claims of a token whose validation failed does): the error still decides.
	InfoWithErr bool     `json:"info_with_err,omitempty"`
	NilOpts     bool     `json:"nil_opts"`
	Required    []string `json:"required"`
	Granted     []string `json:"granted"`
	ExpKind     string   `json:"exp_kind"`           // zero | rel | epoch | far
	FarYear     int      `json:"far_year,omitempty"` // far: the expiry is 31 December of this year (a "never expires" sentinel)
	// Outer: the middleware under test sits behind another bearer middleware (a site-wide one in front of the mux,
	// with its own verifier and token info) that lets every well-formed credential through
	Outer     bool   `json:"outer,omitempty"`
	ExpRelNS  int64  `json:"exp_rel_ns"` // expiration = now + rel
	StripMono bool   `json:"strip_mono"`
	SkewNS    int64  `json:"skew_ns"`
	AllowMiss bool   `json:"allow_missing"`
	MetaURL   string `json:"meta_url"`
	InnerCode int    `json:"inner_code"`
	// Earlier: requests served by the SAME wrapped handler before the judged one (each entry is that
	// request's Authorization header values; an empty entry is a request without the header).
	Earlier [][]string `json:"earlier,omitempty"`
	// VerifyNS: how long the verifier takes (virtual time). The token must be unexpired when the
	// decision is taken, that is after the verifier has answered.
	VerifyNS int64 `json:"verify_ns,omitempty"`
}

var scopeAlpha = []string{"a", "b", "c", "read", "write:x", "A"}

func genHeader(rt *rapid.T) string {
	scheme := rapid.SampledFrom([]string{"Bearer", "bearer", "BEARER", "bEaReR", "Basic", "Bearer:", "Bear", "Bearerx", ""}).Draw(rt, "scheme")
	sep := rapid.SampledFrom([]string{" ", "  ", "\t", " \t ", ""}).Draw(rt, "sep")
	tok := rapid.SampledFrom([]string{"tok", "abc.def.ghi", "t=/+~", "x y", "", "Bearer", "tok "}).Draw(rt, "tok")
	lead := rapid.SampledFrom([]string{"", "", " ", "\t"}).Draw(rt, "lead")
	return lead + scheme + sep + tok
}

func genScript(rt *rapid.T) Script {
	var s Script
	switch rapid.IntRange(0, 9).Draw(rt, "hdrkind") {
	case 0:
		s.Headers = nil
	case 1:
		s.Headers = []string{genHeader(rt), genHeader(rt)}
	case 2, 3:
		s.Headers = []string{genHeader(rt)}
	default:
		s.Headers = []string{rapid.SampledFrom([]string{"Bearer tok", "bearer  tok", "BEARER\ttok", " Bearer tok "}).Draw(rt, "goodhdr")}
	}
	s.Verifier = rapid.SampledFrom([]string{"ok", "ok", "ok", "ok", "ok", "invalid", "oauth", "other", "nilinfo", "both"}).Draw(rt, "verifier")
	if s.Verifier != "ok" && s.Verifier != "nilinfo" {
		s.InfoWithErr = rapid.Bool().Draw(rt, "info_with_err")
	}
	s.NilOpts = rapid.IntRange(0, 7).Draw(rt, "nilopts") == 0
	s.Required = rapid.SliceOfN(rapid.SampledFrom(scopeAlpha), 0, 4).Draw(rt, "required")
	switch rapid.IntRange(0, 3).Draw(rt, "grantkind") {
	case 0:
		s.Granted = rapid.SliceOfN(rapid.SampledFrom(scopeAlpha), 0, 5).Draw(rt, "granted")
	case 1: // exactly the required ones (shuffled duplicates allowed)
		s.Granted = append([]string{}, s.Required...)
	case 2: // all but one of the required
		s.Granted = append([]string{}, s.Required...)
		if len(s.Granted) > 0 {
			i := rapid.IntRange(0, len(s.Granted)-1).Draw(rt, "drop")
			drop := s.Granted[i]
			var g []string
			for _, x := range s.Granted {
				if x != drop {
					g = append(g, x)
				}
			}
			s.Granted = g
		}
	default: // superset
		s.Granted = append(append([]string{}, s.Required...), rapid.SliceOfN(rapid.SampledFrom(scopeAlpha), 0, 3).Draw(rt, "extra")...)
	}
	s.SkewNS = rapid.SampledFrom([]int64{0, 0, 1, 2, int64(30 * time.Second), int64(time.Hour)}).Draw(rt, "skew")
	s.VerifyNS = rapid.SampledFrom([]int64{0, 0, 0, 1, 2, int64(time.Second), int64(30 * time.Second)}).Draw(rt, "verify_ns")
	if k := rapid.IntRange(0, 11).Draw(rt, "expzero"); k <= 1 {
		s.ExpKind = "zero"
	} else if k == 2 {
		s.ExpKind = "epoch" // an expiry that is set: 1970-01-01T00:00:00Z, as time.Unix(0, 0) gives it
	} else if k == 3 {
		// an expiry centuries away, as issuers write "never expires" (9999-12-31), beyond what a time.Duration can hold
		s.ExpKind = "far"
		s.FarYear = rapid.SampledFrom(farYears).Draw(rt, "far_year")
	} else {
		s.ExpKind = "rel"
		base := rapid.SampledFrom([]int64{0, -s.SkewNS, s.SkewNS, -int64(time.Hour), int64(time.Hour), -int64(365 * 24 * time.Hour), s.VerifyNS - s.SkewNS, s.VerifyNS - s.SkewNS, s.VerifyNS}).Draw(rt, "expbase")
		s.ExpRelNS = base + rapid.SampledFrom([]int64{-2, -1, 0, 1, 2}).Draw(rt, "expdelta")
	}
	s.Outer = rapid.IntRange(0, 4).Draw(rt, "outer") == 0
	s.StripMono = rapid.Bool().Draw(rt, "strip")
	s.AllowMiss = rapid.Bool().Draw(rt, "allow")
	s.MetaURL = rapid.SampledFrom([]string{"", "https://rs.example/.well-known/oauth-protected-resource", "https://x/y?z=1"}).Draw(rt, "meta")
	s.InnerCode = rapid.SampledFrom([]int{200, 204, 404}).Draw(rt, "inner")

	for i, n := 0, rapid.SampledFrom([]int{0, 0, 1, 2, 4}).Draw(rt, "earlier"); i < n; i++ {
		switch rapid.IntRange(0, 2).Draw(rt, "ekind") {
		case 0:
			s.Earlier = append(s.Earlier, []string{})
		case 1:
			s.Earlier = append(s.Earlier, []string{"Bearer tok"})
		default:
			s.Earlier = append(s.Earlier, []string{genHeader(rt)})
		}
	}
	return s
}

// refParse is the reference reading of "a syntactically valid Bearer credential":
// exactly two whitespace-separated fields, the first being "bearer" in any case.
func refParse(h string) (token string, ok bool) {
	var fields []string
	cur := ""
	flush := func() {
		if cur != "" {
			fields = append(fields, cur)
			cur = ""
		}
	}
	for _, r := range h {
		switch r {
		case ' ', '\t', '\n', '\r', '\v', '\f':
			flush()
		default:
			cur += string(r)
		}
	}
	flush()
	if len(fields) != 2 || !strings.EqualFold(fields[0], "bearer") {
		return "", false
	}
	return fields[1], true
}

// canonicalHeader: the one shape every reading of "a syntactically valid Bearer credential" accepts
// (RFC 6750 2.1 with the case-insensitive scheme of RFC 9110): scheme, one blank, a b64token.
func canonicalHeader(h string) bool {
	scheme, tok, ok := strings.Cut(h, " ")
	if !ok || !strings.EqualFold(scheme, "bearer") || tok == "" {
		return false
	}
	body := strings.TrimRight(tok, "=")
	if body == "" {
		return false
	}
	for _, r := range body {
		if !(r >= 'a' && r <= 'z' || r >= 'A' && r <= 'Z' || r >= '0' && r <= '9' || strings.ContainsRune("-._~+/", r)) {
			return false
		}
	}
	return true
}

// headerShape sorts the Authorization header lines of a request into
//
//	"canonical": one line of the canonical shape - must be taken as a credential;
//	"invalid":   no line that anybody could read as a Bearer credential - must be rejected;
//	"grey":      tabs or several blanks as separator, leading/trailing blanks, characters outside b64token,
//	             several header lines: the property text does not say whether that is "syntactically valid",
//	             either reading is accepted (as long as the rest of the predicate is applied consistently).
func headerShape(hs []string) string {
	anyRef := false
	for _, h := range hs {
		if _, ok := refParse(h); ok {
			anyRef = true
		}
	}
	switch {
	case !anyRef:
		return "invalid"
	case len(hs) == 1 && canonicalHeader(hs[0]):
		return "canonical"
	}
	return "grey"
}

// parseChallenges is an independent reader of WWW-Authenticate values (RFC 9110 11.6.1): it returns the
// auth-params of every challenge of the Bearer scheme (scheme matched case-insensitively, parameter values in
// token or quoted-string form). A parameter repeated within one challenge is an error.
func parseChallenges(values []string) ([]map[string]string, error) {
	var out []map[string]string
	isTok := func(c byte) bool { return c > ' ' && c < 0x7f && !strings.ContainsRune("\"(),/:;<=>?@[\\]{}", rune(c)) }
	for _, h := range values {
		var cur map[string]string // params of the Bearer challenge being read (nil: another scheme)
		i := 0
		skip := func() {
			for i < len(h) && (h[i] == ' ' || h[i] == '\t' || h[i] == ',') {
				i++
			}
		}
		for skip(); i < len(h); skip() {
			st := i
			for i < len(h) && isTok(h[i]) {
				i++
			}
			word := h[st:i]
			if word == "" {
				return nil, fmt.Errorf("malformed challenge %q at offset %d", h, i)
			}
			j := i
			for j < len(h) && (h[j] == ' ' || h[j] == '\t') {
				j++
			}
			if j >= len(h) || h[j] != '=' { // an auth-scheme
				cur = nil
				if strings.EqualFold(word, "bearer") {
					cur = map[string]string{}
					out = append(out, cur)
				}
				continue
			}
			i = j + 1
			for i < len(h) && (h[i] == ' ' || h[i] == '\t') {
				i++
			}
			val := ""
			if i < len(h) && h[i] == '"' {
				var b strings.Builder
				for i++; ; i++ {
					if i >= len(h) {
						return nil, fmt.Errorf("unterminated quoted-string in %q", h)
					}
					if h[i] == '\\' && i+1 < len(h) {
						i++
					} else if h[i] == '"' {
						i++
						break
					}
					b.WriteByte(h[i])
				}
				val = b.String()
			} else {
				st = i
				for i < len(h) && h[i] != ',' && h[i] != ' ' && h[i] != '\t' {
					i++
				}
				val = h[st:i]
			}
			if cur != nil {
				k := strings.ToLower(word)
				if _, dup := cur[k]; dup {
					return nil, fmt.Errorf("auth-param %s occurs more than once in challenge %q", k, h)
				}
				cur[k] = val
			}
		}
	}
	return out, nil
}

func sameSet(a, b []string) bool {
	for _, x := range a {
		if !contains(b, x) {
			return false
		}
	}
	for _, x := range b {
		if !contains(a, x) {
			return false
		}
	}
	return true
}

func contains(xs []string, x string) bool {
	for _, y := range xs {
		if x == y {
			return true
		}
	}
	return false
}

// farYears: expiry years far beyond the present (the bubble's clock starts in 2000): within and beyond the
// 292 years a time.Duration can span.
var farYears = []int{2250, 2300, 2999, 9999}

// runInBubble executes one case; it must be called inside a bubble (time.Now is the fake clock).
func runCase(s Script) (res vt.Result) {
	now := time.Now()
	var exp time.Time
	if s.ExpKind == "epoch" {
		exp = time.Unix(0, 0)
	}
	if s.ExpKind == "far" {
		exp = time.Date(s.FarYear, 12, 31, 23, 59, 59, 0, time.UTC)
	}
	if s.ExpKind == "rel" {
		exp = now.Add(time.Duration(s.ExpRelNS))
		if s.StripMono {
			exp = exp.Round(0)
		}
	}
	info := &auth.TokenInfo{Scopes: s.Granted, Expiration: exp, UserID: "u"}
	verifierCalls := 0
	judged := false // earlier requests are verified instantly; only the judged one meets the slow verifier
	var gotToken string
	errOther := errors.New("backend down")
	verifier := func(ctx context.Context, token string, req *http.Request) (*auth.TokenInfo, error) {
		verifierCalls++
		gotToken = token
		if judged && s.VerifyNS > 0 {
			time.Sleep(time.Duration(s.VerifyNS))
		}
		var failedInfo *auth.TokenInfo
		if s.InfoWithErr {
			failedInfo = info
		}
		switch s.Verifier {
		case "ok":
			return info, nil
		case "invalid":
			return failedInfo, fmt.Errorf("sig mismatch: %w", auth.ErrInvalidToken)
		case "oauth":
			return failedInfo, fmt.Errorf("%w: invalid_request", auth.ErrOAuth)
		case "other":
			return failedInfo, errOther
		case "both":
			return failedInfo, errors.Join(auth.ErrOAuth, auth.ErrInvalidToken)
		default:
			return nil, nil
		}
	}
	var opts *auth.RequireBearerTokenOptions
	if !s.NilOpts {
		opts = &auth.RequireBearerTokenOptions{ResourceMetadataURL: s.MetaURL, Scopes: s.Required, AllowMissingExpiration: s.AllowMiss, ClockSkew: time.Duration(s.SkewNS)}
	}
	innerRuns := 0
	var innerInfo *auth.TokenInfo
	inner := http.HandlerFunc(func(w http.ResponseWriter, r *http.Request) {
		innerRuns++
		innerInfo = auth.TokenInfoFromContext(r.Context())
		w.WriteHeader(s.InnerCode)
	})
	h := auth.RequireBearerToken(verifier, opts)(inner)
	if hdr0 := append([]string{""}, s.Headers...)[len(s.Headers)]; s.Outer && len(s.Headers) == 1 && headerShape(s.Headers) != "grey" {
		if _, ok := refParse(hdr0); ok {
			// (only for credentials the outer layer lets through for certain: what is judged is the layer behind it)
			outerInfo := &auth.TokenInfo{Scopes: []string{"site"}, UserID: "site-wide", Extra: map[string]any{"layer": "outer"}}
			outerVerifier := func(context.Context, string, *http.Request) (*auth.TokenInfo, error) { return outerInfo, nil }
			h = auth.RequireBearerToken(outerVerifier, &auth.RequireBearerTokenOptions{AllowMissingExpiration: true})(h)
			res.Class("behind_an_outer_bearer_middleware")
		}
	}
	for _, hs := range s.Earlier {
		ereq := httptest.NewRequest("POST", "http://rs.example/mcp", strings.NewReader("{}"))
		for _, v := range hs {
			ereq.Header.Add("Authorization", v)
		}
		h.ServeHTTP(httptest.NewRecorder(), ereq)
	}
	verifierCalls, gotToken, innerRuns, innerInfo = 0, "", 0, nil
	judged = true
	if len(s.Earlier) > 0 {
		res.Class("handler_served_earlier_requests")
	}
	req := httptest.NewRequest("POST", "http://rs.example/mcp", strings.NewReader("{}"))
	for _, v := range s.Headers {
		req.Header.Add("Authorization", v)
	}
	rec := httptest.NewRecorder()
	h.ServeHTTP(rec, req)
	status := rec.Code

	// ---- reference predicate --------------------------------------------------
	var required []string
	skew, allow := time.Duration(0), false
	if !s.NilOpts {
		required, skew, allow = s.Required, time.Duration(s.SkewNS), s.AllowMiss
	}
	hdr := ""
	if len(s.Headers) > 0 {
		hdr = s.Headers[0]
	}
	tok, validHeader := refParse(hdr)
	grey := headerShape(s.Headers) == "grey"
	if grey {
		// Neither clearly a Bearer credential nor clearly none: whether the middleware handed a token to the
		// verifier selects the reading; the rest of the predicate is then applied to that reading.
		validHeader = verifierCalls > 0
		res.Class("header_grey_shape")
	}
	verifyNS := int64(0)
	if validHeader {
		verifyNS = s.VerifyNS // the verifier only runs (and takes its time) for a well-formed credential
	}
	verifierOK := s.Verifier == "ok"
	scopesOK := true
	for _, r := range required {
		if !contains(s.Granted, r) {
			scopesOK = false
		}
	}
	var expiryOK bool
	if s.ExpKind == "zero" {
		expiryOK = allow
	} else if s.ExpKind == "epoch" {
		expiryOK = false // decades past, whatever the tolerance; only an unset expiry is covered by AllowMissingExpiration
		res.Class("expiry_at_the_unix_epoch")
	} else if s.ExpKind == "far" {
		expiryOK = true // centuries ahead of the bubble's clock, whatever the tolerance
		res.Class("expiry_centuries_ahead")
	} else {
		// unexpired within skew at the moment of the decision (after the verifier took VerifyNS):
		// exp + skew >= now + verify  <=>  rel + skew - verify >= 0
		expiryOK = s.ExpRelNS+int64(skew)-verifyNS >= 0
	}
	admit := validHeader && verifierOK && scopesOK && expiryOK

	falseConj := 0
	switch {
	case !validHeader, !verifierOK:
		falseConj = 1 // later conjuncts are not evaluated
	default:
		if !scopesOK {
			falseConj++
		}
		if !expiryOK {
			falseConj++
		}
	}
	nearBoundary := s.ExpKind == "rel" && abs64(s.ExpRelNS+int64(skew)-verifyNS) <= 2
	res.NonTrivial = falseConj == 1 || nearBoundary
	res.Desc = fmt.Sprintf("%q|%s|%v|%v|%v|%v|%s|%d|%d|%v|%v", s.Headers, s.Verifier, s.NilOpts, s.Required, s.Granted, scopesOK, s.ExpKind, s.ExpRelNS+int64(skew), s.SkewNS, s.AllowMiss, s.MetaURL != "") + fmt.Sprintf("|e%d", len(s.Earlier))
	if admit {
		res.Class("admitted")
	} else {
		res.Class("rejected")
	}
	if nearBoundary {
		res.Class("expiry_within_2ns_of_boundary")
	}

	if admit {
		if innerRuns != 1 {
			res.Failf("request satisfies every condition but the inner handler ran %d times (status %d)", innerRuns, status)
			return
		}
		// "exactly the verifier's token info": the same contents; a defensive copy is as good as the same pointer
		if innerInfo == nil || !reflect.DeepEqual(*innerInfo, *info) {
			res.Failf("inner handler saw TokenInfo %+v, want the verifier's %+v", innerInfo, info)
		}
		if status != s.InnerCode {
			res.Failf("admitted request: status %d, want the inner handler's %d", status, s.InnerCode)
		}
		if grey {
			// the token is a blank-separated field of one of the header lines
			found := false
			for _, h := range s.Headers {
				found = found || contains(strings.Fields(h), gotToken)
			}
			if !found {
				res.Failf("verifier was given token %q, which is no field of the Authorization header lines %q", gotToken, s.Headers)
			}
		} else if gotToken != tok {
			res.Failf("verifier was given token %q, want %q", gotToken, tok)
		}
		return
	}
	if innerRuns != 0 {
		res.Failf("inner handler ran (%d times) although the request must be rejected (validHeader=%v verifier=%s scopesOK=%v expiryOK=%v)", innerRuns, validHeader, s.Verifier, scopesOK, expiryOK)
		return
	}
	var allowed []int
	switch {
	case !validHeader:
		allowed = []int{401}
		if grey {
			allowed = []int{400, 401} // a malformed header may also be refused as a malformed request (RFC 6750 3.1)
		}
		if verifierCalls != 0 {
			res.Failf("verifier was called for a request without a valid Bearer credential (headers %q)", s.Headers)
		}
	case s.Verifier == "invalid":
		allowed = []int{401}
	case s.Verifier == "oauth":
		allowed = []int{400}
	case s.Verifier == "both":
		allowed = []int{400, 401}
	case s.Verifier == "other":
		allowed = []int{500}
	case s.Verifier == "nilinfo":
		allowed = []int{401, 500} // no token info and no error: a verifier fault (500) or a failed verification (401, the documented answer)
	default:
		if !scopesOK {
			allowed = append(allowed, 403)
		}
		if !expiryOK {
			allowed = append(allowed, 401)
		}
	}
	okStatus := false
	for _, a := range allowed {
		if status == a {
			okStatus = true
		}
	}
	if !okStatus {
		res.Failf("rejected request answered %d, want one of %v (validHeader=%v verifier=%s scopesOK=%v expiryOK=%v)", status, allowed, validHeader, s.Verifier, scopesOK, expiryOK)
		return
	}
	if status == 401 || status == 403 {
		wantMeta, wantScope := "", ""
		if !s.NilOpts {
			wantMeta = s.MetaURL
			wantScope = strings.Join(s.Required, " ")
		}
		chals := rec.Header().Values("WWW-Authenticate")
		if wantMeta == "" && wantScope == "" {
			// Nothing configured: nothing to carry. A bare challenge is acceptable, a wrong one is not.
			if ps, err := parseChallenges(chals); err == nil {
				for _, p := range ps {
					if p["resource_metadata"] != "" || p["scope"] != "" {
						res.Failf("challenge %q carries parameters that were not configured", chals)
					}
				}
			}
			return
		}
		// Challenges of other schemes and further auth-params (error=..., realm=...) are not the property's
		// business: exactly one Bearer challenge must carry the configured URL and the configured scopes (as a set).
		ps, err := parseChallenges(chals)
		if err != nil {
			res.Failf("status %d: %v", status, err)
			return
		}
		if len(ps) != 1 {
			res.Failf("status %d with %d Bearer challenges in WWW-Authenticate %q, want exactly one", status, len(ps), chals)
			return
		}
		p := ps[0]
		if p["resource_metadata"] != wantMeta {
			res.Failf("challenge %q: resource_metadata=%q, want %q", chals, p["resource_metadata"], wantMeta)
		}
		if !sameSet(strings.Fields(p["scope"]), strings.Fields(wantScope)) {
			res.Failf("challenge %q: scope=%q, want the scopes %q", chals, p["scope"], wantScope)
		}
	}
	return
}

func abs64(x int64) int64 {
	if x < 0 {
		return -x
	}
	return x
}

var theT *testing.T

func run(s Script) (res vt.Result) {
	if p := vt.Bubble(theT, func() { res = runCase(s) }); p != "" {
		res.Failf("bubble: %s", p)
	}
	return res
}

var prop = vt.Register(&vt.Prop[Script]{Property: "C14", Name: "bearer", Gen: genScript, Run: run})

func TestC14_Bearer(t *testing.T) { theT = t; prop.Check(t) }

// TestC14_Enum enumerates the boundary product completely (one bubble; the fake
// clock does not move because nothing sleeps).
func TestC14_Enum(t *testing.T) {
	theT = t
	headers := [][]string{nil, {""}, {"Bearer tok"}, {"bearer tok"}, {"BEARER  tok"}, {"Bearer"}, {"Bearer a b"}, {"Basic tok"}, {"Bearertok"}, {"Bearer\ttok"}, {"Basic x", "Bearer tok"}, {"Bearer tok", "Basic x"}}
	verifiers := []string{"ok", "invalid", "oauth", "other", "nilinfo", "both"}
	scopeCases := [][2][]string{{nil, nil}, {{"a"}, {"a"}}, {{"a"}, nil}, {{"a", "b", "c"}, {"a", "c"}}, {{"a", "b"}, {"b", "a", "x"}}, {{"a", "a"}, {"a"}}, {{"b", "a"}, {"a"}}, {{"a"}, {"A"}}}
	skews := []int64{0, 1, int64(30 * time.Second)}
	deltas := []int64{-2, -1, 0, 1, 2, -int64(time.Hour), int64(time.Hour)}
	cells := 0
	ok := true
	var failing *Script
	vt.Bubble(t, func() {
		for _, h := range headers {
			for _, v := range verifiers {
				for _, sc := range scopeCases {
					for _, skew := range skews {
						for _, allow := range []bool{false, true} {
							for _, nilOpts := range []bool{false, true} {
								var exps []Script
								exps = append(exps, Script{ExpKind: "zero"})
								for _, y := range farYears {
									exps = append(exps, Script{ExpKind: "far", FarYear: y})
								}
								for _, d := range deltas {
									exps = append(exps, Script{ExpKind: "rel", ExpRelNS: -skew + d}, Script{ExpKind: "rel", ExpRelNS: d, StripMono: true})
								}
								for _, e := range exps {
									s := Script{Headers: h, Verifier: v, NilOpts: nilOpts, Required: sc[0], Granted: sc[1], ExpKind: e.ExpKind, FarYear: e.FarYear, ExpRelNS: e.ExpRelNS, StripMono: e.StripMono, SkewNS: skew, AllowMiss: allow, MetaURL: "https://rs.example/prm", InnerCode: 200}
									cells++
									res := runCase(s)
									if len(res.Violations) > 0 {
										ok = false
										failing = &s
										return
									}
								}
							}
						}
					}
				}
			}
		}
	})
	if failing != nil {
		enumProp.RunOne(t, *failing) // re-executes in its own bubble and reports
	}
	if ok {
		vt.Counter("exhaustive_cells", cells)
	}
}

var enumProp = vt.Register(&vt.Prop[Script]{Property: "C14", Name: "enum", Gen: genScript, Run: run})

func TestReplay(t *testing.T)  { theT = t; vt.Replay(t) }
func TestRegress(t *testing.T) { theT = t; vt.Regress(t, "C14") }
func TestKnown(t *testing.T)   { theT = t; vt.Known(t, "C14") }
