// Package c15 decides property C15 (OAuth client flow trusts only matching,
// safe metadata and a matching state/iss) by running
// auth.AuthorizationCodeHandler.Authorize against a generated, recording,
// in-memory HTTP universe and checking invariants over the recorded history.
//
// The oracle never asks the SDK what is valid: the permitted well-known
// locations (RFC 9728 section 3.1, RFC 8414 section 3.1, OIDC discovery), the
// document validity rules and the RFC 9207 rule are re-stated here from the
// property text and the RFCs.
package c15

import (
	"context"
	"encoding/json"
	"errors"
	"fmt"
	"golang.org/x/oauth2"
	"io"
	"mime"
	"net/http"
	"net/netip"
	"net/url"
	"sort"
	"strings"
	"sync"
	"testing"

	"github.com/modelcontextprotocol/go-sdk/auth"
	"github.com/modelcontextprotocol/go-sdk/oauthex"
	"github.com/modelcontextprotocol/go-sdk/verif/vt"
	"pgregory.net/rapid"
)

func TestMain(m *testing.M) { vt.Main(m) }

// ---- script -------------------------------------------------------------------

// Entry is the canned answer of the universe for GET <URL>. Everything not
// listed answers 404.
type Entry struct {
	URL    string `json:"url"`
	Status int    `json:"status"`
	CT     string `json:"ct,omitempty"`
	Body   string `json:"body,omitempty"`
	Label  string `json:"label,omitempty"` // generator's note; never read by the oracle
}

type Script struct {
	MCP     string   `json:"mcp"`
	Status  int      `json:"status"`            // 401 | 403
	Headers [][]Chal `json:"headers,omitempty"` // one element per WWW-Authenticate line
	PSep    string   `json:"psep"`
	CSep    string   `json:"csep"`
	RawHdr  string   `json:"raw_hdr,omitempty"` // extra raw (malformed) header line
	GET     []Entry  `json:"get"`
	Reg     string   `json:"reg"` // 201 201public 200 400 garbage noid 500
	Tok     string   `json:"tok"` // 200 200form 400 500 garbage
	// fetcher behaviour
	FetchState string `json:"fetch_state"` // echo altered lower prefix empty err
	FetchIss   string `json:"fetch_iss"`   // auto match absent other slash
	// client registration configuration
	CIMD         bool   `json:"cimd"`
	Prereg       string `json:"prereg,omitempty"` // "" (not configured) none same sameslash other
	PreregIssuer string `json:"prereg_issuer,omitempty"`
	PreregSecret bool   `json:"prereg_secret,omitempty"`
	DCR          bool   `json:"dcr"`
	InitialToken bool   `json:"initial_token"`
	// Hook: AuthorizationCodeHandlerConfig.NewTokenSource is set: "ok" builds the default source, "reject" refuses
	// the freshly exchanged token (the application's own vetting): Authorize then fails and nothing is installed.
	Hook string `json:"hook,omitempty"`
	// Clean is the generator's promise that nothing in the universe is
	// defective: used only for the vacuity guard (Authorize must then succeed).
	Clean bool `json:"clean"`
}

const (
	redirectURL  = "http://localhost:12345/callback"
	cimdURL      = "https://client.example/c15/client.json"
	preregID     = "prereg-client-c15"
	preregSecret = "prereg-secret-c15"
	dcrID        = "dcr-client-c15"
	accessToken  = "tok-c15"
	otherIssuer  = "https://other-as.example"
	evilAS       = "https://evil-as.example"
	plainAS      = "http://as-plain.example"
)

// ---- reference definitions (oracle side) -----------------------------------------

func trimOneSlash(s string) string { return strings.TrimSuffix(s, "/") }

// issuerEq: issuer identifiers compared modulo one trailing slash (documented
// by the SDK for both metadata validation and pre-registered credentials).
func issuerEq(a, b string) bool { return trimOneSlash(a) == trimOneSlash(b) }

func toggleSlash(s string) string {
	if strings.HasSuffix(s, "/") {
		return strings.TrimSuffix(s, "/")
	}
	return s + "/"
}

func originOf(raw string) string {
	u, err := url.Parse(raw)
	if err != nil {
		return ""
	}
	return u.Scheme + "://" + u.Host
}

func isLoopbackHost(host string) bool {
	if host == "localhost" {
		return true
	}
	ip, err := netip.ParseAddr(host)
	return err == nil && ip.IsLoopback()
}

// safeTransportURL is I1: "an https or loopback URL" (the property text does
// not restrict the scheme used with a loopback host).
func safeTransportURL(u *url.URL) bool {
	return strings.ToLower(u.Scheme) == "https" || isLoopbackHost(u.Hostname())
}

func scriptScheme(raw string) bool {
	s := strings.ToLower(strings.TrimLeft(raw, " \t\r\n"))
	return strings.HasPrefix(s, "javascript:") || strings.HasPrefix(s, "data:") || strings.HasPrefix(s, "vbscript:")
}

type prmLoc struct {
	URL       string
	Kind      string   // chal | path | root
	Resources []string // resource identifiers a document at this location may carry
}

// refPRMLocations lists where protected-resource metadata for mcp may be looked
// up (MCP 2025-11-25: the challenge's resource_metadata, the well-known URI
// with the endpoint path inserted, the well-known URI at the root) and which
// resource identifier a document found there has to carry (RFC 9728 3.3).
func refPRMLocations(mcp string, chalURLs []string) []prmLoc {
	var out []prmLoc
	for _, c := range chalURLs {
		out = append(out, prmLoc{URL: c, Kind: "chal", Resources: []string{mcp}})
	}
	u, err := url.Parse(mcp)
	if err != nil {
		return out
	}
	origin := u.Scheme + "://" + u.Host
	p := strings.TrimLeft(u.Path, "/")
	const wk = "/.well-known/oauth-protected-resource"
	if p != "" {
		out = append(out, prmLoc{URL: origin + wk + "/" + p, Kind: "path", Resources: []string{mcp}})
		out = append(out, prmLoc{URL: origin + wk, Kind: "root", Resources: []string{origin, mcp}})
	} else {
		out = append(out, prmLoc{URL: origin + wk, Kind: "root", Resources: []string{origin, mcp}})
	}
	return out
}

type asLoc struct {
	URL  string
	Kind string
}

// refASLocations lists the permitted metadata locations of issuer x (RFC 8414
// 3.1 with path insertion, OIDC discovery with insertion and with appending).
func refASLocations(x string) []asLoc {
	u, err := url.Parse(x)
	if err != nil || u.Host == "" {
		return nil
	}
	origin := u.Scheme + "://" + u.Host
	p := strings.Trim(u.Path, "/")
	if p == "" {
		return []asLoc{
			{origin + "/.well-known/oauth-authorization-server", "oauth-root"},
			{origin + "/.well-known/openid-configuration", "oidc-root"},
		}
	}
	return []asLoc{
		{origin + "/.well-known/oauth-authorization-server/" + p, "oauth-insert"},
		{origin + "/.well-known/openid-configuration/" + p, "oidc-insert"},
		{origin + "/" + p + "/.well-known/openid-configuration", "oidc-append"},
	}
}

// sameLocation tolerates one trailing slash (an issuer written with a trailing
// slash makes the SDK probe the well-known URL with a trailing slash).
func sameLocation(a, b string) bool { return trimOneSlash(a) == trimOneSlash(b) }

type prmDoc struct {
	Resource             string   `json:"resource"`
	AuthorizationServers []string `json:"authorization_servers"`
}

type asDoc struct {
	Issuer                string   `json:"issuer"`
	AuthorizationEndpoint string   `json:"authorization_endpoint"`
	TokenEndpoint         string   `json:"token_endpoint"`
	JWKSURI               string   `json:"jwks_uri"`
	RegistrationEndpoint  string   `json:"registration_endpoint"`
	ServiceDocumentation  string   `json:"service_documentation"`
	OpPolicyURI           string   `json:"op_policy_uri"`
	OpTOSURI              string   `json:"op_tos_uri"`
	RevocationEndpoint    string   `json:"revocation_endpoint"`
	IntrospectionEndpoint string   `json:"introspection_endpoint"`
	PKCE                  []string `json:"code_challenge_methods_supported"`
	IssSupported          bool     `json:"authorization_response_iss_parameter_supported"`
	CIMDSupported         bool     `json:"client_id_metadata_document_supported"`
}

func (d *asDoc) urlFields() []string {
	return []string{d.AuthorizationEndpoint, d.TokenEndpoint, d.JWKSURI, d.RegistrationEndpoint, d.ServiceDocumentation,
		d.OpPolicyURI, d.OpTOSURI, d.RevocationEndpoint, d.IntrospectionEndpoint}
}

// asDefects says why document d, found for issuer x, must not be trusted
// according to the property text (empty: trustworthy).
func asDefects(d *asDoc, x string) []string {
	var out []string
	if !issuerEq(d.Issuer, x) {
		out = append(out, "issuer")
	}
	if len(d.PKCE) == 0 {
		out = append(out, "pkce")
	}
	for _, f := range d.urlFields() {
		if scriptScheme(f) {
			out = append(out, "script")
			break
		}
	}
	return out
}

// ---- the recording universe ---------------------------------------------------------

type rec struct {
	Method  string
	URL     string
	Parsed  *url.URL
	Kind    string // get | register | token | other
	Status  int
	Served  *Entry // GET answered from an entry
	Form    url.Values
	BasicID string
}

type universe struct {
	mu      sync.Mutex
	s       *Script
	priming bool // serving the fixed clean universe used to install an initial token
	get     map[string]*Entry
	log     []rec
	fetched []string // authorization URLs handed to the fetcher
	retSt   []string // states returned by the fetcher
	retIss  []string
}

func newUniverse(s *Script) *universe {
	u := &universe{s: s, get: map[string]*Entry{}}
	for i := range s.GET {
		e := &s.GET[i]
		if _, dup := u.get[e.URL]; !dup {
			u.get[e.URL] = e
		}
	}
	return u
}

func (u *universe) lookup(raw string) *Entry {
	if e := u.get[raw]; e != nil {
		return e
	}
	if e := u.get[trimOneSlash(raw)]; e != nil {
		return e
	}
	return nil
}

func mkResp(req *http.Request, status int, ct, body string) *http.Response {
	h := http.Header{}
	if ct != "" {
		h.Set("Content-Type", ct)
	}
	return &http.Response{
		Status: fmt.Sprintf("%d %s", status, http.StatusText(status)), StatusCode: status,
		Proto: "HTTP/1.1", ProtoMajor: 1, ProtoMinor: 1,
		Header: h, Body: io.NopCloser(strings.NewReader(body)), ContentLength: int64(len(body)), Request: req,
	}
}

func (u *universe) RoundTrip(req *http.Request) (*http.Response, error) {
	u.mu.Lock()
	defer u.mu.Unlock()
	if u.priming {
		return u.primeRoundTrip(req), nil
	}
	r := rec{Method: req.Method, URL: req.URL.String(), Parsed: req.URL, Kind: "other"}
	var body []byte
	if req.Body != nil {
		body, _ = io.ReadAll(req.Body)
		req.Body.Close()
	}
	mt, _, _ := mime.ParseMediaType(req.Header.Get("Content-Type"))
	var resp *http.Response
	switch {
	case req.Method == http.MethodGet:
		r.Kind = "get"
		if e := u.lookup(r.URL); e != nil {
			r.Served = e
			resp = mkResp(req, e.Status, e.CT, e.Body)
		} else {
			resp = mkResp(req, 404, "text/plain", "not found")
		}
	case req.Method == http.MethodPost && mt == "application/json":
		r.Kind = "register"
		switch u.s.Reg {
		case "201":
			resp = mkResp(req, 201, "application/json", `{"client_id":"`+dcrID+`","client_secret":"dcr-secret","token_endpoint_auth_method":"client_secret_post","redirect_uris":["`+redirectURL+`"]}`)
		case "201public":
			resp = mkResp(req, 201, "application/json", `{"client_id":"`+dcrID+`","token_endpoint_auth_method":"none"}`)
		case "200":
			resp = mkResp(req, 200, "application/json", `{"client_id":"`+dcrID+`","client_secret":"dcr-secret"}`)
		case "400":
			resp = mkResp(req, 400, "application/json", `{"error":"invalid_redirect_uri","error_description":"no"}`)
		case "garbage":
			resp = mkResp(req, 201, "application/json", `<<not json>>`)
		case "noid":
			resp = mkResp(req, 201, "application/json", `{"client_secret":"only-a-secret"}`)
		default:
			resp = mkResp(req, 500, "text/plain", "boom")
		}
	case req.Method == http.MethodPost && mt == "application/x-www-form-urlencoded":
		r.Kind = "token"
		r.Form, _ = url.ParseQuery(string(body))
		if id, _, ok := req.BasicAuth(); ok {
			if dec, err := url.QueryUnescape(id); err == nil {
				id = dec
			}
			r.BasicID = id
		}
		switch u.s.Tok {
		case "200":
			resp = mkResp(req, 200, "application/json", `{"access_token":"`+accessToken+`","token_type":"Bearer","expires_in":3600,"scope":"read"}`)
		case "200form":
			resp = mkResp(req, 200, "application/x-www-form-urlencoded", "access_token="+accessToken+"&token_type=bearer&expires_in=3600")
		case "400":
			resp = mkResp(req, 400, "application/json", `{"error":"invalid_grant","error_description":"no"}`)
		case "garbage":
			resp = mkResp(req, 200, "application/json", `<<not json>>`)
		default:
			resp = mkResp(req, 500, "text/plain", "boom")
		}
	default:
		resp = mkResp(req, 404, "text/plain", "not found")
	}
	r.Status = resp.StatusCode
	u.log = append(u.log, r)
	return resp, nil
}

// primeAS is the issuer of the fixed clean universe of the priming phase: the
// issuer the pre-registered credentials are bound to, if any.
func (u *universe) primeAS() string {
	if u.s.Prereg != "" && u.s.PreregIssuer != "" {
		return u.s.PreregIssuer
	}
	return "https://prime-as.example"
}

// primeRoundTrip serves a minimal, entirely valid universe (not recorded): it
// only exists so that a first Authorize installs a token source which the
// checked Authorize call must then leave alone when it fails.
func (u *universe) primeRoundTrip(req *http.Request) *http.Response {
	as := u.primeAS()
	switch {
	case req.Method == http.MethodGet && req.URL.String() == refPRMLocations(u.s.MCP, nil)[0].URL:
		return mkResp(req, 200, "application/json", mustJSON(map[string]any{"resource": refPRMLocations(u.s.MCP, nil)[0].Resources[0], "authorization_servers": []string{as}}))
	case req.Method == http.MethodGet && sameLocation(req.URL.String(), refASLocations(as)[0].URL):
		return mkResp(req, 200, "application/json", mustJSON(map[string]any{
			"issuer": as, "authorization_endpoint": "https://prime-as.example/authorize", "token_endpoint": "https://prime-as.example/token",
			"registration_endpoint": "https://prime-as.example/register", "code_challenge_methods_supported": []string{"S256"},
			"client_id_metadata_document_supported": true, "response_types_supported": []string{"code"},
		}))
	case req.Method == http.MethodGet:
		return mkResp(req, 404, "text/plain", "not found")
	case strings.HasPrefix(req.Header.Get("Content-Type"), "application/json"):
		return mkResp(req, 201, "application/json", `{"client_id":"prime-client"}`)
	default:
		return mkResp(req, 200, "application/json", `{"access_token":"tok-prime","token_type":"Bearer","expires_in":3600}`)
	}
}

func baseOf(raw string) string {
	if i := strings.IndexByte(raw, '?'); i >= 0 {
		return raw[:i]
	}
	return raw
}

func queryOf(raw string) url.Values {
	if i := strings.IndexByte(raw, '?'); i >= 0 {
		q, _ := url.ParseQuery(raw[i+1:])
		return q
	}
	return url.Values{}
}

// issuerFor finds, for the fetcher (which plays the authorization server's
// redirect), the issuer and iss-support flag of the document whose
// authorization endpoint the URL points at.
func (u *universe) issuerFor(authURL string) (issuer string, advertised bool) {
	base := baseOf(authURL)
	for i := range u.s.GET {
		e := &u.s.GET[i]
		if e.Status != 200 {
			continue
		}
		var d asDoc
		if json.Unmarshal([]byte(e.Body), &d) == nil && d.AuthorizationEndpoint != "" && d.AuthorizationEndpoint == base {
			return d.Issuer, d.IssSupported
		}
	}
	if strings.HasSuffix(base, "/authorize") {
		return strings.TrimSuffix(base, "/authorize"), false
	}
	return "https://unknown-issuer.example", false
}

func (u *universe) fetch(ctx context.Context, args *auth.AuthorizationArgs) (*auth.AuthorizationResult, error) {
	u.mu.Lock()
	defer u.mu.Unlock()
	if u.priming {
		return &auth.AuthorizationResult{Code: "code-prime", State: queryOf(args.URL).Get("state")}, nil
	}
	u.fetched = append(u.fetched, args.URL)
	if u.s.FetchState == "err" {
		u.retSt = append(u.retSt, "")
		u.retIss = append(u.retIss, "")
		return nil, errors.New("user cancelled")
	}
	state := queryOf(args.URL).Get("state")
	var st string
	switch u.s.FetchState {
	case "echo":
		st = state
	case "altered":
		b := []byte(state)
		for i, j := 0, len(b)-1; i < j; i, j = i+1, j-1 {
			b[i], b[j] = b[j], b[i]
		}
		st = string(b) + "x"
	case "lower":
		st = strings.ToLower(state)
		if st == state {
			st = state + "a"
		}
	case "prefix":
		if len(state) > 0 {
			st = state[:len(state)-1]
		} else {
			st = "x"
		}
	case "empty":
		st = ""
	}
	issuer, adv := u.issuerFor(args.URL)
	var iss string
	switch u.s.FetchIss {
	case "auto":
		if adv {
			iss = issuer
		}
	case "match":
		iss = issuer
	case "absent":
		iss = ""
	case "other":
		iss = "https://attacker.example"
	case "slash":
		iss = toggleSlash(issuer)
	}
	u.retSt = append(u.retSt, st)
	u.retIss = append(u.retIss, iss)
	return &auth.AuthorizationResult{Code: "code-c15", State: st, Iss: iss}, nil
}

// ---- generator -----------------------------------------------------------------------

var mcpURLs = []string{
	"https://mcp.example/mcp", "https://mcp.example/mcp", "https://mcp.example/a/b", "https://mcp.example",
	"https://mcp.example:8443/mcp", "https://mcp.example/mcp/", "http://localhost:8080/mcp", "http://127.0.0.1:8080/mcp",
	"http://[::1]:8080/mcp",
}

func mustJSON(v any) string {
	b, err := json.Marshal(v)
	if err != nil {
		panic(err)
	}
	return string(b)
}

type genCtx struct {
	rt     *rapid.T
	s      *Script
	defect map[string]int // slot -> number of defects still to inject
	labels []string
}

func (g *genCtx) take(slot string) bool {
	if g.defect[slot] > 0 {
		g.defect[slot]--
		return true
	}
	return false
}

func (g *genCtx) add(e Entry) { g.s.GET = append(g.s.GET, e) }

var asURLFields = []string{"authorization_endpoint", "token_endpoint", "registration_endpoint", "jwks_uri", "service_documentation",
	"op_policy_uri", "op_tos_uri", "revocation_endpoint", "introspection_endpoint"}

var scriptURLs = []string{"javascript:alert(1)", "JavaScript:alert(document.domain)", "data:text/html,<script>alert(1)</script>", "vbscript:msgbox(1)", "javascript://as.example/%0aalert(1)",
	// white space in front of the scheme: a browser strips it and runs the script all the same
	" javascript:alert(1)", "\tjavascript:alert(1)", "\n data:text/html,<script>alert(1)</script>", "\r\nJavaScript:alert(1)"}

var nonLoopbackHTTP = []string{"http://as.example/x", "http://localhost.evil.example/x", "http://localhost@evil.example/x", "http://127.0.0.1.evil.example/x", "http://10.0.0.1/x", "http://evil.example:443/x"}

// genASDoc builds one authorization-server document for issuer x, served at
// location tag. defect "" gives a fully valid document.
func (g *genCtx) genASDoc(x, tag, defect string) (body, label string) {
	rt := g.rt
	origin := originOf(x)
	ep := origin + "/ep/" + tag
	if rapid.IntRange(0, 5).Draw(rt, "ep-loopback") == 0 {
		ep = "http://localhost:9100/ep/" + tag // http loopback endpoints are permitted
	}
	issuer := x
	if rapid.IntRange(0, 3).Draw(rt, "iss-slashvar") == 0 {
		issuer = toggleSlash(x) // permitted: comparison is modulo one trailing slash
	}
	d := map[string]any{
		"issuer":                           issuer,
		"authorization_endpoint":           ep + "/authorize",
		"token_endpoint":                   ep + "/token",
		"jwks_uri":                         ep + "/jwks",
		"response_types_supported":         []string{"code"},
		"code_challenge_methods_supported": rapid.SampledFrom([][]string{{"S256"}, {"S256", "plain"}, {"plain", "S256"}}).Draw(rt, "pkce"),
		"service_documentation":            origin + "/docs",
		"scopes_supported":                 []string{"read", "write", "offline_access"},
	}
	if g.s.Clean || rapid.IntRange(0, 6).Draw(rt, "has-reg") != 0 {
		d["registration_endpoint"] = ep + "/register"
	}
	if rapid.Bool().Draw(rt, "has-extra") {
		d["op_policy_uri"] = origin + "/policy"
		d["op_tos_uri"] = origin + "/tos"
		d["revocation_endpoint"] = ep + "/revoke"
		d["introspection_endpoint"] = ep + "/introspect"
	}
	if g.s.Clean || rapid.Bool().Draw(rt, "cimd-supported") {
		d["client_id_metadata_document_supported"] = true
	}
	if rapid.Bool().Draw(rt, "iss-supported") {
		d["authorization_response_iss_parameter_supported"] = true
	}
	if am := rapid.SampledFrom([][]string{nil, {"client_secret_post"}, {"client_secret_basic"}, {"none", "client_secret_basic", "client_secret_post"}}).Draw(rt, "auth-methods"); am != nil {
		d["token_endpoint_auth_methods_supported"] = am
	}
	switch defect {
	case "":
	case "issuer-other":
		d["issuer"] = otherIssuer
	case "issuer-empty":
		delete(d, "issuer")
	case "issuer-extended":
		d["issuer"] = trimOneSlash(x) + rapid.SampledFrom([]string{"x", "/sub", "//", ".evil.example"}).Draw(rt, "issuer-ext")
	case "pkce-absent":
		delete(d, "code_challenge_methods_supported")
	case "pkce-empty":
		d["code_challenge_methods_supported"] = []string{}
	case "pkce-plain":
		// Advertises PKCE but not S256: the property text only requires that PKCE
		// support is advertised, so the oracle accepts either outcome.
		d["code_challenge_methods_supported"] = []string{"plain"}
	case "script":
		f := rapid.SampledFrom(asURLFields).Draw(rt, "script-field")
		d[f] = rapid.SampledFrom(scriptURLs).Draw(rt, "script-url")
		label = "script:" + f
	case "http":
		f := rapid.SampledFrom([]string{"token_endpoint", "registration_endpoint", "token_endpoint", "registration_endpoint", "authorization_endpoint", "introspection_endpoint"}).Draw(rt, "http-field")
		base := rapid.SampledFrom(nonLoopbackHTTP).Draw(rt, "http-url")
		d[f] = base + "/" + tag + "/" + f
		label = "http:" + f
	}
	if label == "" {
		label = defect
	}
	return mustJSON(d), label
}

var asDocDefects = []string{"issuer-other", "issuer-other", "issuer-empty", "issuer-extended", "pkce-absent", "pkce-absent", "pkce-empty", "pkce-plain",
	"script", "script", "script", "http", "http", "http", "garbage", "500", "wrong-ct"}

// genSite fills the metadata locations of issuer x. force makes the first
// location a valid document (so a clean universe never needs the fallback).
func (g *genCtx) genSite(si int, x string, primary, force bool) {
	rt := g.rt
	locs := refASLocations(x)
	target := -1
	if primary && g.defect["as"] > 0 {
		target = rapid.IntRange(0, len(locs)-1).Draw(rt, "as-target")
	}
	allMissing := !force && rapid.IntRange(0, 9).Draw(rt, "as-all-missing") == 0
	for li, l := range locs {
		tag := fmt.Sprintf("s%dl%d", si, li)
		if li == target && g.take("as") {
			kind := rapid.SampledFrom(asDocDefects).Draw(rt, "as-defect")
			g.labels = append(g.labels, "as:"+kind)
			switch kind {
			case "500":
				g.add(Entry{URL: l.URL, Status: 500, CT: "text/plain", Body: "boom", Label: "as:500"})
			case "garbage":
				g.add(Entry{URL: l.URL, Status: 200, CT: "application/json", Body: `{"issuer": <<`, Label: "as:garbage"})
			case "wrong-ct":
				body, _ := g.genASDoc(x, tag, "")
				g.add(Entry{URL: l.URL, Status: 200, CT: rapid.SampledFrom([]string{"text/html", "text/plain; charset=utf-8", ""}).Draw(rt, "bad-ct"), Body: body, Label: "as:wrong-ct"})
			default:
				body, label := g.genASDoc(x, tag, kind)
				g.add(Entry{URL: l.URL, Status: 200, CT: "application/json", Body: body, Label: "as:" + label})
			}
			continue
		}
		valid := (force && li == 0) || (!allMissing && rapid.IntRange(0, 9).Draw(rt, "as-valid") < 6)
		if !valid {
			if rapid.IntRange(0, 3).Draw(rt, "as-4xx-kind") == 0 {
				g.add(Entry{URL: l.URL, Status: rapid.SampledFrom([]int{400, 401, 403, 410}).Draw(rt, "4xx"), CT: "text/plain", Body: "no", Label: "as:4xx"})
			}
			continue // unlisted URLs answer 404
		}
		body, _ := g.genASDoc(x, tag, "")
		ct := rapid.SampledFrom([]string{"application/json", "application/json", "application/json; charset=utf-8"}).Draw(rt, "ct")
		g.add(Entry{URL: l.URL, Status: 200, CT: ct, Body: body, Label: "as:valid"})
	}
}

var prmDocDefects = []string{"resource-other", "resource-other", "resource-other", "resource-self", "resource-self", "resource-empty", "resource-extended", "resource-slash", "resource-origin",
	"as-script", "as-script", "as-mixed-script", "as-http", "as-empty", "garbage", "500", "wrong-ct"}

func gen(rt *rapid.T) Script {
	var s Script
	g := &genCtx{rt: rt, s: &s, defect: map[string]int{}}
	s.MCP = rapid.SampledFrom(mcpURLs).Draw(rt, "mcp")
	origin := originOf(s.MCP)

	nDef := rapid.SampledFrom([]int{0, 0, 1, 1, 1, 1, 1, 2, 2, 3}).Draw(rt, "ndefects")
	slots := []string{"prm", "prm", "prm", "as", "as", "as", "as", "chal", "reg", "state", "iss", "tok", "prereg", "hdr", "status"}
	for i := 0; i < nDef; i++ {
		g.defect[rapid.SampledFrom(slots).Draw(rt, "slot")]++
	}
	s.Clean = nDef == 0

	// ---- client registration configuration
	switch rapid.IntRange(0, 6).Draw(rt, "regcfg") {
	case 0:
		s.CIMD = true
	case 1:
		s.Prereg = "none"
	case 2:
		s.DCR = true
	case 3:
		s.CIMD, s.DCR = true, true
	case 4:
		s.Prereg, s.DCR = "none", true
	case 5:
		s.CIMD, s.Prereg = true, "none"
	default:
		s.CIMD, s.Prereg, s.DCR = true, "none", true
	}
	if g.defect["prereg"] > 0 && s.Prereg == "" {
		s.Prereg = "none"
		if rapid.Bool().Draw(rt, "prereg-only") {
			s.CIMD = false
		}
	}
	s.PreregSecret = rapid.Bool().Draw(rt, "prereg-secret")
	s.InitialToken = rapid.IntRange(0, 2).Draw(rt, "initial-token") == 0
	s.Hook = rapid.SampledFrom([]string{"", "", "", "ok", "reject", "reject"}).Draw(rt, "hook")

	// ---- authorization servers
	pool := []string{"https://as.example", "https://as.example", "https://as.example/tenant1", "https://login.example/realms/mcp/",
		"http://localhost:9000", "http://127.0.0.1:9000/t", origin}
	x := rapid.SampledFrom(pool).Draw(rt, "as")
	x2 := rapid.SampledFrom(pool).Draw(rt, "as2")
	sites := []string{x}
	addSite := func(a string) {
		for _, b := range sites {
			if a == b {
				return
			}
		}
		sites = append(sites, a)
	}

	// pre-registered issuer binding
	if s.Prereg != "" {
		switch {
		case g.take("prereg"):
			s.Prereg, s.PreregIssuer = "other", rapid.SampledFrom([]string{otherIssuer, evilAS, trimOneSlash(x) + "/extra", trimOneSlash(x) + "//", "https://as.example.evil.example"}).Draw(rt, "prereg-other")
			g.labels = append(g.labels, "prereg:other")
		case rapid.Bool().Draw(rt, "prereg-bound"):
			if rapid.Bool().Draw(rt, "prereg-slash") {
				s.Prereg, s.PreregIssuer = "sameslash", toggleSlash(x)
			} else {
				s.Prereg, s.PreregIssuer = "same", x
			}
		}
	}
	bound := s.Prereg == "same" || s.Prereg == "sameslash"

	// ---- challenge
	locs := refPRMLocations(s.MCP, nil)
	chal := ""
	chalUnsafe := false
	switch {
	case g.take("chal"):
		chalUnsafe = true
		chal = rapid.SampledFrom([]string{
			"http://mcp.example/prm", "http://meta.example/.well-known/oauth-protected-resource", "http://localhost.evil.example/prm",
			"http://localhost@evil.example/prm", "javascript:alert(1)", "data:application/json,{}", "::not a url", "ftp://mcp.example/prm",
		}).Draw(rt, "chal-bad")
		g.labels = append(g.labels, "chal:unsafe")
		// The unsafe location would serve a perfectly matching document.
		g.add(Entry{URL: chal, Status: 200, CT: "application/json", Body: mustJSON(map[string]any{"resource": s.MCP, "authorization_servers": []string{x}}), Label: "prm-chal:unsafe-location"})
	default:
		switch rapid.IntRange(0, 5).Draw(rt, "chal-kind") {
		case 0: // none
		case 1:
			chal = locs[0].URL // the canonical location
		case 2:
			chal = origin + "/custom/prm"
		case 3:
			chal = "https://meta.example/prm/for-mcp"
		case 4:
			chal = "http://localhost:7000/prm"
		case 5:
			chal = "https://meta.example/.well-known/oauth-protected-resource" // another host's own root document location
		}
	}
	var chalURLs []string
	if chal != "" && !chalUnsafe {
		chalURLs = []string{chal}
	}
	// Locations that get a generated outcome (a challenge location that
	// coincides with a well-known one is listed once).
	var plocs []prmLoc
	seen := map[string]bool{}
	for _, l := range refPRMLocations(s.MCP, chalURLs) {
		if !seen[l.URL] {
			seen[l.URL] = true
			plocs = append(plocs, l)
		}
	}

	// ---- protected resource metadata per location
	target := -1
	if g.defect["prm"] > 0 {
		target = rapid.IntRange(0, len(plocs)-1).Draw(rt, "prm-target")
	}
	anyPRM := false
	forcePRM := s.Clean && bound // a bound client needs discovery to reach x
	for i, l := range plocs {
		if i == target && g.take("prm") {
			kind := rapid.SampledFrom(prmDocDefects).Draw(rt, "prm-defect")
			g.labels = append(g.labels, "prm:"+kind)
			d := map[string]any{"resource": l.Resources[0], "authorization_servers": []string{x}, "scopes_supported": []string{"read"}}
			lab := "prm-" + l.Kind + ":" + kind
			switch kind {
			case "500":
				g.add(Entry{URL: l.URL, Status: 500, CT: "text/plain", Body: "boom", Label: lab})
				continue
			case "garbage":
				g.add(Entry{URL: l.URL, Status: 200, CT: "application/json", Body: `{"resource": `, Label: lab})
				continue
			case "wrong-ct":
				g.add(Entry{URL: l.URL, Status: 200, CT: rapid.SampledFrom([]string{"text/html", "application/jsonx", ""}).Draw(rt, "bad-ct"), Body: mustJSON(d), Label: lab})
				continue
			case "resource-other":
				// A document for some other resource, naming the attacker's (otherwise perfectly valid) server.
				d["resource"] = rapid.SampledFrom([]string{"https://evil.example/mcp", "https://mcp.example/other", "https://mcp.example.evil.example/mcp", "http://mcp.example/mcp"}).Draw(rt, "res-other")
				d["authorization_servers"] = []string{evilAS}
				addSite(evilAS)
			case "resource-empty":
				delete(d, "resource")
				d["authorization_servers"] = []string{evilAS}
				addSite(evilAS)
			case "resource-extended":
				d["resource"] = l.Resources[0] + rapid.SampledFrom([]string{"x", "/sub", "?a=1", "#f"}).Draw(rt, "res-ext")
				d["authorization_servers"] = []string{evilAS}
				addSite(evilAS)
			case "resource-self":
				// A document that describes the host it is served from (a valid document - for that host), naming
				// that host's authorization server: not the resource that was asked for unless it is the same host.
				if lu, err := url.Parse(l.URL); err == nil && lu.Scheme+"://"+lu.Host != origin {
					d["resource"] = lu.Scheme + "://" + lu.Host
					d["authorization_servers"] = []string{evilAS}
					addSite(evilAS)
				}
			case "resource-slash":
				// Differs by a trailing slash only: the oracle accepts either outcome.
				d["resource"] = toggleSlash(l.Resources[0])
			case "resource-origin":
				// Path location carrying the origin / root location carrying the full URL.
				if l.Kind == "root" {
					d["resource"] = s.MCP
				} else {
					d["resource"] = origin
					d["authorization_servers"] = []string{evilAS}
					addSite(evilAS)
				}
			case "as-script":
				d["authorization_servers"] = []string{rapid.SampledFrom(scriptURLs).Draw(rt, "as-script")}
			case "as-mixed-script":
				d["authorization_servers"] = []string{x, rapid.SampledFrom(scriptURLs).Draw(rt, "as-script")}
			case "as-http":
				d["authorization_servers"] = []string{plainAS}
				addSite(plainAS)
			case "as-empty":
				d["authorization_servers"] = []string{}
			}
			g.add(Entry{URL: l.URL, Status: 200, CT: "application/json", Body: mustJSON(d), Label: lab})
			continue
		}
		valid := rapid.IntRange(0, 9).Draw(rt, "prm-valid") < 6
		if forcePRM && !anyPRM && i == len(plocs)-1 {
			valid = true
		}
		if !valid {
			continue
		}
		anyPRM = true
		servers := []string{x}
		if !bound && rapid.IntRange(0, 3).Draw(rt, "prm-two-as") == 0 {
			servers = []string{x, x2}
			addSite(x2)
		}
		d := map[string]any{"resource": l.Resources[0], "authorization_servers": servers, "bearer_methods_supported": []string{"header"}}
		if rapid.Bool().Draw(rt, "prm-scopes") {
			d["scopes_supported"] = []string{"read", "write"}
		}
		g.add(Entry{URL: l.URL, Status: 200, CT: "application/json", Body: mustJSON(d), Label: "prm-" + l.Kind + ":valid"})
	}
	addSite(origin) // the 2025-03-26 fallback treats the MCP server's origin as the issuer

	// ---- authorization server sites
	cimdOnly := s.CIMD && s.Prereg == "" && !s.DCR
	for si, a := range sites {
		primary := si == 0 || (a == origin && !anyPRM && g.defect["as"] > 0 && rapid.Bool().Draw(rt, "origin-primary"))
		g.genSite(si, a, primary, s.Clean && cimdOnly)
	}
	// A clean universe with a bound client must not be diverted to the legacy
	// origin issuer; forcePRM above guarantees a PRM naming x.

	// ---- header
	scope := rapid.SampledFrom([]string{"", "read", "read write"}).Draw(rt, "scope")
	bearer := Chal{Scheme: rapid.SampledFrom([]string{"Bearer", "bearer", "BEARER"}).Draw(rt, "scheme")}
	quoted := rapid.IntRange(0, 3).Draw(rt, "quoted") != 0
	if rapid.Bool().Draw(rt, "realm") {
		bearer.Params = append(bearer.Params, Param{K: "realm", V: rapid.SampledFrom([]string{"mcp", "a \"quoted\", realm", "x=y, z"}).Draw(rt, "realm-v"), Q: true})
	}
	s.Status = 401
	wantErr := ""
	if rapid.IntRange(0, 4).Draw(rt, "403") == 0 {
		s.Status = 403
		wantErr = "insufficient_scope"
	}
	if g.take("status") {
		s.Status = 403
		wantErr = rapid.SampledFrom([]string{"", "invalid_token"}).Draw(rt, "403-err")
		g.labels = append(g.labels, "status:403-plain")
	} else if s.Status == 401 && rapid.IntRange(0, 3).Draw(rt, "401-err") == 0 {
		wantErr = "invalid_token"
	}
	if wantErr != "" {
		bearer.Params = append(bearer.Params, Param{K: "error", V: wantErr, Q: quoted})
	}
	if chal != "" {
		k := rapid.SampledFrom([]string{"resource_metadata", "resource_metadata", "Resource_Metadata"}).Draw(rt, "rm-key")
		q := quoted || strings.ContainsAny(chal, " ,\"")
		bearer.Params = append(bearer.Params, Param{K: k, V: chal, Q: q})
	}
	if scope != "" {
		bearer.Params = append(bearer.Params, Param{K: "scope", V: scope, Q: true})
	}
	if len(bearer.Params) > 1 && rapid.Bool().Draw(rt, "rotate") {
		bearer.Params = append(bearer.Params[1:], bearer.Params[0])
	}
	basic := Chal{Scheme: "Basic", Params: []Param{{K: "realm", V: "legacy, realm", Q: true}}}
	nego := Chal{Scheme: "Negotiate"}
	switch rapid.IntRange(0, 6).Draw(rt, "hdr-shape") {
	case 0, 1, 2:
		s.Headers = [][]Chal{{bearer}}
	case 3:
		s.Headers = [][]Chal{{basic, bearer}}
	case 4:
		s.Headers = [][]Chal{{bearer, nego}}
	case 5:
		s.Headers = [][]Chal{{basic}, {bearer}}
	case 6:
		s.Headers = [][]Chal{{nego, bearer, basic}}
	}
	if chal == "" && wantErr == "" && scope == "" && len(bearer.Params) == 0 && rapid.Bool().Draw(rt, "no-header") {
		s.Headers = nil
	}
	s.PSep = rapid.SampledFrom([]string{", ", ",", " , "}).Draw(rt, "psep")
	s.CSep = rapid.SampledFrom([]string{", ", ","}).Draw(rt, "csep")
	if g.take("hdr") {
		s.RawHdr = rapid.SampledFrom([]string{`Bearer realm="unterminated`, `"Bearer"`, `Bearer =x`, `Bearer realm="a" trailing`}).Draw(rt, "raw-hdr")
		g.labels = append(g.labels, "hdr:malformed")
	}

	// ---- registration / fetcher / token outcomes
	s.Reg = rapid.SampledFrom([]string{"201", "201", "201public", "200"}).Draw(rt, "reg")
	if g.take("reg") {
		s.Reg = rapid.SampledFrom([]string{"400", "garbage", "noid", "500"}).Draw(rt, "reg-bad")
		g.labels = append(g.labels, "reg:"+s.Reg)
	}
	s.FetchState = "echo"
	if g.take("state") {
		s.FetchState = rapid.SampledFrom([]string{"altered", "altered", "lower", "prefix", "empty", "empty", "err"}).Draw(rt, "state-bad")
		g.labels = append(g.labels, "state:"+s.FetchState)
	}
	s.FetchIss = "auto"
	if g.take("iss") {
		s.FetchIss = rapid.SampledFrom([]string{"absent", "absent", "other", "other", "slash", "match"}).Draw(rt, "iss-bad")
		g.labels = append(g.labels, "iss:"+s.FetchIss)
	}
	s.Tok = rapid.SampledFrom([]string{"200", "200", "200form"}).Draw(rt, "tok")
	if g.take("tok") {
		s.Tok = rapid.SampledFrom([]string{"400", "500", "garbage"}).Draw(rt, "tok-bad")
		g.labels = append(g.labels, "tok:"+s.Tok)
	}
	// Slots that found no place to land (e.g. "as" when discovery cannot reach a
	// site) simply stay unused; Clean was fixed from the drawn number of defects.
	sort.SliceStable(s.GET, func(i, j int) bool { return s.GET[i].URL < s.GET[j].URL })
	return s
}

// ---- interpreter + oracle ---------------------------------------------------------------

type candidate struct {
	issuer     string // issuer identifier the candidate speaks for (document's issuer / fallback issuer)
	named      string // the identifier it was looked up for
	authz      []string
	token      []string
	register   []string
	advertised bool
	trusted    bool
	why        string
}

// canonicalClean: a clean universe that uses none of the leniencies listed at the vacuity guard.
func canonicalClean(s *Script) bool {
	if s.RawHdr != "" || (s.Reg != "201" && s.Reg != "201public") || s.Tok != "200" {
		return false
	}
	for _, line := range s.Headers {
		for _, c := range line {
			for _, p := range c.Params {
				if !p.Q && !isToken(p.V) {
					return false
				}
			}
		}
	}
	for _, e := range s.GET {
		if e.Status != 200 || strings.Contains(e.Body, "http://localhost:9100/ep/") || strings.Contains(e.Body, `"plain"`) {
			return false
		}
	}
	return true
}

// normURL brings a URL into a comparable form: lower-case scheme and host, default port dropped.
func normURL(raw string) string {
	u, err := url.Parse(raw)
	if err != nil || u.Host == "" {
		return raw
	}
	u.Scheme = strings.ToLower(u.Scheme)
	host := strings.ToLower(u.Host)
	if (u.Scheme == "https" && strings.HasSuffix(host, ":443")) || (u.Scheme == "http" && strings.HasSuffix(host, ":80")) {
		host = host[:strings.LastIndexByte(host, ':')]
	}
	u.Host = host
	return u.String()
}

func containsURL(xs []string, x string) bool {
	for _, y := range xs {
		if x == y || normURL(x) == normURL(y) {
			return true
		}
	}
	return false
}

func contains(xs []string, x string) bool {
	for _, y := range xs {
		if x == y {
			return true
		}
	}
	return false
}

func run(s Script) (res vt.Result) {
	u := newUniverse(&s)
	cfg := &auth.AuthorizationCodeHandlerConfig{
		RedirectURL:              redirectURL,
		AuthorizationCodeFetcher: u.fetch,
		Client:                   &http.Client{Transport: u},
	}
	if s.CIMD {
		cfg.ClientIDMetadataDocumentConfig = &auth.ClientIDMetadataDocumentConfig{URL: cimdURL}
	}
	if s.Prereg != "" {
		cfg.PreregisteredClient = &oauthex.ClientCredentials{ClientID: preregID, Issuer: s.PreregIssuer}
		if s.PreregSecret {
			cfg.PreregisteredClient.ClientSecretAuth = &oauthex.ClientSecretAuth{ClientSecret: preregSecret}
		}
	}
	if s.DCR {
		cfg.DynamicClientRegistrationConfig = &auth.DynamicClientRegistrationConfig{Metadata: &oauthex.ClientRegistrationMetadata{
			RedirectURIs: []string{redirectURL}, ClientName: "c15", GrantTypes: []string{"authorization_code"},
		}}
	}
	if s.Hook != "" {
		cfg.NewTokenSource = func(ctx context.Context, c *oauth2.Config, t *oauth2.Token) (oauth2.TokenSource, error) {
			if s.Hook == "reject" && !u.priming {
				return nil, errors.New("token refused by the application")
			}
			return c.TokenSource(ctx, t), nil
		}
		res.Class("token_source_hook_" + s.Hook)
	}
	h, err := auth.NewAuthorizationCodeHandler(cfg)
	if err != nil {
		res.Failf("harness: NewAuthorizationCodeHandler rejected a valid configuration: %v", err)
		return
	}
	ctx := context.Background()
	req, err := http.NewRequest(http.MethodGet, s.MCP, nil)
	if err != nil {
		res.Failf("harness: bad MCP URL %q: %v", s.MCP, err)
		return
	}
	if s.InitialToken {
		// A first, entirely valid authorization installs a token source.
		u.priming = true
		perr := h.Authorize(ctx, req, &http.Response{StatusCode: 401, Header: http.Header{}, Body: http.NoBody, Request: req})
		u.priming = false
		if ts, _ := h.TokenSource(ctx); perr != nil || ts == nil {
			res.Failf("guard: priming authorization against a minimal valid universe failed: %v", perr)
			return
		}
	}
	before, _ := h.TokenSource(ctx)
	resp := &http.Response{StatusCode: s.Status, Status: http.StatusText(s.Status), Header: http.Header{}, Body: http.NoBody, Request: req}
	var chalURLs []string
	bearerErr := ""
	for _, line := range s.Headers {
		resp.Header.Add("WWW-Authenticate", renderHeader(line, s.PSep, s.CSep))
		for _, c := range line {
			for _, p := range c.Params {
				if strings.EqualFold(p.K, "resource_metadata") {
					chalURLs = append(chalURLs, p.V)
				}
				if strings.EqualFold(p.K, "error") && strings.EqualFold(c.Scheme, "bearer") && bearerErr == "" {
					bearerErr = p.V
				}
			}
		}
	}
	if s.RawHdr != "" {
		resp.Header.Add("WWW-Authenticate", s.RawHdr)
	}

	var authErr error
	var panicked any
	func() {
		defer func() { panicked = recover() }()
		authErr = h.Authorize(ctx, req, resp)
	}()
	if panicked != nil {
		res.Failf("Authorize panicked: %v", panicked)
		return
	}
	after, _ := h.TokenSource(ctx)
	// "a new token is installed" is judged by the token the source yields, not by the identity of the
	// TokenSource value (a handler may hand out a fresh wrapper on every call).
	beforeTok, afterTok := "", ""
	if before != nil {
		if t, err := before.Token(); err == nil && t != nil {
			beforeTok = t.AccessToken
		} else {
			beforeTok = fmt.Sprintf("error: %v", err)
		}
	}
	if after != nil {
		if t, err := after.Token(); err == nil && t != nil {
			afterTok = t.AccessToken
		} else {
			afterTok = fmt.Sprintf("error: %v", err)
		}
	}
	installed := afterTok != beforeTok

	// ---- I1: every request goes to https or loopback
	for _, r := range u.log {
		if !safeTransportURL(r.Parsed) {
			res.Failf("I1: handler sent %s %s (%s request) to a URL that is neither https nor loopback", r.Method, r.URL, r.Kind)
		}
	}

	// ---- analysis of what was served
	plocs := refPRMLocations(s.MCP, chalURLs)
	origin := originOf(s.MCP)
	allowed := []string{origin, origin + "/"} // 2025-03-26: the MCP server's origin acts as issuer
	var named []string                        // every issuer named by any served PRM-looking document
	var desc []string
	addDesc := func(d string) {
		if !contains(desc, d) {
			desc = append(desc, d)
		}
	}
	for _, c := range chalURLs {
		if cu, err := url.Parse(c); err != nil || !safeTransportURL(cu) {
			addDesc("chal:unsafe-url")
		}
	}
	prmPhase := func(raw string) *prmLoc {
		for i := range plocs {
			if sameLocation(plocs[i].URL, raw) {
				return &plocs[i]
			}
		}
		return nil
	}
	for _, r := range u.log {
		if r.Kind != "get" {
			continue
		}
		l := prmPhase(r.URL)
		if l == nil {
			continue
		}
		if r.Status != 200 {
			if r.Status >= 500 {
				res.Class("prm-" + l.Kind + ":5xx")
			}
			continue
		}
		var d prmDoc
		if json.Unmarshal([]byte(r.Served.Body), &d) != nil {
			addDesc("prm-" + l.Kind + ":garbage")
			continue
		}
		named = append(named, d.AuthorizationServers...)
		okRes := false
		for _, want := range l.Resources {
			if issuerEq(want, d.Resource) { // modulo one trailing slash: accept either outcome for that variant
				okRes = true
			}
		}
		if !okRes {
			addDesc("prm-" + l.Kind + ":resource")
			continue
		}
		bad := false
		for _, a := range d.AuthorizationServers {
			if scriptScheme(a) {
				bad = true
				addDesc("prm-" + l.Kind + ":as-script")
			} else if au, err := url.Parse(a); err != nil || !safeTransportURL(au) {
				addDesc("prm-" + l.Kind + ":as-http")
			}
		}
		if bad {
			continue
		}
		if !contains(l.Resources, d.Resource) {
			res.Class("prm-" + l.Kind + ":resource-slash-variant")
		}
		res.Class("prm-" + l.Kind + ":valid-served")
		allowed = append(allowed, d.AuthorizationServers...)
	}
	named = append(named, allowed...)

	// Candidate sources of the endpoints in use.
	var cands []candidate
	as4xxOnly := true // every authorization-server metadata request was answered 4xx
	asRequests := 0
	for _, r := range u.log {
		if r.Kind != "get" || prmPhase(r.URL) != nil {
			continue
		}
		asRequests++
		if r.Status < 400 || r.Status >= 500 {
			as4xxOnly = false
		}
		if r.Status != 200 || r.Served == nil {
			if r.Status >= 500 {
				res.Class("as:5xx")
			}
			continue
		}
		var d asDoc
		if json.Unmarshal([]byte(r.Served.Body), &d) != nil {
			addDesc("as:garbage")
			continue
		}
		matched := false
		for _, x := range named {
			for _, l := range refASLocations(x) {
				if !sameLocation(l.URL, r.URL) {
					continue
				}
				matched = true
				defects := asDefects(&d, x)
				for _, df := range defects {
					addDesc("as-" + l.Kind + ":" + df)
				}
				for _, f := range []string{d.AuthorizationEndpoint, d.TokenEndpoint, d.RegistrationEndpoint, d.IntrospectionEndpoint} {
					if fu, err := url.Parse(f); f != "" && !scriptScheme(f) && (err != nil || !safeTransportURL(fu)) {
						addDesc("as-" + l.Kind + ":http-endpoint")
					}
				}
				if len(d.PKCE) > 0 && !contains(d.PKCE, "S256") {
					res.Class("as:pkce-without-S256-served")
				}
				c := candidate{issuer: d.Issuer, named: x, authz: []string{d.AuthorizationEndpoint}, token: []string{d.TokenEndpoint},
					register: []string{d.RegistrationEndpoint}, advertised: d.IssSupported}
				c.trusted = len(defects) == 0 && contains(allowed, x)
				if !c.trusted {
					c.why = fmt.Sprintf("document at %s for issuer %q: defects %v, issuer named by a matching PRM or legacy origin: %v", r.URL, x, defects, contains(allowed, x))
				}
				cands = append(cands, c)
			}
		}
		if !matched {
			// The property restricts trust by issuer match, PKCE and URL schemes, not by a list of locations: a
			// document fetched (over https or loopback, I1) from some other place is judged for the named issuer
			// it claims to speak for.
			c := candidate{issuer: d.Issuer, authz: []string{d.AuthorizationEndpoint}, token: []string{d.TokenEndpoint},
				register: []string{d.RegistrationEndpoint}, advertised: d.IssSupported,
				why: fmt.Sprintf("document at %s carries an issuer that no protected-resource metadata (nor the legacy origin rule) names", r.URL)}
			for _, x := range named {
				if defects := asDefects(&d, x); issuerEq(d.Issuer, x) && contains(allowed, x) {
					c.named, c.trusted = x, len(defects) == 0
					c.why = fmt.Sprintf("document at %s for issuer %q: defects %v", r.URL, x, defects)
					break
				}
			}
			cands = append(cands, c)
		}
	}
	// Documented fallback (2025-03-26 default endpoints) for servers without metadata.
	seenX := map[string]bool{}
	for _, x := range named {
		if seenX[x] || scriptScheme(x) {
			continue
		}
		seenX[x] = true
		t := trimOneSlash(x)
		c := candidate{issuer: x, named: x, authz: []string{x + "/authorize", t + "/authorize"}, token: []string{x + "/token", t + "/token"},
			register: []string{x + "/register", t + "/register"}}
		if o := originOf(x); o != "" && o != t {
			// the 2025-03-26 text takes the default endpoints relative to the authorization base URL (path discarded)
			c.authz, c.token, c.register = append(c.authz, o+"/authorize"), append(c.token, o+"/token"), append(c.register, o+"/register")
		}
		c.trusted = contains(allowed, x) && as4xxOnly
		if !c.trusted {
			c.why = fmt.Sprintf("default endpoints of %q: issuer allowed %v, every AS metadata request answered 4xx %v", x, contains(allowed, x), as4xxOnly)
		}
		cands = append(cands, c)
	}

	// Observed use of endpoints.
	var authBase, regURLs, tokURLs []string
	for _, a := range u.fetched {
		authBase = append(authBase, baseOf(a))
	}
	var tokRecs []rec
	for _, r := range u.log {
		switch r.Kind {
		case "register":
			regURLs = append(regURLs, r.URL)
		case "token":
			tokURLs = append(tokURLs, r.URL)
			tokRecs = append(tokRecs, r)
		}
	}
	consistent := func(c candidate) bool {
		// compared after URL normalisation (case of scheme and host, default port)
		for _, a := range authBase {
			if !containsURL(c.authz, a) {
				return false
			}
		}
		for _, a := range regURLs {
			if !containsURL(c.register, a) {
				return false
			}
		}
		for _, a := range tokURLs {
			if !containsURL(c.token, a) {
				return false
			}
		}
		return true
	}
	var src *candidate
	usedEndpoints := len(authBase)+len(regURLs)+len(tokURLs) > 0
	if usedEndpoints {
		for i := range cands {
			if consistent(cands[i]) && cands[i].trusted {
				src = &cands[i]
				break
			}
		}
		if src == nil {
			// ---- I2 violated: say why the best explanation is not trustworthy.
			why := "no served authorization-server document or default-endpoint set explains them"
			for i := range cands {
				if consistent(cands[i]) {
					src = &cands[i]
					why = cands[i].why
					break
				}
			}
			res.Failf("I2: endpoints in use (authorization %v, registration %v, token %v) do not stem from one trustworthy authorization-server document: %s", authBase, regURLs, tokURLs, why)
		}
	}

	// ---- I3: the code is exchanged only after a matching state and a passed RFC 9207 check
	if len(tokURLs) > 0 {
		if len(u.fetched) == 0 {
			res.Failf("I3: token endpoint %v contacted although no authorization was performed", tokURLs)
		} else {
			i := len(u.fetched) - 1
			want := queryOf(u.fetched[i]).Get("state")
			if want == "" {
				res.Failf("I3: authorization URL %q carries no state", u.fetched[i])
			}
			if u.retSt[i] != want || s.FetchState == "err" {
				res.Failf("I3: token endpoint contacted although the returned state %q differs from the generated state %q", u.retSt[i], want)
			}
			if src != nil {
				iss := u.retIss[i]
				if src.advertised && iss == "" {
					res.Failf("I3: token endpoint contacted although issuer %q advertises RFC 9207 support and the response carried no iss", src.issuer)
				}
				if iss != "" && !issuerEq(iss, src.issuer) {
					res.Failf("I3: token endpoint contacted although the response iss %q differs from the issuer %q", iss, src.issuer)
				}
			}
		}
	}

	// ---- I4: credentials bound to an issuer are used with that issuer only
	if s.Prereg != "" && s.PreregIssuer != "" && src != nil {
		usedWith := func(where string) {
			if !issuerEq(src.issuer, s.PreregIssuer) {
				res.Failf("I4: pre-registered client_id bound to issuer %q was sent in the %s of issuer %q", s.PreregIssuer, where, src.issuer)
			}
		}
		for _, a := range u.fetched {
			if queryOf(a).Get("client_id") == preregID {
				usedWith("authorization request")
			}
		}
		for _, r := range tokRecs {
			if r.Form.Get("client_id") == preregID || r.BasicID == preregID {
				usedWith("token request")
			}
		}
	}

	// ---- I5: a failed Authorize leaves the token source alone
	if authErr != nil && installed {
		res.Failf("I5: Authorize failed (%v) but the handler's token source changed", authErr)
	}

	// ---- vacuity guard: a clean universe must be authorised
	flowExpected := s.Status == 401 || (s.Status == 403 && bearerErr == "insufficient_scope")
	if s.Hook == "reject" && authErr == nil && installed {
		res.Failf("the application's NewTokenSource hook refused the exchanged token, yet Authorize succeeded and a new token is installed")
	}
	if s.Clean && flowExpected && s.Hook != "reject" {
		switch {
		case authErr != nil && !canonicalClean(&s):
			// C15 is a safety property: a handler that refuses more than today's (unquoted URL in the challenge,
			// 200 instead of 201 from the registration endpoint, form-encoded token response, 4xx other than 404 at a
			// metadata location, http-loopback endpoints, "plain" among the PKCE methods) still satisfies it.
			res.Class("guard/clean-but-not-canonical-refused")
		case authErr != nil:
			res.Failf("guard: every document, response and authorization result was valid and in canonical form, yet Authorize failed: %v", authErr)
		case !installed || after == nil:
			res.Failf("guard: Authorize succeeded on a clean universe but installed no token source")
		default:
			tok, err := after.Token()
			if err != nil || tok.AccessToken != accessToken {
				res.Failf("guard: installed token source yields (%v, %v), want access token %q", tok, err, accessToken)
			}
		}
	}
	if !flowExpected && (len(u.log) > 0 || len(u.fetched) > 0) && authErr == nil && installed {
		// 403 without insufficient_scope is documented to be left alone; nothing to assert
		// beyond the invariants above.
		res.Class("403-plain-but-authorised")
	}

	// ---- statistics
	sort.Strings(desc)
	res.NonTrivial = len(desc) > 0
	res.Desc = strings.Join(desc, "|")
	for _, d := range desc {
		res.Class("served-defect/" + d)
	}
	switch {
	case !flowExpected:
		res.Class("outcome/403-not-step-up")
	case authErr == nil && installed:
		res.Class("outcome/authorised")
	case authErr == nil:
		res.Class("outcome/nil-without-token")
	case len(u.log) == 0 && len(u.fetched) == 0:
		res.Class("outcome/error-before-any-request")
	case len(u.fetched) == 0:
		res.Class("outcome/error-during-discovery-or-registration")
	case len(tokURLs) == 0:
		res.Class("outcome/error-after-authorization-before-exchange")
	default:
		res.Class("outcome/error-at-token-endpoint")
	}
	if len(desc) > 0 {
		if authErr != nil {
			res.Class("defect-served/authorize-failed")
		} else {
			res.Class("defect-served/routed-around")
		}
	}
	if src != nil && usedEndpoints {
		if len(src.authz) >= 2 {
			res.Class("source/default-endpoints-fallback")
		} else {
			res.Class("source/metadata-document")
		}
		if contains([]string{origin, origin + "/"}, src.named) && len(allowed) == 2 {
			res.Class("source/legacy-origin-issuer")
		}
	}
	for _, a := range u.fetched {
		switch queryOf(a).Get("client_id") {
		case cimdURL:
			res.Class("client/cimd")
		case preregID:
			res.Class("client/preregistered-" + s.Prereg)
		case dcrID:
			res.Class("client/dcr")
		}
	}
	if len(regURLs) > 0 {
		res.Class("reg/" + s.Reg)
	}
	if len(u.fetched) > 0 {
		res.Class("fetch/state-" + s.FetchState + "/iss-" + s.FetchIss)
	}
	if len(tokURLs) > 0 {
		res.Class("tok/" + s.Tok)
	}
	if s.Clean {
		res.Class("script/clean")
	}
	if s.InitialToken {
		res.Class("script/initial-token")
	}
	return
}

var prop = vt.Register(&vt.Prop[Script]{Property: "C15", Name: "flow", Gen: gen, Run: run})

func TestC15_Flow(t *testing.T) { prop.Check(t) }
func TestReplay(t *testing.T)   { vt.Replay(t) }
func TestRegress(t *testing.T)  { vt.Regress(t, "C15") }
func TestKnown(t *testing.T)    { vt.Known(t, "C15") }
