package c15

// Independent serialiser for WWW-Authenticate challenges (RFC 9110 section 11.6.1)
// and the native fuzz target for oauthex.ParseWWWAuthenticate. The serialiser is
// written from the RFC grammar, not from the SDK parser:
//
//	challenge    = auth-scheme [ 1*SP #auth-param ]
//	auth-param   = token "=" ( token / quoted-string )
//	quoted-string: DQUOTE *( qdtext / "\" CHAR ) DQUOTE
//
// It is also used by the flow check (c15_test.go) to render the generated
// challenges of the 401/403 response.

import (
	"fmt"
	"sort"
	"strings"
	"testing"

	"github.com/modelcontextprotocol/go-sdk/oauthex"
	"github.com/modelcontextprotocol/go-sdk/verif/vt"
	"pgregory.net/rapid"
)

// Param is one auth-param. Q selects the quoted-string form.
type Param struct {
	K string `json:"k"`
	V string `json:"v"`
	Q bool   `json:"q"`
}

// Chal is one challenge.
type Chal struct {
	Scheme string  `json:"scheme"`
	Params []Param `json:"params,omitempty"`
}

const tchars = "!#$%&'*+-.^_`|~0123456789abcdefghijklmnopqrstuvwxyzABCDEFGHIJKLMNOPQRSTUVWXYZ"

func isToken(s string) bool {
	if s == "" {
		return false
	}
	for i := 0; i < len(s); i++ {
		if strings.IndexByte(tchars, s[i]) < 0 {
			return false
		}
	}
	return true
}

func quote(v string) string {
	var b strings.Builder
	b.WriteByte('"')
	for i := 0; i < len(v); i++ {
		if v[i] == '"' || v[i] == '\\' {
			b.WriteByte('\\')
		}
		b.WriteByte(v[i])
	}
	b.WriteByte('"')
	return b.String()
}

// renderChal writes one challenge. sep is the separator between auth-params
// ("," optionally surrounded by OWS).
func renderChal(c Chal, sep string) string {
	var b strings.Builder
	b.WriteString(c.Scheme)
	for i, p := range c.Params {
		if i == 0 {
			b.WriteByte(' ')
		} else {
			b.WriteString(sep)
		}
		b.WriteString(p.K)
		b.WriteByte('=')
		if p.Q {
			b.WriteString(quote(p.V))
		} else {
			b.WriteString(p.V)
		}
	}
	return b.String()
}

// renderHeader writes several challenges into one header field value.
func renderHeader(cs []Chal, paramSep, chalSep string) string {
	parts := make([]string, len(cs))
	for i, c := range cs {
		parts[i] = renderChal(c, paramSep)
	}
	return strings.Join(parts, chalSep)
}

// refChallenges is what a conforming parser must produce for the serialised
// challenges (scheme and keys lower-cased as the SDK documents).
type refChallenge struct {
	Scheme string
	Params map[string]string
}

func refOf(cs []Chal) []refChallenge {
	out := make([]refChallenge, len(cs))
	for i, c := range cs {
		out[i] = refChallenge{Scheme: strings.ToLower(c.Scheme), Params: map[string]string{}}
		for _, p := range c.Params {
			out[i].Params[strings.ToLower(p.K)] = p.V
		}
	}
	return out
}

func fmtParams(m map[string]string) string {
	ks := make([]string, 0, len(m))
	for k := range m {
		ks = append(ks, k)
	}
	sort.Strings(ks)
	var b strings.Builder
	for _, k := range ks {
		fmt.Fprintf(&b, "%q=%q;", k, m[k])
	}
	return b.String()
}

func diffChallenges(want []refChallenge, got []oauthex.Challenge) string {
	if len(want) != len(got) {
		return fmt.Sprintf("got %d challenges, want %d", len(got), len(want))
	}
	for i := range want {
		if want[i].Scheme != got[i].Scheme {
			return fmt.Sprintf("challenge %d: scheme %q, want %q", i, got[i].Scheme, want[i].Scheme)
		}
		if fmtParams(want[i].Params) != fmtParams(got[i].Params) {
			return fmt.Sprintf("challenge %d: params %s, want %s", i, fmtParams(got[i].Params), fmtParams(want[i].Params))
		}
	}
	return ""
}

// ---- byte-programmed structure generator for the native fuzzer ----------------

type byteSrc struct {
	b []byte
	i int
}

func (s *byteSrc) next() int {
	if s.i >= len(s.b) {
		return 0
	}
	v := s.b[s.i]
	s.i++
	return int(v)
}

var fuzzSchemes = []string{"Bearer", "bearer", "BEARER", "Basic", "Digest", "Negotiate", "DPoP", "X-tok.1"}
var fuzzKeys = []string{"realm", "resource_metadata", "scope", "error", "error_description", "Realm", "SCOPE", "nonce", "algs", "x-y", "a", "b1"}

// quotedAlphabet holds the characters that may appear inside a quoted-string
// value; the double quote needs escaping, the comma and '=' must not confuse
// challenge splitting.
const quotedAlphabet = "abcXYZ019 ,=\":/._-~;()"

func buildChallenges(src *byteSrc, noTrailingBackslash bool) (cs []Chal, paramSep, chalSep string) {
	n := 1 + src.next()%3
	for i := 0; i < n; i++ {
		c := Chal{Scheme: fuzzSchemes[src.next()%len(fuzzSchemes)]}
		np := src.next() % 4
		used := map[string]bool{}
		for j := 0; j < np; j++ {
			k := fuzzKeys[src.next()%len(fuzzKeys)]
			if used[strings.ToLower(k)] {
				continue // a parameter name must not occur twice in a challenge (RFC 9110)
			}
			used[strings.ToLower(k)] = true
			p := Param{K: k, Q: src.next()%3 != 0}
			l := 1 + src.next()%12
			var v strings.Builder
			for x := 0; x < l; x++ {
				if p.Q {
					ch := src.next()
					if ch%29 == 0 {
						v.WriteByte('\\')
					} else {
						v.WriteByte(quotedAlphabet[ch%len(quotedAlphabet)])
					}
				} else {
					v.WriteByte(tchars[src.next()%len(tchars)])
				}
			}
			p.V = v.String()
			if noTrailingBackslash && strings.HasSuffix(p.V, "\\") {
				// Open finding F18: a quoted value ending in a backslash hides the
				// closing quote from the challenge splitter. Steered away by construction.
				p.V = strings.TrimRight(p.V, "\\") + "_"
				vt.Excluded("F18")
			}
			c.Params = append(c.Params, p)
		}
		cs = append(cs, c)
	}
	paramSep = []string{",", ", ", " , ", ",  "}[src.next()%4]
	chalSep = []string{", ", ",", " , "}[src.next()%3]
	return
}

func safeParse(headers []string) (cs []oauthex.Challenge, err error, panicked any) {
	defer func() { panicked = recover() }()
	cs, err = oauthex.ParseWWWAuthenticate(headers)
	return
}

// FuzzC15_ParseWWWAuthenticate: (1) arbitrary header values never panic the
// parser; (2) the same bytes, read as a program for the independent serialiser
// above, yield a well-formed header that must parse back to exactly the
// challenges that were serialised.
func FuzzC15_ParseWWWAuthenticate(f *testing.F) {
	f.Add([]byte(`Bearer resource_metadata="https://rs.example/.well-known/oauth-protected-resource", scope="a b"`))
	f.Add([]byte(`Basic realm="a \"quoted\", realm", Bearer error=insufficient_scope`))
	f.Add([]byte{2, 0, 3, 1, 1, 5, 'a', 'b', 'c', 'd', 'e', 2, 0, 4, 7, 7, 7, 7, 3, 1, 1, 1, 0, 2, 1})
	f.Add([]byte("\"x"))
	f.Add([]byte("Bearer a=\"\\"))
	f.Add([]byte(","))
	noTrailingBackslash := vt.Open("F18")
	f.Fuzz(func(t *testing.T, data []byte) {
		raw := string(data)
		if _, _, p := safeParse([]string{raw}); p != nil {
			t.Fatalf("ParseWWWAuthenticate panicked on %q: %v", raw, p)
		}
		if i := len(raw) / 2; i > 0 {
			if _, _, p := safeParse([]string{raw[:i], raw[i:]}); p != nil {
				t.Fatalf("ParseWWWAuthenticate panicked on %q | %q: %v", raw[:i], raw[i:], p)
			}
		}
		cs, paramSep, chalSep := buildChallenges(&byteSrc{b: data}, noTrailingBackslash)
		hdr := renderHeader(cs, paramSep, chalSep)
		got, err, p := safeParse([]string{hdr})
		if p != nil {
			t.Fatalf("ParseWWWAuthenticate panicked on serialised %q: %v", hdr, p)
		}
		if err != nil {
			t.Fatalf("well-formed header %q rejected: %v", hdr, err)
		}
		if d := diffChallenges(refOf(cs), got); d != "" {
			t.Fatalf("round trip of %q: %s", hdr, d)
		}
		// One challenge per header line must give the same result.
		var lines []string
		for _, c := range cs {
			lines = append(lines, renderChal(c, paramSep))
		}
		got, err, p = safeParse(lines)
		if p != nil || err != nil {
			t.Fatalf("header lines %q: panic=%v err=%v", lines, p, err)
		}
		if d := diffChallenges(refOf(cs), got); d != "" {
			t.Fatalf("round trip of lines %q: %s", lines, d)
		}
	})
}

// ---- the same round trip as a replayable script (known findings, thorough tier) ----

// ChalScript is a set of header lines, each holding one or more challenges.
type ChalScript struct {
	Lines [][]Chal `json:"lines"`
	PSep  string   `json:"psep"`
	CSep  string   `json:"csep"`
}

func genChal(rt *rapid.T) ChalScript {
	data := rapid.SliceOfN(rapid.Byte(), 0, 96).Draw(rt, "program")
	cs, psep, csep := buildChallenges(&byteSrc{b: data}, vt.Open("F18"))
	s := ChalScript{PSep: psep, CSep: csep}
	cut := rapid.IntRange(1, len(cs)).Draw(rt, "first-line")
	s.Lines = append(s.Lines, cs[:cut])
	if cut < len(cs) {
		s.Lines = append(s.Lines, cs[cut:])
	}
	return s
}

func runChal(s ChalScript) (res vt.Result) {
	var lines []string
	var all []Chal
	for _, l := range s.Lines {
		lines = append(lines, renderHeader(l, s.PSep, s.CSep))
		all = append(all, l...)
		if len(l) > 1 {
			res.NonTrivial = true
			res.Class("several-challenges-in-a-line")
		}
		for _, c := range l {
			for _, p := range c.Params {
				if p.Q && strings.ContainsAny(p.V, "\",\\") {
					res.NonTrivial = true
					res.Class("quoted-value-with-comma-quote-or-backslash")
				}
			}
		}
	}
	got, err, p := safeParse(lines)
	switch {
	case p != nil:
		res.Failf("ParseWWWAuthenticate panicked on %q: %v", lines, p)
	case err != nil:
		res.Failf("well-formed header lines %q rejected: %v", lines, err)
	default:
		if d := diffChallenges(refOf(all), got); d != "" {
			res.Failf("round trip of %q: %s", lines, d)
		}
	}
	res.Desc = strings.Join(lines, "\n")
	return
}

var chalProp = vt.Register(&vt.Prop[ChalScript]{Property: "C15", Name: "challenge", Gen: genChal, Run: runChal})

func TestC15_Challenge(t *testing.T) { chalProp.Check(t) }
