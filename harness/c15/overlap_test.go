package c15

// Overlapping authorization attempts on one handler (prop "overlap"): several Authorize calls are parked
// inside the user-interaction step at the same time; each is then handed a result whose state is its own,
// another attempt's, empty or garbage, in a generated order. An attempt may succeed (and its code be
// exchanged) only if the state it was handed is the one generated for THAT attempt.

import (
	"context"
	"encoding/json"
	"fmt"
	"io"
	"net/http"
	"net/url"
	"strings"
	"sync"
	"testing"

	"github.com/modelcontextprotocol/go-sdk/auth"
	"github.com/modelcontextprotocol/go-sdk/oauthex"
	"github.com/modelcontextprotocol/go-sdk/verif/vt"
	"pgregory.net/rapid"
)

type OAnswer struct {
	Attempt int    `json:"attempt"` // which parked attempt is answered next (modulo those still parked)
	State   string `json:"state"`   // own | other | empty | garbage
	Other   int    `json:"other"`   // other: whose state (modulo the attempts, skipping itself)
}

type OverlapScript struct {
	N       int       `json:"n"` // overlapping attempts
	Answers []OAnswer `json:"answers"`
}

func genOverlap(rt *rapid.T) OverlapScript {
	s := OverlapScript{N: rapid.IntRange(2, 4).Draw(rt, "n")}
	for i := 0; i < s.N; i++ {
		s.Answers = append(s.Answers, OAnswer{
			Attempt: rapid.IntRange(0, 3).Draw(rt, "attempt"),
			State:   rapid.SampledFrom([]string{"own", "own", "other", "other", "empty", "garbage"}).Draw(rt, "state"),
			Other:   rapid.IntRange(0, 3).Draw(rt, "other"),
		})
	}
	return s
}

type memRT struct {
	mu        sync.Mutex
	exchanged []string
}

const oBase = "https://as.example"
const oResource = "https://rs.example/mcp"

func (m *memRT) RoundTrip(req *http.Request) (*http.Response, error) {
	reply := func(v any) (*http.Response, error) {
		b, _ := json.Marshal(v)
		return &http.Response{StatusCode: 200, Header: http.Header{"Content-Type": {"application/json"}}, Body: io.NopCloser(strings.NewReader(string(b))), Request: req}, nil
	}
	switch {
	case req.URL.Host == "rs.example" && strings.HasPrefix(req.URL.Path, "/.well-known/oauth-protected-resource"):
		return reply(&oauthex.ProtectedResourceMetadata{Resource: oResource, AuthorizationServers: []string{oBase}})
	case req.URL.Host == "as.example" && req.URL.Path == "/.well-known/oauth-authorization-server":
		return reply(&oauthex.AuthServerMeta{Issuer: oBase, AuthorizationEndpoint: oBase + "/authorize", TokenEndpoint: oBase + "/token",
			ResponseTypesSupported: []string{"code"}, CodeChallengeMethodsSupported: []string{"S256"}, TokenEndpointAuthMethodsSupported: []string{"client_secret_post"}})
	case req.URL.Host == "as.example" && req.URL.Path == "/token":
		body, _ := io.ReadAll(req.Body)
		form, _ := url.ParseQuery(string(body))
		m.mu.Lock()
		m.exchanged = append(m.exchanged, form.Get("code"))
		m.mu.Unlock()
		return reply(map[string]any{"access_token": "token-for-" + form.Get("code"), "token_type": "Bearer", "expires_in": 3600})
	}
	return &http.Response{StatusCode: 404, Header: http.Header{}, Body: io.NopCloser(strings.NewReader("not found")), Request: req}, nil
}

func runOverlap(s OverlapScript) (res vt.Result) {
	rt := &memRT{}
	type parked struct {
		idx    int
		state  string
		answer chan *auth.AuthorizationResult
	}
	arrivals := make(chan *parked, 8)
	var seq int
	var smu sync.Mutex
	handler, err := auth.NewAuthorizationCodeHandler(&auth.AuthorizationCodeHandlerConfig{
		RedirectURL:         "http://localhost:12345/callback",
		PreregisteredClient: &oauthex.ClientCredentials{ClientID: "client", ClientSecretAuth: &oauthex.ClientSecretAuth{ClientSecret: "secret"}},
		Client:              &http.Client{Transport: rt},
		AuthorizationCodeFetcher: func(ctx context.Context, args *auth.AuthorizationArgs) (*auth.AuthorizationResult, error) {
			u, err := url.Parse(args.URL)
			if err != nil {
				return nil, err
			}
			smu.Lock()
			p := &parked{idx: seq, state: u.Query().Get("state"), answer: make(chan *auth.AuthorizationResult, 1)}
			seq++
			smu.Unlock()
			arrivals <- p
			return <-p.answer, nil
		},
	})
	if err != nil {
		res.Failf("harness: %v", err)
		return
	}
	ctx := context.Background()
	// start the attempts one after the other, each waiting inside the fetcher before the next starts
	errs := make([]chan error, s.N)
	var all []*parked
	for i := 0; i < s.N; i++ {
		errs[i] = make(chan error, 1)
		go func(ch chan error) {
			req, _ := http.NewRequest("POST", oResource, nil)
			resp := &http.Response{StatusCode: 401, Header: http.Header{}, Body: http.NoBody, Request: req}
			resp.Header.Set("WWW-Authenticate", `Bearer resource_metadata="https://rs.example/.well-known/oauth-protected-resource/mcp"`)
			ch <- handler.Authorize(ctx, req, resp)
		}(errs[i])
		p := <-arrivals
		if p.state == "" {
			res.Failf("attempt %d: the authorization URL carries no state", i)
			for _, q := range append(all, p) {
				q.answer <- &auth.AuthorizationResult{}
			}
			return
		}
		for _, q := range all {
			if q.state == p.state {
				res.Failf("attempts %d and %d were given the same state %q", q.idx, p.idx, p.state)
			}
		}
		all = append(all, p)
	}
	// errs[i] belongs to the attempt that parked i-th (attempts are started strictly one at a time)
	waiting := append([]*parked(nil), all...)
	var desc strings.Builder
	wantOK := map[int]bool{}
	for _, a := range s.Answers {
		if len(waiting) == 0 {
			break
		}
		k := a.Attempt % len(waiting)
		p := waiting[k]
		waiting = append(waiting[:k], waiting[k+1:]...)
		state := ""
		switch a.State {
		case "own":
			state = p.state
		case "other":
			o := all[a.Other%len(all)]
			if o == p {
				o = all[(a.Other+1)%len(all)]
			}
			state = o.state
		case "garbage":
			state = "not-a-state"
		}
		wantOK[p.idx] = state == p.state
		fmt.Fprintf(&desc, "%d:%s,", p.idx, a.State)
		p.answer <- &auth.AuthorizationResult{Code: fmt.Sprintf("code-%d", p.idx), State: state}
		err := <-errs[p.idx]
		if wantOK[p.idx] && err != nil {
			res.Failf("attempt %d was handed its own state but failed: %v", p.idx, err)
		}
		if !wantOK[p.idx] && err == nil {
			res.Failf("attempt %d (state %q) accepted an authorization result carrying state %q (%s), which was not generated for it", p.idx, p.state, state, a.State)
		}
	}
	for _, p := range waiting {
		p.answer <- &auth.AuthorizationResult{}
		<-errs[p.idx]
	}
	rt.mu.Lock()
	exchanged := append([]string(nil), rt.exchanged...)
	rt.mu.Unlock()
	anyOK := false
	for _, code := range exchanged {
		var idx int
		fmt.Sscanf(code, "code-%d", &idx)
		if !wantOK[idx] {
			res.Failf("code %q was exchanged at the token endpoint although attempt %d was not handed its own state", code, idx)
		}
	}
	for idx, ok := range wantOK {
		if ok {
			anyOK = true
			found := false
			for _, code := range exchanged {
				if code == fmt.Sprintf("code-%d", idx) {
					found = true
				}
			}
			if !found {
				res.Failf("attempt %d succeeded but its code was never exchanged", idx)
			}
		}
	}
	if !anyOK {
		if ts, _ := handler.TokenSource(ctx); ts != nil {
			if tok, err := ts.Token(); err == nil && tok != nil {
				res.Failf("a token (%q) is installed although no attempt passed its state check", tok.AccessToken)
			}
		}
	}
	res.Desc = fmt.Sprintf("%d|%s", s.N, desc.String())
	res.NonTrivial = strings.Contains(desc.String(), "other") || strings.Contains(desc.String(), "empty")
	res.Class(fmt.Sprintf("overlapping_attempts_%d", s.N))
	return res
}

var overlapProp = vt.Register(&vt.Prop[OverlapScript]{Property: "C15", Name: "overlap", Gen: genOverlap, Run: runOverlap})

func TestC15_Overlap(t *testing.T) { overlapProp.Check(t) }
