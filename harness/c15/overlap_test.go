package c15

// Overlapping authorization attempts on one handler (prop "overlap"): several Authorize calls are parked
// inside the user-interaction step at the same time; each is then handed a result whose state is its own,
// another attempt's, empty or garbage, in a generated order. An attempt may succeed (and its code be
// exchanged) only if the state it was handed is the one generated for THAT attempt.

import (
	"context"
	"encoding/json"
	"fmt"
	"io"
	"net/http"
	"net/url"
	"strings"
	"sync"
	"sync/atomic"
	"testing"
	"time"

	"github.com/modelcontextprotocol/go-sdk/auth"
	"github.com/modelcontextprotocol/go-sdk/oauthex"
	"github.com/modelcontextprotocol/go-sdk/verif/vt"
	"pgregory.net/rapid"
)

type OAnswer struct {
	Attempt int    `json:"attempt"` // which parked attempt is answered next (modulo those still parked)
	State   string `json:"state"`   // own | other | empty | garbage
	Other   int    `json:"other"`   // other: whose state (modulo the attempts, skipping itself)
}

type OverlapScript struct {
	N       int       `json:"n"` // overlapping attempts
	Answers []OAnswer `json:"answers"`
}

func genOverlap(rt *rapid.T) OverlapScript {
	s := OverlapScript{N: rapid.IntRange(2, 4).Draw(rt, "n")}
	for i := 0; i < s.N; i++ {
		s.Answers = append(s.Answers, OAnswer{
			Attempt: rapid.IntRange(0, 3).Draw(rt, "attempt"),
			State:   rapid.SampledFrom([]string{"own", "own", "other", "other", "empty", "garbage"}).Draw(rt, "state"),
			Other:   rapid.IntRange(0, 3).Draw(rt, "other"),
		})
	}
	return s
}

type memRT struct {
	mu        sync.Mutex
	exchanged []string
}

const oBase = "https://as.example"
const oResource = "https://rs.example/mcp"

func (m *memRT) RoundTrip(req *http.Request) (*http.Response, error) {
	reply := func(v any) (*http.Response, error) {
		b, _ := json.Marshal(v)
		return &http.Response{StatusCode: 200, Header: http.Header{"Content-Type": {"application/json"}}, Body: io.NopCloser(strings.NewReader(string(b))), Request: req}, nil
	}
	switch {
	case req.URL.Host == "rs.example" && strings.HasPrefix(req.URL.Path, "/.well-known/oauth-protected-resource"):
		return reply(&oauthex.ProtectedResourceMetadata{Resource: oResource, AuthorizationServers: []string{oBase}})
	case req.URL.Host == "as.example" && req.URL.Path == "/.well-known/oauth-authorization-server":
		return reply(&oauthex.AuthServerMeta{Issuer: oBase, AuthorizationEndpoint: oBase + "/authorize", TokenEndpoint: oBase + "/token",
			ResponseTypesSupported: []string{"code"}, CodeChallengeMethodsSupported: []string{"S256"}, TokenEndpointAuthMethodsSupported: []string{"client_secret_post"}})
	case req.URL.Host == "as.example" && req.URL.Path == "/token":
		body, _ := io.ReadAll(req.Body)
		form, _ := url.ParseQuery(string(body))
		m.mu.Lock()
		m.exchanged = append(m.exchanged, form.Get("code"))
		m.mu.Unlock()
		return reply(map[string]any{"access_token": "token-for-" + form.Get("code"), "token_type": "Bearer", "expires_in": 3600})
	}
	return &http.Response{StatusCode: 404, Header: http.Header{}, Body: io.NopCloser(strings.NewReader("not found")), Request: req}, nil
}

// overlapImpossible is set once the handler under test has been seen to admit one attempt at a time (the
// second attempt neither parked nor ended within the guard time): later cases have nothing to decide.
var overlapImpossible atomic.Bool

func runOverlap(s OverlapScript) (res vt.Result) {
	if overlapImpossible.Load() {
		res.Class("attempts_serialised")
		return res
	}
	rt := &memRT{}
	type parked struct {
		idx    int
		state  string
		answer chan *auth.AuthorizationResult
		errc   chan error // where the Authorize call of this attempt reports
	}
	arrivals := make(chan *parked, 8)
	var seq int
	var smu sync.Mutex
	handler, err := auth.NewAuthorizationCodeHandler(&auth.AuthorizationCodeHandlerConfig{
		RedirectURL:         "http://localhost:12345/callback",
		PreregisteredClient: &oauthex.ClientCredentials{ClientID: "client", ClientSecretAuth: &oauthex.ClientSecretAuth{ClientSecret: "secret"}},
		Client:              &http.Client{Transport: rt},
		AuthorizationCodeFetcher: func(ctx context.Context, args *auth.AuthorizationArgs) (*auth.AuthorizationResult, error) {
			u, err := url.Parse(args.URL)
			if err != nil {
				return nil, err
			}
			smu.Lock()
			p := &parked{idx: seq, state: u.Query().Get("state"), answer: make(chan *auth.AuthorizationResult, 1)}
			seq++
			smu.Unlock()
			arrivals <- p
			return <-p.answer, nil
		},
	})
	if err != nil {
		res.Failf("harness: %v", err)
		return
	}
	ctx := context.Background()
	// start the attempts one after the other, each waiting inside the fetcher before the next starts
	errs := make([]chan error, s.N)
	var all []*parked
	for i := 0; i < s.N; i++ {
		errs[i] = make(chan error, 1)
		go func(ch chan error) {
			req, _ := http.NewRequest("POST", oResource, nil)
			resp := &http.Response{StatusCode: 401, Header: http.Header{}, Body: http.NoBody, Request: req}
			resp.Header.Set("WWW-Authenticate", `Bearer resource_metadata="https://rs.example/.well-known/oauth-protected-resource/mcp"`)
			ch <- handler.Authorize(ctx, req, resp)
		}(errs[i])
		// An attempt either parks in the user-interaction step or - with a handler that admits one attempt at a
		// time, which is stricter than the property - ends at once with an error, or waits for the pending one.
		var p *parked
		select {
		case p = <-arrivals:
			p.errc = errs[i]
		case err := <-errs[i]:
			if err == nil {
				res.Failf("attempt %d succeeded without asking for an authorization code", i)
			}
			res.Class("attempt_refused_while_another_is_pending")
			continue
		case <-time.After(3 * time.Second): // wall clock, only as a guard against hanging: cannot raise an alarm
			res.Class("attempts_serialised")
			overlapImpossible.Store(true)
			go func() {
				for q := range arrivals {
					q.answer <- &auth.AuthorizationResult{}
				}
			}()
			for _, q := range all {
				q.answer <- &auth.AuthorizationResult{}
				<-q.errc
			}
			<-errs[i]
			return res
		}
		if p.state == "" {
			res.Failf("attempt %d: the authorization URL carries no state", i)
			for _, q := range append(all, p) {
				q.answer <- &auth.AuthorizationResult{}
			}
			return
		}
		for _, q := range all {
			if q.state == p.state {
				res.Failf("attempts %d and %d were given the same state %q", q.idx, p.idx, p.state)
			}
		}
		all = append(all, p)
	}
	// p.errc belongs to the attempt that parked (attempts are started strictly one at a time)
	if len(all) == 0 {
		return res
	}
	newest := all[len(all)-1]
	waiting := append([]*parked(nil), all...)
	var desc strings.Builder
	wantOK := map[int]bool{}
	for _, a := range s.Answers {
		if len(waiting) == 0 {
			break
		}
		k := a.Attempt % len(waiting)
		p := waiting[k]
		waiting = append(waiting[:k], waiting[k+1:]...)
		state := ""
		switch a.State {
		case "own":
			state = p.state
		case "other":
			o := all[a.Other%len(all)]
			if o == p {
				o = all[(a.Other+1)%len(all)]
			}
			state = o.state
		case "garbage":
			state = "not-a-state"
		}
		wantOK[p.idx] = state == p.state
		fmt.Fprintf(&desc, "%d:%s,", p.idx, a.State)
		p.answer <- &auth.AuthorizationResult{Code: fmt.Sprintf("code-%d", p.idx), State: state}
		err := <-p.errc
		// Only the newest attempt is required to succeed with its own state: a handler that drops older pending
		// attempts when a new one starts is stricter than the property.
		if wantOK[p.idx] && err != nil && p != newest {
			wantOK[p.idx] = false
			res.Class("older_attempt_with_own_state_refused")
		}
		if wantOK[p.idx] && err != nil {
			res.Failf("attempt %d was handed its own state but failed: %v", p.idx, err)
		}
		if !wantOK[p.idx] && err == nil {
			res.Failf("attempt %d (state %q) accepted an authorization result carrying state %q (%s), which was not generated for it", p.idx, p.state, state, a.State)
		}
	}
	for _, p := range waiting {
		p.answer <- &auth.AuthorizationResult{}
		<-p.errc
	}
	rt.mu.Lock()
	exchanged := append([]string(nil), rt.exchanged...)
	rt.mu.Unlock()
	anyOK := false
	for _, code := range exchanged {
		var idx int
		fmt.Sscanf(code, "code-%d", &idx)
		if !wantOK[idx] {
			res.Failf("code %q was exchanged at the token endpoint although attempt %d was not handed its own state", code, idx)
		}
	}
	for idx, ok := range wantOK {
		if ok {
			anyOK = true
			found := false
			for _, code := range exchanged {
				if code == fmt.Sprintf("code-%d", idx) {
					found = true
				}
			}
			if !found {
				res.Failf("attempt %d succeeded but its code was never exchanged", idx)
			}
		}
	}
	if !anyOK {
		if ts, _ := handler.TokenSource(ctx); ts != nil {
			if tok, err := ts.Token(); err == nil && tok != nil {
				res.Failf("a token (%q) is installed although no attempt passed its state check", tok.AccessToken)
			}
		}
	}
	res.Desc = fmt.Sprintf("%d|%s", s.N, desc.String())
	res.NonTrivial = strings.Contains(desc.String(), "other") || strings.Contains(desc.String(), "empty")
	res.Class(fmt.Sprintf("overlapping_attempts_%d", s.N))
	return res
}

var overlapProp = vt.Register(&vt.Prop[OverlapScript]{Property: "C15", Name: "overlap", Gen: genOverlap, Run: runOverlap})

func TestC15_Overlap(t *testing.T) { overlapProp.Check(t) }
