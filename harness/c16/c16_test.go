// Package c16 decides property C16 (typed tools see only schema-valid input and
// emit only schema-valid output). A real server and a real client are connected
// over the in-memory transport; tools are registered with the generic
// mcp.AddTool; arguments and scripted handler outputs are generated valid by
// construction and then mutated. The oracle is the package's own mini
// JSON-Schema validator and defaults model (oracle_test.go), evaluated on the
// schema JSON that the client sees in tools/list.
package c16

import (
	"context"
	"encoding/json"
	"fmt"
	"strings"
	"testing"
	"time"

	"github.com/google/jsonschema-go/jsonschema"
	"github.com/modelcontextprotocol/go-sdk/mcp"
	"github.com/modelcontextprotocol/go-sdk/verif/vt"
	"pgregory.net/rapid"
)

func TestMain(m *testing.M) { vt.Main(m) }

const legacyVersion = "2025-06-18"

// Call is one tools/call together with what the scripted handler will return.
type Call struct {
	// Args is the literal JSON sent as "arguments" (it need not be an object).
	// Empty means CallToolParams.Arguments is left nil.
	Args json.RawMessage `json:"args,omitempty"`
	// AsGo: the arguments are handed to CallTool as the Go value they decode to (map, slice, string, float64,
	// bool) instead of as raw JSON: the same JSON goes over the wire either way.
	AsGo   bool     `json:"as_go,omitempty"`
	ArgMut []string `json:"arg_mut,omitempty"` // labels, for the histogram only
	// Out is the JSON from which the handler builds the value it returns.
	Out    json.RawMessage `json:"out,omitempty"`
	OutMut []string        `json:"out_mut,omitempty"`
	Own    bool            `json:"own,omitempty"`     // handler supplies its own Content
	OutRaw bool            `json:"out_raw,omitempty"` // explicit family: return a json.RawMessage instead of the decoded value
}

type Script struct {
	Family string `json:"family"` // "explicit" | "gotype"

	// explicit family
	In    json.RawMessage `json:"in,omitempty"`         // input schema
	OutS  json.RawMessage `json:"out_schema,omitempty"` // output schema; empty = none declared
	Form  int             `json:"form,omitempty"`       // how schemas are handed to the SDK: 0 *jsonschema.Schema, 1 map[string]any, 2 json.RawMessage
	Twice bool            `json:"twice,omitempty"`      // register the tool twice (the second registration replaces the first)

	// gotype family
	Type string `json:"type,omitempty"`

	Cache bool `json:"cache,omitempty"` // ServerOptions.SchemaCache set (shared across cases)
	// AskFirst: the handler needs input from the client (its roots) before it can answer: invoked without
	// input responses it returns an input request and nothing else; it is then invoked again with the
	// responses (by the server itself for a client of an older protocol version, by the client's retry for a
	// 2026-07-28 client, Modern). Every invocation is an invocation of the typed handler.
	AskFirst bool   `json:"ask_first,omitempty"`
	Modern   bool   `json:"modern,omitempty"`
	Calls    []Call `json:"calls"`
}

var sharedCache = mcp.NewSchemaCache()

// ---- generation -------------------------------------------------------------------

func genArgs(g *sgen, schema any) (json.RawMessage, []string) {
	v := norm(g.value(schema))
	var labels []string
	// {} (absent or null arguments) is outside the unambiguous defaults region when
	// the root has an optional object with defaulted descendants; see Assumptions.
	emptyOK := !absentObjectAmbiguity(schema)
	nmut := []int{0, 0, 0, 1, 1, 1, 1, 2}[g.pick(8, "nargmut")]
	for i := 0; i < nmut; i++ {
		var l string
		v, l = g.mutate(v, schema, true, emptyOK)
		labels = append(labels, l)
		if _, ok := v.(map[string]any); !ok {
			break // no longer an object: nothing left to mutate by schema
		}
	}
	if nmut == 0 && emptyOK && g.pct(10, "omitargs") {
		return nil, []string{"omitted"}
	}
	return mustJSON(v), labels
}

func genOut(g *sgen, schema any, typed bool) (json.RawMessage, []string) {
	if schema == nil {
		return mustJSON(g.anyScalar()), nil
	}
	if typed && g.pct(8, "outnull") {
		return json.RawMessage("null"), []string{"null@0"} // nil pointer / nil slice / nil map / zero scalar
	}
	v := norm(g.value(schema))
	var labels []string
	if g.pct(40, "outmut") {
		var l string
		// An untyped nil output (Out = any) means "no structured output" to the
		// SDK, so the root never becomes null for the explicit family. For typed
		// outputs null builds a nil pointer/slice/map, which is in the family.
		v, l = g.mutate(v, schema, false, typed)
		labels = append(labels, l)
	}
	return mustJSON(v), labels
}

func genExplicit(rt *rapid.T) Script {
	g := &sgen{rt: rt, maxDepth: 3}
	s := Script{Family: "explicit"}
	in := norm(g.node(0, true, "object"))
	s.In = mustJSON(in)
	var out any
	if g.pct(88, "hasout") {
		kind := g.oneOf([]string{"object", "object", "object", "object", "array", "array", "string", "integer", "number", "boolean"}, "outkind")
		out = norm(g.node(0, true, kind))
		s.OutS = mustJSON(out)
	}
	s.Form = g.pick(3, "form")
	s.Cache = g.coin("cache")
	s.Twice = g.pct(25, "twice")
	s.AskFirst = g.pct(20, "ask_first")
	s.Modern = s.AskFirst && g.pct(40, "modern")
	n := g.intn(1, 5, "ncalls")
	for i := 0; i < n; i++ {
		var c Call
		c.Args, c.ArgMut = genArgs(g, in)
		c.AsGo = g.pct(30, "as_go")
		c.Out, c.OutMut = genOut(g, out, false)
		c.Own = g.pct(35, "own")
		c.OutRaw = g.pct(25, "outraw")
		s.Calls = append(s.Calls, c)
	}
	return s
}

func genGoType(rt *rapid.T) Script {
	pub, err := goPublished()
	if err != nil {
		rt.Fatalf("harness: cannot fetch the published schemas of the Go-type family: %v", err)
	}
	g := &sgen{rt: rt, maxDepth: 3}
	s := Script{Family: "gotype"}
	s.Type = g.oneOf(goToolWeighted, "type")
	s.Cache = g.coin("cache")
	p := pub[s.Type]
	s.AskFirst = g.pct(20, "ask_first")
	s.Modern = s.AskFirst && g.pct(40, "modern")
	n := g.intn(1, 5, "ncalls")
	for i := 0; i < n; i++ {
		var c Call
		c.Args, c.ArgMut = genArgs(g, p.In)
		c.AsGo = g.pct(30, "as_go")
		c.Out, c.OutMut = genOut(g, p.Out, true)
		c.Own = g.pct(35, "own")
		s.Calls = append(s.Calls, c)
	}
	return s
}

// ---- interpretation and oracle ----------------------------------------------------

func schemaArg(raw json.RawMessage, form int) (any, error) {
	switch form {
	case 0:
		var s jsonschema.Schema
		if err := json.Unmarshal(raw, &s); err != nil {
			return nil, err
		}
		return &s, nil
	case 1:
		var m map[string]any
		if err := json.Unmarshal(raw, &m); err != nil {
			return nil, err
		}
		return m, nil
	default:
		return json.RawMessage(raw), nil
	}
}

// registerExplicit registers tool "t" with AddTool[map[string]any, any].
func registerExplicit(server *mcp.Server, env *caseEnv, s Script) error {
	in, err := schemaArg(s.In, s.Form)
	if err != nil {
		return err
	}
	var out any
	if len(s.OutS) > 0 {
		if out, err = schemaArg(s.OutS, s.Form); err != nil {
			return err
		}
	}
	times := 1
	if s.Twice {
		times = 2
	}
	for i := 0; i < times; i++ {
		mcp.AddTool(server, &mcp.Tool{Name: "t", InputSchema: in, OutputSchema: out},
			func(ctx context.Context, req *mcp.CallToolRequest, args map[string]any) (*mcp.CallToolResult, any, error) {
				env.mu.Lock()
				defer env.mu.Unlock()
				if env.askFirst && len(req.Params.InputResponses) == 0 {
					env.asked++
					env.seenAsk, _ = json.Marshal(args)
					return &mcp.CallToolResult{InputRequests: mcp.InputRequestMap{"roots": &mcp.ListRootsParams{}}}, nil, nil
				}
				env.invoked++
				env.seen, _ = json.Marshal(args)
				c := env.cur
				var outv any
				if c != nil && len(c.Out) > 0 {
					if c.OutRaw {
						outv = json.RawMessage(c.Out)
					} else {
						outv = mustDecode(c.Out)
					}
				}
				env.outNil = outv == nil
				env.outJSON, _ = json.Marshal(outv)
				var res *mcp.CallToolResult
				if c != nil && c.Own {
					res = &mcp.CallToolResult{Content: []mcp.Content{&mcp.TextContent{Text: ownText}}}
				}
				return res, outv, nil
			})
	}
	return nil
}

func depthClass(d int) string {
	if d >= 2 {
		return "in_invalid_depth2+"
	}
	return fmt.Sprintf("in_invalid_depth%d", d)
}

func errText(res *mcp.CallToolResult) string {
	var sb strings.Builder
	for _, c := range res.Content {
		if tc, ok := c.(*mcp.TextContent); ok {
			sb.WriteString(tc.Text)
		}
	}
	return sb.String()
}

func run(s Script) (res vt.Result) {
	ctx := context.Background()
	env := &caseEnv{askFirst: s.AskFirst}
	opts := &mcp.ServerOptions{}
	if s.Cache {
		opts.SchemaCache = sharedCache
	}
	server := mcp.NewServer(&mcp.Implementation{Name: "c16-server", Version: "1"}, opts)

	var expIn func([]byte) ([]byte, error)
	derivedOut := false // gotype family: no OutputSchema was given, it is derived from the Go type
	regErr := func() (err error) {
		defer func() {
			if r := recover(); r != nil {
				err = fmt.Errorf("AddTool panicked: %v", r)
			}
		}()
		switch s.Family {
		case "explicit":
			return registerExplicit(server, env, s)
		case "gotype":
			gt, ok := goTools[s.Type]
			if !ok {
				return fmt.Errorf("unknown Go type family member %q", s.Type)
			}
			gt.reg(server, env, "t")
			expIn = gt.expIn
			derivedOut = !gt.explicitOut
			return nil
		}
		return fmt.Errorf("unknown family %q", s.Family)
	}()
	if regErr != nil && s.Family == "gotype" && goUndocumentedIn[s.Type] {
		// AddTool documents "The In type argument must be a map or a struct": a server that refuses this member
		// of the family (a pointer In) is within its documentation.
		res.Class("gotype_rejected_undocumented_in")
		return
	}
	if regErr != nil {
		res.Failf("harness: registration failed (generated schemas are valid by construction): %v", regErr)
		return
	}

	st, ct := mcp.NewInMemoryTransports()
	ss, err := server.Connect(ctx, st, nil)
	if err != nil {
		res.Failf("harness: server connect: %v", err)
		return
	}
	client := mcp.NewClient(&mcp.Implementation{Name: "c16-client", Version: "1"}, nil)
	version := legacyVersion
	if s.Modern {
		version = "2026-07-28"
	}
	cs, err := client.Connect(ctx, ct, &mcp.ClientSessionOptions{ProtocolVersion: version})
	if err != nil {
		res.Failf("harness: client connect: %v", err)
		return
	}
	defer func() {
		cs.Close()
		ss.Wait()
	}()

	pubAll, err := fetchPublished(ctx, cs)
	if err != nil {
		res.Failf("harness: tools/list: %v", err)
		return
	}
	pub, ok := pubAll["t"]
	if !ok || pub.In == nil {
		res.Failf("tool t is not listed with an input schema")
		return
	}
	if s.Family == "gotype" {
		// The schemas derived for a Go type do not depend on what else a shared SchemaCache has seen.
		if ref, err := goPublished(); err == nil {
			if want := ref[s.Type]; !jsonEq(pub.In, want.In) || !jsonEq(pub.Out, want.Out) {
				res.Failf("tool of Go type family member %q (shared SchemaCache: %v) publishes input %s / output %s; a server without a cache publishes %s / %s", s.Type, s.Cache, mustJSON(pub.In), mustJSON(pub.Out), mustJSON(want.In), mustJSON(want.Out))
				return
			}
		}
	}
	fam := "family:" + s.Family
	if s.Type != "" {
		fam = "gotype:" + s.Type
	}
	res.Class(fam)
	if r := outsideFamily(pub.In); r != "" {
		res.Class("skipped_outside_family")
		return
	}
	if pub.Out != nil {
		if r := outsideFamily(pub.Out); r != "" {
			res.Class("skipped_outside_family")
			return
		}
	}

	for i := range s.Calls {
		c := &s.Calls[i]
		for _, l := range c.ArgMut {
			res.Class("argmut:" + strings.SplitN(l, "@", 2)[0])
		}
		env.begin(c)
		params := &mcp.CallToolParams{Name: "t"}
		if len(c.Args) > 0 {
			params.Arguments = json.RawMessage(c.Args)
			if v := mustDecode(c.Args); c.AsGo && v != nil {
				params.Arguments = v
				res.Class("arguments_handed_over_as_go_values")
			}
		}
		// (The call is answered within microseconds on an in-memory link. A call that is never answered at all
		// - e.g. because the result could not be encoded - must not hang the run: half a minute of real time
		// is given, and running out of it is reported as what it is.)
		cctx, cancelCall := context.WithTimeout(ctx, 30*time.Second)
		result, callErr := cs.CallTool(cctx, params)
		timedOut := cctx.Err() != nil
		cancelCall()
		if callErr != nil && timedOut {
			res.Failf("call %d (args %s): CallTool was not answered within 30 s of real time (the server never wrote a response): %v", i, c.Args, callErr)
			return
		}
		env.mu.Lock()
		invoked, seen, outJSON, outZero, outNilPtr, outNil := env.invoked, env.seen, env.outJSON, env.outZero, env.outNilPtr, env.outNil
		asked, seenAsk := env.asked, env.seenAsk
		env.mu.Unlock()
		tag := fmt.Sprintf("call %d (args %s)", i, c.Args)

		// ---- input side ----
		var args any = map[string]any{}
		if len(c.Args) > 0 {
			args = mustDecode(c.Args)
		}
		if args == nil {
			// "arguments": null is the same as absent arguments (documented in
			// applySchema: the value is at least {}; finding F10).
			res.Class("in_null_root")
			args = map[string]any{}
		}
		var inErrs []vErr
		var withDef any
		var di defInfo
		if _, isObj := args.(map[string]any); isObj {
			withDef = applyDefaultsModel(pub.In, deepCopy(args), &di)
			if di.Ambiguous != "" {
				res.Class("skipped_ambiguous_defaults", "ambiguous:"+di.Ambiguous)
				continue
			}
			inErrs = validate(pub.In, withDef)
		} else {
			inErrs = validate(pub.In, args)
			if len(inErrs) == 0 {
				res.Failf("harness: non-object arguments %s valid under the published input schema?", c.Args)
				return
			}
			res.Class("in_nonobject_root")
		}
		if len(c.ArgMut) == 0 && len(inErrs) > 0 {
			res.Failf("harness: arguments %s were generated valid by construction but the oracle rejects them: %v", c.Args, inErrs)
			return
		}

		if len(inErrs) > 0 {
			d := minDepth(inErrs)
			res.Class("in_invalid", depthClass(d))
			if d >= 2 {
				res.NonTrivial = true
			}
			if invoked+asked != 0 {
				res.Failf("%s: handler ran %d time(s) with arguments that are invalid under the published input schema (%s); it saw %s", tag, invoked, inErrs[0].Msg, seen)
			}
			if _, isObj := args.(map[string]any); callErr != nil && !isObj {
				// "arguments" that are no JSON object at all may also be refused before the tool is reached (by the
				// protocol layer of the server or of the client): the handler did not run, which is what counts.
				res.Class("in_nonobject_root_protocol_error")
			} else if callErr != nil {
				res.Failf("%s: invalid arguments (%s) produced a protocol error instead of a tool-level error result: %v", tag, inErrs[0].Msg, callErr)
			} else if !result.IsError {
				res.Failf("%s: invalid arguments (%s) did not produce an error result: %s", tag, inErrs[0].Msg, mustJSON(result))
			}
			continue
		}

		res.Class("in_valid")
		if di.Applied > 0 {
			res.Class("in_default_applied")
			res.NonTrivial = true
		}
		if invoked != 1 {
			detail := ""
			if callErr != nil {
				detail = callErr.Error()
			} else if result != nil {
				detail = errText(result)
			}
			res.Failf("%s: arguments are valid under the published input schema after defaults (%s) but the handler ran %d time(s): %s", tag, mustJSON(withDef), invoked, detail)
			continue
		}
		wantSeen := withDef
		if expIn != nil {
			b, err := expIn(mustJSON(withDef))
			if err != nil {
				res.Failf("harness: %s: schema-valid arguments %s do not decode into the Go input type: %v", tag, mustJSON(withDef), err)
				continue
			}
			wantSeen = mustDecode(b)
		}
		if got := mustDecode(seen); !jsonEq(got, wantSeen) {
			res.Failf("%s: handler received %s, want the arguments with defaults applied %s", tag, seen, mustJSON(wantSeen))
		}
		if s.AskFirst {
			res.Class(fmt.Sprintf("handler_asked_for_input_first_modern=%v", s.Modern))
			res.NonTrivial = true
			if asked != 1 {
				res.Failf("%s: the handler asks for the client's roots before it answers: it was invoked %d time(s) without input responses, want once (then once with them)", tag, asked)
			} else if got := mustDecode(seenAsk); !jsonEq(got, wantSeen) {
				res.Failf("%s: invoked without input responses the handler received %s, invoked again with them %s: want the arguments with defaults applied both times", tag, seenAsk, seen)
			}
		}

		// ---- output side ----
		if pub.Out == nil {
			res.Class("out_undeclared")
			continue
		}
		if outNil {
			// Out = any and an untyped nil: outside the family by construction.
			res.Failf("harness: scripted handler returned an untyped nil output")
			return
		}
		for _, l := range c.OutMut {
			res.Class("outmut:" + strings.SplitN(l, "@", 2)[0])
		}
		outVal := mustDecode(outJSON)
		// Candidate expected structured contents. Normally exactly one: the JSON of
		// the handler's output with the output schema's defaults. Two coercions
		// documented in the SDK source add an alternative reading each (both readings
		// are accepted): a nil pointer output may stand for the zero value of its
		// element type (setSchema), and a null output under an object-rooted schema
		// may stand for {} (applySchema).
		type cand struct {
			v       any
			valid   bool
			applied int
		}
		var cands []cand
		ambiguous := false
		addCand := func(v any) {
			var odi defInfo
			w := applyDefaultsModel(pub.Out, deepCopy(v), &odi)
			if odi.Ambiguous != "" {
				ambiguous = true
			}
			cands = append(cands, cand{w, len(validate(pub.Out, w)) == 0, odi.Applied})
		}
		if outNilPtr && derivedOut {
			// The output schema was derived from the pointer's element type: the SDK documents (toolForErr,
			// setSchema) that the zero value of the element type is used in place of the typed nil. One reading.
			res.Class("out_nil_pointer")
			addCand(mustDecode(outZero))
		} else if outNilPtr {
			res.Class("out_nil_pointer")
			addCand(outVal)
			addCand(mustDecode(outZero))
		} else if addCand(outVal); outVal == nil {
			if m, ok := pub.Out.(map[string]any); ok && m["type"] == "object" {
				addCand(map[string]any{})
			}
		} else {
			// The same coercion below the root (a nil map or slice in a field, where the schema wants an object or
			// an array) is a further accepted reading: the SDK source announces it (TODO at setSchema).
			changed := false
			if cv := coerceNulls(pub.Out, deepCopy(outVal), true, &changed); changed {
				res.Class("out_nested_null")
				addCand(cv)
			}
		}
		if ambiguous {
			res.Class("skipped_ambiguous_defaults")
			continue
		}
		nValid := 0
		for _, cd := range cands {
			if cd.valid {
				nValid++
			}
		}
		if _, isObj := outVal.(map[string]any); !isObj {
			res.Class("out_nonobject")
			res.NonTrivial = true
		}

		failed := callErr != nil || (result != nil && result.IsError)
		var sc any
		if callErr == nil && result != nil && result.StructuredContent != nil {
			sc = norm(result.StructuredContent)
		}
		if callErr == nil && result != nil && result.StructuredContent != nil {
			if errs := validate(pub.Out, sc); len(errs) > 0 {
				res.Failf("%s: structured content %s violates the published output schema (%s); handler output was %s", tag, mustJSON(sc), errs[0].Msg, outJSON)
				continue
			}
		}
		switch {
		case nValid == 0:
			res.Class("out_invalid")
			if !failed {
				res.Failf("%s: handler output %s violates the published output schema but the call succeeded: %s", tag, outJSON, mustJSON(result))
			}
		case nValid == len(cands):
			res.Class("out_valid")
			if failed {
				detail := ""
				if callErr != nil {
					detail = callErr.Error()
				} else {
					detail = errText(result)
				}
				res.Failf("%s: handler output %s is valid under the published output schema but the call failed: %s", tag, outJSON, detail)
				continue
			}
			match := false
			for _, cd := range cands {
				if jsonEq(sc, cd.v) {
					match = true
					if cd.applied > 0 {
						res.Class("out_default_applied")
						res.NonTrivial = true
					}
				}
			}
			if !match {
				res.Failf("%s: structured content %s, want the JSON of the handler's output with defaults %s", tag, mustJSON(sc), mustJSON(cands[0].v))
				continue
			}
			checkText(&res, tag, c, result, sc)
		default:
			// null output under an object-rooted schema: either reading is accepted.
			res.Class("out_null_object_root")
			if !failed {
				match := false
				for _, cd := range cands {
					if cd.valid && jsonEq(sc, cd.v) {
						match = true
					}
				}
				if !match {
					res.Failf("%s: structured content %s is none of the valid readings of output %s", tag, mustJSON(sc), outJSON)
				}
			}
		}
	}
	if res.NonTrivial {
		res.Desc = string(mustJSON(s))
	}
	return res
}

// checkText decides the content clause: without own content there is a text
// block rendering the structured content as JSON; own content is kept (SDK doc
// of ToolHandlerFor: Content is populated only "if unset").
func checkText(res *vt.Result, tag string, c *Call, result *mcp.CallToolResult, sc any) {
	if c.Own {
		res.Class("own_content")
		found := false
		for _, ct := range result.Content {
			if tc, ok := ct.(*mcp.TextContent); ok && tc.Text == ownText {
				found = true
			}
		}
		if !found {
			res.Failf("%s: the handler's own content was dropped: %s", tag, mustJSON(result))
		}
		return
	}
	res.Class("text_fallback")
	for _, ct := range result.Content {
		if tc, ok := ct.(*mcp.TextContent); ok {
			if v, err := decodeJSON([]byte(tc.Text)); err == nil && jsonEq(v, sc) {
				return
			}
		}
	}
	res.Failf("%s: handler supplied no content, but the result has no text block with the JSON of the structured content %s: %s", tag, mustJSON(sc), mustJSON(result))
}

// ---- tests -----------------------------------------------------------------------

var propExplicit = vt.Register(&vt.Prop[Script]{Property: "C16", Name: "explicit", Gen: genExplicit, Run: run, Journal: true})
var propGoType = vt.Register(&vt.Prop[Script]{Property: "C16", Name: "gotype", Gen: genGoType, Run: run, Journal: true})

func TestC16_Explicit(t *testing.T) { propExplicit.Check(t) }
func TestC16_GoType(t *testing.T)   { propGoType.Check(t) }

func TestReplay(t *testing.T)  { vt.Replay(t) }
func TestRegress(t *testing.T) { vt.Regress(t, "C16") }
func TestKnown(t *testing.T)   { vt.Known(t, "C16") }
