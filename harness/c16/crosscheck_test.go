package c16

import (
	"bufio"
	"encoding/json"
	"os"
	"testing"

	"pgregory.net/rapid"
)

// TestDumpForCrossCheck (manual, thorough tier aid): with C16_DUMP=<file> it writes
// lines {"schema":…,"instance":…,"valid":…} judged by the mini validator, to be
// compared with Python's jsonschema:
//
//	C16_DUMP=/tmp/c16.jsonl go test ./c16 -run TestDumpForCrossCheck -rapid.checks=3000
//	python3-vt - <<'PY'
//	import json, jsonschema
//	bad = 0
//	for l in open('/tmp/c16.jsonl'):
//	    d = json.loads(l)
//	    ok = jsonschema.Draft202012Validator(d['schema']).is_valid(d['instance'])
//	    bad += ok != d['valid']
//	print('disagreements', bad)
//	PY
func TestDumpForCrossCheck(t *testing.T) {
	path := os.Getenv("C16_DUMP")
	if path == "" {
		t.Skip("C16_DUMP not set")
	}
	f, err := os.Create(path)
	if err != nil {
		t.Fatal(err)
	}
	defer f.Close()
	w := bufio.NewWriter(f)
	defer w.Flush()
	rapid.Check(t, func(rt *rapid.T) {
		g := &sgen{rt: rt, maxDepth: 3}
		kind := g.oneOf([]string{"object", "object", "array", "string", "integer", "number"}, "kind")
		schema := norm(g.node(0, true, kind))
		v := norm(g.value(schema))
		if g.coin("mut") {
			v, _ = g.mutate(v, schema, kind == "object", true)
		}
		b, _ := json.Marshal(map[string]any{"schema": schema, "instance": v, "valid": len(validate(schema, v)) == 0})
		w.Write(b)
		w.WriteByte('\n')
	})
	if pub, err := goPublished(); err == nil {
		rapid.Check(t, func(rt *rapid.T) {
			g := &sgen{rt: rt, maxDepth: 3}
			p := pub[g.oneOf(goToolNames, "type")]
			for _, schema := range []any{p.In, p.Out} {
				if schema == nil {
					continue
				}
				v := norm(g.value(schema))
				if g.coin("mut") {
					v, _ = g.mutate(v, schema, false, true)
				}
				b, _ := json.Marshal(map[string]any{"schema": schema, "instance": v, "valid": len(validate(schema, v)) == 0})
				w.Write(b)
				w.WriteByte('\n')
			}
		})
	}
}
