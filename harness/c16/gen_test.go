package c16

// Generators: the explicit-schema family, values valid by construction under a
// schema (also used with the schemas the SDK publishes for the Go-type family),
// and mutations of such values. All randomness comes from rapid.

import (
	"fmt"
	"math"
	"sort"
	"strings"

	"pgregory.net/rapid"
)

type sgen struct {
	rt       *rapid.T
	maxDepth int
}

var propNames = []string{"alpha", "beta", "gamma", "delta", "eps", "zeta"}
var strPool = []string{"", "a", "bb", "é", "red", "green", "blue", "x y", "😀z"}

// (DEL, a private-use rune beyond the BMP and a tag character: legal in JSON strings as they are, not printable)
var runePool = []rune("abé😀 Z\u007f\U0010FFFD\U000E0001\"\\\n")

func (g *sgen) intn(lo, hi int, label string) int { return rapid.IntRange(lo, hi).Draw(g.rt, label) }
func (g *sgen) coin(label string) bool            { return rapid.Bool().Draw(g.rt, label) }

// rapid's integer and SampledFrom generators are biased towards small values /
// early elements; choices that are meant to be (roughly) uniform are therefore
// assembled from unbiased single bits.
func (g *sgen) bits(n int, label string) int {
	v := 0
	for i := 0; i < n; i++ {
		v <<= 1
		if rapid.Bool().Draw(g.rt, label) {
			v |= 1
		}
	}
	return v
}
func (g *sgen) pct(p int, label string) bool           { return g.bits(6, label)*100/64 < p }
func (g *sgen) pick(n int, label string) int           { return g.bits(10, label) % n }
func (g *sgen) oneOf(xs []string, label string) string { return xs[g.pick(len(xs), label)] }

func (g *sgen) scalarSchema(kind string) map[string]any {
	s := map[string]any{"type": kind}
	switch kind {
	case "string":
		switch g.pick(3+1, "strform") {
		case 1:
			lo := g.intn(0, 3, "minLength")
			hi := lo + g.intn(0, 3, "maxLenDelta")
			switch g.pick(2+1, "lenwhich") {
			case 0:
				s["minLength"] = lo
			case 1:
				s["maxLength"] = hi
			default:
				s["minLength"], s["maxLength"] = lo, hi
			}
		case 2:
			start, n := g.pick(len(strPool)-1+1, "enumstart"), g.intn(2, 3, "enumn")
			var e []any
			for i := 0; i < n; i++ {
				e = append(e, strPool[(start+i)%len(strPool)])
			}
			s["enum"] = e
		case 3:
			s["const"] = strPool[g.pick(len(strPool)-1+1, "const")]
		}
	case "integer":
		switch g.pick(2+1, "intform") {
		case 1:
			lo := g.intn(-3, 3, "minimum")
			hi := lo + g.intn(0, 6, "maxDelta")
			switch g.pick(2+1, "boundwhich") {
			case 0:
				s["minimum"] = lo
			case 1:
				s["maximum"] = hi
			default:
				s["minimum"], s["maximum"] = lo, hi
			}
		case 2:
			all := []any{1, 2, 5, -7, 10}
			start, n := g.pick(len(all)-1+1, "enumstart"), g.intn(2, 3, "enumn")
			var e []any
			for i := 0; i < n; i++ {
				e = append(e, all[(start+i)%len(all)])
			}
			s["enum"] = e
		}
	case "number":
		if g.coin("numbounds") {
			lo := float64(g.intn(-4, 4, "min2")) / 2
			hi := lo + float64(g.intn(0, 8, "maxDelta2"))/2
			switch g.pick(2+1, "boundwhich") {
			case 0:
				s["minimum"] = lo
			case 1:
				s["maximum"] = hi
			default:
				s["minimum"], s["maximum"] = lo, hi
			}
		}
	}
	return s
}

var scalarKinds = []string{"string", "integer", "number", "boolean"}

// node draws a schema. defOK says whether "default" keywords may appear in this
// subtree: only along a chain of optional object properties from the root (see
// Assumptions in driver/prop_c16.go).
func (g *sgen) node(depth int, defOK bool, kind string) map[string]any {
	if kind == "" {
		if depth >= g.maxDepth {
			kind = g.oneOf(scalarKinds, "kind")
		} else {
			kind = g.oneOf([]string{"string", "integer", "number", "boolean", "string", "integer", "array", "object", "object"}, "kind")
		}
	}
	switch kind {
	case "array":
		s := map[string]any{"type": "array", "items": g.node(depth+1, false, "")}
		if g.coin("arrbounds") {
			lo := g.intn(0, 2, "minItems")
			hi := lo + g.intn(0, 2, "maxItemsDelta")
			switch g.pick(2+1, "itemswhich") {
			case 0:
				s["minItems"] = lo
			case 1:
				s["maxItems"] = hi
			default:
				s["minItems"], s["maxItems"] = lo, hi
			}
		}
		return s
	case "object":
		s := map[string]any{"type": "object"}
		lo := 1
		if depth == 0 {
			lo = 2
		}
		n := g.intn(lo, 4, "nprops")
		start := g.pick(len(propNames)-1+1, "propstart")
		props := map[string]any{}
		var required []any
		for i := 0; i < n; i++ {
			name := propNames[(start+i)%len(propNames)]
			req := g.pct(45, "required")
			sub := g.node(depth+1, defOK && !req, "")
			if !req && defOK && sub["type"] != "object" && g.pct(60, "hasdefault") {
				sub["default"] = g.value(sub)
			}
			props[name] = sub
			if req {
				required = append(required, name)
			}
		}
		s["properties"] = props
		if required != nil {
			s["required"] = required
		}
		switch g.pick(3+1, "addl") {
		case 1:
			s["additionalProperties"] = false
		case 2:
			s["additionalProperties"] = true
		case 3:
			s["additionalProperties"] = g.scalarSchema(g.oneOf(scalarKinds, "apkind"))
		}
		return s
	default:
		return g.scalarSchema(kind)
	}
}

func firstType(s map[string]any, preferNonNull bool) string {
	ts := schemaTypes(s)
	for _, t := range ts {
		if t != "null" || !preferNonNull {
			return t
		}
	}
	if len(ts) > 0 {
		return ts[0]
	}
	return ""
}

func (g *sgen) anyScalar() any {
	switch g.pick(3+1, "anyscalar") {
	case 0:
		return "free"
	case 1:
		return float64(g.intn(-3, 3, "anyint"))
	case 2:
		return g.coin("anybool")
	}
	return 2.5
}

func (g *sgen) str(lo, hi int) string {
	n := g.intn(lo, hi, "strlen")
	var b strings.Builder
	for i := 0; i < n; i++ {
		b.WriteRune(runePool[g.intn(0, len(runePool)-1, "rune")])
	}
	return b.String()
}

func fnum(s map[string]any, kw string) (float64, bool) {
	switch x := s[kw].(type) {
	case float64:
		return x, true
	case int:
		return float64(x), true
	}
	return 0, false
}

// value draws an instance that is valid under schema by construction. schema is
// either a generated schema (Go ints allowed in it) or a published, decoded one.
func (g *sgen) value(schema any) any {
	s, ok := schema.(map[string]any)
	if !ok { // true (false is never asked for)
		return g.anyScalar()
	}
	if c, ok := s["const"]; ok {
		return c
	}
	if e, ok := s["enum"].([]any); ok {
		return e[g.pick(len(e)-1+1, "enumpick")]
	}
	ts := schemaTypes(s)
	t := ""
	switch {
	case len(ts) == 0:
		return g.anyScalar()
	case len(ts) == 1:
		t = ts[0]
	default:
		t = firstType(s, true)
		if g.pct(20, "picknull") {
			for _, x := range ts {
				if x == "null" {
					t = "null"
				}
			}
		}
	}
	switch t {
	case "null":
		return nil
	case "boolean":
		return g.coin("boolval")
	case "string":
		lo, hi := 0, -1
		if m, ok := fnum(s, "minLength"); ok {
			lo = int(m)
		}
		if m, ok := fnum(s, "maxLength"); ok {
			hi = int(m)
		}
		if hi < 0 {
			hi = lo + 3
		}
		return g.str(lo, hi)
	case "integer":
		lo, hasLo := fnum(s, "minimum")
		hi, hasHi := fnum(s, "maximum")
		switch {
		case hasLo && hasHi:
		case hasLo:
			hi = lo + 10
		case hasHi:
			lo = hi - 10
		default:
			lo, hi = -5, 20
		}
		l, h := int(math.Ceil(lo)), int(math.Floor(hi))
		switch g.pick(3+1, "intedge") {
		case 0:
			return float64(l)
		case 1:
			return float64(h)
		}
		return float64(g.intn(l, h, "intval"))
	case "number":
		lo, hasLo := fnum(s, "minimum")
		hi, hasHi := fnum(s, "maximum")
		switch {
		case hasLo && hasHi:
		case hasLo:
			hi = lo + 5
		case hasHi:
			lo = hi - 5
		default:
			lo, hi = -2, 3
		}
		k := g.intn(0, int((hi-lo)*2), "halves")
		return lo + float64(k)/2
	case "array":
		lo, hi := 0, -1
		if m, ok := fnum(s, "minItems"); ok {
			lo = int(m)
		}
		if m, ok := fnum(s, "maxItems"); ok {
			hi = int(m)
		}
		if hi < 0 {
			hi = lo + 2
		}
		n := g.intn(lo, hi, "arrlen")
		out := make([]any, 0, n)
		for i := 0; i < n; i++ {
			if it, ok := s["items"]; ok {
				out = append(out, g.value(it))
			} else {
				out = append(out, g.anyScalar())
			}
		}
		return out
	case "object":
		obj := map[string]any{}
		props, _ := s["properties"].(map[string]any)
		for _, name := range sortedKeys(props) {
			sub := props[name]
			include := isRequired(s, name)
			if !include {
				subm, _ := sub.(map[string]any)
				_, own := subm["default"]
				if !own && hasDefaultsInProps(sub) {
					include = true // family restriction: such objects are always present
				} else {
					include = g.coin("optional_present")
				}
			}
			if include {
				obj[name] = g.value(sub)
			}
		}
		ap, hasAP := s["additionalProperties"]
		switch apv := ap.(type) {
		case bool:
			if apv && g.pct(30, "extra") {
				obj["extra"] = g.anyScalar()
			}
		case map[string]any:
			n := 0
			if props == nil {
				n = g.intn(0, 3, "mapkeys") // Go map types
			} else if g.pct(40, "extra") {
				n = 1
			}
			for i := 0; i < n; i++ {
				obj[fmt.Sprintf("k%d", i)] = g.value(apv)
			}
		default:
			if !hasAP && g.pct(30, "extra") {
				obj["extra"] = g.anyScalar()
			}
		}
		return obj
	}
	panic("c16 gen: unknown type " + t)
}

// ---- mutation ---------------------------------------------------------------------

type vnode struct {
	path   []any // string keys and int indices
	schema any
}

// collect lists the nodes of v that have a known sub-schema (v itself included).
func collect(v any, schema any, path []any, out *[]vnode) {
	*out = append(*out, vnode{append([]any(nil), path...), schema})
	s, ok := schema.(map[string]any)
	if !ok {
		return
	}
	switch x := v.(type) {
	case map[string]any:
		props, _ := s["properties"].(map[string]any)
		for _, k := range sortedKeys(x) {
			if sub, ok := props[k]; ok {
				collect(x[k], sub, append(path, k), out)
			} else if ap, ok := s["additionalProperties"].(map[string]any); ok {
				collect(x[k], ap, append(path, k), out)
			}
		}
	case []any:
		if it, ok := s["items"]; ok {
			for i := range x {
				if i >= 3 {
					break
				}
				collect(x[i], it, append(path, i), out)
			}
		}
	}
}

func getAt(root any, path []any) any {
	for _, p := range path {
		switch k := p.(type) {
		case string:
			root = root.(map[string]any)[k]
		case int:
			root = root.([]any)[k]
		}
	}
	return root
}

func setAt(root any, path []any, nv any) any {
	if len(path) == 0 {
		return nv
	}
	parent := getAt(root, path[:len(path)-1])
	switch k := path[len(path)-1].(type) {
	case string:
		parent.(map[string]any)[k] = nv
	case int:
		parent.([]any)[k] = nv
	}
	return root
}

// mutate applies one mutation to v (a fresh tree, modified in place) at a drawn
// node. It returns the new root and a label. Whether the result is invalid is
// decided by the oracle, not assumed here. isInput enables the non-object-root
// mutations; allowRootNull says whether the root may become JSON null.
func (g *sgen) mutate(v any, schema any, isInput, allowRootNull bool) (any, string) {
	var nodes []vnode
	collect(v, schema, nil, &nodes)
	// Prefer deep nodes a little: draw two indices and keep the deeper one.
	i, j := g.pick(len(nodes), "mutnode"), g.pick(len(nodes), "mutnode2")
	if len(nodes[j].path) > len(nodes[i].path) {
		i = j
	}
	n := nodes[i]
	cur := getAt(v, n.path)
	s, _ := n.schema.(map[string]any)
	root := len(n.path) == 0

	kinds := []string{"wrongtype"}
	if !root || allowRootNull {
		kinds = append(kinds, "null")
	}
	if root && isInput {
		kinds = append(kinds, "nonobject", "nonobject")
	}
	if s != nil {
		if _, ok := cur.(float64); ok {
			if _, ok := fnum(s, "minimum"); ok {
				kinds = append(kinds, "below", "below", "below")
			}
			if _, ok := fnum(s, "maximum"); ok {
				kinds = append(kinds, "above", "above", "above")
			}
		}
		if _, ok := cur.(string); ok {
			if m, ok := fnum(s, "minLength"); ok && m > 0 {
				kinds = append(kinds, "short", "short", "short")
			}
			if _, ok := fnum(s, "maxLength"); ok {
				kinds = append(kinds, "long", "long", "long")
			}
		}
		if _, ok := s["enum"]; ok {
			kinds = append(kinds, "badenum", "badenum", "badenum")
		}
		if _, ok := s["const"]; ok {
			kinds = append(kinds, "badenum", "badenum", "badenum")
		}
		if arr, ok := cur.([]any); ok {
			if m, ok := fnum(s, "minItems"); ok && m > 0 && len(arr) > 0 {
				kinds = append(kinds, "fewitems", "fewitems", "fewitems")
			}
			if _, ok := fnum(s, "maxItems"); ok {
				kinds = append(kinds, "manyitems", "manyitems", "manyitems")
			}
		}
		if obj, ok := cur.(map[string]any); ok {
			kinds = append(kinds, "extrakey", "extrakey", "extrakey")
			if props, _ := s["properties"].(map[string]any); isInput && len(props) > 0 && len(obj) > 0 {
				kinds = append(kinds, "casekey", "casekey", "casekey", "casekey")
			}
			req, _ := s["required"].([]any)
			for _, r := range req {
				if _, present := obj[r.(string)]; present {
					kinds = append(kinds, "dropreq", "dropreq", "dropreq")
					break
				}
			}
		}
	}
	kind := g.oneOf(kinds, "mutkind")
	label := fmt.Sprintf("%s@%d", kind, len(n.path))
	switch kind {
	case "null":
		return setAt(v, n.path, nil), label
	case "nonobject":
		alts := []any{5.0, "str", []any{1.0}, true, 0.0, "", false, []any{}}
		if allowRootNull {
			alts = append(alts, nil, nil)
		}
		return alts[g.pick(len(alts)-1+1, "nonobj")], label
	case "wrongtype":
		t := ""
		if s != nil {
			t = firstType(s, true)
		}
		if t == "" {
			t = jsonTypeOf(cur)
		}
		var nv any
		switch t {
		case "string":
			nv = 7.0
		case "integer":
			nv = []any{"7", 1.5, true}[g.pick(2+1, "wt")]
		case "number":
			nv = "x"
		case "boolean":
			nv = []any{"true", 0.0, 1.0}[g.pick(2+1, "wt")]
		case "array":
			nv = map[string]any{"0": 1.0}
		case "object":
			nv = []any{"obj", []any{}, 3.0}[g.pick(2+1, "wt")]
		default: // null-only
			nv = "notnull"
		}
		return setAt(v, n.path, nv), label
	case "below":
		m, _ := fnum(s, "minimum")
		d := 1.0
		if firstType(s, true) == "number" && g.coin("half") {
			d = 0.5
		}
		return setAt(v, n.path, m-d), label
	case "above":
		m, _ := fnum(s, "maximum")
		d := 1.0
		if firstType(s, true) == "number" && g.coin("half") {
			d = 0.5
		}
		return setAt(v, n.path, m+d), label
	case "short":
		m, _ := fnum(s, "minLength")
		return setAt(v, n.path, strings.Repeat("é", int(m)-1)), label
	case "long":
		m, _ := fnum(s, "maxLength")
		return setAt(v, n.path, strings.Repeat("a", int(m)+1)), label
	case "badenum":
		if _, ok := cur.(string); ok {
			return setAt(v, n.path, "NOPE"), label
		}
		return setAt(v, n.path, 99.0), label
	case "fewitems":
		m, _ := fnum(s, "minItems")
		return setAt(v, n.path, cur.([]any)[:int(m)-1]), label
	case "manyitems":
		m, _ := fnum(s, "maxItems")
		arr := cur.([]any)
		for len(arr) <= int(m) {
			if it, ok := s["items"]; ok {
				arr = append(arr, g.value(it))
			} else {
				arr = append(arr, 1.0)
			}
		}
		return setAt(v, n.path, arr), label
	case "extrakey":
		cur.(map[string]any)["zzz"] = []any{1.0, "s", true}[g.pick(2+1, "extraval")]
		return v, label
	case "casekey":
		// a declared member spelt in another letter case, with an out-of-range value; the correctly spelt
		// member is removed (or kept): to the schema this is an additional property
		obj := cur.(map[string]any)
		var keys []string
		for k := range obj {
			keys = append(keys, k)
		}
		sort.Strings(keys)
		k := keys[g.pick(len(keys), "casewhich")]
		variant := strings.ToUpper(k[:1]) + k[1:]
		if variant == k {
			variant = strings.ToLower(k[:1]) + k[1:]
		}
		if g.coin("caseall") {
			variant = strings.ToUpper(k)
		}
		val := []any{999.0, "NOPE-NOPE-NOPE", true, obj[k]}[g.pick(4, "caseval")]
		if g.coin("casedrop") {
			delete(obj, k)
		}
		if variant != k {
			obj[variant] = val
		}
		return v, label
	case "dropreq":
		obj := cur.(map[string]any)
		req, _ := s["required"].([]any)
		var present []string
		for _, r := range req {
			if _, ok := obj[r.(string)]; ok {
				present = append(present, r.(string))
			}
		}
		delete(obj, present[g.pick(len(present)-1+1, "dropwhich")])
		return v, label
	}
	panic("c16 gen: unknown mutation " + kind)
}

// rootHasOptionalDefault: the class of open finding FX1 (see c16_test.go).
func rootHasOptionalDefault(schema any) bool {
	s, ok := norm(schema).(map[string]any)
	if !ok {
		return false
	}
	props, _ := s["properties"].(map[string]any)
	for name, sub := range props {
		if !isRequired(s, name) && hasDefaultsInProps(sub) {
			return true
		}
	}
	return false
}

// absentObjectAmbiguity: the root has a non-required property without own default
// whose descendants carry defaults, so that {} is outside the region where
// "defaults applied" is unambiguous.
func absentObjectAmbiguity(schema any) bool {
	s, ok := schema.(map[string]any)
	if !ok {
		return false
	}
	props, _ := s["properties"].(map[string]any)
	for name, sub := range props {
		subm, _ := sub.(map[string]any)
		if _, own := subm["default"]; !own && !isRequired(s, name) && hasDefaultsInProps(sub) {
			return true
		}
	}
	return false
}
