package c16

// The fixed family of Go In/Out types registered with the generic mcp.AddTool.

import (
	"context"
	"encoding/json"
	"fmt"
	"reflect"
	"sort"
	"strings"
	"sync"

	"github.com/modelcontextprotocol/go-sdk/mcp"
)

type inner struct {
	X int      `json:"x"`
	Y []string `json:"y,omitempty"`
}

type inBasic struct {
	Name  string  `json:"name" jsonschema:"the name of the thing"`
	Count int     `json:"count"`
	Flag  bool    `json:"flag,omitempty"`
	Ratio float64 `json:"ratio,omitempty" jsonschema:"a ratio"`
}

type outBasic struct {
	Greeting string `json:"greeting" jsonschema:"what was said"`
	N        int    `json:"n"`
}

type inPtr struct {
	P     *int    `json:"p"`
	Q     *string `json:"q,omitempty"`
	Inner *inner  `json:"inner,omitempty"`
}

type deep struct {
	Leaf inner  `json:"leaf"`
	Tag  string `json:"tag,omitempty"`
}

type inNested struct {
	Inner inner `json:"inner"`
	Deep  deep  `json:"deep"`
}

type outNested struct {
	In   inNested `json:"in"`
	Note *string  `json:"note,omitempty"`
}

type inSlices struct {
	Tags  []string `json:"tags"`
	Nums  []int    `json:"nums,omitempty"`
	Items []inner  `json:"items,omitempty"`
}

type inMaps struct {
	M  map[string]int   `json:"m"`
	MS map[string]inner `json:"ms,omitempty"`
}

type inSmall struct {
	Level int8   `json:"level"`
	Port  uint16 `json:"port,omitempty"`
	B     uint8  `json:"b"`
	Pair  [2]int `json:"pair"`
}

type inAny struct {
	V any `json:"v"`
	W any `json:"w,omitempty"`
}

type outMapField struct {
	M map[string]int `json:"m"` // a nil map marshals to null, which the inferred schema (type object) rejects
	S []int          `json:"s"` // a nil slice marshals to null, which the inferred schema allows
}

type inDflt struct {
	Name  string `json:"name"`
	Count int    `json:"count"`
	Mode  string `json:"mode"`
}

type outScore struct {
	Score int    `json:"score"`
	Label string `json:"label,omitempty"`
}

// inBasicOpenSchema describes inBasic but leaves additionalProperties open, so that keys the struct does
// not declare (for instance a declared name in another letter case) are valid input.
const inBasicOpenSchema = `{"type":"object","properties":{` +
	`"name":{"type":"string","maxLength":8},` +
	`"count":{"type":"integer","minimum":0,"maximum":10},` +
	`"flag":{"type":"boolean"},` +
	`"ratio":{"type":"number","minimum":0}},` +
	`"required":["name"]}`

const inDfltSchema = `{"type":"object","properties":{` +
	`"name":{"type":"string","minLength":1,"maxLength":6},` +
	`"count":{"type":"integer","minimum":0,"maximum":9,"default":3},` +
	`"mode":{"type":"string","enum":["fast","slow"],"default":"fast"}},` +
	`"required":["name"],"additionalProperties":false}`

const outScoreSchema = `{"type":"object","properties":{` +
	`"score":{"type":"integer","minimum":0,"maximum":10},` +
	`"label":{"type":"string","enum":["none","low","high"],"default":"none"}},` +
	`"required":["score"],"additionalProperties":false}`

const ownText = "handler's own content"

// caseEnv is what the scripted handler shares with the interpreter. Calls are
// issued one at a time, so plain fields under a mutex suffice.
type caseEnv struct {
	mu        sync.Mutex
	cur       *Call
	invoked   int
	seen      []byte // JSON of the In value the handler received (last invocation)
	outJSON   []byte // json.Marshal of the Out value the handler returned
	outNilPtr bool   // Out is a pointer type and the handler returned nil
	outZero   []byte // then: JSON of the zero value of the element type
	outNil    bool   // Out is an interface and the handler returned untyped nil

	askFirst bool   // the handler asks for the client's roots when invoked without input responses
	asked    int    // such invocations
	seenAsk  []byte // JSON of the In value it received then
}

func (e *caseEnv) begin(c *Call) {
	e.mu.Lock()
	e.cur = c
	e.invoked, e.asked, e.seenAsk = 0, 0, nil
	e.seen, e.outJSON, e.outZero, e.outNilPtr, e.outNil = nil, nil, nil, false, false
	e.mu.Unlock()
}

type goTool struct {
	name        string
	reg         func(s *mcp.Server, env *caseEnv, toolName string)
	expIn       func(args []byte) ([]byte, error) // independent decoding of the arguments into In (encoding/json), re-marshalled
	explicitOut bool                              // an explicit OutputSchema is registered (not derived from Out)
}

func mk[In, Out any](name string, inSchema, outSchema any) goTool {
	return goTool{
		name:        name,
		explicitOut: outSchema != nil,
		reg: func(s *mcp.Server, env *caseEnv, toolName string) {
			mcp.AddTool(s, &mcp.Tool{Name: toolName, InputSchema: inSchema, OutputSchema: outSchema},
				func(ctx context.Context, req *mcp.CallToolRequest, in In) (*mcp.CallToolResult, Out, error) {
					env.mu.Lock()
					defer env.mu.Unlock()
					if env.askFirst && len(req.Params.InputResponses) == 0 {
						env.asked++
						env.seenAsk, _ = json.Marshal(in)
						var zero Out
						return &mcp.CallToolResult{InputRequests: mcp.InputRequestMap{"roots": &mcp.ListRootsParams{}}}, zero, nil
					}
					env.invoked++
					env.seen, _ = json.Marshal(in)
					var out Out
					c := env.cur
					if c != nil && len(c.Out) > 0 {
						// The scripted JSON only serves to build a Go value of type Out;
						// what counts for the oracle is the JSON of the value returned.
						_ = json.Unmarshal(c.Out, &out)
					}
					env.outJSON, _ = json.Marshal(out)
					rv := reflect.ValueOf(&out).Elem()
					env.outNilPtr = rv.Kind() == reflect.Pointer && rv.IsNil()
					if env.outNilPtr {
						env.outZero, _ = json.Marshal(reflect.New(rv.Type().Elem()).Interface())
					}
					env.outNil = rv.Kind() == reflect.Interface && rv.IsNil()
					var res *mcp.CallToolResult
					if c != nil && c.Own {
						res = &mcp.CallToolResult{Content: []mcp.Content{&mcp.TextContent{Text: ownText}}}
					}
					return res, out, nil
				})
		},
		expIn: func(args []byte) ([]byte, error) {
			var in In
			// Members are matched by their exact names (the SDK documents case-sensitive decoding of
			// tool input): anything else is an additional property the Go value does not carry.
			if err := json.Unmarshal(exactKeys(args, reflect.TypeFor[In]()), &in); err != nil {
				return nil, err
			}
			return json.Marshal(in)
		},
	}
}

// exactKeys drops, at every struct level of t, the object members whose names are not exactly the JSON
// name of a field, so that encoding/json's case-insensitive matching cannot fold them onto a field.
func exactKeys(raw []byte, t reflect.Type) []byte {
	for t.Kind() == reflect.Pointer {
		t = t.Elem()
	}
	switch t.Kind() {
	case reflect.Struct:
		var m map[string]json.RawMessage
		if json.Unmarshal(raw, &m) != nil || m == nil {
			return raw
		}
		out := map[string]json.RawMessage{}
		for i := 0; i < t.NumField(); i++ {
			f := t.Field(i)
			name := strings.Split(f.Tag.Get("json"), ",")[0]
			if name == "-" {
				continue
			}
			if name == "" {
				name = f.Name
			}
			if v, ok := m[name]; ok {
				out[name] = exactKeys(v, f.Type)
			}
		}
		b, _ := json.Marshal(out)
		return b
	case reflect.Map:
		var m map[string]json.RawMessage
		if json.Unmarshal(raw, &m) != nil || m == nil {
			return raw
		}
		for k, v := range m {
			m[k] = exactKeys(v, t.Elem())
		}
		b, _ := json.Marshal(m)
		return b
	case reflect.Slice, reflect.Array:
		var a []json.RawMessage
		if json.Unmarshal(raw, &a) != nil || a == nil {
			return raw
		}
		for i, v := range a {
			a[i] = exactKeys(v, t.Elem())
		}
		b, _ := json.Marshal(a)
		return b
	}
	return raw
}

// shadowTool is a typed tool whose input and output types are declared locally under the names of the
// package-level inBasic / outBasic: distinct Go types with the same package path and name.
func shadowTool() goTool {
	type inBasic struct {
		Label string `json:"label"`
		N     int    `json:"n,omitempty"`
	}
	type outBasic struct {
		Echo string `json:"echo"`
	}
	return mk[inBasic, outBasic]("shadow", nil, nil)
}

var goTools = map[string]goTool{}

// goUndocumentedIn: members whose In type the AddTool documentation does not promise to accept
// ("The In type argument must be a map or a struct").
var goUndocumentedIn = map[string]bool{"ptrin": true}
var goToolNames, goToolWeighted []string

func addGo(t goTool) { goTools[t.name] = t }

func init() {
	addGo(mk[inBasic, outBasic]("basic", nil, nil))
	addGo(mk[inPtr, *outBasic]("ptrs", nil, nil))
	addGo(mk[inNested, outNested]("nested", nil, nil))
	addGo(mk[inSlices, []string]("slices", nil, nil))
	addGo(mk[inMaps, map[string]int]("maps", nil, nil))
	addGo(mk[map[string]any, int]("mapany", nil, nil))
	addGo(mk[map[string]int, string]("mapint", nil, nil))
	addGo(mk[inSmall, []inner]("small", nil, nil))
	addGo(mk[inAny, outMapField]("anyfield", nil, nil))
	addGo(mk[inBasic, any]("noout", nil, nil))
	addGo(mk[inDflt, outScore]("dflt", json.RawMessage(inDfltSchema), json.RawMessage(outScoreSchema)))
	addGo(mk[*inBasic, float64]("ptrin", nil, nil))
	addGo(mk[inPtr, *inner]("ptrout2", nil, nil))
	addGo(mk[inBasic, outBasic]("openbasic", json.RawMessage(inBasicOpenSchema), nil))
	addGo(shadowTool())
	addGo(mk[any, outBasic]("anyin", nil, nil))
	for n := range goTools {
		goToolNames = append(goToolNames, n)
	}
	sort.Strings(goToolNames)
	// The pairs whose outputs can violate their schema get more weight.
	goToolWeighted = append(append([]string{}, goToolNames...), "dflt", "dflt", "anyfield", "ptrs", "ptrout2", "openbasic", "openbasic", "shadow", "shadow", "basic", "anyin", "anyin")
}

type pubSchemas struct {
	In, Out any // decoded published schemas; Out nil if none is declared
}

// fetchPublished lists the tools of a connected session and returns the schemas
// exactly as a client sees them (re-marshalled to JSON and decoded).
func fetchPublished(ctx context.Context, cs *mcp.ClientSession) (map[string]pubSchemas, error) {
	lt, err := cs.ListTools(ctx, nil)
	if err != nil {
		return nil, err
	}
	out := map[string]pubSchemas{}
	for _, t := range lt.Tools {
		var p pubSchemas
		if t.InputSchema != nil {
			p.In = norm(t.InputSchema)
		}
		if t.OutputSchema != nil {
			p.Out = norm(t.OutputSchema)
		}
		out[t.Name] = p
	}
	return out, nil
}

var (
	goPubOnce sync.Once
	goPub     map[string]pubSchemas
	goPubErr  error
)

// goPublished returns the schemas the SDK publishes for the fixed Go-type
// family. The generator needs them to construct arguments; they are a constant
// of the tree under test and are fetched once through a real session.
func goPublished() (map[string]pubSchemas, error) {
	goPubOnce.Do(func() {
		ctx := context.Background()
		server := mcp.NewServer(&mcp.Implementation{Name: "c16-schemas", Version: "1"}, nil)
		env := &caseEnv{}
		for _, n := range goToolNames {
			func() {
				defer func() {
					// a refused member with an undocumented In type is simply not in the family (see goUndocumentedIn)
					if r := recover(); r != nil && !goUndocumentedIn[n] {
						goPubErr = fmt.Errorf("AddTool panicked for family member %q: %v", n, r)
					}
				}()
				goTools[n].reg(server, env, n)
			}()
		}
		if goPubErr != nil {
			return
		}
		st, ct := mcp.NewInMemoryTransports()
		ss, err := server.Connect(ctx, st, nil)
		if err != nil {
			goPubErr = err
			return
		}
		client := mcp.NewClient(&mcp.Implementation{Name: "c16", Version: "1"}, nil)
		cs, err := client.Connect(ctx, ct, &mcp.ClientSessionOptions{ProtocolVersion: legacyVersion})
		if err != nil {
			goPubErr = err
			return
		}
		goPub, goPubErr = fetchPublished(ctx, cs)
		cs.Close()
		ss.Wait()
	})
	return goPub, goPubErr
}
