package c16

// The oracle of C16: an independent mini JSON-Schema validator and a model of
// "defaults applied", both working on plain decoded JSON (map[string]any,
// []any, float64, string, bool, nil). Neither uses the SDK nor jsonschema-go.

import (
	"bytes"
	"encoding/json"
	"fmt"
	"math"
	"reflect"
	"sort"
	"unicode/utf8"
)

// decodeJSON decodes exactly one JSON value.
func decodeJSON(b []byte) (any, error) {
	dec := json.NewDecoder(bytes.NewReader(b))
	var v any
	if err := dec.Decode(&v); err != nil {
		return nil, err
	}
	if dec.More() {
		return nil, fmt.Errorf("trailing data after JSON value")
	}
	return v, nil
}

func mustDecode(b []byte) any {
	v, err := decodeJSON(b)
	if err != nil {
		panic(fmt.Sprintf("c16: bad JSON %q: %v", b, err))
	}
	return v
}

// norm brings any Go value into the decoded-JSON normal form.
func norm(v any) any {
	b, err := json.Marshal(v)
	if err != nil {
		panic(fmt.Sprintf("c16: cannot marshal %#v: %v", v, err))
	}
	return mustDecode(b)
}

func mustJSON(v any) json.RawMessage {
	b, err := json.Marshal(v)
	if err != nil {
		panic(fmt.Sprintf("c16: cannot marshal %#v: %v", v, err))
	}
	return b
}

// jsonEq compares two values in decoded-JSON normal form.
func jsonEq(a, b any) bool { return reflect.DeepEqual(a, b) }

func deepCopy(v any) any {
	switch x := v.(type) {
	case map[string]any:
		m := make(map[string]any, len(x))
		for k, e := range x {
			m[k] = deepCopy(e)
		}
		return m
	case []any:
		s := make([]any, len(x))
		for i, e := range x {
			s[i] = deepCopy(e)
		}
		return s
	}
	return v
}

func sortedKeys(m map[string]any) []string {
	ks := make([]string, 0, len(m))
	for k := range m {
		ks = append(ks, k)
	}
	sort.Strings(ks)
	return ks
}

// ---- validator ---------------------------------------------------------------

type vErr struct {
	Depth int    // nesting depth of the offending location (root = 0)
	Msg   string // keyword and location
}

type validator struct{ errs []vErr }

func (v *validator) add(depth int, format string, a ...any) {
	v.errs = append(v.errs, vErr{depth, fmt.Sprintf(format, a...)})
}

// Keywords the oracle understands. Anything else in a published schema makes
// the oracle panic: the check must never silently ignore a constraint.
var validationKW = map[string]bool{
	"type": true, "properties": true, "required": true, "enum": true, "const": true,
	"minimum": true, "maximum": true, "minLength": true, "maxLength": true,
	"items": true, "minItems": true, "maxItems": true, "additionalProperties": true, "not": true,
}
var annotationKW = map[string]bool{"description": true, "title": true, "$schema": true, "default": true}

func jsonTypeOf(v any) string {
	switch x := v.(type) {
	case nil:
		return "null"
	case bool:
		return "boolean"
	case string:
		return "string"
	case []any:
		return "array"
	case map[string]any:
		return "object"
	case float64:
		if x == math.Trunc(x) && !math.IsInf(x, 0) {
			return "integer"
		}
		return "number"
	}
	panic(fmt.Sprintf("c16 oracle: not a decoded JSON value: %T", v))
}

func schemaTypes(s map[string]any) []string {
	switch t := s["type"].(type) {
	case nil:
		return nil
	case string:
		return []string{t}
	case []any:
		var out []string
		for _, e := range t {
			out = append(out, e.(string))
		}
		return out
	}
	panic(fmt.Sprintf("c16 oracle: bad type keyword %#v", s["type"]))
}

func num(v any, kw string) float64 {
	f, ok := v.(float64)
	if !ok {
		panic(fmt.Sprintf("c16 oracle: %s is not a number: %#v", kw, v))
	}
	return f
}

func (v *validator) check(schema any, inst any, depth int, loc string) {
	var s map[string]any
	switch x := schema.(type) {
	case bool:
		if !x {
			v.add(depth, "%s: false schema", loc)
		}
		return
	case map[string]any:
		s = x
	default:
		panic(fmt.Sprintf("c16 oracle: schema is %T", schema))
	}
	for k := range s {
		if !validationKW[k] && !annotationKW[k] {
			panic(fmt.Sprintf("c16 oracle: unsupported keyword %q in published schema", k))
		}
	}
	it := jsonTypeOf(inst)
	if ts := schemaTypes(s); ts != nil {
		ok := false
		for _, t := range ts {
			if t == it || (t == "number" && it == "integer") {
				ok = true
			}
		}
		if !ok {
			v.add(depth, "%s: type %s, want %v", loc, it, ts)
		}
	}
	if e, ok := s["enum"]; ok {
		found := false
		for _, c := range e.([]any) {
			if jsonEq(c, inst) {
				found = true
			}
		}
		if !found {
			v.add(depth, "%s: enum", loc)
		}
	}
	if c, ok := s["const"]; ok && !jsonEq(c, inst) {
		v.add(depth, "%s: const", loc)
	}
	if f, ok := inst.(float64); ok {
		if m, ok := s["minimum"]; ok && f < num(m, "minimum") {
			v.add(depth, "%s: minimum", loc)
		}
		if m, ok := s["maximum"]; ok && f > num(m, "maximum") {
			v.add(depth, "%s: maximum", loc)
		}
	}
	if str, ok := inst.(string); ok {
		n := float64(utf8.RuneCountInString(str))
		if m, ok := s["minLength"]; ok && n < num(m, "minLength") {
			v.add(depth, "%s: minLength", loc)
		}
		if m, ok := s["maxLength"]; ok && n > num(m, "maxLength") {
			v.add(depth, "%s: maxLength", loc)
		}
	}
	if arr, ok := inst.([]any); ok {
		if items, ok := s["items"]; ok {
			if _, tuple := items.([]any); tuple {
				panic("c16 oracle: tuple-form items unsupported")
			}
			for i, e := range arr {
				v.check(items, e, depth+1, fmt.Sprintf("%s/%d", loc, i))
			}
		}
		if m, ok := s["minItems"]; ok && float64(len(arr)) < num(m, "minItems") {
			v.add(depth, "%s: minItems", loc)
		}
		if m, ok := s["maxItems"]; ok && float64(len(arr)) > num(m, "maxItems") {
			v.add(depth, "%s: maxItems", loc)
		}
	}
	if obj, ok := inst.(map[string]any); ok {
		props, _ := s["properties"].(map[string]any)
		for _, k := range sortedKeys(props) {
			if val, present := obj[k]; present {
				v.check(props[k], val, depth+1, loc+"/"+k)
			}
		}
		if req, ok := s["required"]; ok {
			for _, r := range req.([]any) {
				if _, present := obj[r.(string)]; !present {
					v.add(depth+1, "%s/%s: required but missing", loc, r)
				}
			}
		}
		if ap, ok := s["additionalProperties"]; ok {
			for _, k := range sortedKeys(obj) {
				if _, declared := props[k]; !declared {
					v.check(ap, obj[k], depth+1, loc+"/"+k)
				}
			}
		}
	}
	if n, ok := s["not"]; ok {
		var sub validator
		sub.check(n, inst, depth, loc)
		if len(sub.errs) == 0 {
			v.add(depth, "%s: not", loc)
		}
	}
}

// validate returns all violations of inst under schema.
func validate(schema any, inst any) []vErr {
	var v validator
	v.check(schema, inst, 0, "")
	return v.errs
}

func minDepth(errs []vErr) int {
	d := math.MaxInt
	for _, e := range errs {
		if e.Depth < d {
			d = e.Depth
		}
	}
	return d
}

// ---- defaults model ------------------------------------------------------------

type defInfo struct {
	Applied   int    // number of defaults inserted
	Ambiguous string // non-empty: the case lies outside the region where "defaults applied" is unambiguous
}

// hasDefaultsInProps: s or a descendant reachable through "properties" has a default.
func hasDefaultsInProps(schema any) bool {
	s, ok := schema.(map[string]any)
	if !ok {
		return false
	}
	if _, ok := s["default"]; ok {
		return true
	}
	props, _ := s["properties"].(map[string]any)
	for _, sub := range props {
		if hasDefaultsInProps(sub) {
			return true
		}
	}
	return false
}

// hasDefaultAnywhere: any sub-schema at all carries "default".
func hasDefaultAnywhere(schema any) bool {
	s, ok := schema.(map[string]any)
	if !ok {
		return false
	}
	if _, ok := s["default"]; ok {
		return true
	}
	for k, sub := range s {
		switch k {
		case "properties":
			for _, p := range sub.(map[string]any) {
				if hasDefaultAnywhere(p) {
					return true
				}
			}
		case "items", "additionalProperties", "not":
			if hasDefaultAnywhere(sub) {
				return true
			}
		}
	}
	return false
}

// outsideFamily statically reports schema shapes for which the meaning of
// "defaults applied" is not fixed by the documentation: defaults below items,
// additionalProperties or not, and a default on the root itself.
func outsideFamily(schema any) string {
	s, ok := schema.(map[string]any)
	if !ok {
		return ""
	}
	if _, ok := s["default"]; ok {
		return "default on the root schema"
	}
	if k := unknownKeyword(schema); k != "" {
		// A published schema may come to use keywords this oracle does not model ($defs/$ref, format, ...): that
		// is not a violation of C16, the case is outside the family the oracle can decide.
		return "keyword " + k + " not modelled by the oracle"
	}
	return outsideFamilyRec(s)
}

// unknownKeyword returns a keyword used anywhere in schema that the validator does not know ("" if none),
// or a description of a construct it cannot read (tuple-form items, odd type keyword).
func unknownKeyword(schema any) string {
	s, ok := schema.(map[string]any)
	if !ok {
		if _, isBool := schema.(bool); isBool {
			return ""
		}
		return fmt.Sprintf("schema of JSON type %T", schema)
	}
	for _, k := range sortedKeys(s) {
		if !validationKW[k] && !annotationKW[k] {
			return k
		}
	}
	switch t := s["type"].(type) {
	case nil, string:
	case []any:
		for _, e := range t {
			if _, ok := e.(string); !ok {
				return "type (odd form)"
			}
		}
	default:
		return "type (odd form)"
	}
	if props, ok := s["properties"]; ok {
		pm, ok := props.(map[string]any)
		if !ok {
			return "properties (odd form)"
		}
		for _, k := range sortedKeys(pm) {
			if r := unknownKeyword(pm[k]); r != "" {
				return r
			}
		}
	}
	for _, k := range []string{"items", "additionalProperties", "not"} {
		if sub, ok := s[k]; ok {
			if _, tuple := sub.([]any); tuple {
				return k + " (tuple form)"
			}
			if r := unknownKeyword(sub); r != "" {
				return r
			}
		}
	}
	return ""
}

// coerceNulls returns v with every null that sits where the schema wants an object or an array (and does not
// admit null) replaced by {} or []; changed reports whether anything was replaced below the root.
func coerceNulls(schema any, v any, root bool, changed *bool) any {
	s, ok := schema.(map[string]any)
	if !ok {
		return v
	}
	if v == nil && !root {
		ts := schemaTypes(s)
		if len(ts) == 1 && ts[0] == "object" {
			*changed = true
			return map[string]any{}
		}
		if len(ts) == 1 && ts[0] == "array" {
			*changed = true
			return []any{}
		}
		return v
	}
	switch x := v.(type) {
	case map[string]any:
		props, _ := s["properties"].(map[string]any)
		for _, k := range sortedKeys(x) {
			if sub, ok := props[k]; ok {
				x[k] = coerceNulls(sub, x[k], false, changed)
			} else if ap, ok := s["additionalProperties"].(map[string]any); ok {
				x[k] = coerceNulls(ap, x[k], false, changed)
			}
		}
	case []any:
		if it, ok := s["items"]; ok {
			for i := range x {
				x[i] = coerceNulls(it, x[i], false, changed)
			}
		}
	}
	return v
}

func outsideFamilyRec(s map[string]any) string {
	for _, k := range []string{"items", "additionalProperties", "not"} {
		if sub, ok := s[k]; ok {
			if hasDefaultAnywhere(sub) {
				return "default below " + k
			}
		}
	}
	props, _ := s["properties"].(map[string]any)
	for _, k := range sortedKeys(props) {
		if sub, ok := props[k].(map[string]any); ok {
			if r := outsideFamilyRec(sub); r != "" {
				return r
			}
		}
	}
	return ""
}

func isRequired(s map[string]any, name string) bool {
	req, _ := s["required"].([]any)
	for _, r := range req {
		if r == name {
			return true
		}
	}
	return false
}

// applyDefaultsModel inserts, into objects that are present, the default of every
// missing non-required property, recursively through present object properties.
// inst is modified in place (callers pass a copy).
func applyDefaultsModel(schema any, inst any, di *defInfo) any {
	s, ok := schema.(map[string]any)
	if !ok {
		return inst
	}
	obj, ok := inst.(map[string]any)
	if !ok {
		return inst
	}
	props, _ := s["properties"].(map[string]any)
	for _, name := range sortedKeys(props) {
		sub := props[name]
		subm, _ := sub.(map[string]any)
		val, present := obj[name]
		_, ownDefault := subm["default"]
		if isRequired(s, name) {
			// jsonschema-go documents that defaults of required properties are ignored
			// and (undocumented) does not descend into them; other readings exist.
			if hasDefaultsInProps(sub) {
				if _, isObj := val.(map[string]any); (present && isObj) || (!present && ownDefault) {
					di.Ambiguous = "default at or below a required property"
				}
			}
			continue
		}
		if !present {
			if ownDefault {
				d := deepCopy(subm["default"])
				if _, isObj := d.(map[string]any); isObj && hasDefaultsInProps(map[string]any{"properties": subm["properties"]}) {
					di.Ambiguous = "object default with nested defaults"
				}
				obj[name] = d
				di.Applied++
			} else if hasDefaultsInProps(sub) {
				di.Ambiguous = "absent optional object with defaulted descendants"
			}
			continue
		}
		obj[name] = applyDefaultsModel(sub, val, di)
	}
	return obj
}
