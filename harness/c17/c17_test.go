// Package c17 decides property C17 (paginated listing returns every registered
// feature exactly once, stably ordered; malformed cursors are rejected with
// invalid-params; iterators agree with manual paging).
//
// A generated script mutates the four feature sets of a real mcp.Server
// (add / replace / remove) while several traversals are advanced page by page
// through a real ClientSession over mcp.NewInMemoryTransports, inside a
// synctest bubble. Issued cursors are re-used later (forks), removed from under
// the traversal (stale) and corrupted in several ways (attacks). The oracle is
// a reference model of the registered ids with registration intervals in
// logical time; it never consults the SDK.
package c17

import (
	"bytes"
	"context"
	"encoding/base64"
	"encoding/gob"
	"encoding/json"
	"errors"
	"fmt"
	"iter"
	"runtime/debug"
	"slices"
	"sort"
	"strings"
	"sync"
	"sync/atomic"
	"testing"
	"testing/synctest"
	"time"

	"github.com/modelcontextprotocol/go-sdk/jsonrpc"
	"github.com/modelcontextprotocol/go-sdk/mcp"
	"github.com/modelcontextprotocol/go-sdk/verif/vt"
	"pgregory.net/rapid"
)

func TestMain(m *testing.M) {
	// Every request allocates generously inside the SDK's JSON layer; a lazier
	// collector halves the wall time and has no bearing on any oracle.
	debug.SetGCPercent(400)
	vt.Main(m)
}

// ---- feature kinds and the id alphabet --------------------------------------

const (
	kTool = iota
	kPrompt
	kRes
	kTmpl
	nKinds
)

var kindName = [nKinds]string{"tools", "prompts", "resources", "templates"}

// alphabet is deliberately small (collisions, re-adds) and mixes cases and
// punctuation so that "ascending" is byte order, not something friendlier.
var alphabet = []string{"B", "Z9", "a", "a-b", "a.b", "a0", "a_", "aa", "ab", "b", "c", "z"}

// idOf maps an alphabet index to the unique id of a feature of the given kind:
// tool / prompt name, absolute resource URI, valid URI template.
func idOf(kind, n int) string {
	name := alphabet[n%len(alphabet)]
	switch kind {
	case kRes:
		if n%2 == 0 {
			return "file:///" + name
		}
		return "http://h/" + name
	case kTmpl:
		if n%2 == 0 {
			return "file:///t/{x}" + name
		}
		return "http://h/{y}/" + name
	}
	return name
}

// ---- script -----------------------------------------------------------------

type Op struct {
	Op   string `json:"op"` // add | replace | rm | rmlast | start | step | fork | attack
	Kind int    `json:"kind"`
	// add: alphabet index. replace: index modulo the registered ids. rm: alphabet
	// indices (Live: modulo the registered ids instead).
	Names []int `json:"names,omitempty"`
	Live  bool  `json:"live,omitempty"`
	// step / rmlast: traversal index modulo the active traversals. fork / attack:
	// index modulo the pool of issued cursors.
	N int `json:"n,omitempty"`
	// start: pass nil params instead of non-nil params with an empty cursor.
	NilParams bool `json:"nil_params,omitempty"`
	// attack
	Class string `json:"class,omitempty"`
	Data  []byte `json:"data,omitempty"`
	Pos   int    `json:"pos,omitempty"`
	Bit   int    `json:"bit,omitempty"`
	Text  string `json:"text,omitempty"`
}

type Script struct {
	PageSize int           `json:"page_size"`
	Version  string        `json:"version"` // legacy protocol version of the main session
	Init     [nKinds][]int `json:"init"`    // registered before the client connects
	Ops      []Op          `json:"ops"`
	IterFrom int           `json:"iter_from"` // final check: iterator started from the IterFrom-th issued cursor of the final manual traversal
	Modern   int           `json:"modern"`    // feature kind whose final check is repeated on a 2026-07-28 session
	// Hidden: alphabet indices a server-side middleware removes from every list page AFTER the page was cut
	// (as an access filter would), during one more final check: pages may then be empty while still carrying
	// a next cursor, which manual paging follows and the iterators must follow too.
	Hidden []int `json:"hidden,omitempty"`
	// Late: add/rm operations applied at the very end, while a 2026-07-28 session that has list-changed
	// handlers and has already listed everything (results carrying a 60 s TTL) is connected: after the
	// change notifications that session must list the new state, on every page.
	Late []Op `json:"late,omitempty"`
	// LateAt: 0 applies the Late operations after that session's first listing; n > 0 applies them inside the
	// session's sending middleware, right after the n-th list response of the first listing came back and
	// before it is handed to the lister, and waits there until the change notifications have been handled:
	// the page in hand is then older than the last invalidation the client saw.
	LateAt int `json:"late_at,omitempty"`
	// RelistInHandler: that session's list-changed handlers list the kind they were told about right away,
	// inside the handler (the natural reaction to the notification): what they get is the registered set.
	RelistInHandler bool `json:"relist_in_handler,omitempty"`
	// NoListChanged: the server's capabilities are given explicitly, with listChanged disabled for every kind
	// (nobody is told about changes; what is registered is listed all the same).
	NoListChanged bool `json:"no_list_changed,omitempty"`
}

var legacyVersions = []string{"2025-06-18", "2025-06-18", "2025-11-25", "2025-03-26", "2024-11-05"}

var attackClasses = []string{"trunc", "flip_text", "flip_gob", "bytes", "b64garbage", "hugegob", "gobsplice", "forged", "crosskind", "otherb64", "gobtype"}

// hugeUints are gob unsigned-integer encodings of very large values (negated
// byte count, then big-endian bytes), used as message / string / slice lengths.
var hugeUints = [][]byte{
	{0xF8, 0x7F, 0xFF, 0xFF, 0xFF, 0xFF, 0xFF, 0xFF, 0xFF},
	{0xF8, 0xFF, 0xFF, 0xFF, 0xFF, 0xFF, 0xFF, 0xFF, 0xFF},
	{0xFC, 0x3F, 0xFF, 0xFF, 0xFF},
	{0xFC, 0x40, 0x00, 0x00, 0x00},
	{0xFC, 0x7F, 0xFF, 0xFF, 0xFF},
	{0xFC, 0xFF, 0xFF, 0xFF, 0xFF},
	{0xFD, 0xFF, 0xFF, 0xFF},
	{0xFB, 0x01, 0x00, 0x00, 0x00, 0x00},
	{0xFE, 0xFF, 0xFF},
	{0xF7, 0x01, 0x00, 0x00, 0x00, 0x00, 0x00, 0x00, 0x00, 0x00},
}

func gen(rt *rapid.T) Script {
	var s Script
	s.PageSize = rapid.SampledFrom([]int{1, 1, 2, 2, 2, 3, 3, 4, 5, 6, 7}).Draw(rt, "page_size")
	s.Version = rapid.SampledFrom(legacyVersions).Draw(rt, "version")
	focus := rapid.IntRange(0, nKinds-1).Draw(rt, "focus")
	kindGen := rapid.SampledFrom([]int{focus, focus, focus, focus, focus, focus, focus, 0, 1, 2, 3})
	nameGen := rapid.IntRange(0, len(alphabet)-1)
	for k := 0; k < nKinds; k++ {
		if k != focus {
			s.Init[k] = rapid.SliceOfN(nameGen, 0, 4).Draw(rt, "init")
			continue
		}
		// The focus kind starts with about three quarters of the alphabet, in a drawn order.
		for _, n := range rapid.Permutation([]int{0, 1, 2, 3, 4, 5, 6, 7, 8, 9, 10, 11}).Draw(rt, "order") {
			if rapid.IntRange(0, 3).Draw(rt, "in") > 0 {
				s.Init[k] = append(s.Init[k], n)
			}
		}
	}
	opGen := rapid.SampledFrom([]string{
		"add", "add", "add", "replace", "rm", "rm", "rm", "rmlast",
		"start", "start", "step", "step", "step", "step", "step", "fork", "attack", "attack",
	})
	s.Ops = rapid.SliceOfN(rapid.Custom(func(rt *rapid.T) Op {
		op := Op{Op: opGen.Draw(rt, "op"), Kind: kindGen.Draw(rt, "kind")}
		switch op.Op {
		case "add":
			op.Names = []int{nameGen.Draw(rt, "name")}
		case "replace":
			op.Names = []int{rapid.IntRange(0, 63).Draw(rt, "idx")}
		case "rm":
			op.Live = rapid.Bool().Draw(rt, "live")
			op.Names = rapid.SliceOfN(rapid.IntRange(0, 63), 1, 3).Draw(rt, "names")
		case "rmlast", "step", "fork":
			op.N = rapid.IntRange(0, 63).Draw(rt, "n")
		case "start":
			op.NilParams = rapid.Bool().Draw(rt, "nil_params")
		case "attack":
			op.Class = rapid.SampledFrom(attackClasses).Draw(rt, "class")
			op.N = rapid.IntRange(0, 63).Draw(rt, "n")
			switch op.Class {
			case "trunc":
				op.Pos = rapid.IntRange(0, 255).Draw(rt, "pos")
			case "flip_text", "flip_gob":
				op.Pos = rapid.IntRange(0, 255).Draw(rt, "pos")
				op.Bit = rapid.IntRange(0, 7).Draw(rt, "bit")
			case "bytes", "b64garbage":
				op.Data = rapid.SliceOfN(rapid.Byte(), 1, 24).Draw(rt, "data")
			case "hugegob":
				op.Pos = rapid.IntRange(0, len(hugeUints)-1).Draw(rt, "which")
				op.Data = rapid.SliceOfN(rapid.Byte(), 0, 8).Draw(rt, "tail")
			case "gobsplice":
				op.Pos = rapid.IntRange(0, 255).Draw(rt, "pos")
				op.Bit = rapid.IntRange(0, len(hugeUints)-1).Draw(rt, "which")
			case "forged":
				op.Text = rapid.OneOf(
					rapid.SampledFrom([]string{"", "a", "a ", "a\x00", "zz", "~", "A", "file:///", "file:///t/{x}", "http://h/zzz", "é", strings.Repeat("a", 300)}),
					rapid.Map(nameGen, func(i int) string { return idOf(op.Kind, i) }),
					rapid.StringN(0, 6, -1),
				).Draw(rt, "uid")
			case "otherb64":
				op.Pos = rapid.IntRange(0, 2).Draw(rt, "enc")
			case "gobtype":
				op.Pos = rapid.IntRange(0, 4).Draw(rt, "shape")
				op.Text = rapid.SampledFrom([]string{"", "a", "b", "zz"}).Draw(rt, "uid")
			}
		}
		return op
	}), rapid.IntRange(0, 24).Draw(rt, "min_ops"), 40).Draw(rt, "ops")
	s.IterFrom = rapid.IntRange(0, 15).Draw(rt, "iter_from")
	for i, n := 0, rapid.SampledFrom([]int{0, 1, 2, 3}).Draw(rt, "nlate"); i < n; i++ {
		op := Op{Op: rapid.SampledFrom([]string{"add", "add", "rm"}).Draw(rt, "late_op"), Kind: rapid.IntRange(0, nKinds-1).Draw(rt, "late_kind")}
		op.Names = []int{rapid.IntRange(0, len(alphabet)-1).Draw(rt, "late_name")}
		op.Live = rapid.Bool().Draw(rt, "late_live")
		s.Late = append(s.Late, op)
	}
	if len(s.Late) > 0 {
		s.LateAt = rapid.SampledFrom([]int{0, 0, 1, 1, 2, 3, 5}).Draw(rt, "late_at")
		s.RelistInHandler = rapid.Bool().Draw(rt, "relist_in_handler")
	} else {
		// (only without the late, cache-beating part: a caching session of such a server is told nothing)
		s.NoListChanged = rapid.IntRange(0, 2).Draw(rt, "no_list_changed") == 0
	}
	if density := rapid.SampledFrom([]int{0, 3, 6, 9}).Draw(rt, "hide_density"); density > 0 {
		for n := range alphabet {
			if rapid.IntRange(0, 9).Draw(rt, "hide") < density {
				s.Hidden = append(s.Hidden, n)
			}
		}
	}
	s.Modern = kindGen.Draw(rt, "modern")
	return s
}

// ---- reference model --------------------------------------------------------

type interval struct{ from, to int } // to == 0: still registered

type model struct {
	now  int
	rev  int
	cur  [nKinds]map[string]string // id -> description of the registered revision
	hist [nKinds]map[string][]interval
	muts [nKinds][]int // logical times of effective mutations
}

func newModel() *model {
	m := &model{}
	for k := range m.cur {
		m.cur[k] = map[string]string{}
		m.hist[k] = map[string][]interval{}
	}
	return m
}

// add registers or replaces id and returns the description of the new revision.
func (m *model) add(kind int, id string) string {
	m.rev++
	desc := fmt.Sprintf("r%d", m.rev)
	if _, ok := m.cur[kind][id]; !ok {
		m.hist[kind][id] = append(m.hist[kind][id], interval{from: m.now})
	}
	m.cur[kind][id] = desc
	m.muts[kind] = append(m.muts[kind], m.now)
	return desc
}

func (m *model) remove(kind int, id string) bool {
	if _, ok := m.cur[kind][id]; !ok {
		return false
	}
	delete(m.cur[kind], id)
	h := m.hist[kind][id]
	h[len(h)-1].to = m.now
	m.muts[kind] = append(m.muts[kind], m.now)
	return true
}

func (m *model) sorted(kind int) []string {
	ids := make([]string, 0, len(m.cur[kind]))
	for id := range m.cur[kind] {
		ids = append(ids, id)
	}
	sort.Strings(ids)
	return ids
}

// throughout returns the ids registered without interruption from before t1
// until after t2 (a replacement keeps the id registered).
func (m *model) throughout(kind, t1, t2 int) []string {
	var ids []string
	for id, h := range m.hist[kind] {
		for _, iv := range h {
			if iv.from < t1 && (iv.to == 0 || iv.to > t2) {
				ids = append(ids, id)
			}
		}
	}
	sort.Strings(ids)
	return ids
}

func (m *model) mutationsBetween(kind, t1, t2 int) int {
	n := 0
	for _, t := range m.muts[kind] {
		if t > t1 && t < t2 {
			n++
		}
	}
	return n
}

// ---- reference cursor classification ------------------------------------------

// pageToken mirrors the documented cursor format (gob of a struct with one
// string field LastUID, base64url). It is the harness' own type.
type pageToken struct{ LastUID string }

func refEncode(uid string) []byte {
	var buf bytes.Buffer
	if err := gob.NewEncoder(&buf).Encode(pageToken{LastUID: uid}); err != nil {
		panic(err)
	}
	return buf.Bytes()
}

// asSeenByServer is the cursor string after its trip through JSON (invalid
// UTF-8 is replaced by U+FFFD by encoding/json).
func asSeenByServer(c string) string {
	b, err := json.Marshal(c)
	if err != nil {
		return c
	}
	var out string
	if json.Unmarshal(b, &out) != nil {
		return c
	}
	return out
}

// classify says whether cursor c is certainly malformed (not base64url, or not
// a gob-encoded token); otherwise it returns the uid a token decodes to.
func classify(c string) (malformed bool, uid string) {
	c = asSeenByServer(c)
	raw, err := base64.URLEncoding.DecodeString(c)
	if err != nil {
		// Another base64 spelling (unpadded, standard alphabet, surplus padding) of bytes that are a token is
		// not certainly malformed: a server may accept it or refuse it.
		t := strings.TrimRight(c, "=")
		if raw, err = base64.RawURLEncoding.DecodeString(t); err != nil {
			if raw, err = base64.RawStdEncoding.DecodeString(t); err != nil {
				return true, ""
			}
		}
	}
	var tok pageToken
	if err := gob.NewDecoder(bytes.NewReader(completeMessages(raw))).Decode(&tok); err != nil {
		return true, ""
	}
	return false, tok.LastUID
}

// completeMessages returns the longest prefix of a gob stream that consists of
// whole messages (unsigned length, then that many bytes). A decoder that runs
// into a message whose claimed length exceeds the bytes present fails either
// way (unexpected EOF); cutting the stream there gives the same verdict
// without the decoder first allocating a buffer for the claimed length.
func completeMessages(raw []byte) []byte {
	off := 0
	for off < len(raw) {
		p := off
		var n uint64
		if b := raw[p]; b <= 0x7f {
			n = uint64(b)
			p++
		} else {
			w := -int(int8(b))
			if w > 8 || p+1+w > len(raw) {
				break
			}
			for _, c := range raw[p+1 : p+1+w] {
				n = n<<8 | uint64(c)
			}
			p += 1 + w
		}
		if n > uint64(len(raw)-p) {
			break
		}
		off = p + int(n)
	}
	return raw[:off]
}

// ---- system under test ------------------------------------------------------

type item struct{ id, desc string }

var okSchema = json.RawMessage(`{"type":"object"}`)

func addFeature(s *mcp.Server, kind int, id, desc string) {
	switch kind {
	case kTool:
		s.AddTool(&mcp.Tool{Name: id, Description: desc, InputSchema: okSchema}, func(context.Context, *mcp.CallToolRequest) (*mcp.CallToolResult, error) {
			return &mcp.CallToolResult{}, nil
		})
	case kPrompt:
		s.AddPrompt(&mcp.Prompt{Name: id, Description: desc}, func(context.Context, *mcp.GetPromptRequest) (*mcp.GetPromptResult, error) {
			return &mcp.GetPromptResult{}, nil
		})
	case kRes:
		s.AddResource(&mcp.Resource{URI: id, Name: "n", Description: desc}, func(context.Context, *mcp.ReadResourceRequest) (*mcp.ReadResourceResult, error) {
			return &mcp.ReadResourceResult{}, nil
		})
	case kTmpl:
		s.AddResourceTemplate(&mcp.ResourceTemplate{URITemplate: id, Name: "n", Description: desc}, func(context.Context, *mcp.ReadResourceRequest) (*mcp.ReadResourceResult, error) {
			return &mcp.ReadResourceResult{}, nil
		})
	}
}

func removeFeatures(s *mcp.Server, kind int, ids ...string) {
	switch kind {
	case kTool:
		s.RemoveTools(ids...)
	case kPrompt:
		s.RemovePrompts(ids...)
	case kRes:
		s.RemoveResources(ids...)
	case kTmpl:
		s.RemoveResourceTemplates(ids...)
	}
}

const callTimeout = 30 * time.Second // virtual inside the bubble

// fetch gets one page through the raw List call. cursor == nil: nil params.
func fetch(cs *mcp.ClientSession, kind int, cursor *string) (items []item, next string, err error) {
	ctx, cancel := context.WithTimeout(context.Background(), callTimeout)
	defer cancel()
	switch kind {
	case kTool:
		var p *mcp.ListToolsParams
		if cursor != nil {
			p = &mcp.ListToolsParams{Cursor: *cursor}
		}
		r, err := cs.ListTools(ctx, p)
		if err != nil {
			return nil, "", err
		}
		for _, t := range r.Tools {
			items = append(items, item{t.Name, t.Description})
		}
		return items, r.NextCursor, nil
	case kPrompt:
		var p *mcp.ListPromptsParams
		if cursor != nil {
			p = &mcp.ListPromptsParams{Cursor: *cursor}
		}
		r, err := cs.ListPrompts(ctx, p)
		if err != nil {
			return nil, "", err
		}
		for _, t := range r.Prompts {
			items = append(items, item{t.Name, t.Description})
		}
		return items, r.NextCursor, nil
	case kRes:
		var p *mcp.ListResourcesParams
		if cursor != nil {
			p = &mcp.ListResourcesParams{Cursor: *cursor}
		}
		r, err := cs.ListResources(ctx, p)
		if err != nil {
			return nil, "", err
		}
		for _, t := range r.Resources {
			items = append(items, item{t.URI, t.Description})
		}
		return items, r.NextCursor, nil
	default:
		var p *mcp.ListResourceTemplatesParams
		if cursor != nil {
			p = &mcp.ListResourceTemplatesParams{Cursor: *cursor}
		}
		r, err := cs.ListResourceTemplates(ctx, p)
		if err != nil {
			return nil, "", err
		}
		for _, t := range r.ResourceTemplates {
			items = append(items, item{t.URITemplate, t.Description})
		}
		return items, r.NextCursor, nil
	}
}

func collect[T any](seq iter.Seq2[*T, error], id func(*T) string, limit int) (ids []string, err error) {
	for v, e := range seq {
		if e != nil {
			return ids, e
		}
		if v == nil {
			return ids, errors.New("iterator yielded a nil item without an error")
		}
		ids = append(ids, id(v))
		if len(ids) > limit {
			return ids, errOverrun
		}
	}
	return ids, nil
}

var errOverrun = errors.New("iterator overrun")

// iterate collects the ids yielded by the client-side iterator of the kind.
// cursor == nil: nil params.
func iterate(cs *mcp.ClientSession, kind int, cursor *string, limit int) ([]string, error) {
	ctx, cancel := context.WithTimeout(context.Background(), 10*callTimeout)
	defer cancel()
	switch kind {
	case kTool:
		var p *mcp.ListToolsParams
		if cursor != nil {
			p = &mcp.ListToolsParams{Cursor: *cursor}
		}
		return collect(cs.Tools(ctx, p), func(t *mcp.Tool) string { return t.Name }, limit)
	case kPrompt:
		var p *mcp.ListPromptsParams
		if cursor != nil {
			p = &mcp.ListPromptsParams{Cursor: *cursor}
		}
		return collect(cs.Prompts(ctx, p), func(t *mcp.Prompt) string { return t.Name }, limit)
	case kRes:
		var p *mcp.ListResourcesParams
		if cursor != nil {
			p = &mcp.ListResourcesParams{Cursor: *cursor}
		}
		return collect(cs.Resources(ctx, p), func(t *mcp.Resource) string { return t.URI }, limit)
	default:
		var p *mcp.ListResourceTemplatesParams
		if cursor != nil {
			p = &mcp.ListResourceTemplatesParams{Cursor: *cursor}
		}
		return collect(cs.ResourceTemplates(ctx, p), func(t *mcp.ResourceTemplate) string { return t.URITemplate }, limit)
	}
}

// ---- interpreter + oracle ---------------------------------------------------

type page struct {
	t    int
	in   *string // cursor sent (nil: nil params)
	ids  []string
	next string
}

type trav struct {
	kind   int
	pages  []page
	done   bool
	bad    bool
	forked bool
	stale  bool // some page was fetched with a cursor whose item had been removed
}

func (tr *trav) active() bool { return !tr.done && !tr.bad }
func (tr *trav) lastID() (string, bool) {
	for i := len(tr.pages) - 1; i >= 0; i-- {
		if n := len(tr.pages[i].ids); n > 0 {
			return tr.pages[i].ids[n-1], true
		}
	}
	return "", false
}

type issued struct {
	kind   int
	cursor string
	trav   int // index into env.travs
	page   int // the cursor is pages[page].next
}

type env struct {
	res    *vt.Result
	s      Script
	m      *model
	server *mcp.Server
	cs     *mcp.ClientSession
	travs  []*trav
	pool   []issued
	desc   strings.Builder
	nt     bool
	hideOn atomic.Bool
	ttlOn  atomic.Bool
	// order[k][{a,b}]: some listing had a before b ("one stable order": which one is the SDK's business).
	order [nKinds]map[[2]string]bool
}

// noteOrder records the relative order of the ids of one listing (earlier: ids of earlier pages of the
// same traversal that are still the same registration; page: the new ids) and complains if an earlier
// listing had two of them the other way round.
func (e *env) noteOrder(what string, k int, earlier, page []string) bool {
	if e.order[k] == nil {
		e.order[k] = map[[2]string]bool{}
	}
	pair := func(a, b string) bool {
		if a == b {
			return true // duplicates are reported by their own checks
		}
		if e.order[k][[2]string{b, a}] {
			e.res.Failf("%s: lists %q before %q, an earlier listing had them the other way round: not one stable order", what, a, b)
			return false
		}
		e.order[k][[2]string{a, b}] = true
		return true
	}
	for _, a := range earlier {
		for _, b := range page {
			if !pair(a, b) {
				return false
			}
		}
	}
	for i := range page {
		for j := i + 1; j < len(page); j++ {
			if !pair(page[i], page[j]) {
				return false
			}
		}
	}
	return true
}

// forgetOrder: a removed id that is registered again later is a new item and may take a new place.
func (e *env) forgetOrder(k int, id string) {
	for p := range e.order[k] {
		if p[0] == id || p[1] == id {
			delete(e.order[k], p)
		}
	}
}

// sameRegistration: id, seen in a listing at logical time t, has stayed registered since.
func (m *model) sameRegistration(kind int, id string, t int) bool {
	h := m.hist[kind][id]
	return len(h) > 0 && h[len(h)-1].to == 0 && h[len(h)-1].from <= t
}

func sortedCopy(ids []string) []string {
	out := slices.Clone(ids)
	sort.Strings(out)
	return out
}

var theT *testing.T

func run(s Script) (res vt.Result) {
	if p := vt.Bubble(theT, func() { runInBubble(s, &res) }); p != "" {
		// Goroutines left after both ends were closed are C05's business.
		res.Class("teardown_leftover")
	}
	return res
}

func errCode(err error) (int64, bool) {
	var we *jsonrpc.Error
	if errors.As(err, &we) {
		return we.Code, true
	}
	return 0, false
}

func connect(server *mcp.Server, version string) (*mcp.ClientSession, *mcp.ServerSession, error) {
	ct, st := mcp.NewInMemoryTransports()
	ctx, cancel := context.WithTimeout(context.Background(), callTimeout)
	defer cancel()
	ss, err := server.Connect(ctx, st, nil)
	if err != nil {
		return nil, nil, fmt.Errorf("server.Connect: %w", err)
	}
	client := mcp.NewClient(&mcp.Implementation{Name: "cli", Version: "1"}, nil)
	cs, err := client.Connect(ctx, ct, &mcp.ClientSessionOptions{ProtocolVersion: version}) // "": the SDK's latest
	if err != nil {
		ss.Close()
		return nil, nil, fmt.Errorf("client.Connect(%s): %w", version, err)
	}
	return cs, ss, nil
}

func runInBubble(s Script, res *vt.Result) {
	e := &env{res: res, s: s, m: newModel()}
	if s.PageSize < 1 {
		s.PageSize = 1
	}
	e.s = s
	sopts := &mcp.ServerOptions{PageSize: s.PageSize, HasTools: true, HasPrompts: true, HasResources: true}
	if s.NoListChanged {
		sopts.Capabilities = &mcp.ServerCapabilities{
			Tools: &mcp.ToolCapabilities{ListChanged: false}, Prompts: &mcp.PromptCapabilities{ListChanged: false},
			Resources: &mcp.ResourceCapabilities{ListChanged: false},
		}
		e.res.Class("list_changed_disabled_in_the_capabilities")
	}
	e.server = mcp.NewServer(&mcp.Implementation{Name: "srv", Version: "1"}, sopts)
	for k := 0; k < nKinds; k++ {
		for _, n := range s.Init[k] {
			id := idOf(k, n)
			addFeature(e.server, k, id, e.m.add(k, id))
		}
	}
	e.server.AddReceivingMiddleware(e.hidingMiddleware)
	version := s.Version
	if version == "" {
		version = "2025-06-18"
	}
	cs, ss, err := connect(e.server, version)
	if err != nil {
		// An SDK that no longer speaks this legacy version: the property is not about versions, use its default.
		res.Class("legacy_version_refused")
		version = ""
		cs, ss, err = connect(e.server, version)
	}
	if err != nil {
		res.Failf("harness: %v", err)
		return
	}
	e.cs = cs
	defer func() {
		cs.Close()
		ss.Close()
	}()
	fmt.Fprintf(&e.desc, "ps%d", s.PageSize)

	for _, op := range s.Ops {
		e.m.now++
		e.exec(op)
		if len(res.Violations) > 0 {
			return
		}
	}
	// Quiescent from here on: finish every traversal.
	for i := range e.travs {
		for e.travs[i].active() {
			e.m.now++
			e.step(i)
		}
	}
	if len(res.Violations) > 0 {
		return
	}
	e.finalChecks(cs, version, []int{0, 1, 2, 3})
	if len(res.Violations) == 0 && len(s.Hidden) > 0 {
		e.filteredChecks(cs, version, []int{0, 1, 2, 3})
	}
	if len(res.Violations) == 0 {
		// The same on a session speaking the current protocol (client-side list cache path).
		cs2, ss2, err := connect(e.server, "") // whatever the SDK's current protocol is
		if err != nil {
			res.Failf("harness: %v", err)
		} else {
			e.finalChecks(cs2, cs2.InitializeResult().ProtocolVersion, []int{e.kind(s.Modern)})
			if len(res.Violations) == 0 && len(s.Hidden) > 0 {
				e.filteredChecks(cs2, cs2.InitializeResult().ProtocolVersion, []int{e.kind(s.Modern)})
			}
			cs2.Close()
			ss2.Close()
		}
	}
	if len(res.Violations) == 0 && len(s.Late) > 0 {
		e.lateChecks()
	}
	res.Desc = e.desc.String()
	res.NonTrivial = e.nt
}

// lateChecks: a current-protocol session with list-changed handlers lists everything (filling its
// per-page cache, TTL 60 s), the feature sets change, the notifications arrive, and it lists again.
func (e *env) lateChecks() {
	ct, st := mcp.NewInMemoryTransports()
	ctx := context.Background()
	ss, err := e.server.Connect(ctx, st, nil)
	if err != nil {
		e.res.Failf("harness: %v", err)
		return
	}
	var cs *mcp.ClientSession
	lateDone, listResponses, phase1 := false, 0, true
	limit := 4*len(alphabet) + 10
	var hmu sync.Mutex
	var inHandler []string // complaints of listings made inside the handlers
	relisted := 0
	// relist is what a list-changed handler does when RelistInHandler is set. (Late operations are applied in
	// one go and nothing else changes the feature sets afterwards: the registered set is the model's.)
	relist := func(kinds ...int) {
		if !e.s.RelistInHandler || !lateDone || cs == nil {
			return
		}
		for _, k := range kinds {
			got, err := iterate(cs, k, nil, limit)
			hmu.Lock()
			relisted++
			if err != nil {
				inHandler = append(inHandler, fmt.Sprintf("%s: listing inside the list-changed handler failed after yielding %q: %v", kindName[k], got, err))
			} else if want := e.m.sorted(k); !slices.Equal(sortedCopy(got), want) {
				inHandler = append(inHandler, fmt.Sprintf("%s (page size %d): listing inside the list-changed handler yielded %q, registered are %q", kindName[k], e.s.PageSize, got, want))
			}
			hmu.Unlock()
		}
	}
	client := mcp.NewClient(&mcp.Implementation{Name: "cached", Version: "1"}, &mcp.ClientOptions{
		ToolListChangedHandler:     func(context.Context, *mcp.ToolListChangedRequest) { relist(kTool) },
		PromptListChangedHandler:   func(context.Context, *mcp.PromptListChangedRequest) { relist(kPrompt) },
		ResourceListChangedHandler: func(context.Context, *mcp.ResourceListChangedRequest) { relist(kRes, kTmpl) },
	})
	applyLate := func() {
		lateDone = true
		for _, op := range e.s.Late {
			e.m.now++
			e.exec(op)
		}
	}
	client.AddSendingMiddleware(func(next mcp.MethodHandler) mcp.MethodHandler {
		return func(ctx context.Context, method string, req mcp.Request) (mcp.Result, error) {
			out, err := next(ctx, method, req)
			if phase1 && !lateDone && e.s.LateAt > 0 && strings.HasSuffix(method, "/list") {
				if listResponses++; listResponses == e.s.LateAt {
					applyLate()
					time.Sleep(time.Second) // the debounced notifications reach the client and are handled while this page is still in hand
					e.res.Class("features_changed_while_a_list_page_was_on_its_way_back")
				}
			}
			return out, err
		}
	})
	cs, err = client.Connect(ctx, ct, nil)
	if err != nil {
		ss.Close()
		e.res.Failf("harness: connect of the caching session: %v", err)
		return
	}
	defer func() {
		cs.Close()
		ss.Close()
	}()
	e.ttlOn.Store(true)
	defer e.ttlOn.Store(false)
	version := cs.InitializeResult().ProtocolVersion
	listAll := func(phase string) bool {
		for k := 0; k < nKinds; k++ {
			t1 := e.m.now + 1
			got, err := iterate(cs, k, nil, limit)
			if err != nil {
				e.res.Failf("%s (protocol %s, %s): iterator failed after yielding %q: %v", kindName[k], version, phase, got, err)
				return false
			}
			if t2 := e.m.now; t2 >= t1 {
				// the feature sets changed during this very listing: only what stayed registered throughout is owed, once
				count := map[string]int{}
				for _, id := range got {
					count[id]++
				}
				for _, id := range e.m.throughout(k, t1, t2) {
					if count[id] != 1 {
						e.res.Failf("%s (protocol %s, %s, page size %d): %q was registered during the whole listing but appears %d times in %q", kindName[k], version, phase, e.s.PageSize, id, count[id], got)
						return false
					}
				}
				continue
			}
			if want := e.m.sorted(k); !slices.Equal(sortedCopy(got), want) || !e.noteOrder(kindName[k]+" iterator, "+phase, k, nil, got) {
				e.res.Failf("%s (protocol %s, %s, page size %d): iterator yielded %q, registered are %q", kindName[k], version, phase, e.s.PageSize, got, want)
				return false
			}
		}
		return true
	}
	if !listAll("first listing of a caching session") {
		return
	}
	phase1 = false
	if !lateDone {
		applyLate()
	}
	synctest.Wait()
	time.Sleep(30 * time.Second) // list-changed notifications are debounced by a period the SDK chooses; still well inside the 60 s TTL
	synctest.Wait()
	hmu.Lock()
	for _, c := range inHandler {
		e.res.Failf("%s", c)
	}
	if relisted > 0 {
		e.res.Class("listed_inside_a_list_changed_handler")
	}
	hmu.Unlock()
	if len(e.res.Violations) > 0 {
		return
	}
	if listAll("listing again after list-changed notifications, within the TTL") {
		e.res.Class("relisted_after_change_within_ttl")
		if e.s.PageSize < 4 {
			e.nt = true
		}
	}
}

func (e *env) kind(k int) int { return ((k % nKinds) + nKinds) % nKinds }

func (e *env) activeTravs() []int {
	var out []int
	for i, tr := range e.travs {
		if tr.active() {
			out = append(out, i)
		}
	}
	return out
}

func (e *env) exec(op Op) {
	k := e.kind(op.Kind)
	switch op.Op {
	case "add":
		if len(op.Names) == 0 {
			return
		}
		id := idOf(k, abs(op.Names[0]))
		_, existed := e.m.cur[k][id]
		addFeature(e.server, k, id, e.m.add(k, id))
		if existed {
			e.res.Class("op_replace")
		} else {
			e.res.Class("op_add")
		}
		fmt.Fprintf(&e.desc, ";+%d%s", k, id)
	case "replace":
		ids := e.m.sorted(k)
		if len(ids) == 0 || len(op.Names) == 0 {
			e.res.Class("op_noop")
			return
		}
		id := ids[abs(op.Names[0])%len(ids)]
		addFeature(e.server, k, id, e.m.add(k, id))
		e.res.Class("op_replace")
		fmt.Fprintf(&e.desc, ";=%d%s", k, id)
	case "rm":
		var ids []string
		live := e.m.sorted(k)
		for _, n := range op.Names {
			if op.Live {
				if len(live) == 0 {
					continue
				}
				ids = append(ids, live[abs(n)%len(live)])
			} else {
				ids = append(ids, idOf(k, abs(n)))
			}
		}
		e.remove(k, ids)
	case "rmlast":
		act := e.activeTravs()
		if len(act) > 0 {
			tr := e.travs[act[abs(op.N)%len(act)]]
			if id, ok := tr.lastID(); ok {
				e.remove(tr.kind, []string{id})
				return
			}
		}
		// No cursor to pull the rug from: remove some registered item.
		if live := e.m.sorted(k); len(live) > 0 {
			e.remove(k, []string{live[abs(op.N)%len(live)]})
			return
		}
		e.res.Class("op_noop")
	case "start":
		e.start(k, op.NilParams)
	case "step":
		act := e.activeTravs()
		if len(act) == 0 {
			// Nothing to advance: begin a traversal instead (every script step does something).
			e.start(k, true)
			return
		}
		e.step(act[abs(op.N)%len(act)])
	case "fork":
		if len(e.pool) == 0 {
			e.start(k, true)
			return
		}
		is := e.pool[abs(op.N)%len(e.pool)]
		src := e.travs[is.trav]
		tr := &trav{kind: src.kind, forked: true, stale: src.stale}
		tr.pages = append(tr.pages, src.pages[:is.page+1]...)
		e.travs = append(e.travs, tr)
		e.res.Class("fork")
		fmt.Fprintf(&e.desc, ";F%d.%d", is.trav, is.page)
		e.step(len(e.travs) - 1)
	case "attack":
		e.attack(k, op)
	}
}

func (e *env) start(k int, nilParams bool) {
	tr := &trav{kind: k}
	e.travs = append(e.travs, tr)
	var in *string
	if !nilParams {
		in = new(string) // non-nil params, empty cursor
		e.res.Class("start_empty_cursor")
	}
	fmt.Fprintf(&e.desc, ";S%d", k)
	e.fetchPage(len(e.travs)-1, in)
}

func abs(n int) int {
	if n < 0 {
		return -n
	}
	return n
}

func (e *env) remove(k int, ids []string) {
	if len(ids) == 0 {
		e.res.Class("op_noop")
		return
	}
	removeFeatures(e.server, k, ids...)
	any := false
	for _, id := range ids {
		if e.m.remove(k, id) {
			any = true
			e.forgetOrder(k, id)
		}
	}
	if any {
		e.res.Class("op_remove")
	} else {
		e.res.Class("op_remove_absent")
	}
	fmt.Fprintf(&e.desc, ";-%d%s", k, strings.Join(ids, ","))
}

// step advances traversal i by one page using the cursor it was given.
func (e *env) step(i int) {
	tr := e.travs[i]
	c := tr.pages[len(tr.pages)-1].next
	fmt.Fprintf(&e.desc, ";s%d", i)
	e.fetchPage(i, &c)
}

// checkPage asserts what holds for every successfully returned page at the
// moment it is fetched; it returns the ids.
func (e *env) checkPage(what string, k int, items []item, next string) (ids []string, ok bool) {
	ok = true
	for _, it := range items {
		ids = append(ids, it.id)
		desc, reg := e.m.cur[k][it.id]
		if !reg {
			e.res.Failf("%s: returned %q, which is not registered at that moment (registered: %q)", what, it.id, e.m.sorted(k))
			ok = false
		} else if desc != it.desc {
			e.res.Failf("%s: returned %q with description %q, but the registered revision is %q", what, it.id, it.desc, desc)
			ok = false
		}
	}
	if len(items) > e.s.PageSize {
		e.res.Failf("%s: page has %d items, page size is %d", what, len(items), e.s.PageSize)
		ok = false
	}
	if u := sortedCopy(ids); len(slices.Compact(u)) != len(ids) {
		e.res.Failf("%s: page %q lists an item twice", what, ids)
		ok = false
	} else if !e.noteOrder(what, k, nil, ids) { // one stable order, not necessarily ascending byte order
		ok = false
	}
	// (PageSize is documented as a maximum: a shorter page that carries a next cursor is legal.)
	return ids, ok
}

func (e *env) fetchPage(i int, in *string) {
	tr := e.travs[i]
	k := tr.kind
	what := fmt.Sprintf("%s traversal #%d page %d (cursor %s)", kindName[k], i, len(tr.pages)+1, showCursor(in))
	if in != nil && *in != "" {
		if last, ok := tr.lastID(); ok {
			if _, reg := e.m.cur[k][last]; !reg {
				tr.stale = true
			}
		}
	}
	items, next, err := fetch(e.cs, k, in)
	if err != nil {
		tr.bad = true
		e.res.Failf("%s: a cursor issued by the server (or no cursor) was answered with an error: %v", what, err)
		return
	}
	ids, ok := e.checkPage(what, k, items, next)
	var earlier []string // ids of earlier pages that are still the same registration as when they were listed
	for _, p := range tr.pages {
		for _, id := range p.ids {
			if slices.Contains(ids, id) {
				e.res.Failf("%s: item %q appears twice in the traversal (earlier pages %q, this page %q)", what, id, e.seen(tr), ids)
				ok = false
			}
			if e.m.sameRegistration(k, id, p.t) {
				earlier = append(earlier, id)
			}
		}
	}
	if ok && !e.noteOrder(what, k, earlier, ids) {
		ok = false
	}
	tr.pages = append(tr.pages, page{t: e.m.now, in: in, ids: ids, next: next})
	if !ok {
		tr.bad = true
		return
	}
	if next != "" {
		e.pool = append(e.pool, issued{kind: k, cursor: next, trav: i, page: len(tr.pages) - 1})
		if len(tr.pages) > 4*len(alphabet) {
			tr.bad = true
			e.res.Failf("%s: traversal does not terminate (%d pages)", what, len(tr.pages))
		}
		return
	}
	tr.done = true
	e.finish(i)
}

func (e *env) seen(tr *trav) []string {
	var out []string
	for _, p := range tr.pages {
		out = append(out, p.ids...)
	}
	return out
}

// finish evaluates a completed traversal against the registration intervals.
func (e *env) finish(i int) {
	tr := e.travs[i]
	k := tr.kind
	t1, t2 := tr.pages[0].t, tr.pages[len(tr.pages)-1].t
	got := e.seen(tr)
	count := map[string]int{}
	for _, id := range got {
		count[id]++
		if count[id] == 2 {
			e.res.Failf("%s traversal #%d: item %q appears twice: %q", kindName[k], i, id, got)
		}
	}
	// (the order of the sequence was judged page by page against every other listing: noteOrder)
	for _, id := range e.m.throughout(k, t1, t2) {
		if count[id] != 1 {
			e.res.Failf("%s traversal #%d (pages at logical times %v, page size %d): %q was registered during the whole traversal but appears %d times in %q",
				kindName[k], i, e.times(tr), e.s.PageSize, id, count[id], got)
		}
	}
	muts := e.m.mutationsBetween(k, t1, t2)
	switch {
	case muts > 0:
		e.nt = true
		e.res.Class("trav_mutated")
	default:
		e.res.Class("trav_quiet")
	}
	if tr.stale {
		e.nt = true
		e.res.Class("trav_stale_cursor")
	}
	if tr.forked {
		e.res.Class("trav_forked")
	}
	switch n := len(tr.pages); {
	case n == 1:
		e.res.Class("trav_pages_1")
	case n <= 3:
		e.res.Class("trav_pages_2-3")
	default:
		e.res.Class("trav_pages_4+")
	}
	fmt.Fprintf(&e.desc, ";D%d:%d:%d:%v", i, len(tr.pages), muts, tr.stale)
}

func (e *env) times(tr *trav) []int {
	var ts []int
	for _, p := range tr.pages {
		ts = append(ts, p.t)
	}
	return ts
}

func showCursor(c *string) string {
	if c == nil {
		return "<nil params>"
	}
	return fmt.Sprintf("%q", *c)
}

// buildAttack derives the hostile cursor from the op and the pool of issued cursors.
func (e *env) buildAttack(k int, op Op) (cursor string, ok bool) {
	var is issued
	if len(e.pool) > 0 {
		is = e.pool[abs(op.N)%len(e.pool)]
	} else {
		// Nothing issued yet: start from a token built by the harness' own encoder.
		is = issued{kind: k, cursor: base64.URLEncoding.EncodeToString(refEncode(idOf(k, abs(op.N))))}
	}
	c := is.cursor
	raw, _ := base64.URLEncoding.DecodeString(c)
	switch op.Class {
	case "trunc":
		return c[:abs(op.Pos)%len(c)], true
	case "flip_text":
		b := []byte(c)
		b[abs(op.Pos)%len(b)] ^= 1 << (abs(op.Bit) % 8)
		return string(b), true
	case "flip_gob":
		if len(raw) == 0 {
			return "", false
		}
		b := slices.Clone(raw)
		b[abs(op.Pos)%len(b)] ^= 1 << (abs(op.Bit) % 8)
		return base64.URLEncoding.EncodeToString(b), true
	case "bytes":
		return string(op.Data), true
	case "b64garbage":
		return base64.URLEncoding.EncodeToString(op.Data), true
	case "hugegob":
		b := append(slices.Clone(hugeUints[abs(op.Pos)%len(hugeUints)]), op.Data...)
		return base64.URLEncoding.EncodeToString(b), true
	case "gobsplice":
		if len(raw) == 0 {
			return "", false
		}
		// Overwrite one byte of a well-formed token with a huge unsigned integer.
		p := abs(op.Pos) % len(raw)
		b := append(slices.Clone(raw[:p]), hugeUints[abs(op.Bit)%len(hugeUints)]...)
		b = append(b, raw[p+1:]...)
		return base64.URLEncoding.EncodeToString(b), true
	case "forged":
		return base64.URLEncoding.EncodeToString(refEncode(op.Text)), true
	case "crosskind":
		// A cursor issued for another feature kind.
		for j := 0; j < len(e.pool); j++ {
			cand := e.pool[(abs(op.N)+j)%len(e.pool)]
			if cand.kind != k {
				return cand.cursor, true
			}
		}
		return "", false
	case "otherb64":
		switch abs(op.Pos) % 3 {
		case 0:
			return base64.RawURLEncoding.EncodeToString(raw), true
		case 1:
			return base64.StdEncoding.EncodeToString(raw), true
		default:
			return c + "=", true
		}
	case "gobtype":
		var buf bytes.Buffer
		enc := gob.NewEncoder(&buf)
		var err error
		switch abs(op.Pos) % 5 {
		case 0:
			err = enc.Encode(struct{ LastUID int }{7})
		case 1:
			err = enc.Encode(struct{ Other string }{op.Text})
		case 2:
			err = enc.Encode(op.Text)
		case 3:
			err = enc.Encode(struct {
				LastUID string
				Extra   []string
			}{op.Text, []string{"x"}})
		default:
			err = enc.Encode(struct{ LastUID []byte }{[]byte(op.Text)})
		}
		if err != nil {
			return "", false
		}
		return base64.URLEncoding.EncodeToString(buf.Bytes()), true
	}
	return "", false
}

// checkHostile is the oracle for one List call with an attacker-chosen cursor.
// formatKnown: every cursor the server issued so far is base64url(gob(token naming the last item of its page)),
// i.e. the harness' idea of the (opaque, internal) cursor format is right for this SDK; only then can it call
// a cursor malformed.
func checkHostile(res *vt.Result, what string, cursor string, items []item, next string, err error, formatKnown bool, validPage func() bool) (outcome string) {
	malformed, _ := classify(cursor)
	if !formatKnown {
		malformed = false
		res.Class("cursor_format_unknown")
	}
	if err != nil {
		code, isWire := errCode(err)
		switch {
		case errors.Is(err, context.DeadlineExceeded):
			res.Failf("%s: no answer (the call hung until its deadline)", what)
		case !isWire:
			res.Failf("%s: failed with %v, which is not a JSON-RPC error response (want code %d or a page)", what, err, jsonrpc.CodeInvalidParams)
		case code != jsonrpc.CodeInvalidParams:
			res.Failf("%s: rejected with JSON-RPC code %d (%v), want %d (invalid params)", what, code, err, jsonrpc.CodeInvalidParams)
		}
		if malformed {
			return "malformed_rejected"
		}
		return "grey_rejected"
	}
	if malformed {
		res.Failf("%s: the cursor is malformed (not base64url of a gob-encoded token) but was answered with a page %v next=%q, want error %d", what, items, next, jsonrpc.CodeInvalidParams)
		return "malformed_accepted"
	}
	validPage()
	return "grey_page"
}

// formatKnown: see checkHostile.
func (e *env) formatKnown() bool {
	for _, is := range e.pool {
		ids := e.travs[is.trav].pages[is.page].ids
		if bad, uid := classify(is.cursor); bad || len(ids) == 0 || uid != ids[len(ids)-1] {
			return false
		}
	}
	return len(e.pool) > 0
}

func (e *env) attack(k int, op Op) {
	cursor, ok := e.buildAttack(k, op)
	if !ok || asSeenByServer(cursor) == "" {
		e.res.Class("op_noop")
		return
	}
	what := fmt.Sprintf("%s with hostile cursor %q (class %s)", kindName[k], cursor, op.Class)
	items, next, err := fetch(e.cs, k, &cursor)
	outcome := checkHostile(e.res, what, cursor, items, next, err, e.formatKnown(), func() bool {
		_, ok := e.checkPage(what, k, items, next)
		return ok
	})
	e.res.Class("attack_"+op.Class, "attack_"+outcome)
	e.nt = true
	fmt.Fprintf(&e.desc, ";A%s:%s", op.Class, outcome)
	// The session keeps working afterwards.
	items, next, err = fetch(e.cs, k, nil)
	if err != nil {
		e.res.Failf("%s: the next ordinary request on the session failed: %v", what, err)
		return
	}
	e.checkPage(what+": following first-page request", k, items, next)
}

// finalChecks runs on a quiescent server: one more manual traversal per kind
// must equal the model's sorted ids, and the client-side iterators must yield
// the same sequence as manual paging (from the start and from an issued cursor).
func (e *env) finalChecks(cs *mcp.ClientSession, version string, kinds []int) {
	saved := e.cs
	e.cs = cs
	defer func() { e.cs = saved }()
	limit := 4*len(alphabet) + 10
	for _, k := range kinds {
		e.m.now++
		i := len(e.travs)
		tr := &trav{kind: k}
		e.travs = append(e.travs, tr)
		e.fetchPage(i, nil)
		for tr.active() {
			e.step(i)
		}
		if tr.bad {
			return
		}
		manual := e.seen(tr)
		if want := e.m.sorted(k); !slices.Equal(sortedCopy(manual), want) { // as sets; the order was judged by noteOrder
			e.res.Failf("%s (protocol %s): manual paging on the quiescent server returned %q, registered are %q", kindName[k], version, manual, want)
			return
		}
		got, err := iterate(cs, k, nil, limit)
		if err != nil {
			e.res.Failf("%s (protocol %s): iterator failed after yielding %q: %v (manual paging: %q)", kindName[k], version, got, err, manual)
			return
		}
		if !slices.Equal(got, manual) {
			e.res.Failf("%s (protocol %s): iterator yielded %q, manual paging %q (page size %d)", kindName[k], version, got, manual, e.s.PageSize)
			return
		}
		// Iterator started from a cursor in the middle.
		if n := len(tr.pages) - 1; n > 0 {
			p := abs(e.s.IterFrom) % n
			c := tr.pages[p].next
			var want []string
			for _, pg := range tr.pages[p+1:] {
				want = append(want, pg.ids...)
			}
			got, err := iterate(cs, k, &c, limit)
			if err != nil {
				e.res.Failf("%s (protocol %s): iterator from cursor %q failed after yielding %q: %v (manual paging: %q)", kindName[k], version, c, got, err, want)
				return
			}
			if !slices.Equal(got, want) {
				e.res.Failf("%s (protocol %s): iterator from cursor %q (issued after %q) yielded %q, manual paging %q", kindName[k], version, c, tr.pages[p].ids, got, want)
				return
			}
			e.res.Class("iter_from_cursor")
		}
		if len(tr.pages) > 1 {
			e.res.Class("iter_multi_page")
		} else {
			e.res.Class("iter_single_page")
		}
	}
}

// hidden says whether the middleware removes the feature with this id from list pages.
func (e *env) hidden(kind int, id string) bool {
	for _, n := range e.s.Hidden {
		if idOf(kind, n) == id {
			return true
		}
	}
	return false
}

// hidingMiddleware post-filters list results while hideOn is set: the page was cut by the SDK, the
// next cursor stays, some (possibly all) of its items disappear.
func (e *env) hidingMiddleware(next mcp.MethodHandler) mcp.MethodHandler {
	return func(ctx context.Context, method string, req mcp.Request) (mcp.Result, error) {
		res, err := next(ctx, method, req)
		if err == nil && e.ttlOn.Load() {
			switch r := res.(type) {
			case *mcp.ListToolsResult:
				r.TTLMs = 60_000
			case *mcp.ListPromptsResult:
				r.TTLMs = 60_000
			case *mcp.ListResourcesResult:
				r.TTLMs = 60_000
			case *mcp.ListResourceTemplatesResult:
				r.TTLMs = 60_000
			}
		}
		if err != nil || !e.hideOn.Load() {
			return res, err
		}
		switch r := res.(type) {
		case *mcp.ListToolsResult:
			c := *r
			c.Tools = nil
			for _, t := range r.Tools {
				if !e.hidden(kTool, t.Name) {
					c.Tools = append(c.Tools, t)
				}
			}
			return &c, nil
		case *mcp.ListPromptsResult:
			c := *r
			c.Prompts = nil
			for _, t := range r.Prompts {
				if !e.hidden(kPrompt, t.Name) {
					c.Prompts = append(c.Prompts, t)
				}
			}
			return &c, nil
		case *mcp.ListResourcesResult:
			c := *r
			c.Resources = nil
			for _, t := range r.Resources {
				if !e.hidden(kRes, t.URI) {
					c.Resources = append(c.Resources, t)
				}
			}
			return &c, nil
		case *mcp.ListResourceTemplatesResult:
			c := *r
			c.ResourceTemplates = nil
			for _, t := range r.ResourceTemplates {
				if !e.hidden(kTmpl, t.URITemplate) {
					c.ResourceTemplates = append(c.ResourceTemplates, t)
				}
			}
			return &c, nil
		}
		return res, err
	}
}

// filteredChecks: with the hiding middleware on, manual paging (which follows every next cursor, also the
// one of an empty page) and the client-side iterators must still yield the same sequence.
func (e *env) filteredChecks(cs *mcp.ClientSession, version string, kinds []int) {
	e.hideOn.Store(true)
	defer e.hideOn.Store(false)
	limit := 4*len(alphabet) + 10
	for _, k := range kinds {
		var manual []string
		emptyMid := false
		var cursor *string
		for pages := 0; ; pages++ {
			if pages > limit {
				e.res.Failf("%s (protocol %s, filtered): manual paging did not end after %d pages", kindName[k], version, pages)
				return
			}
			items, next, err := fetch(cs, k, cursor)
			if err != nil {
				e.res.Failf("%s (protocol %s, filtered): manual paging failed: %v", kindName[k], version, err)
				return
			}
			for _, it := range items {
				manual = append(manual, it.id)
			}
			if next == "" {
				break
			}
			if len(items) == 0 {
				emptyMid = true
			}
			cursor = &next
		}
		var want []string
		for _, id := range e.m.sorted(k) {
			if !e.hidden(k, id) {
				want = append(want, id)
			}
		}
		if !slices.Equal(sortedCopy(manual), want) || !e.noteOrder(fmt.Sprintf("%s (protocol %s, filtered)", kindName[k], version), k, nil, manual) {
			e.res.Failf("%s (protocol %s, filtered): manual paging returned %q, registered and not hidden are %q", kindName[k], version, manual, want)
			return
		}
		got, err := iterate(cs, k, nil, limit)
		if err != nil {
			e.res.Failf("%s (protocol %s, filtered): iterator failed after yielding %q: %v (manual paging: %q)", kindName[k], version, got, err, manual)
			return
		}
		if !slices.Equal(got, manual) {
			e.res.Failf("%s (protocol %s): iterator yielded %q, manual paging %q (page size %d; a server-side filter left a page empty: %v)", kindName[k], version, got, manual, e.s.PageSize, emptyMid)
			return
		}
		if emptyMid {
			e.res.Class("iter_over_empty_page_with_cursor")
			e.nt = true
		} else {
			e.res.Class("iter_filtered_no_empty_page")
		}
	}
}

var prop = vt.Register(&vt.Prop[Script]{Property: "C17", Name: "paging", Gen: gen, Run: run, Journal: true})

func TestC17_Paging(t *testing.T) { theT = t; prop.Check(t) }

// TestC17_Alphabet makes sure every id the generator can produce is accepted by
// the SDK's registration functions (construct, do not filter), and that a full
// set of every kind pages correctly at every page size.
func TestC17_Alphabet(t *testing.T) {
	theT = t
	for ps := 1; ps <= 7; ps++ {
		s := Script{PageSize: ps, Version: "2025-06-18"}
		for k := 0; k < nKinds; k++ {
			for n := range alphabet {
				s.Init[k] = append(s.Init[k], n)
			}
			s.Ops = append(s.Ops, Op{Op: "start", Kind: k})
		}
		prop.RunOne(t, s)
	}
}

func TestReplay(t *testing.T)  { theT = t; vt.Replay(t) }
func TestRegress(t *testing.T) { theT = t; vt.Regress(t, "C17") }
func TestKnown(t *testing.T)   { theT = t; vt.Known(t, "C17") }
