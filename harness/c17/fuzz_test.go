package c17

import (
	"bytes"
	"encoding/base64"
	"encoding/gob"
	"fmt"
	"runtime/metrics"
	"slices"
	"sort"
	"sync"
	"testing"

	"github.com/modelcontextprotocol/go-sdk/mcp"
	"github.com/modelcontextprotocol/go-sdk/verif/vt"
	"pgregory.net/rapid"
)

// The cursor target runs outside a bubble (native fuzz workers): one server
// with a fixed tool set and page size 2, one legacy session, real goroutines.

var fuzzTools = []string{"B", "a", "a0", "aa", "b", "c", "z"}

const fuzzPageSize = 2

type fuzzEnv struct {
	cs          *mcp.ClientSession
	issued      []string
	order       []string // the fixed tool set in the order the server lists it
	formatKnown bool     // see checkHostile
}

var (
	fuzzOnce sync.Once
	fuzzE    *fuzzEnv
	fuzzErr  error
)

func fuzzSetup() (*fuzzEnv, error) {
	fuzzOnce.Do(func() {
		server := mcp.NewServer(&mcp.Implementation{Name: "srv", Version: "1"}, &mcp.ServerOptions{PageSize: fuzzPageSize, HasTools: true})
		for _, n := range fuzzTools {
			addFeature(server, kTool, n, "d")
		}
		cs, _, err := connect(server, "2025-06-18")
		if err != nil {
			fuzzErr = err
			return
		}
		e := &fuzzEnv{cs: cs, formatKnown: true}
		var c *string
		for i := 0; i < 4*len(fuzzTools); i++ {
			items, next, err := fetch(cs, kTool, c)
			if err != nil {
				fuzzErr = fmt.Errorf("paging the fixed tool set: %w", err)
				return
			}
			for _, it := range items {
				e.order = append(e.order, it.id)
			}
			if next == "" {
				break
			}
			if bad, uid := classify(next); bad || len(items) == 0 || uid != items[len(items)-1].id {
				e.formatKnown = false
			}
			e.issued = append(e.issued, next)
			c = &next
		}
		e.formatKnown = e.formatKnown && len(e.issued) > 0
		fuzzE = e
	})
	return fuzzE, fuzzErr
}

// hostileCursors are fixed inputs of every class the rapid check draws from.
func hostileCursors(issued []string) []string {
	out := []string{"", " ", "=", "====", "A", "AA==", "AAAA", "-_-_", "+/+/", "%00", "\x00", "\xff\xfe", "null", "{}", "0",
		"../../etc/passwd", "Kv-BAwEBCXBhZ2VUb2tlbgH_ggABAQEHTGFzdFVJRAEMAAAA"}
	for _, h := range hugeUints {
		out = append(out, base64.URLEncoding.EncodeToString(h))
		out = append(out, base64.URLEncoding.EncodeToString(append(append([]byte{}, h...), 0x01, 0x02, 0x03)))
	}
	for _, uid := range []string{"", "a", "zz", "\x00", string(make([]byte, 2000))} {
		out = append(out, base64.URLEncoding.EncodeToString(refEncode(uid)))
	}
	for _, c := range issued {
		raw, _ := base64.URLEncoding.DecodeString(c)
		out = append(out, c, c[:len(c)/2], c[:len(c)-1], c+"=", c+c, base64.StdEncoding.EncodeToString(raw), base64.RawURLEncoding.EncodeToString(raw))
		for p := range raw {
			for _, h := range hugeUints[:6] {
				b := append(append(append([]byte{}, raw[:p]...), h...), raw[p+1:]...)
				out = append(out, base64.URLEncoding.EncodeToString(b))
			}
		}
	}
	return out
}

// allocatedBytes is the cumulative number of heap bytes allocated by the process.
func allocatedBytes() uint64 {
	s := []metrics.Sample{{Name: "/gc/heap/allocs:bytes"}}
	metrics.Read(s)
	if s[0].Value.Kind() != metrics.KindUint64 {
		return 0
	}
	return s[0].Value.Uint64()
}

// checkFuzzCursor is the oracle of the fuzz target: a page that is an ascending
// subset of the registered tools, or error -32602 (required when the cursor is
// not base64url of a gob token); never another error, a hang or a crash; no
// allocation out of proportion to the cursor.
func checkFuzzCursor(e *fuzzEnv, cursor string) (res vt.Result) {
	if asSeenByServer(cursor) == "" {
		return
	}
	a0 := allocatedBytes()
	items, next, err := fetch(e.cs, kTool, &cursor)
	a1 := allocatedBytes()
	what := fmt.Sprintf("tools/list with cursor %q", cursor)
	if d := a1 - a0; d > 256<<20 {
		res.Failf("%s: the process allocated %d MiB while serving a %d-byte cursor", what, d>>20, len(cursor))
	}
	checkHostile(&res, what, cursor, items, next, err, e.formatKnown, func() bool {
		ok := true
		var ids []string
		for _, it := range items {
			ids = append(ids, it.id)
			if i := sort.SearchStrings(fuzzTools, it.id); i == len(fuzzTools) || fuzzTools[i] != it.id {
				res.Failf("%s: returned %q, which is not a registered tool", what, it.id)
				ok = false
			}
		}
		if len(ids) > fuzzPageSize {
			res.Failf("%s: page %q exceeds the page size %d", what, ids, fuzzPageSize)
			ok = false
		}
		// in the server's own listing order (one stable order; not necessarily ascending byte order)
		for j := 1; j < len(ids); j++ {
			if slices.Index(e.order, ids[j-1]) >= slices.Index(e.order, ids[j]) {
				res.Failf("%s: page %q is not in the order of the full listing %q", what, ids, e.order)
				ok = false
			}
		}
		return ok
	})
	return res
}

func FuzzC17_Cursor(f *testing.F) {
	e, err := fuzzSetup()
	if err != nil {
		f.Fatalf("harness: %v", err)
	}
	for _, c := range hostileCursors(e.issued) {
		f.Add(c)
	}
	f.Fuzz(func(t *testing.T, cursor string) {
		res := checkFuzzCursor(e, cursor)
		for _, v := range res.Violations {
			t.Error(v)
		}
	})
}

// TestC17_CursorSeeds applies the fuzz target's oracle to its fixed seed list
// (the quick tier does not run the native fuzzer).
func TestC17_CursorSeeds(t *testing.T) {
	if !sort.StringsAreSorted(fuzzTools) {
		t.Fatal("harness: fuzzTools must be sorted")
	}
	e, err := fuzzSetup()
	if err != nil {
		fmt.Printf("VERIF-BROKEN %v\n", err)
		t.Fatal(err)
	}
	for _, c := range hostileCursors(e.issued) {
		res := checkFuzzCursor(e, c)
		vt.Counter("cursor_seeds", 1)
		for _, v := range res.Violations {
			fmt.Printf("VERIF-FAIL property=C17 test=cursor_seeds replay=none :: %s\n", v)
			t.Error(v)
		}
	}
}

// TestC17_Classifier is a self-check of the harness: the allocation-free
// shortcut of the cursor classifier (completeMessages) must give the same
// verdict as gob-decoding the whole stream, on the hostile seeds and on
// mutations of well-formed tokens.
func TestC17_Classifier(t *testing.T) {
	plain := func(raw []byte) (bool, string) {
		var tok pageToken
		if err := gob.NewDecoder(bytes.NewReader(raw)).Decode(&tok); err != nil {
			return true, ""
		}
		return false, tok.LastUID
	}
	check := func(t interface{ Fatalf(string, ...any) }, raw []byte) {
		m1, u1 := plain(raw)
		m2, u2 := classify(base64.URLEncoding.EncodeToString(raw))
		if len(raw) > 0 && (m1 != m2 || u1 != u2) {
			t.Fatalf("harness: classifier disagrees with plain gob decoding on %x: plain (%v,%q) shortcut (%v,%q)", raw, m1, u1, m2, u2)
		}
	}
	for _, c := range hostileCursors(nil) {
		if raw, err := base64.URLEncoding.DecodeString(c); err == nil {
			check(t, raw)
		}
	}
	rapid.Check(t, func(rt *rapid.T) {
		raw := refEncode(rapid.StringN(0, 8, -1).Draw(rt, "uid"))
		for i, n := 0, rapid.IntRange(0, 3).Draw(rt, "edits"); i < n; i++ {
			p := rapid.IntRange(0, len(raw)-1).Draw(rt, "pos")
			switch rapid.IntRange(0, 3).Draw(rt, "kind") {
			case 0:
				raw[p] = rapid.Byte().Draw(rt, "byte")
			case 1:
				raw = raw[:p]
			case 2:
				h := hugeUints[rapid.IntRange(0, len(hugeUints)-1).Draw(rt, "huge")]
				raw = append(append(append([]byte{}, raw[:p]...), h...), raw[p+1:]...)
			default:
				raw = append(raw, rapid.SliceOfN(rapid.Byte(), 0, 6).Draw(rt, "tail")...)
			}
			if len(raw) == 0 {
				break
			}
		}
		check(rt, raw)
	})
}
