// Package c18 decides property C18 (change notifications are never lost, reach
// only entitled sessions, beat caches). One real mcp.Server and up to five real
// mcp.Client sessions (legacy 2025-06-18, or 2026-07-28 with / without the
// list-changed handlers that make Connect open a subscriptions/listen stream)
// over mcp.NewInMemoryTransports inside a synctest bubble, so that the 10 ms
// debounce of Server.changeAndNotify is exact. A script is a configuration plus
// a timeline whose instants are drawn around the debounce period.
//
// The oracle is a logical clock over the recorded history {change begun/applied,
// notification sent (server sending middleware, with its target session),
// notification handled (client receiving middleware, after the SDK's own
// handling returned), list/read issued and returned} and a model of the
// server's feature sets after every change.
package c18

import (
	"context"
	"encoding/json"
	"errors"
	"fmt"
	"maps"
	"sort"
	"strconv"
	"strings"
	"sync"
	"testing"
	"testing/synctest"
	"time"

	"github.com/modelcontextprotocol/go-sdk/internal/jsonrpc2"
	"github.com/modelcontextprotocol/go-sdk/jsonrpc"
	"github.com/modelcontextprotocol/go-sdk/mcp"
	"github.com/modelcontextprotocol/go-sdk/verif/memio"
	"github.com/modelcontextprotocol/go-sdk/verif/vt"
	"pgregory.net/rapid"
)

func TestMain(m *testing.M) { vt.Main(m) }

const (
	kTool = iota
	kPrompt
	kRes
	kTmpl
	nKinds
)

const debounce = 10 * time.Millisecond // documented: "a single notification is sent after multiple changes occur in close proximity"; server.go notificationDelay

var kindName = [nKinds]string{"tool", "prompt", "resource", "template"}

// nkOf maps a feature kind to its notification kind (templates announce as resources/list_changed).
func nkOf(kind int) int {
	if kind == kTmpl {
		return kRes
	}
	return kind
}

var listChanged = [3]string{
	"notifications/tools/list_changed",
	"notifications/prompts/list_changed",
	"notifications/resources/list_changed",
}

const updatedMethod = "notifications/resources/updated"

const legacyVersion = "2025-06-18"
const modernVersion = "2026-07-28"

// dropNotesTransport refuses, with a per-message rejection, every notification written to the connection.
type dropNotesTransport struct{ inner mcp.Transport }

func (t *dropNotesTransport) Connect(ctx context.Context) (mcp.Connection, error) {
	c, err := t.inner.Connect(ctx)
	if err != nil {
		return nil, err
	}
	return &dropNotesConn{c}, nil
}

type dropNotesConn struct{ mcp.Connection }

func (c *dropNotesConn) Write(ctx context.Context, msg jsonrpc.Message) error {
	if r, ok := msg.(*jsonrpc.Request); ok && !r.IsCall() {
		return fmt.Errorf("%w: this peer takes no notifications", jsonrpc2.ErrRejected)
	}
	return c.Connection.Write(ctx, msg)
}

// ---- script -------------------------------------------------------------------

type Sess struct {
	Legacy bool `json:"legacy,omitempty"`
	// SlowConnect: the client connects 15 ms (virtual) after the server side has bound the session, so a
	// pending change burst is fanned out while the session exists but has not introduced itself yet.
	SlowConnect bool `json:"slow_connect,omitempty"`
	// DropNotes (legacy sessions): the server-side transport of this session refuses every notification the
	// server writes to it (a per-message rejection, the connection stays up). Nothing is expected to reach
	// this session; the point is that the other sessions still get theirs.
	DropNotes bool `json:"drop_notes,omitempty"`
	// ReadInHandler: the session's ResourceUpdatedHandler reads the resource it was told about right away, inside
	// the handler (the natural reaction): what it gets is at least as new as the change it was told about.
	ReadInHandler bool    `json:"read_in_handler,omitempty"`
	H             [3]bool `json:"h"`                 // list-changed handlers set in ClientOptions: tools, prompts, resources
	Initial       bool    `json:"initial,omitempty"` // connected before the timeline starts
}

type Event struct {
	Dt   int64  `json:"dt"`             // virtual ns since the previous event
	Op   string `json:"op"`             // change connect close sub unsub updated list read quiesce
	Kind int    `json:"kind,omitempty"` // change/list: 0 tool 1 prompt 2 resource 3 resource template
	Rm   bool   `json:"rm,omitempty"`   // change: remove instead of add/replace
	Also []int  `json:"also,omitempty"` // change with rm: further names given to the same Remove call, after Name (3: a name never registered)
	Name int    `json:"name,omitempty"` // feature / uri index 0..2
	Sess int    `json:"sess,omitempty"` // session slot
	Bump bool   `json:"bump,omitempty"` // updated: the resource content really changed before ResourceUpdated
	Pre  int64  `json:"pre,omitempty"`  // list/read: client sending middleware sleeps this long before forwarding the call
	Post int64  `json:"post,omitempty"` // list/read: ... and this long before handing the result back to ListX/ReadResource
}

type Script struct {
	Caps   [3]string     `json:"caps"`   // per notification kind: default | on | off  (ServerOptions.Capabilities ... ListChanged)
	Init   [nKinds][]int `json:"init"`   // features present before any session connects
	TTLMs  int           `json:"ttl_ms"` // set on every list/read result by a server receiving middleware
	Sess   []Sess        `json:"sess"`
	Events []Event       `json:"events"`
	// RejectSub: the server's SubscribeHandler refuses resource index RejectSub-1 (0: none, so that older scripts keep their meaning). A refused
	// subscription is no subscription: resource-updated must not reach that session.
	RejectSub int `json:"reject_sub"`
}

var dts = []int64{0, 0, 0, 1, int64(debounce) - 1, int64(debounce), int64(debounce), int64(debounce) + 1,
	int64(5 * time.Millisecond), int64(9 * time.Millisecond), int64(time.Millisecond), 2*int64(debounce) - 1, 2 * int64(debounce)}

var ops = []string{
	"change", "change", "change", "change", "change", "change", "change", "change",
	"list", "list", "list", "list", "list",
	"read", "read",
	"sub", "sub", "sub", "unsub",
	"updated", "updated", "updated",
	"connect", "close",
	"quiesce", "quiesce",
}

var uriBias = []int{0, 0, 0, 0, 1, 2} // most subscribe / update / read traffic meets on one uri

func gen(rt *rapid.T) Script {
	var s Script
	s.TTLMs = rapid.SampledFrom([]int{0, 60000, 60000}).Draw(rt, "ttl")
	s.RejectSub = rapid.SampledFrom([]int{0, 0, 0, 1, 2}).Draw(rt, "reject_sub")
	for i := range s.Caps {
		s.Caps[i] = rapid.SampledFrom([]string{"default", "default", "default", "on", "on", "off"}).Draw(rt, "cap")
	}
	for k := 0; k < nKinds; k++ {
		s.Init[k] = []int{}
		for n := 0; n < 3; n++ {
			if rapid.IntRange(0, 9).Draw(rt, "init") < 6 {
				s.Init[k] = append(s.Init[k], n)
			}
		}
	}
	ns := rapid.IntRange(1, 5).Draw(rt, "nsess")
	for i := 0; i < ns; i++ {
		var x Sess
		x.Legacy = rapid.IntRange(0, 9).Draw(rt, "legacy") < 4
		x.SlowConnect = rapid.IntRange(0, 3).Draw(rt, "slow_connect") == 0
		x.ReadInHandler = rapid.IntRange(0, 2).Draw(rt, "read_in_handler") == 0
		x.DropNotes = x.Legacy && rapid.IntRange(0, 3).Draw(rt, "drop_notes") == 0
		switch m := rapid.IntRange(0, 9).Draw(rt, "handlers"); {
		case m < 4:
			x.H = [3]bool{true, true, true}
		case m < 6:
			x.H = [3]bool{}
		default:
			for j := range x.H {
				x.H[j] = rapid.Bool().Draw(rt, "handler")
			}
		}
		x.Initial = i == 0 || rapid.IntRange(0, 9).Draw(rt, "initial") < 7
		s.Sess = append(s.Sess, x)
	}
	focus := rapid.IntRange(0, nKinds-1).Draw(rt, "focus")
	n := rapid.IntRange(3, 30).Draw(rt, "n")
	for i := 0; i < n; i++ {
		ev := Event{
			Dt: rapid.SampledFrom(dts).Draw(rt, "dt"),
			Op: rapid.SampledFrom(ops).Draw(rt, "op"),
		}
		switch ev.Op {
		case "change", "list":
			ev.Kind = focus
			if rapid.IntRange(0, 9).Draw(rt, "otherkind") < 3 {
				ev.Kind = rapid.IntRange(0, nKinds-1).Draw(rt, "kind")
			}
		}
		switch ev.Op {
		case "change":
			ev.Rm = rapid.IntRange(0, 9).Draw(rt, "rm") < 4
			ev.Name = rapid.IntRange(0, 2).Draw(rt, "name")
			if ev.Rm && rapid.IntRange(0, 9).Draw(rt, "multi") < 3 {
				ev.Also = rapid.SliceOfN(rapid.SampledFrom([]int{0, 1, 2, 3, 3}), 1, 2).Draw(rt, "also")
			}
		case "sub", "unsub", "read":
			ev.Name = rapid.SampledFrom(uriBias).Draw(rt, "uri")
		case "updated":
			ev.Name = rapid.SampledFrom(uriBias).Draw(rt, "uri")
			ev.Bump = rapid.IntRange(0, 9).Draw(rt, "bump") < 7
		}
		switch ev.Op {
		case "connect", "close", "sub", "unsub", "list", "read":
			ev.Sess = rapid.IntRange(0, ns-1).Draw(rt, "sess")
		}
		if ev.Op == "list" || ev.Op == "read" {
			ev.Pre = rapid.SampledFrom([]int64{0, 0, 0, int64(5 * time.Millisecond), int64(debounce)}).Draw(rt, "pre")
			ev.Post = rapid.SampledFrom([]int64{0, 0, int64(debounce) - 1, int64(debounce), int64(debounce) + 1, int64(25 * time.Millisecond), int64(50 * time.Millisecond)}).Draw(rt, "post")
		}
		s.Events = append(s.Events, ev)
	}
	return s
}

// ---- history --------------------------------------------------------------------

type sentRec struct {
	idx  int
	ss   *mcp.ServerSession
	nk   int // 0..2 list_changed, -1 resources/updated
	uri  string
	ver  int // content version of uri when the send started (updated only)
	done bool
	err  error
}

type handledRec struct {
	idx  int
	slot int
	nk   int
	uri  string
}

type changeRec struct {
	begin, end int
	effective  bool
	at         time.Duration
}

type callRec struct {
	slot     int
	read     bool
	kind     int
	uri      string
	issued   int
	returned int
	done     bool
	err      error
	got      map[string]int // list: name -> version
	ver      int            // read: content version
	post     int64
}

type slot struct {
	spec      Sess
	client    *mcp.Client
	cs        *mcp.ClientSession
	ss        *mcp.ServerSession
	state     int            // 0 never connected, 1 connected, 2 closed
	connected int            // logical time at which Connect had returned and settled
	closeBeg  int            // logical time at which Close was called
	closed    int            // logical time at which Close had settled
	entitled  [3]int         // per notification kind: 1 yes, 0 no, -1 indeterminate
	subs      map[string]int // uri -> 1 subscribed, -1 indeterminate (absent: not subscribed)
}

type world struct {
	mu      sync.Mutex
	clock   int
	start   time.Time
	sent    []*sentRec
	handled []handledRec
	// complaints of reads made inside a ResourceUpdatedHandler, and how many such reads were made
	inHandler      []string
	readsInHandler int
	calls          []*callRec
	content        map[string]int // uri -> content version (what the read handler returns)
}

func (w *world) tick() int {
	w.mu.Lock()
	defer w.mu.Unlock()
	w.clock++
	return w.clock
}

type delayKey struct{}

func uriOf(n int) string  { return "file:///r" + strconv.Itoa(n) }
func tmplOf(n int) string { return "file:///t" + strconv.Itoa(n) + "/{x}" }

func nameOf(kind, n int) string {
	switch kind {
	case kTool:
		return "t" + strconv.Itoa(n)
	case kPrompt:
		return "p" + strconv.Itoa(n)
	case kRes:
		return uriOf(n)
	default:
		return tmplOf(n)
	}
}

func parseVer(s string) int {
	v, err := strconv.Atoi(strings.TrimPrefix(s, "v"))
	if err != nil {
		return -1
	}
	return v
}

func fmtSet(m map[string]int) string {
	keys := make([]string, 0, len(m))
	for k := range m {
		keys = append(keys, k)
	}
	sort.Strings(keys)
	var b strings.Builder
	b.WriteByte('{')
	for i, k := range keys {
		if i > 0 {
			b.WriteByte(' ')
		}
		fmt.Fprintf(&b, "%s@v%d", k, m[k])
	}
	b.WriteByte('}')
	return b.String()
}

var theT *testing.T

func run(s Script) (res vt.Result) {
	if p := vt.Bubble(theT, func() { res = runInBubble(s) }); p != "" {
		// Teardown leftovers are C05's business; only counted here.
		res.Class("teardown_leftover")
	}
	return res
}

// runSync runs f in its own goroutine and reports whether it finished without virtual time passing.
func runSync(f func()) bool {
	done := make(chan struct{})
	go func() { defer close(done); f() }()
	synctest.Wait()
	select {
	case <-done:
		return true
	default:
		return false
	}
}

// runSoon is runSync for calls that the property does not require to be instantaneous (connecting,
// subscribing): if f has not finished without virtual time passing it is given up to 1 s of it.
func runSoon(f func()) bool {
	done := make(chan struct{})
	go func() { defer close(done); f() }()
	synctest.Wait()
	for n := 0; n < 100; n++ {
		select {
		case <-done:
			return true
		default:
			time.Sleep(10 * time.Millisecond)
			synctest.Wait()
		}
	}
	select {
	case <-done:
		return true
	default:
		return false
	}
}

// settle is the pause after which clause 1 is judged: far beyond any plausible debounce period (the
// property sets no deadline and the SDK's period is an unexported constant), far below the 60 s TTL.
const settle = 2 * time.Second

func runInBubble(s Script) (res vt.Result) {
	if len(s.Sess) == 0 {
		return
	}
	w := &world{start: time.Now(), content: map[string]int{}}
	ctx := context.Background()
	capOf := func(nk int) string {
		switch s.Caps[nk] {
		case "on", "off":
			return s.Caps[nk]
		}
		return "default"
	}

	// ---- server ----
	var sopts mcp.ServerOptions
	sopts.SubscribeHandler = func(_ context.Context, r *mcp.SubscribeRequest) error {
		if s.RejectSub > 0 && r.Params.URI == uriOf(s.RejectSub-1) {
			return errors.New("subscription refused")
		}
		return nil
	}
	sopts.UnsubscribeHandler = func(context.Context, *mcp.UnsubscribeRequest) error { return nil }
	if capOf(0) != "default" || capOf(1) != "default" || capOf(2) != "default" {
		c := &mcp.ServerCapabilities{}
		if v := capOf(0); v != "default" {
			c.Tools = &mcp.ToolCapabilities{ListChanged: v == "on"}
		}
		if v := capOf(1); v != "default" {
			c.Prompts = &mcp.PromptCapabilities{ListChanged: v == "on"}
		}
		if v := capOf(2); v != "default" {
			c.Resources = &mcp.ResourceCapabilities{ListChanged: v == "on", Subscribe: true}
		}
		sopts.Capabilities = c
	}
	server := mcp.NewServer(&mcp.Implementation{Name: "srv", Version: "1"}, &sopts)
	ttl := s.TTLMs
	server.AddReceivingMiddleware(func(next mcp.MethodHandler) mcp.MethodHandler {
		return func(ctx context.Context, method string, req mcp.Request) (mcp.Result, error) {
			r, err := next(ctx, method, req)
			if err == nil {
				switch x := r.(type) {
				case *mcp.ListToolsResult:
					x.TTLMs = ttl
				case *mcp.ListPromptsResult:
					x.TTLMs = ttl
				case *mcp.ListResourcesResult:
					x.TTLMs = ttl
				case *mcp.ListResourceTemplatesResult:
					x.TTLMs = ttl
				case *mcp.ReadResourceResult:
					x.TTLMs = ttl
				}
			}
			return r, err
		}
	})
	server.AddSendingMiddleware(func(next mcp.MethodHandler) mcp.MethodHandler {
		return func(ctx context.Context, method string, req mcp.Request) (mcp.Result, error) {
			nk := -2
			switch method {
			case listChanged[0]:
				nk = 0
			case listChanged[1]:
				nk = 1
			case listChanged[2]:
				nk = 2
			case updatedMethod:
				nk = -1
			}
			if nk == -2 {
				return next(ctx, method, req)
			}
			ss, _ := req.GetSession().(*mcp.ServerSession)
			r := &sentRec{ss: ss, nk: nk}
			if nk == -1 {
				if p, ok := req.GetParams().(*mcp.ResourceUpdatedNotificationParams); ok && p != nil {
					r.uri = p.URI
				}
			}
			w.mu.Lock()
			w.clock++
			r.idx = w.clock
			r.ver = w.content[r.uri]
			w.sent = append(w.sent, r)
			w.mu.Unlock()
			out, err := next(ctx, method, req)
			w.mu.Lock()
			r.done, r.err = true, err
			w.mu.Unlock()
			return out, err
		}
	})

	// ---- model of the server's features ----
	verCounter := 0
	var states [nKinds][]map[string]int // states[k][j]: name -> version after j changes of kind k
	var changes [nKinds][]changeRec
	var lastEff [3]struct { // last effective, notifiable change per notification kind
		ok         bool
		begin, end int
		at         time.Duration
	}
	readHandler := func(_ context.Context, req *mcp.ReadResourceRequest) (*mcp.ReadResourceResult, error) {
		w.mu.Lock()
		v := w.content[req.Params.URI]
		w.mu.Unlock()
		return &mcp.ReadResourceResult{Contents: []*mcp.ResourceContents{{URI: req.Params.URI, Text: "v" + strconv.Itoa(v)}}}, nil
	}
	apply := func(kind, n int, rm bool, also []int) {
		name := nameOf(kind, n)
		if rm {
			names := []string{name}
			for _, a := range also {
				names = append(names, nameOf(kind, a))
			}
			switch kind {
			case kTool:
				server.RemoveTools(names...)
			case kPrompt:
				server.RemovePrompts(names...)
			case kRes:
				server.RemoveResources(names...)
			case kTmpl:
				server.RemoveResourceTemplates(names...)
			}
			return
		}
		verCounter++
		d := "v" + strconv.Itoa(verCounter)
		switch kind {
		case kTool:
			server.AddTool(&mcp.Tool{Name: name, Description: d, InputSchema: json.RawMessage(`{"type":"object"}`)},
				func(context.Context, *mcp.CallToolRequest) (*mcp.CallToolResult, error) {
					return &mcp.CallToolResult{}, nil
				})
		case kPrompt:
			server.AddPrompt(&mcp.Prompt{Name: name, Description: d},
				func(context.Context, *mcp.GetPromptRequest) (*mcp.GetPromptResult, error) {
					return &mcp.GetPromptResult{}, nil
				})
		case kRes:
			server.AddResource(&mcp.Resource{URI: name, Name: "r" + strconv.Itoa(n), Description: d}, readHandler)
		case kTmpl:
			server.AddResourceTemplate(&mcp.ResourceTemplate{URITemplate: name, Name: "t" + strconv.Itoa(n), Description: d}, readHandler)
		}
	}
	for k := 0; k < nKinds; k++ {
		st := map[string]int{}
		for _, n := range s.Init[k] {
			n = ((n % 3) + 3) % 3
			apply(k, n, false, nil)
			st[nameOf(k, n)] = verCounter
		}
		states[k] = []map[string]int{st}
	}
	cur := func(k int) map[string]int { return states[k][len(states[k])-1] }
	advertised := func(nk int) bool { // is the kind's capability advertised right now (default mode: inferred from features)
		if capOf(nk) != "default" {
			return true
		}
		if nk == kRes {
			return len(cur(kRes)) > 0 || len(cur(kTmpl)) > 0
		}
		return len(cur(nk)) > 0
	}

	// ---- sessions ----
	slots := make([]*slot, len(s.Sess))
	for i, sp := range s.Sess {
		slots[i] = &slot{spec: sp, subs: map[string]int{}}
	}
	live := func() int {
		n := 0
		for _, sl := range slots {
			if sl.state == 1 {
				n++
			}
		}
		return n
	}
	var nt struct{ nearExpiry, inflight, sessInBurst bool }
	pendingTimer := func(now time.Duration) bool {
		for nk := 0; nk < 3; nk++ {
			if lastEff[nk].ok && now-lastEff[nk].at <= debounce {
				return true
			}
		}
		return false
	}

	// connectPhase: "both" connects a slot back to back; "server" only binds the server side of a
	// SlowConnect slot (state 3: the session exists on the server, the peer has not introduced itself);
	// "client" completes such a slot.
	pendingClient := map[int]func() bool{}
	var connectPhase func(i int, phase string)
	connect := func(i int) { connectPhase(i, "both") }
	connectPhase = func(i int, phase string) {
		sl := slots[i]
		if phase == "client" {
			if sl.state != 3 {
				return
			}
			fin := pendingClient[i]
			delete(pendingClient, i)
			if !fin() {
				sl.state = 2
			}
			return
		}
		if sl.state != 0 {
			return
		}
		copts := &mcp.ClientOptions{}
		if sl.spec.H[0] {
			copts.ToolListChangedHandler = func(context.Context, *mcp.ToolListChangedRequest) {}
		}
		if sl.spec.H[1] {
			copts.PromptListChangedHandler = func(context.Context, *mcp.PromptListChangedRequest) {}
		}
		if sl.spec.H[2] {
			copts.ResourceListChangedHandler = func(context.Context, *mcp.ResourceListChangedRequest) {}
		}
		copts.ResourceUpdatedHandler = func(hctx context.Context, r *mcp.ResourceUpdatedNotificationRequest) {
			if !sl.spec.ReadInHandler || sl.cs == nil || r.Params == nil {
				return
			}
			uri := r.Params.URI
			// which send is this? the k-th to this session for this URI that was not refused, k = those handled so far
			w.mu.Lock()
			k := 0
			for _, h := range w.handled {
				if h.slot == i && h.nk == -1 && h.uri == uri {
					k++
				}
			}
			var cand []*sentRec
			for _, sr := range w.sent {
				if sr.nk == -1 && sr.uri == uri && sr.ss == sl.ss && !(sr.done && sr.err != nil) {
					cand = append(cand, sr)
				}
			}
			w.mu.Unlock()
			rr, err := sl.cs.ReadResource(hctx, &mcp.ReadResourceParams{URI: uri})
			if err != nil || len(rr.Contents) != 1 || k >= len(cand) {
				return
			}
			ver, cerr := strconv.Atoi(strings.TrimPrefix(rr.Contents[0].Text, "v"))
			w.mu.Lock()
			if cerr == nil && ver < cand[k].ver {
				w.inHandler = append(w.inHandler, fmt.Sprintf("clause 4: session %d (%s, ttl %dms) was told that %s had changed (sent when the content was v%d) and a ReadResource made inside its ResourceUpdatedHandler returned the older v%d", i, descSess(sl.spec), s.TTLMs, uri, cand[k].ver, ver))
			}
			w.readsInHandler++
			w.mu.Unlock()
		}
		c := mcp.NewClient(&mcp.Implementation{Name: "cli" + strconv.Itoa(i), Version: "1"}, copts)
		c.AddReceivingMiddleware(func(next mcp.MethodHandler) mcp.MethodHandler {
			return func(ctx context.Context, method string, req mcp.Request) (mcp.Result, error) {
				r, err := next(ctx, method, req)
				h := handledRec{slot: i, nk: -2}
				switch method {
				case listChanged[0]:
					h.nk = 0
				case listChanged[1]:
					h.nk = 1
				case listChanged[2]:
					h.nk = 2
				case updatedMethod:
					h.nk = -1
					if p, ok := req.GetParams().(*mcp.ResourceUpdatedNotificationParams); ok && p != nil {
						h.uri = p.URI
					}
				}
				if h.nk != -2 {
					w.mu.Lock()
					w.clock++
					h.idx = w.clock
					w.handled = append(w.handled, h)
					w.mu.Unlock()
				}
				return r, err
			}
		})
		// A legitimate user hook: sending middleware that takes (virtual) time.
		c.AddSendingMiddleware(func(next mcp.MethodHandler) mcp.MethodHandler {
			return func(ctx context.Context, method string, req mcp.Request) (mcp.Result, error) {
				d, _ := ctx.Value(delayKey{}).([2]time.Duration)
				if d[0] > 0 {
					time.Sleep(d[0])
				}
				r, err := next(ctx, method, req)
				if d[1] > 0 {
					time.Sleep(d[1])
				}
				return r, err
			}
		})
		sl.client = c
		var st, ct mcp.Transport
		if sl.spec.SlowConnect {
			// a buffered byte pipe: what the server writes before the client reads does not block it
			a, b := memio.NewPipe()
			st, ct = &mcp.IOTransport{Reader: a, Writer: a}, &mcp.IOTransport{Reader: b, Writer: b}
		} else {
			st, ct = mcp.NewInMemoryTransports()
		}
		if sl.spec.DropNotes {
			st = &dropNotesTransport{inner: st}
		}
		var err error
		clientConnect := func() {
			var o *mcp.ClientSessionOptions
			if sl.spec.Legacy {
				o = &mcp.ClientSessionOptions{ProtocolVersion: legacyVersion}
			}
			sl.cs, err = c.Connect(ctx, ct, o)
		}
		finish := func(ok bool) bool {
			if !ok || err != nil || sl.cs == nil {
				res.Failf("harness: connecting session %d over the in-memory transport: finished=%v err=%v", i, ok, err)
				sl.state = 2
				return false
			}
			want := modernVersion
			if sl.spec.Legacy {
				want = legacyVersion
			}
			// a default Connect may negotiate a protocol newer than the one this harness was written against
			if got := sl.cs.InitializeResult().ProtocolVersion; got != want && (sl.spec.Legacy || got < want) {
				res.Failf("harness: session %d negotiated %q, the script needs %q", i, got, want)
			}
			for nk := 0; nk < 3; nk++ {
				switch {
				case capOf(nk) == "off":
					sl.entitled[nk] = 0
				case sl.spec.DropNotes:
					sl.entitled[nk] = -1 // its transport refuses them: nothing is expected of it
				case sl.spec.Legacy:
					sl.entitled[nk] = 1
				case !sl.spec.H[nk]:
					sl.entitled[nk] = 0
				case advertised(nk):
					sl.entitled[nk] = 1 // Connect opened subscriptions/listen for it and the server advertises listChanged
				default:
					// The capability was not advertised when the client connected (no such feature yet and
					// no explicit capability): whether the listen request is honoured is not stated.
					sl.entitled[nk] = -1
				}
			}
			sl.state = 1
			sl.connected = w.tick()
			return true
		}
		if sl.spec.SlowConnect && phase == "server" {
			ok := runSync(func() { sl.ss, err = server.Connect(ctx, st, nil) })
			if !ok || err != nil {
				finish(false)
				return
			}
			sl.state = 3
			pendingClient[i] = func() bool { return finish(runSoon(clientConnect)) }
			return
		}
		if sl.spec.SlowConnect {
			ok := runSync(func() { sl.ss, err = server.Connect(ctx, st, nil) })
			if ok && err == nil {
				time.Sleep(15 * time.Millisecond)
				synctest.Wait()
				ok = runSoon(clientConnect)
			}
			finish(ok)
			return
		}
		// back to back: over net.Pipe a server write meets no reader until the client has connected
		finish(runSoon(func() {
			if sl.ss, err = server.Connect(ctx, st, nil); err == nil {
				clientConnect()
			}
		}))
	}

	closeSess := func(i int) {
		sl := slots[i]
		if sl.state != 1 {
			return
		}
		sl.closeBeg = w.tick()
		done := make(chan struct{})
		go func() { defer close(done); sl.cs.Close() }()
		synctest.Wait()
		for n := 0; n < 100; n++ { // Close may wait for calls that the delaying middleware still holds
			select {
			case <-done:
				n = 100
			default:
				res.Class("close_needed_time")
				time.Sleep(time.Millisecond)
				synctest.Wait()
			}
		}
		sl.state = 2
		sl.subs = map[string]int{}
		sl.closed = w.tick()
	}

	// judgeQuiescent is clause 1; it is called after a pause well beyond the debounce period.
	slotOfSS := func(ss *mcp.ServerSession) int {
		for i, sl := range slots {
			if sl.ss != nil && sl.ss == ss {
				return i
			}
		}
		return -1
	}
	judgeQuiescent := func() {
		w.mu.Lock()
		defer w.mu.Unlock()
		for nk := 0; nk < 3; nk++ {
			le := lastEff[nk]
			if !le.ok {
				continue
			}
			for i, sl := range slots {
				if sl.state != 1 || sl.entitled[nk] != 1 || sl.connected > le.begin {
					continue
				}
				delivered, after, afterIdx, handledAfter := 0, false, 0, false
				for _, r := range w.sent {
					if r.nk == nk && r.ss == sl.ss && r.done && r.err == nil {
						delivered++
						if r.idx > le.end && !after {
							after, afterIdx = true, r.idx
						}
					}
				}
				for _, h := range w.handled {
					if h.slot == i && h.nk == nk && after && h.idx > afterIdx {
						handledAfter = true
					}
				}
				if !after {
					res.Failf("clause 1: session %d (%s) is entitled to %s and stayed connected, but no such notification was sent to it after the last change of the burst (change applied at logical time %d, virtual %v; now %v; %d were delivered to it earlier)",
						i, descSess(sl.spec), listChanged[nk], le.end, le.at, time.Since(w.start), delivered)
				} else if !handledAfter && sl.spec.H[nk] {
					// "at least one after the last change": the client must have handled the notification that was
					// written after the burst (or a later one); earlier ones it may have coalesced or, before it had
					// introduced itself, dropped. Judged where the client has a handler for the kind.
					res.Failf("clause 1: %s was written to session %d (%s) after the last change (logical time %d; %d written in all) but its client handled none of them after quiescence",
						listChanged[nk], i, descSess(sl.spec), afterIdx, delivered)
				}
			}
		}
	}

	// ---- timeline ----
	for i := range slots {
		if slots[i].spec.Initial {
			connect(i)
		}
	}
	// A "connect" of a SlowConnect slot becomes: bind the server side; one feature change 1 ms later (taken
	// from the event's own kind/name/rm fields); the client side 15 ms after that.
	var events []Event
	for _, ev := range s.Events {
		si := ((ev.Sess % len(slots)) + len(slots)) % len(slots)
		if ev.Op == "connect" && slots[si].spec.SlowConnect {
			events = append(events, Event{Dt: ev.Dt, Op: "sconnect", Sess: ev.Sess},
				Event{Dt: int64(time.Millisecond), Op: "change", Kind: ev.Kind, Name: ev.Name, Rm: ev.Rm, Also: ev.Also},
				Event{Dt: int64(15 * time.Millisecond), Op: "cconnect", Sess: ev.Sess})
			continue
		}
		events = append(events, ev)
	}
	var maxDelay time.Duration
	for _, ev := range events {
		if len(res.Violations) > 0 {
			break
		}
		if ev.Dt > 0 {
			time.Sleep(time.Duration(ev.Dt))
		}
		now := time.Since(w.start)
		si := ((ev.Sess % len(slots)) + len(slots)) % len(slots)
		name := ((ev.Name % 3) + 3) % 3
		kind := ((ev.Kind % nKinds) + nKinds) % nKinds
		switch ev.Op {
		case "change":
			nk := nkOf(kind)
			_, had := cur(kind)[nameOf(kind, name)]
			for _, a := range ev.Also {
				if _, h := cur(kind)[nameOf(kind, a)]; h {
					had = true
				}
			}
			if len(ev.Also) > 0 {
				res.Class("remove_call_naming_several_features")
			}
			eff := !ev.Rm || had
			if eff && capOf(nk) != "off" && lastEff[nk].ok {
				if d := now - lastEff[nk].at; d >= debounce-1 && d <= debounce+1 {
					nt.nearExpiry = true
				}
			}
			b := w.tick()
			apply(kind, name, ev.Rm, ev.Also)
			e := w.tick()
			next := maps.Clone(cur(kind))
			if ev.Rm {
				delete(next, nameOf(kind, name))
				for _, a := range ev.Also {
					delete(next, nameOf(kind, a))
				}
			} else {
				next[nameOf(kind, name)] = verCounter
			}
			states[kind] = append(states[kind], next)
			changes[kind] = append(changes[kind], changeRec{begin: b, end: e, effective: eff, at: now})
			if eff && capOf(nk) != "off" && live() > 0 {
				lastEff[nk].ok, lastEff[nk].begin, lastEff[nk].end, lastEff[nk].at = true, b, e, now
			}
		case "sconnect":
			connectPhase(si, "server")
			res.Class("session_bound_before_the_peer_introduced_itself")
		case "cconnect":
			connectPhase(si, "client")
		case "connect":
			if slots[si].state == 0 && pendingTimer(now) {
				nt.sessInBurst = true
			}
			connect(si)
		case "close":
			if slots[si].state == 1 && pendingTimer(now) {
				nt.sessInBurst = true
			}
			closeSess(si)
		case "sub":
			sl := slots[si]
			if sl.state != 1 {
				break
			}
			uri := uriOf(name)
			var err error
			ok := runSoon(func() { err = sl.cs.Subscribe(ctx, &mcp.SubscribeParams{URI: uri}) })
			if !ok {
				res.Failf("harness: Subscribe(%s) on session %d did not return", uri, si)
				break
			}
			refused := s.RejectSub > 0 && uri == uriOf(s.RejectSub-1)
			if refused {
				res.Class("subscribe_refused_by_handler")
				if sl.spec.Legacy && err == nil {
					// how the refusal is reported to the client is not the property's business (and not documented)
					res.Class("subscribe_refused_but_reported_as_success")
				}
				break // not subscribed, whatever the protocol version
			}
			if err != nil {
				res.Class("subscribe_error")
				break
			}
			if sl.spec.DropNotes {
				sl.subs[uri] = -1 // subscribed, but its transport refuses the notifications
			} else if sl.spec.Legacy {
				sl.subs[uri] = 1
			} else if _, dup := sl.subs[uri]; !dup {
				// 2026-07-28: Subscribe opens a dedicated subscriptions/listen stream for the uri and does
				// not wait for the acknowledgement; a second Subscribe for the same uri is a documented no-op.
				if capOf(kRes) != "default" || advertised(kRes) {
					sl.subs[uri] = 1
				} else {
					sl.subs[uri] = -1 // resources.subscribe not advertised at this moment: outcome not stated
				}
			}
		case "unsub":
			sl := slots[si]
			if sl.state != 1 {
				break
			}
			uri := uriOf(name)
			var err error
			ok := runSoon(func() { err = sl.cs.Unsubscribe(ctx, &mcp.UnsubscribeParams{URI: uri}) })
			if !ok {
				res.Failf("harness: Unsubscribe(%s) on session %d did not return", uri, si)
				break
			}
			if err != nil {
				res.Class("unsubscribe_error")
				break
			}
			delete(sl.subs, uri)
		case "updated":
			uri := uriOf(name)
			if ev.Bump {
				w.mu.Lock()
				w.content[uri]++
				w.mu.Unlock()
			}
			b := w.tick()
			var err error
			ok := runSync(func() { err = server.ResourceUpdated(ctx, &mcp.ResourceUpdatedNotificationParams{URI: uri}) })
			e := w.tick()
			if !ok {
				res.Class("updated_blocked")
				time.Sleep(11 * time.Second) // its own 10s timeout
				synctest.Wait()
				break
			}
			if err != nil {
				res.Class("updated_error")
			}
			// clause 3: exactly the currently subscribed sessions.
			w.mu.Lock()
			targeted := map[int]bool{}
			for _, r := range w.sent {
				if r.nk == -1 && r.idx > b && r.idx < e {
					j := slotOfSS(r.ss)
					if r.uri != uri {
						res.Failf("clause 3: ResourceUpdated(%s) sent a notification for %q", uri, r.uri)
					}
					if j < 0 {
						res.Failf("clause 3: ResourceUpdated(%s) targeted a session the harness never connected", uri)
						continue
					}
					if targeted[j] {
						res.Class("updated_twice_to_one_session")
					}
					targeted[j] = true
				}
			}
			w.mu.Unlock()
			nsub := 0
			for j, sl := range slots {
				want, known := false, true
				switch {
				case sl.state == 0:
				case sl.state == 2:
				case sl.subs[uri] == 1:
					want = true
				case sl.subs[uri] == -1:
					known = false
				}
				if !known {
					continue
				}
				if want {
					nsub++
				}
				switch {
				case want && !targeted[j]:
					res.Failf("clause 3: session %d (%s) is subscribed to %s but ResourceUpdated did not notify it", j, descSess(sl.spec), uri)
				case !want && targeted[j] && sl.state == 2:
					res.Failf("clause 3: session %d (%s) was closed (settled at logical time %d) but ResourceUpdated(%s) still targets it: its subscription was not forgotten", j, descSess(sl.spec), sl.closed, uri)
				case !want && targeted[j]:
					res.Failf("clause 3: session %d (%s) is not subscribed to %s but ResourceUpdated notified it", j, descSess(sl.spec), uri)
				}
			}
			if nsub > 0 {
				res.Class("updated_with_subscribers")
			} else {
				res.Class("updated_without_subscribers")
			}
		case "list", "read":
			sl := slots[si]
			if sl.state != 1 {
				break
			}
			pre, post := time.Duration(max(ev.Pre, 0)), time.Duration(max(ev.Post, 0))
			if pre+post > maxDelay {
				maxDelay = pre + post
			}
			cr := &callRec{slot: si, read: ev.Op == "read", kind: kind, post: int64(post)}
			if cr.read {
				cr.uri = uriOf(name)
			}
			w.mu.Lock()
			w.calls = append(w.calls, cr)
			w.mu.Unlock()
			cctx := context.WithValue(ctx, delayKey{}, [2]time.Duration{pre, post})
			cs := sl.cs
			go func() {
				cr.issued = w.tick()
				got := map[string]int{}
				var err error
				ver := -1
				switch {
				case cr.read:
					var r *mcp.ReadResourceResult
					if r, err = cs.ReadResource(cctx, &mcp.ReadResourceParams{URI: cr.uri}); err == nil {
						if len(r.Contents) == 1 {
							ver = parseVer(r.Contents[0].Text)
						}
					}
				case cr.kind == kTool:
					var r *mcp.ListToolsResult
					if r, err = cs.ListTools(cctx, nil); err == nil {
						for _, t := range r.Tools {
							got[t.Name] = parseVer(t.Description)
						}
					}
				case cr.kind == kPrompt:
					var r *mcp.ListPromptsResult
					if r, err = cs.ListPrompts(cctx, nil); err == nil {
						for _, p := range r.Prompts {
							got[p.Name] = parseVer(p.Description)
						}
					}
				case cr.kind == kRes:
					var r *mcp.ListResourcesResult
					if r, err = cs.ListResources(cctx, nil); err == nil {
						for _, x := range r.Resources {
							got[x.URI] = parseVer(x.Description)
						}
					}
				default:
					var r *mcp.ListResourceTemplatesResult
					if r, err = cs.ListResourceTemplates(cctx, nil); err == nil {
						for _, x := range r.ResourceTemplates {
							got[x.URITemplate] = parseVer(x.Description)
						}
					}
				}
				w.mu.Lock()
				w.clock++
				cr.returned = w.clock
				cr.got, cr.ver, cr.err, cr.done = got, ver, err, true
				w.mu.Unlock()
			}()
		case "quiesce":
			time.Sleep(settle)
			synctest.Wait()
			judgeQuiescent()
		}
		synctest.Wait()
	}

	// ---- final quiescence ----
	time.Sleep(maxDelay + settle)
	synctest.Wait()
	if len(res.Violations) == 0 {
		judgeQuiescent()
	}
	endClock := w.tick()

	// ---- clause 2 and "closed sessions are forgotten", over the whole history ----
	w.mu.Lock()
	for _, r := range w.sent {
		j := slotOfSS(r.ss)
		if j < 0 {
			res.Failf("harness: a notification was sent to a session the harness does not know")
			continue
		}
		sl := slots[j]
		if sl.closed != 0 && r.idx > sl.closed {
			what := updatedMethod + " " + r.uri
			if r.nk >= 0 {
				what = listChanged[r.nk]
			}
			res.Failf("closed sessions are forgotten: session %d (%s) had closed (settled at logical time %d) but %s was sent to it at logical time %d", j, descSess(sl.spec), sl.closed, what, r.idx)
		}
		if r.nk < 0 {
			continue
		}
		if capOf(r.nk) == "off" {
			res.Failf("clause 2: the server's %s capability has listChanged=false but %s was sent to session %d (%s)", kindName[r.nk], listChanged[r.nk], j, descSess(sl.spec))
			continue
		}
		// Before Connect has returned the server cannot know the protocol version yet; judged only afterwards.
		if !sl.spec.Legacy && sl.entitled[r.nk] == 0 && sl.connected != 0 && r.idx > sl.connected {
			res.Failf("clause 2: session %d is a 2026-07-28 session without a %s subscription (no handler, so Connect did not ask for it) but the notification was sent to it at logical time %d", j, listChanged[r.nk], r.idx)
		}
	}

	// ---- clause 4: a list/read issued after a handled notification is at least as new as that notification ----
	deliveredTo := func(slotIdx, nk int, uri string) []*sentRec {
		var out []*sentRec
		for _, r := range w.sent {
			if r.nk == nk && r.uri == uri && r.ss == slots[slotIdx].ss && r.done && r.err == nil {
				out = append(out, r)
			}
		}
		return out
	}
	for _, c := range w.inHandler {
		res.Failf("%s", c)
	}
	if w.readsInHandler > 0 {
		res.Class("resource_read_inside_the_updated_handler")
	}
	ncalls, nerr, npending, judged := 0, 0, 0, 0
	for _, c := range w.calls {
		ncalls++
		if !c.done {
			npending++
			continue
		}
		if c.err != nil {
			nerr++
			continue
		}
		sl := slots[c.slot]
		nk, uri := nkOf(c.kind), ""
		if c.read {
			nk, uri = -1, c.uri
		}
		nh := 0
		for _, h := range w.handled {
			if h.slot == c.slot && h.nk == nk && h.uri == uri {
				if h.idx < c.issued {
					nh++
				} else if h.idx < c.returned {
					nt.inflight = true
					if !sl.spec.Legacy && s.TTLMs > 0 && c.post > 0 {
						res.Class("cache_fill_window_hit")
					}
				}
			}
		}
		var last *sentRec
		if nh > 0 {
			d := deliveredTo(c.slot, nk, uri)
			if nh > len(d) {
				res.Failf("harness: session %d handled %d notifications (%d,%s) but only %d were recorded as sent", c.slot, nh, nk, uri, len(d))
				continue
			}
			last = d[nh-1]
			judged++
		}
		if c.read {
			if last != nil && c.ver < last.ver {
				res.Failf("clause 4: session %d (%s, ttl %dms) handled %s for %s that was sent when the content was v%d, and a ReadResource issued afterwards (logical %d > handled) returned the older v%d",
					c.slot, descSess(sl.spec), s.TTLMs, updatedMethod, uri, last.ver, c.issued, c.ver)
			}
			if c.ver > w.content[uri] || c.ver < 0 {
				res.Failf("clause 4: ReadResource(%s) returned content version %d which the resource never had (current v%d)", uri, c.ver, w.content[uri])
			}
			continue
		}
		lo, hi := 0, 0
		for _, ch := range changes[c.kind] {
			if last != nil && ch.end < last.idx {
				lo++
			}
			if ch.begin < c.returned {
				hi++
			}
		}
		match := -1
		for j := 0; j <= hi && j < len(states[c.kind]); j++ {
			if maps.Equal(states[c.kind][j], c.got) {
				match = j // keep the newest matching state
			}
		}
		switch {
		case match < 0:
			res.Failf("clause 4: session %d (%s) list of %ss returned %s, which is not a state the server has been in (current %s)", c.slot, descSess(sl.spec), kindName[c.kind], fmtSet(c.got), fmtSet(cur(c.kind)))
		case match < lo:
			res.Failf("clause 4: session %d (%s, ttl %dms) handled %s (sent at logical time %d, after %d changes of the %s set had been applied) and a list issued afterwards (logical time %d) returned the older state #%d %s; the server state at the notification was #%d %s",
				c.slot, descSess(sl.spec), s.TTLMs, listChanged[nk], last.idx, lo, kindName[c.kind], c.issued, match, fmtSet(c.got), lo, fmtSet(states[c.kind][lo]))
		}
	}
	nsent, nhandled := len(w.sent), len(w.handled)
	w.mu.Unlock()
	_ = endClock

	// ---- statistics ----
	res.NonTrivial = nt.nearExpiry || nt.inflight || nt.sessInBurst
	if nt.nearExpiry {
		res.Class("nt_change_within_1ns_of_expiry")
	}
	if nt.inflight {
		res.Class("nt_call_in_flight_when_notification_handled")
	}
	if nt.sessInBurst {
		res.Class("nt_session_connect_or_close_inside_burst")
	}
	if s.TTLMs > 0 {
		res.Class("ttl_positive")
	} else {
		res.Class("ttl_zero")
	}
	if judged > 0 {
		res.Class("clause4_judged_call")
	}
	if nsent > 0 {
		res.Class("some_notification_sent")
	}
	if nhandled > 0 {
		res.Class("some_notification_handled")
	}
	if npending > 0 {
		res.Class("call_never_returned")
	}
	if nerr > 0 {
		res.Class("call_error")
	}
	nLegacy, nSub, nNoSub := 0, 0, 0
	for _, sl := range slots {
		if sl.state == 0 {
			continue
		}
		switch {
		case sl.spec.Legacy:
			nLegacy++
		case sl.spec.H[0] || sl.spec.H[1] || sl.spec.H[2]:
			nSub++
		default:
			nNoSub++
		}
		for nk := 0; nk < 3; nk++ {
			if sl.entitled[nk] == -1 {
				res.Class("entitlement_indeterminate")
				break
			}
		}
	}
	if nLegacy > 0 && nSub > 0 {
		res.Class("mixed_legacy_and_subscribed")
	}
	if nNoSub > 0 {
		res.Class("has_modern_without_subscription")
	}
	for nk := 0; nk < 3; nk++ {
		if capOf(nk) == "off" {
			res.Class("some_capability_off")
			break
		}
	}
	b, _ := json.Marshal(s)
	res.Desc = string(b)

	// ---- teardown ----
	for i := range slots {
		if slots[i].state == 1 {
			cs := slots[i].cs
			go cs.Close()
		}
	}
	synctest.Wait()
	time.Sleep(30 * time.Second)
	synctest.Wait()
	return res
}

func descSess(sp Sess) string {
	if sp.Legacy {
		return "legacy " + legacyVersion
	}
	h := ""
	for i, n := range []string{"tools", "prompts", "resources"} {
		if sp.H[i] {
			h += "+" + n
		}
	}
	if h == "" {
		h = " none"
	}
	return modernVersion + " handlers" + h
}

var prop = vt.Register(&vt.Prop[Script]{Property: "C18", Name: "notify", Gen: gen, Run: run})

func TestC18_Notify(t *testing.T) { theT = t; prop.Check(t) }

func TestReplay(t *testing.T)  { theT = t; vt.Replay(t) }
func TestRegress(t *testing.T) { theT = t; vt.Regress(t, "C18") }
func TestKnown(t *testing.T)   { theT = t; vt.Known(t, "C18") }
