package c18

// The client's own feature list (prop "roots"): roots are the one list a client owns, and its changes are
// announced to the servers with notifications/roots/list_changed under the same rule: after a burst of
// effective changes every connected server gets at least one notification sent after the last change - if the
// client advertised roots.listChanged - and none at all if it did not. What was advertised is read on the
// server side, from the initialize request the server received, not from the client's configuration.

import (
	"context"
	"fmt"
	"strings"
	"sync"
	"testing"
	"testing/synctest"
	"time"

	"github.com/modelcontextprotocol/go-sdk/mcp"
	"github.com/modelcontextprotocol/go-sdk/verif/vt"
	"pgregory.net/rapid"
)

type RootsOp struct {
	Rm    bool  `json:"rm,omitempty"`
	Names []int `json:"names"` // root indices 0..3 (a remove may name roots that are not there)
	DtMs  int   `json:"dt_ms"` // virtual time before the op
}

type RootsScript struct {
	// Caps: how ClientOptions.Capabilities is set: nil | v2on | v2off | v1on | v1off | v2off_v1on | v2on_v1off | noroots
	Caps    string    `json:"caps"`
	Servers int       `json:"servers"`
	Version string    `json:"version"` // legacy protocol version of the sessions
	Init    []int     `json:"init"`    // roots present before connecting
	Ops     []RootsOp `json:"ops"`
}

func genRoots(rt *rapid.T) RootsScript {
	s := RootsScript{
		Caps:    rapid.SampledFrom([]string{"nil", "v2on", "v2off", "v1on", "v1off", "v2off_v1on", "v2on_v1off", "noroots"}).Draw(rt, "caps"),
		Servers: rapid.IntRange(1, 3).Draw(rt, "servers"),
		Version: rapid.SampledFrom([]string{"2025-06-18", "2025-11-25", "2025-03-26"}).Draw(rt, "version"),
		Init:    rapid.SliceOfNDistinct(rapid.IntRange(0, 3), 0, 3, rapid.ID[int]).Draw(rt, "init"),
	}
	n := rapid.IntRange(1, 8).Draw(rt, "ops")
	for i := 0; i < n; i++ {
		s.Ops = append(s.Ops, RootsOp{
			Rm:    rapid.IntRange(0, 2).Draw(rt, "rm") == 0,
			Names: rapid.SliceOfNDistinct(rapid.IntRange(0, 3), 1, 3, rapid.ID[int]).Draw(rt, "names"),
			DtMs:  rapid.SampledFrom([]int{0, 0, 1, 50}).Draw(rt, "dt"),
		})
	}
	return s
}

func runRoots(s RootsScript) (res vt.Result) {
	if p := vt.Bubble(theT, func() { res = runRootsInBubble(s) }); p != "" {
		res.Class("teardown_leftover")
	}
	return res
}

func rootURI(n int) string { return fmt.Sprintf("file:///root%d", n) }

func runRootsInBubble(s RootsScript) (res vt.Result) {
	var caps *mcp.ClientCapabilities
	on, off := &mcp.RootCapabilities{ListChanged: true}, &mcp.RootCapabilities{}
	switch s.Caps {
	case "v2on":
		caps = &mcp.ClientCapabilities{RootsV2: on}
	case "v2off":
		caps = &mcp.ClientCapabilities{RootsV2: off}
	case "v1on":
		caps = &mcp.ClientCapabilities{}
		caps.Roots.ListChanged = true
	case "v1off", "noroots":
		caps = &mcp.ClientCapabilities{}
	case "v2off_v1on":
		caps = &mcp.ClientCapabilities{RootsV2: off}
		caps.Roots.ListChanged = true
	case "v2on_v1off":
		caps = &mcp.ClientCapabilities{RootsV2: on}
	}
	client := mcp.NewClient(&mcp.Implementation{Name: "cli", Version: "1"}, &mcp.ClientOptions{Capabilities: caps})
	cur := map[int]bool{}
	for _, n := range s.Init {
		cur[n] = true
		client.AddRoots(&mcp.Root{URI: rootURI(n), Name: "r"})
	}
	type srv struct {
		mu         sync.Mutex
		got        []time.Time
		ss         *mcp.ServerSession
		cs         *mcp.ClientSession
		advertised bool
	}
	var servers []*srv
	defer func() {
		for _, sv := range servers {
			go sv.cs.Close()
		}
		synctest.Wait()
	}()
	for i := 0; i < s.Servers; i++ {
		sv := &srv{}
		server := mcp.NewServer(&mcp.Implementation{Name: fmt.Sprintf("srv%d", i), Version: "1"}, &mcp.ServerOptions{
			RootsListChangedHandler: func(context.Context, *mcp.RootsListChangedRequest) {
				sv.mu.Lock()
				sv.got = append(sv.got, time.Now())
				sv.mu.Unlock()
			},
		})
		ct, st := mcp.NewInMemoryTransports()
		ss, err := server.Connect(context.Background(), st, nil)
		if err != nil {
			res.Failf("harness: %v", err)
			return
		}
		cs, err := client.Connect(context.Background(), ct, &mcp.ClientSessionOptions{ProtocolVersion: s.Version})
		if err != nil {
			res.Failf("harness: connect: %v", err)
			return
		}
		sv.ss, sv.cs = ss, cs
		synctest.Wait()
		if ip := ss.InitializeParams(); ip != nil && ip.Capabilities != nil {
			sv.advertised = ip.Capabilities.Roots.ListChanged
			if ip.Capabilities.RootsV2 != nil {
				sv.advertised = ip.Capabilities.RootsV2.ListChanged
			}
		}
		servers = append(servers, sv)
	}
	var desc strings.Builder
	var lastEffective time.Time
	anyEffective := false
	for _, op := range s.Ops {
		time.Sleep(time.Duration(op.DtMs) * time.Millisecond)
		effective := false
		if op.Rm {
			var uris []string
			for _, n := range op.Names {
				if cur[n] {
					effective = true
				}
				delete(cur, n)
				uris = append(uris, rootURI(n))
			}
			client.RemoveRoots(uris...)
		} else {
			var roots []*mcp.Root
			for _, n := range op.Names {
				cur[n] = true
				roots = append(roots, &mcp.Root{URI: rootURI(n), Name: "r"})
			}
			effective = true // an added root replaces one of the same URI: announced as a change either way
			client.AddRoots(roots...)
		}
		if effective {
			lastEffective, anyEffective = time.Now(), true
		}
		fmt.Fprintf(&desc, "%v%v,", map[bool]string{true: "-", false: "+"}[op.Rm], op.Names)
		synctest.Wait()
	}
	time.Sleep(time.Minute)
	synctest.Wait()
	for i, sv := range servers {
		sv.mu.Lock()
		got := append([]time.Time(nil), sv.got...)
		sv.mu.Unlock()
		if !sv.advertised {
			if len(got) > 0 {
				res.Failf("server %d received %d roots/list_changed notification(s) although the client advertised no roots.listChanged capability to it (client capabilities set as %q)", i, len(got), s.Caps)
			}
			continue
		}
		if anyEffective {
			late := false
			for _, t := range got {
				if !t.Before(lastEffective) {
					late = true
				}
			}
			if !late {
				res.Failf("server %d, to which the client advertised roots.listChanged (capabilities set as %q), received %d notification(s), none of them after the last effective change of the roots", i, s.Caps, len(got))
			}
		}
	}
	res.Desc = fmt.Sprintf("%s|%d|%s|%v|%s", s.Caps, s.Servers, s.Version, s.Init, desc.String())
	res.NonTrivial = anyEffective && s.Caps != "nil"
	res.Class("client_roots_caps_" + s.Caps)
	return res
}

var rootsProp = vt.Register(&vt.Prop[RootsScript]{Property: "C18", Name: "roots", Gen: genRoots, Run: runRoots})

func TestC18_Roots(t *testing.T) { theT = t; rootsProp.Check(t) }
