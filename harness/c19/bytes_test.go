package c19

// "Never panics on arbitrary bytes" (prop "bytes" + native fuzz targets
// FuzzC19_DecodeMessage / FuzzC19_ContentUnmarshal). Arbitrary, hostile and
// mutated-valid byte strings are fed to jsonrpc.DecodeMessage and to the
// Unmarshal methods of the content-carrying protocol types. Oracle inside:
// no panic; whatever decodes re-encodes to something that decodes to the same
// message (fixpoint); and if the independent reader says the bytes are a valid
// message of the quantified classes, the full wire oracle applies.

import (
	"bytes"
	"encoding/json"
	"fmt"
	internaljson "github.com/modelcontextprotocol/go-sdk/internal/json"
	"io"
	"reflect"
	"regexp"
	"sort"
	"strconv"
	"strings"
	"testing"
	"unicode/utf8"

	"github.com/modelcontextprotocol/go-sdk/jsonrpc"
	"github.com/modelcontextprotocol/go-sdk/mcp"
	"github.com/modelcontextprotocol/go-sdk/verif/vt"
	"pgregory.net/rapid"
)

var (
	canonInt     = regexp.MustCompile(`^(0|-?[1-9][0-9]*)$`)
	surrogateEsc = regexp.MustCompile(`\\u[dD][89a-fA-F]`)
)

// hasDupKeys walks the token stream and reports whether any object repeats a
// member name, or names differ only in case (then "the" member is ambiguous).
func hasDupKeys(b []byte) bool {
	dec := json.NewDecoder(bytes.NewReader(b))
	dec.UseNumber()
	type frame struct {
		obj     bool
		wantKey bool
		seen    map[string]bool
	}
	var st []*frame
	for {
		tok, err := dec.Token()
		if err != nil {
			return err != io.EOF
		}
		top := (*frame)(nil)
		if len(st) > 0 {
			top = st[len(st)-1]
		}
		if d, ok := tok.(json.Delim); ok {
			switch d {
			case '{':
				if top != nil && top.obj {
					top.wantKey = true
				}
				st = append(st, &frame{obj: true, wantKey: true, seen: map[string]bool{}})
			case '[':
				if top != nil && top.obj {
					top.wantKey = true
				}
				st = append(st, &frame{})
			default:
				st = st[:len(st)-1]
			}
			continue
		}
		if top != nil && top.obj {
			if top.wantKey {
				k := string(bytes.ToLower([]byte(tok.(string))))
				if top.seen[k] {
					return true
				}
				top.seen[k] = true
				top.wantKey = false
			} else {
				top.wantKey = true
			}
		}
	}
}

// independentView returns the envelope an independent reader sees in data if
// data is, unambiguously, a valid message of the classes C19 quantifies over.
func independentView(data []byte) (env, bool) {
	if !utf8.Valid(data) || surrogateEsc.Match(data) || bytes.ContainsRune(data, utf8.RuneError) || hasDupKeys(data) {
		return env{}, false
	}
	e, err := readEnv(data)
	if err != nil || !validEnv(e) {
		return env{}, false
	}
	fits := func(tok string) bool {
		_, err := strconv.ParseInt(tok, 10, 64)
		return canonInt.MatchString(tok) && err == nil
	}
	if e.HasID && !e.IDIsString && !fits(e.IDNum) {
		return env{}, false
	}
	if e.HasError {
		m, _ := members(data)
		em, _ := members(m["error"])
		if _, ok := em["message"]; !ok || !fits(e.Code) {
			return env{}, false
		}
	}
	if e.HasMethod && e.Method == "" && vt.Open("F15") {
		return env{}, false
	}
	return e, true
}

// checkDecodeBytes is the oracle shared by the rapid property and the fuzz target.
func checkDecodeBytes(data []byte) (viol string, class string) {
	defer func() {
		if r := recover(); r != nil {
			viol = fmt.Sprintf("panic on input %q: %v", data, r)
		}
	}()
	want, valid := independentView(data)
	msg, err := jsonrpc.DecodeMessage(data)
	if err != nil {
		if valid {
			return fmt.Sprintf("DecodeMessage rejects a valid %s: %v\n wire: %q", envKind(want), err, data), "rejected"
		}
		return "", "rejected"
	}
	got, gerr := envOfMsg(msg)
	if valid {
		if gerr != nil {
			return fmt.Sprintf("decoded message unusable: %v\n wire: %q", gerr, data), "valid"
		}
		if d := diffEnv(want, got); d != "" {
			return fmt.Sprintf("decoded message differs from the wire message: %s\n wire: %q", d, data), "valid"
		}
	}
	out, err := jsonrpc.EncodeMessage(msg)
	if err != nil {
		if valid {
			return fmt.Sprintf("a decoded valid message cannot be re-encoded: %v\n wire: %q", err, data), "valid"
		}
		return "", "accepted-not-reencodable"
	}
	if valid {
		got2, err := readEnv(out)
		if err != nil {
			return fmt.Sprintf("re-encoded bytes unreadable: %v: %q", err, out), "valid"
		}
		if d := diffEnv(want, got2); d != "" {
			return fmt.Sprintf("decode->encode does not preserve the message: %s\n wire in : %q\n wire out: %s", d, data, out), "valid"
		}
		return "", "valid"
	}
	if req, ok := msg.(*jsonrpc.Request); ok && req.Method == "" && vt.Open("F15") {
		return "", "accepted-other"
	}
	// fixpoint relation on whatever was accepted
	msg2, err := jsonrpc.DecodeMessage(out)
	if err != nil {
		return fmt.Sprintf("DecodeMessage rejects the SDK's own encoding %s (of accepted input %q): %v", out, data, err), "accepted-other"
	}
	got2, gerr2 := envOfMsg(msg2)
	if gerr == nil && gerr2 == nil {
		if d := diffEnv(got, got2); d != "" {
			return fmt.Sprintf("decode->encode->decode changes the message: %s\n input: %q\n encoded: %s", d, data, out), "accepted-other"
		}
	}
	return "", "accepted-other"
}

var contentTargets = []struct {
	name string
	zero func() any
}{
	{"CreateMessageWithToolsParams", func() any { return new(mcp.CreateMessageWithToolsParams) }},
	{"CreateMessageWithToolsResult", func() any { return new(mcp.CreateMessageWithToolsResult) }},
	{"CreateMessageResult", func() any { return new(mcp.CreateMessageResult) }},
	{"PromptMessage", func() any { return new(mcp.PromptMessage) }},
	{"SamplingMessage", func() any { return new(mcp.SamplingMessage) }},
	{"CallToolResult", func() any { return new(mcp.CallToolResult) }},
	{"GetPromptResult", func() any { return new(mcp.GetPromptResult) }},
	{"ReadResourceResult", func() any { return new(mcp.ReadResourceResult) }},
	{"ListToolsResult", func() any { return new(mcp.ListToolsResult) }},
	{"InputRequestMap", func() any { return new(mcp.InputRequestMap) }},
	{"InputResponseMap", func() any { return new(mcp.InputResponseMap) }},
	{"CallToolParams", func() any { return new(mcp.CallToolParams) }},
	{"GetPromptParams", func() any { return new(mcp.GetPromptParams) }},
	{"ReadResourceParams", func() any { return new(mcp.ReadResourceParams) }},
	{"CompleteParams", func() any { return new(mcp.CompleteParams) }},
	{"SamplingMessageV2", func() any { return new(mcp.SamplingMessageV2) }},
}

// checkContentBytes: Unmarshal never panics; what it accepts marshals, and the
// marshalling unmarshals to an equal value (second-generation fixpoint).
func checkContentBytes(target int, data []byte) (viol string, class string) {
	tg := contentTargets[((target%len(contentTargets))+len(contentTargets))%len(contentTargets)]
	defer func() {
		if r := recover(); r != nil {
			viol = fmt.Sprintf("panic in (un)marshalling a %s from %q: %v", tg.name, data, r)
		}
	}()
	v1 := tg.zero()
	if err := json.Unmarshal(data, v1); err != nil {
		return "", "rejected"
	}
	b1, err := json.Marshal(v1)
	if err != nil {
		return "", "accepted-not-marshalable"
	}
	// values with input requests are rewritten on purpose when marshalled (elicitation mode inference)
	if bytes.Contains(b1, []byte(`"inputRequests"`)) || tg.name == "InputRequestMap" {
		return "", "accepted-input-requests"
	}
	v2 := tg.zero()
	if err := json.Unmarshal(b1, v2); err != nil {
		return fmt.Sprintf("%s: Unmarshal rejects the SDK's own marshalling %s (of accepted input %q): %v", tg.name, b1, data, err), "accepted"
	}
	if d := deepEq(reflect.ValueOf(v1), reflect.ValueOf(v2), tg.name); d != "" {
		return fmt.Sprintf("%s: unmarshal -> marshal -> unmarshal changes the value: %s\n input: %q\n marshalled: %s", tg.name, d, data, b1), "accepted"
	}
	return "", "accepted"
}

var hostile = []string{
	"", " ", "null", "true", "0", `""`, "[]", "{}", "[", "{", `{"`, `{"jsonrpc"`, `{"jsonrpc":`, "\x00", "\xff\xfe", "\xef\xbb\xbf{}",
	`{"jsonrpc":"2.0"}`, `{"jsonrpc":"2.0","id":null}`, `{"jsonrpc":"2.0","id":{}}`, `{"jsonrpc":"2.0","id":[1]}`, `{"jsonrpc":"2.0","id":true,"method":"m"}`,
	`{"jsonrpc":"2.0","id":1.5,"method":"m"}`, `{"jsonrpc":"2.0","id":1e999,"method":"m"}`, `{"jsonrpc":"2.0","id":-0,"method":"m"}`, `{"jsonrpc":"2.0","id":99999999999999999999,"method":"m"}`,
	`{"jsonrpc":"2.0","id":"\ud800","method":"m"}`, `{"jsonrpc":"2.0","method":5}`, `{"jsonrpc":"2.0","method":null}`, `{"jsonrpc":"2.0","method":["m"]}`, `{"jsonrpc":"2.0","method":"m","params":}`,
	`{"jsonrpc":"2.0","id":1,"error":5}`, `{"jsonrpc":"2.0","id":1,"error":null}`, `{"jsonrpc":"2.0","id":1,"error":{"code":"x"}}`, `{"jsonrpc":"2.0","id":1,"error":{"code":1e3,"message":"m"}}`, `{"jsonrpc":"2.0","id":1,"error":[]}`,
	`{"jsonrpc":2.0,"id":1,"method":"m"}`, `{"jsonrpc":null,"method":"m"}`, `[{"jsonrpc":"2.0","method":"m"}]`, `{"jsonrpc":"2.0","method":"m"}{"jsonrpc":"2.0","method":"n"}`, `{"jsonrpc":"2.0","method":"m"} trailing`,
	`{"jsonrpc":"2.0","id":1,"id":2,"method":"m"}`, `{"jsonrpc":"2.0","id":1,"method":"m","params":{"a":{"a":{"a":{"a":{"a":{"a":{"a":{"a":[[[[[[[[[[[[[[[[[[[[]]]]]]]]]]]]]]]]]]]]}}}}}}}}}`,
	`{"content":[{"type":"text"}]}`, `{"content":[null]}`, `{"content":null}`, `{"content":{"type":"tool_result","content":[{"type":"tool_result"}]}}`, `{"content":{"type":"image","data":"!!"}}`,
	`{"content":[{"type":"text","text":5}]}`, `{"content":{"type":"resource","resource":null}}`, `{"messages":[{"role":"user","content":[{"type":"tool_result","toolUseId":"x","content":[{"type":"text","text":""}]}]}],"maxTokens":1}`,
	`{"content":[],"resultType":"input_required","inputRequests":{"r1":{"method":"elicitation/create","params":{"message":"m","requestedSchema":{"type":"object"}}},"r2":{"method":"roots/list","params":{}},"r3":{"method":"sampling/createMessage","params":{"messages":[],"maxTokens":1}}},"requestState":"s"}`,
	`{"r1":{"method":"elicitation/create","params":{"message":"m"}},"r2":{"method":"roots/list"}}`, `{"r1":{"action":"accept","content":{}},"r2":{"roots":[]}}`,
	`{"name":"t","arguments":{},"inputResponses":{"r1":{"action":"decline"},"r2":{"roots":[{"uri":"file:///a"}]},"r3":{"role":"assistant","model":"m","content":{"type":"text","text":"x"}}},"requestState":"s"}`,
	`{"messages":[],"inputRequests":{"k":{"method":"roots/list","params":null}}}`, `{"ref":{"type":"ref/prompt","name":"p"},"argument":{"name":"a","value":"v"}}`, `{"ref":null,"argument":null}`,
	`{"messages":[null]}`, `{"messages":[{"content":[]}]}`, `{"role":"user","content":{"type":"tool_use","input":null}}`, `{"contents":[null]}`, `{"tools":[null]}`, `{"tools":[{"annotations":null,"inputSchema":null}]}`,
}

type BytesScript struct {
	Target int    `json:"target"` // -1: jsonrpc.DecodeMessage; else index into the content targets
	Data   []byte `json:"data"`
	CaseAt int    `json:"case_at,omitempty"` // which object member (in document order) gets another letter case
}

// checkCaseSensitive: a member whose name differs from a declared one only in letter case is not that
// member. The document with one member re-spelt must decode like the document WITHOUT that member, never
// like the original (unless the member makes no difference anyway).
func checkCaseSensitive(target int, data []byte, at int) (viol string, class string) {
	tg := contentTargets[((target%len(contentTargets))+len(contentTargets))%len(contentTargets)]
	defer func() {
		if r := recover(); r != nil {
			viol = fmt.Sprintf("panic while decoding a re-spelt %s: %v", tg.name, r)
		}
	}()
	var doc any
	if json.Unmarshal(data, &doc) != nil {
		return "", "case:not-json"
	}
	type member struct {
		obj map[string]any
		key string
	}
	var members []member
	var walk func(x any)
	walk = func(x any) {
		switch t := x.(type) {
		case map[string]any:
			keys := make([]string, 0, len(t))
			for k := range t {
				keys = append(keys, k)
			}
			sort.Strings(keys)
			for _, k := range keys {
				if strings.ToUpper(k) != k || strings.ToLower(k) != k {
					members = append(members, member{t, k})
				}
				walk(t[k])
			}
		case []any:
			for _, e := range t {
				walk(e)
			}
		}
	}
	walk(doc)
	if len(members) == 0 {
		return "", "case:no-member"
	}
	// the SDK's own entry point for decoding protocol values (internal/json), as the sessions use it
	decode := func(b []byte) (any, bool) {
		v := tg.zero()
		if err := internaljson.Unmarshal(b, v); err != nil {
			return nil, false
		}
		return v, true
	}
	orig, ok := decode(data)
	if !ok {
		return "", "case:rejected"
	}
	m := members[((at%len(members))+len(members))%len(members)]
	variant := strings.ToUpper(m.key)
	if variant == m.key {
		variant = strings.ToLower(m.key)
	}
	if _, clash := m.obj[variant]; clash {
		return "", "case:clash"
	}
	val := m.obj[m.key]
	delete(m.obj, m.key)
	removedJSON, _ := json.Marshal(doc)
	m.obj[variant] = val
	renamedJSON, _ := json.Marshal(doc)
	removed, okRemoved := decode(removedJSON)
	renamed, okRenamed := decode(renamedJSON)
	same := func(a, b any) bool { return deepEq(reflect.ValueOf(a), reflect.ValueOf(b), tg.name) == "" }
	if okRemoved && same(orig, removed) {
		return "", "case:member-makes-no-difference"
	}
	// the member matters: its re-spelling must not be read as the member
	if okRenamed && same(renamed, orig) {
		return fmt.Sprintf("%s: decoding is not case-sensitive: member %q spelt %q is read like the real one\n re-spelt: %s\n original: %s", tg.name, m.key, variant, renamedJSON, data), "case:judged"
	}
	if okRemoved != okRenamed || (okRemoved && !same(renamed, removed)) {
		// an unknown member may legitimately be kept somewhere (free-form maps, raw JSON): not judged
		return "", "case:kept-as-unknown"
	}
	return "", "case:judged"
}

func mutate(rt *rapid.T, b []byte) []byte {
	out := append([]byte{}, b...)
	for i, n := 0, rapid.IntRange(1, 3).Draw(rt, "mutations"); i < n && len(out) > 0; i++ {
		at := rapid.IntRange(0, len(out)-1).Draw(rt, "at")
		switch rapid.IntRange(0, 5).Draw(rt, "mut") {
		case 0:
			out = out[:at]
		case 1:
			out[at] = rapid.Byte().Draw(rt, "byte")
		case 2:
			out = append(out[:at], append([]byte{rapid.SampledFrom([]byte(`{}[]",:\ 0-e.ntf`)).Draw(rt, "ins")}, out[at:]...)...)
		case 3:
			out = append(out[:at], out[min(len(out), at+rapid.IntRange(1, 8).Draw(rt, "del")):]...)
		case 4:
			end := min(len(out), at+rapid.IntRange(1, 12).Draw(rt, "dup"))
			out = append(out[:end], append(append([]byte{}, out[at:end]...), out[end:]...)...)
		default:
			out = append(out[:at], append([]byte(rapid.SampledFrom([]string{"null", "1e999", "-", "\"", "\\u", "\\ud800", "{}", "[", "\xff"}).Draw(rt, "tok")), out[at:]...)...)
		}
	}
	return out
}

// nullify replaces one value somewhere inside a JSON document by null (or removes a wrapper), keeping the
// document well-formed: decoders meet null exactly where they expect objects, arrays or strings.
func nullify(rt *rapid.T, b []byte) []byte {
	var v any
	if json.Unmarshal(b, &v) != nil {
		return b
	}
	type slot struct {
		set func(any)
	}
	var slots []slot
	var walk func(x any, set func(any))
	walk = func(x any, set func(any)) {
		slots = append(slots, slot{set})
		switch t := x.(type) {
		case map[string]any:
			keys := make([]string, 0, len(t))
			for k := range t {
				keys = append(keys, k)
			}
			sort.Strings(keys)
			for _, k := range keys {
				walk(t[k], func(nv any) { t[k] = nv })
			}
		case []any:
			for i := range t {
				walk(t[i], func(nv any) { t[i] = nv })
			}
		}
	}
	walk(v, func(nv any) { v = nv })
	sl := slots[rapid.IntRange(0, len(slots)-1).Draw(rt, "null_at")]
	sl.set([]any{nil, nil, map[string]any{}, []any{}, "s", 1.0}[rapid.IntRange(0, 5).Draw(rt, "null_with")])
	out, _ := json.Marshal(v)
	return out
}

func genBytesScript(rt *rapid.T) BytesScript {
	s := BytesScript{Target: rapid.IntRange(-4, len(contentTargets)-1).Draw(rt, "target")}
	if s.Target < -1 {
		s.Target = -1
	}
	var valid []byte
	if s.Target == -1 {
		valid = []byte(renderWire(rt, genMsgModel(rt, allKinds)))
	} else {
		v, _ := genVal(rt).build()
		valid, _ = json.Marshal(v)
	}
	switch rapid.IntRange(0, 7).Draw(rt, "how") {
	case 6:
		s.Data = nullify(rt, valid)
	case 7:
		s.Data = nullify(rt, []byte(rapid.SampledFrom(hostile).Draw(rt, "hostile")))
	case 0:
		s.Data = rapid.SliceOfN(rapid.Byte(), 0, 40).Draw(rt, "raw")
	case 1:
		s.Data = []byte(rapid.SampledFrom(hostile).Draw(rt, "hostile"))
	case 2:
		s.Data = mutate(rt, []byte(rapid.SampledFrom(hostile).Draw(rt, "hostile")))
	case 3:
		s.Data = valid
	default:
		s.Data = mutate(rt, valid)
	}
	s.CaseAt = rapid.IntRange(0, 40).Draw(rt, "case_at")
	return s
}

func runBytes(s BytesScript) (res vt.Result) {
	var viol, class string
	if s.Target < 0 {
		viol, class = checkDecodeBytes(s.Data)
		res.Class("decode:" + class)
	} else {
		viol, class = checkContentBytes(s.Target, s.Data)
		res.Class("content:" + class)
		if viol == "" && class != "rejected" {
			var cclass string
			viol, cclass = checkCaseSensitive(s.Target, s.Data, s.CaseAt)
			res.Class(cclass)
		}
	}
	if viol != "" {
		res.Failf("%s", viol)
	}
	res.Desc = fmt.Sprintf("%d|%x", s.Target, s.Data)
	// non-trivial: bytes the decoder accepted although they are not one of the harness's own valid renderings
	res.NonTrivial = class != "rejected" && class != "valid"
	return
}

var bytesProp = vt.Register(&vt.Prop[BytesScript]{Property: "C19", Name: "bytes", Gen: genBytesScript, Run: runBytes})

func TestC19_Bytes(t *testing.T) { bytesProp.Check(t) }

// ---- native fuzz targets (thorough tier) --------------------------------------------

func FuzzC19_DecodeMessage(f *testing.F) {
	for _, h := range hostile {
		f.Add([]byte(h))
	}
	for _, v := range []string{
		`{"jsonrpc":"2.0","id":1,"method":"ping"}`,
		`{"jsonrpc":"2.0","id":"aA","method":"tools/call","params":{"name":"x","arguments":{"n":1e400}}}`,
		`{"jsonrpc":"2.0","method":"notifications/initialized"}`,
		`{"jsonrpc":"2.0","id":9223372036854775807,"result":{"content":[{"type":"text","text":""}]}}`,
		`{"jsonrpc":"2.0","id":-9007199254740993,"error":{"code":-32601,"message":"nope","data":[null,{"k":"v"}]}}`,
		` { "id" : 0 , "result" : null , "jsonrpc" : "2.0" } `,
		`{"jsonrpc":"2.0","ID":1,"Method":"m","method":"n"}`,
	} {
		f.Add([]byte(v))
	}
	f.Fuzz(func(t *testing.T, data []byte) {
		if viol, _ := checkDecodeBytes(data); viol != "" {
			t.Fatal(viol)
		}
	})
}

func FuzzC19_ContentUnmarshal(f *testing.F) {
	for i, h := range hostile {
		f.Add(i, []byte(h))
	}
	for i, v := range []string{
		`{"messages":[{"role":"user","content":[{"type":"tool_result","toolUseId":"t","content":[{"type":"image","data":"AQI=","mimeType":"image/png"}],"structuredContent":{"a":[1,2]}},{"type":"tool_use","id":"t","name":"n","input":{}}]}],"maxTokens":9223372036854775807,"tools":[{"name":"n","inputSchema":{"type":"object"}}]}`,
		`{"role":"assistant","model":"m","content":[{"type":"text","text":"x","_meta":{"k":1},"annotations":{"audience":["user"],"priority":0.5}},{"type":"audio","data":"","mimeType":""}]}`,
		`{"role":"assistant","model":"m","content":{"type":"text","text":""}}`,
		`{"role":"user","content":{"type":"resource","resource":{"uri":"u","blob":"AA=="}}}`,
		`{"role":"user","content":{"type":"resource_link","uri":"u","name":"n","size":-9223372036854775808}}`,
		`{"content":[{"type":"text","text":"a"},{"type":"resource_link","uri":"u","name":"n"}],"structuredContent":[1,"2"],"isError":true}`,
		`{"messages":[{"role":"user","content":{"type":"text","text":"hi"}}],"description":"d"}`,
		`{"contents":[{"uri":"u","text":"t"},{"uri":"v","blob":""}]}`,
		`{"tools":[],"nextCursor":"c"}`,
	} {
		f.Add(i, []byte(v))
	}
	f.Fuzz(func(t *testing.T, target int, data []byte) {
		if viol, _ := checkContentBytes(target, data); viol != "" {
			t.Fatal(viol)
		}
	})
}
