package c19

// Independent JSON machinery of the C19 checks: a JSON *text* generator (the
// harness writes the bytes itself, the SDK never helps to produce an input) and
// an independent reading of JSON bytes with encoding/json + json.Number (the
// SDK decodes with github.com/segmentio/encoding, so the two are unrelated).

import (
	"bytes"
	"encoding/json"
	"fmt"
	"io"
	"math"
	"math/big"
	"reflect"
	"strconv"
	"strings"
	"unicode/utf8"

	"pgregory.net/rapid"
)

const two53 = int64(1) << 53

var specialStrings = []string{
	"", " ", "a", "id", "0", "1", "null", "true", "\x00", "\n", "\r\n", "\t", "\"", "\\", "\\u0041", "/", "</script>", "<>&",
	"  ", "é", "日本語", "\U0001F600", "a\U0001F600b\u0000c", " x\u0085", "\ufeff", "\ufffd", "\u2028\u2029", "\u007f",
	"9007199254740993", "-1", "1e3", "method", "Method", "{}", "[1]", " leading", "trailing ", "tools/call", "notifications/initialized",
}

// genString draws a logical string (valid UTF-8, any code points).
func genString(rt *rapid.T, label string) string {
	switch rapid.IntRange(0, 3).Draw(rt, label+"_k") {
	case 0:
		return rapid.SampledFrom(specialStrings).Draw(rt, label+"_sp")
	case 1:
		return strings.ToValidUTF8(rapid.StringN(0, 8, 24).Draw(rt, label+"_u"), "?")
	case 2:
		return rapid.SampledFrom(specialStrings).Draw(rt, label+"_a") + rapid.SampledFrom(specialStrings).Draw(rt, label+"_b")
	default:
		return rapid.StringOfN(rapid.RuneFrom([]rune("abcXYZ019_-/. ")), 1, 10, -1).Draw(rt, label+"_s")
	}
}

// genNonEmptyString draws a logical string that is not empty.
func genNonEmptyString(rt *rapid.T, label string) string {
	if s := genString(rt, label); s != "" {
		return s
	}
	return "m"
}

var shortEsc = map[rune]string{'"': `\"`, '\\': `\\`, '\n': `\n`, '\r': `\r`, '\t': `\t`, '\b': `\b`, '\f': `\f`, '/': `\/`}

func uEsc(r rune, upper bool) string {
	f := `\u%04x`
	if upper {
		f = `\u%04X`
	}
	if r > 0xFFFF {
		r -= 0x10000
		return fmt.Sprintf(f, 0xD800+(r>>10)) + fmt.Sprintf(f, 0xDC00+(r&0x3FF))
	}
	return fmt.Sprintf(f, r)
}

// encString renders s as a JSON string token in one of several escaping styles.
// style: 0 minimal escaping, 1 everything as \uXXXX, 2 every other rune as \uxxxx,
// 3 short escapes where they exist (including \/), raw otherwise.
func encString(s string, style int) string {
	var b strings.Builder
	b.WriteByte('"')
	i := 0
	for _, r := range s {
		must := r < 0x20 || r == '"' || r == '\\'
		switch {
		case style == 1, style == 2 && i%2 == 0:
			b.WriteString(uEsc(r, style == 1))
		case must || (style == 3 && r == '/'):
			if e, ok := shortEsc[r]; ok {
				b.WriteString(e)
			} else {
				b.WriteString(uEsc(r, false))
			}
		default:
			b.WriteRune(r)
		}
		i++
	}
	b.WriteByte('"')
	return b.String()
}

var numberTokens = []string{
	"0", "-0", "1", "-1", "9007199254740991", "9007199254740992", "9007199254740993", "-9007199254740993",
	"9223372036854775807", "-9223372036854775808", "9223372036854775808", "18446744073709551616",
	"123456789012345678901234567890", "0.1", "1.0", "-1.50", "3.141592653589793238462643383279", "1e3", "1E3", "1e+3", "1e-3",
	"1e400", "-1E400", "1e-400", "0.000000000000000000000000000001", "2.5e-7", "1.7976931348623157e308", "5e-324", "0e0", "0.0",
}

// floatSafeTokens are numbers encoding/json can read into a float64 (no overflow).
var floatSafeTokens = []string{
	"0", "1", "-1", "42", "9007199254740991", "-9007199254740991", "0.5", "-1.25", "3.75", "1e10", "1.5e-7", "123456.789", "2147483648", "0.1", "1e21", "1e-7",
}

// jgen writes JSON text. ws selects the whitespace style (0 compact, 1 after
// separators, 2 rotating spaces/tabs around every token); no line breaks are
// ever produced so every text is a legal ndjson line / SSE data line.
type jgen struct {
	rt        *rapid.T
	ws        int
	n         int
	floatSafe bool
	noNull    bool
}

func (g *jgen) sp() string {
	switch g.ws {
	case 0:
		return ""
	case 1:
		return " "
	}
	g.n++
	return []string{"", " ", "\t", "  ", " \t "}[g.n%5]
}

func (g *jgen) str(label string) string {
	return encString(genString(g.rt, label), rapid.IntRange(0, 3).Draw(g.rt, label+"_esc"))
}

func (g *jgen) number() string {
	if g.floatSafe {
		return rapid.SampledFrom(floatSafeTokens).Draw(g.rt, "num")
	}
	if rapid.IntRange(0, 3).Draw(g.rt, "num_k") == 0 {
		return strconv.FormatInt(rapid.Int64().Draw(g.rt, "num_i"), 10)
	}
	return rapid.SampledFrom(numberTokens).Draw(g.rt, "num")
}

// value writes an arbitrary JSON value of nesting depth <= depth.
func (g *jgen) value(depth int) string {
	hi := 6
	if depth <= 0 {
		hi = 4
	}
	k := rapid.IntRange(0, hi).Draw(g.rt, "val_k")
	switch k {
	case 0:
		if g.noNull {
			return "0"
		}
		return "null"
	case 1:
		return rapid.SampledFrom([]string{"true", "false"}).Draw(g.rt, "bool")
	case 2:
		return g.number()
	case 3, 4:
		return g.str("str")
	case 5:
		return g.array(depth - 1)
	default:
		return g.object(depth - 1)
	}
}

func (g *jgen) array(depth int) string {
	n := rapid.IntRange(0, 3).Draw(g.rt, "arr_n")
	var b strings.Builder
	b.WriteString("[" + g.sp())
	for i := 0; i < n; i++ {
		if i > 0 {
			b.WriteString(g.sp() + "," + g.sp())
		}
		b.WriteString(g.value(depth))
	}
	b.WriteString(g.sp() + "]")
	return b.String()
}

// object writes an object with distinct keys.
func (g *jgen) object(depth int) string {
	n := rapid.IntRange(0, 3).Draw(g.rt, "obj_n")
	var b strings.Builder
	b.WriteString("{" + g.sp())
	seen := map[string]bool{}
	for i := 0; i < n; i++ {
		k := genString(g.rt, "key")
		for seen[k] {
			k += strconv.Itoa(i)
		}
		seen[k] = true
		if i > 0 {
			b.WriteString(g.sp() + "," + g.sp())
		}
		b.WriteString(encString(k, rapid.IntRange(0, 3).Draw(g.rt, "key_esc")) + g.sp() + ":" + g.sp() + g.value(depth))
	}
	b.WriteString(g.sp() + "}")
	return b.String()
}

// structured writes an object or an array (what JSON-RPC allows as params).
func (g *jgen) structured(depth int) string {
	if rapid.IntRange(0, 3).Draw(g.rt, "st_k") == 0 {
		return g.array(depth - 1)
	}
	return g.object(depth - 1)
}

// ---- ids ---------------------------------------------------------------------

var boundaryInts = []int64{0, 1, -1, 2, 1 << 31, 1 << 32, -(1 << 31) - 1, two53 - 1, two53, two53 + 1, two53 + 2, -two53, -two53 - 1, -two53 + 1, -two53 - 2,
	math.MaxInt64, math.MinInt64, math.MaxInt64 - 1, math.MinInt64 + 1, 1 << 62, (1 << 62) + 1, 1234567890123456789, -1234567890123456789, 1e18, 999999999999999999, 9007199254740993 * 2}

// IDModel is a JSON-RPC id: Kind "s" (string Str), "i" (integer Int), "" (none).
type IDModel struct {
	Kind string `json:"kind,omitempty"`
	Str  string `json:"str,omitempty"`
	Int  int64  `json:"int,omitempty"`
}

func genIDModel(rt *rapid.T, label string) IDModel {
	switch rapid.IntRange(0, 9).Draw(rt, label+"_k") {
	case 0, 1, 2:
		return IDModel{Kind: "s", Str: genString(rt, label+"_s")}
	case 3, 4, 5:
		return IDModel{Kind: "i", Int: rapid.SampledFrom(boundaryInts).Draw(rt, label+"_b")}
	case 6:
		return IDModel{Kind: "i", Int: int64(rapid.IntRange(-3, 1000).Draw(rt, label+"_small"))}
	case 7, 8:
		// anywhere beyond +-2^53, uniformly
		v := two53 + rapid.Int64Range(1, math.MaxInt64-two53).Draw(rt, label+"_big")
		if rapid.Bool().Draw(rt, label+"_neg") {
			v = -v - 1 + rapid.Int64Range(0, 1).Draw(rt, label+"_adj")
		}
		return IDModel{Kind: "i", Int: v}
	default:
		return IDModel{Kind: "i", Int: rapid.Int64().Draw(rt, label+"_i")}
	}
}

func (m IDModel) big() bool {
	return m.Kind == "i" && (m.Int > two53 || m.Int < -two53)
}

// token renders the id as a JSON token (canonical decimal for integers).
func (m IDModel) token(style int) string {
	switch m.Kind {
	case "s":
		return encString(m.Str, style)
	case "i":
		return strconv.FormatInt(m.Int, 10)
	}
	return ""
}

// ---- independent reading -------------------------------------------------------

// parseAny reads exactly one JSON value with encoding/json and json.Number.
func parseAny(b []byte) (any, error) {
	dec := json.NewDecoder(bytes.NewReader(b))
	dec.UseNumber()
	var v any
	if err := dec.Decode(&v); err != nil {
		return nil, err
	}
	if _, err := dec.Token(); err != io.EOF {
		return nil, fmt.Errorf("trailing data after JSON value")
	}
	return v, nil
}

// semEq reports whether two JSON texts denote the same value (numbers by exact text).
func semEq(a, b []byte) bool {
	va, ea := parseAny(a)
	vb, eb := parseAny(b)
	return ea == nil && eb == nil && reflect.DeepEqual(va, vb)
}

// members reads a JSON object into its exact member names (case preserved).
func members(b []byte) (map[string]json.RawMessage, error) {
	if !utf8.Valid(b) {
		return nil, fmt.Errorf("not valid UTF-8")
	}
	v, err := parseAny(b)
	if err != nil {
		return nil, err
	}
	if _, ok := v.(map[string]any); !ok {
		return nil, fmt.Errorf("not a JSON object")
	}
	var m map[string]json.RawMessage
	if err := json.Unmarshal(b, &m); err != nil {
		return nil, err
	}
	return m, nil
}

// jsonDepth is the container nesting depth of a parsed value.
func jsonDepth(v any) int {
	d := 0
	switch t := v.(type) {
	case []any:
		for _, e := range t {
			d = max(d, jsonDepth(e))
		}
		return d + 1
	case map[string]any:
		for _, e := range t {
			d = max(d, jsonDepth(e))
		}
		return d + 1
	}
	return 0
}

// env is the independent reading of one JSON-RPC envelope.
type env struct {
	Version              string
	HasID                bool
	IDIsString           bool
	IDStr                string // decoded string id
	IDNum                string // exact digits of a numeric id
	HasMethod            bool
	Method               string
	HasParams, HasResult bool
	Params, Result       any
	HasError             bool
	Code                 string // exact digits
	Message              string
	HasData              bool
	Data                 any
}

func (e env) String() string {
	b, _ := json.Marshal(e)
	return string(b)
}

func (e env) idToken() string {
	if !e.HasID {
		return "none"
	}
	if e.IDIsString {
		return strconv.Quote(e.IDStr)
	}
	return e.IDNum
}

// readEnv reads an envelope from wire bytes. Member names are matched exactly.
func readEnv(b []byte) (env, error) {
	var e env
	m, err := members(b)
	if err != nil {
		return e, err
	}
	if raw, ok := m["jsonrpc"]; ok {
		if err := json.Unmarshal(raw, &e.Version); err != nil {
			return e, fmt.Errorf("jsonrpc member: %v", err)
		}
	}
	if raw, ok := m["id"]; ok {
		v, err := parseAny(raw)
		if err != nil {
			return e, err
		}
		switch t := v.(type) {
		case string:
			e.HasID, e.IDIsString, e.IDStr = true, true, t
		case json.Number:
			e.HasID, e.IDNum = true, string(t)
		default:
			return e, fmt.Errorf("id is neither a string nor a number: %s", raw)
		}
	}
	if raw, ok := m["method"]; ok {
		if err := json.Unmarshal(raw, &e.Method); err != nil {
			return e, fmt.Errorf("method member: %v", err)
		}
		e.HasMethod = true
	}
	if raw, ok := m["params"]; ok {
		e.HasParams = true
		if e.Params, err = parseAny(raw); err != nil {
			return e, err
		}
	}
	if raw, ok := m["result"]; ok {
		e.HasResult = true
		if e.Result, err = parseAny(raw); err != nil {
			return e, err
		}
	}
	if raw, ok := m["error"]; ok {
		em, err := members(raw)
		if err != nil {
			return e, fmt.Errorf("error member: %v", err)
		}
		e.HasError = true
		if c, ok := em["code"]; ok {
			v, err := parseAny(c)
			if err != nil {
				return e, err
			}
			n, ok := v.(json.Number)
			if !ok {
				return e, fmt.Errorf("error.code is not a number: %s", c)
			}
			e.Code = string(n)
		}
		if c, ok := em["message"]; ok {
			if err := json.Unmarshal(c, &e.Message); err != nil {
				return e, fmt.Errorf("error.message: %v", err)
			}
		}
		if c, ok := em["data"]; ok {
			e.HasData = true
			if e.Data, err = parseAny(c); err != nil {
				return e, err
			}
		}
	}
	return e, nil
}

// valEq compares two independently parsed JSON values; numbers are compared by their exact value
// (1.0 == 1, 1E3 == 1e3 == 1000: the property is about values, not their spelling), nothing is rounded.
func valEq(a, b any) bool {
	switch x := a.(type) {
	case json.Number:
		y, ok := b.(json.Number)
		if !ok {
			return false
		}
		if x == y {
			return true
		}
		rx, okx := new(big.Rat).SetString(string(x))
		ry, oky := new(big.Rat).SetString(string(y))
		return okx && oky && rx.Cmp(ry) == 0
	case []any:
		y, ok := b.([]any)
		if !ok || len(x) != len(y) || (x == nil) != (y == nil) {
			return false
		}
		for i := range x {
			if !valEq(x[i], y[i]) {
				return false
			}
		}
		return true
	case map[string]any:
		y, ok := b.(map[string]any)
		if !ok || len(x) != len(y) {
			return false
		}
		for k, v := range x {
			w, ok := y[k]
			if !ok || !valEq(v, w) {
				return false
			}
		}
		return true
	}
	return reflect.DeepEqual(a, b)
}

// diffEnv names the first field in which got differs from want ("" if none).
func diffEnv(want, got env) string {
	switch {
	case want.Version != got.Version:
		return fmt.Sprintf("jsonrpc: want %q got %q", want.Version, got.Version)
	case want.HasID != got.HasID:
		return fmt.Sprintf("id presence: want %v got %v", want.HasID, got.HasID)
	case want.IDIsString != got.IDIsString:
		return fmt.Sprintf("id token type: want %s got %s", want.idToken(), got.idToken())
	case want.IDStr != got.IDStr || want.IDNum != got.IDNum:
		return fmt.Sprintf("id value: want %s got %s", want.idToken(), got.idToken())
	case want.HasMethod != got.HasMethod:
		return fmt.Sprintf("method presence: want %v got %v", want.HasMethod, got.HasMethod)
	case want.Method != got.Method:
		return fmt.Sprintf("method: want %q got %q", want.Method, got.Method)
	case want.HasParams != got.HasParams:
		return fmt.Sprintf("params presence: want %v got %v", want.HasParams, got.HasParams)
	case !valEq(want.Params, got.Params):
		return fmt.Sprintf("params: want %v got %v", want.Params, got.Params)
	case want.HasResult != got.HasResult:
		return fmt.Sprintf("result presence: want %v got %v", want.HasResult, got.HasResult)
	case !valEq(want.Result, got.Result):
		return fmt.Sprintf("result: want %v got %v", want.Result, got.Result)
	case want.HasError != got.HasError:
		return fmt.Sprintf("error presence: want %v got %v", want.HasError, got.HasError)
	case want.Code != got.Code:
		return fmt.Sprintf("error.code: want %s got %s", want.Code, got.Code)
	case want.Message != got.Message:
		return fmt.Sprintf("error.message: want %q got %q", want.Message, got.Message)
	case want.HasData != got.HasData:
		return fmt.Sprintf("error.data presence: want %v got %v", want.HasData, got.HasData)
	case !valEq(want.Data, got.Data):
		return fmt.Sprintf("error.data: want %v got %v", want.Data, got.Data)
	}
	return ""
}
