// Package c19 checks property C19: the wire codec and the framings round-trip
// every message and value without loss.
package c19

import (
	"testing"

	"github.com/modelcontextprotocol/go-sdk/verif/vt"
)

var theT *testing.T

func TestMain(m *testing.M) { vt.Main(m) }

func TestReplay(t *testing.T)  { theT = t; vt.Replay(t) }
func TestRegress(t *testing.T) { theT = t; vt.Regress(t, "C19") }
func TestKnown(t *testing.T)   { theT = t; vt.Known(t, "C19") }
