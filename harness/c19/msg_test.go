package c19

// JSON-RPC message codec: API value -> EncodeMessage -> DecodeMessage (prop "msg")
// and harness-written wire bytes -> DecodeMessage -> EncodeMessage (prop "wire"),
// both judged by the independent envelope reading of json_test.go.

import (
	"encoding/json"
	"errors"
	"fmt"
	"math"
	"strconv"
	"strings"
	"testing"
	"unicode"

	"github.com/modelcontextprotocol/go-sdk/internal/jsonrpc2"
	"github.com/modelcontextprotocol/go-sdk/jsonrpc"
	"github.com/modelcontextprotocol/go-sdk/verif/vt"
	"pgregory.net/rapid"
)

// MsgModel is a valid JSON-RPC 2.0 message as plain data.
type MsgModel struct {
	Kind    string  `json:"kind"` // call | notif | result | error
	ID      IDModel `json:"id"`
	Method  string  `json:"method,omitempty"`
	Params  string  `json:"params,omitempty"` // JSON text of an object/array; "" = member absent
	Result  string  `json:"result,omitempty"` // JSON text of any value
	Code    int64   `json:"code,omitempty"`
	Message string  `json:"message,omitempty"`
	Data    string  `json:"data,omitempty"` // JSON text (never a bare null); "" = member absent
}

var errorCodes = []int64{-32700, -32600, -32601, -32602, -32603, -32000, -32001, -32002, 0, 1, -1, 404, math.MaxInt64, math.MinInt64, two53 + 1, -two53 - 1}

func genMsgModel(rt *rapid.T, kinds []string) MsgModel {
	g := &jgen{rt: rt, ws: rapid.IntRange(0, 2).Draw(rt, "ws")}
	m := MsgModel{Kind: rapid.SampledFrom(kinds).Draw(rt, "kind")}
	if m.Kind != "notif" {
		m.ID = genIDModel(rt, "id")
	}
	switch m.Kind {
	case "call", "notif":
		m.Method = genString(rt, "method")
		if m.Method == "" && vt.Open("F15") {
			vt.Excluded("F15")
			m.Method = "m"
		}
		if rapid.IntRange(0, 3).Draw(rt, "has_params") > 0 {
			m.Params = g.structured(3)
		}
	case "result":
		m.Result = g.value(3)
	case "error":
		if rapid.Bool().Draw(rt, "code_sp") {
			m.Code = rapid.SampledFrom(errorCodes).Draw(rt, "code")
		} else {
			m.Code = rapid.Int64().Draw(rt, "code_i")
		}
		m.Message = genString(rt, "message")
		if rapid.Bool().Draw(rt, "has_data") {
			m.Data = g.value(2)
			if strings.TrimSpace(m.Data) == "null" {
				m.Data = "[null]"
			}
		}
	}
	return m
}

func (id IDModel) sdk() jsonrpc.ID {
	switch id.Kind {
	case "s":
		return jsonrpc2.StringID(id.Str)
	case "i":
		return jsonrpc2.Int64ID(id.Int)
	}
	return jsonrpc.ID{}
}

func rawOrNil(s string) json.RawMessage {
	if s == "" {
		return nil
	}
	return json.RawMessage(s)
}

// build makes the SDK value of the model through the SDK's public constructors/fields.
func (m MsgModel) build() jsonrpc.Message {
	switch m.Kind {
	case "call", "notif":
		return &jsonrpc.Request{ID: m.ID.sdk(), Method: m.Method, Params: rawOrNil(m.Params)}
	case "result":
		return &jsonrpc.Response{ID: m.ID.sdk(), Result: rawOrNil(m.Result)}
	default:
		return &jsonrpc.Response{ID: m.ID.sdk(), Error: &jsonrpc.Error{Code: m.Code, Message: m.Message, Data: rawOrNil(m.Data)}}
	}
}

func mustParse(s string) any {
	v, err := parseAny([]byte(s))
	if err != nil {
		panic(fmt.Sprintf("harness: generated JSON text is invalid: %v: %q", err, s))
	}
	return v
}

// env is what an independent reader must see on the wire for this model.
func (m MsgModel) env() env {
	e := env{Version: "2.0"}
	switch m.ID.Kind {
	case "s":
		e.HasID, e.IDIsString, e.IDStr = true, true, m.ID.Str
	case "i":
		e.HasID, e.IDNum = true, strconv.FormatInt(m.ID.Int, 10)
	}
	switch m.Kind {
	case "call", "notif":
		e.HasMethod, e.Method = true, m.Method
		if m.Params != "" {
			e.HasParams, e.Params = true, mustParse(m.Params)
		}
	case "result":
		e.HasResult, e.Result = true, mustParse(m.Result)
	default:
		e.HasError, e.Code, e.Message = true, strconv.FormatInt(m.Code, 10), m.Message
		if m.Data != "" {
			e.HasData, e.Data = true, mustParse(m.Data)
		}
	}
	return e
}

// envOfMsg reads the fields of a decoded SDK message directly (no SDK encoder involved).
func envOfMsg(msg jsonrpc.Message) (env, error) {
	e := env{Version: "2.0"}
	setID := func(id jsonrpc.ID) error {
		switch v := id.Raw().(type) {
		case nil:
		case string:
			e.HasID, e.IDIsString, e.IDStr = true, true, v
		case int64:
			e.HasID, e.IDNum = true, strconv.FormatInt(v, 10)
		default:
			// Another in-memory representation (Raw is only "the underlying value"): read it through its JSON form;
			// a representation that cannot hold the exact value shows up as a different token.
			b, err := json.Marshal(v)
			if err != nil {
				return fmt.Errorf("ID.Raw() has type %T", v)
			}
			switch t, _ := parseAny(b); t := t.(type) {
			case string:
				e.HasID, e.IDIsString, e.IDStr = true, true, t
			case json.Number:
				e.HasID, e.IDNum = true, string(t)
			default:
				return fmt.Errorf("ID.Raw() has type %T", v)
			}
		}
		return nil
	}
	var err error
	switch m := msg.(type) {
	case *jsonrpc.Request:
		if err := setID(m.ID); err != nil {
			return e, err
		}
		e.HasMethod, e.Method = true, m.Method
		if len(m.Params) > 0 {
			e.HasParams = true
			if e.Params, err = parseAny(m.Params); err != nil {
				return e, fmt.Errorf("Params is not JSON: %v", err)
			}
		}
	case *jsonrpc.Response:
		if err := setID(m.ID); err != nil {
			return e, err
		}
		if len(m.Result) > 0 {
			e.HasResult = true
			if e.Result, err = parseAny(m.Result); err != nil {
				return e, fmt.Errorf("Result is not JSON: %v", err)
			}
		}
		if m.Error != nil {
			var we *jsonrpc.Error
			if !errors.As(m.Error, &we) {
				return e, fmt.Errorf("Response.Error is a %T, not a *jsonrpc.Error", m.Error)
			}
			e.HasError, e.Code, e.Message = true, strconv.FormatInt(we.Code, 10), we.Message
			if len(we.Data) > 0 {
				e.HasData = true
				if e.Data, err = parseAny(we.Data); err != nil {
					return e, fmt.Errorf("Error.Data is not JSON: %v", err)
				}
			}
		}
	default:
		return e, fmt.Errorf("message of type %T", msg)
	}
	return e, nil
}

// validEnv says whether an envelope is a valid JSON-RPC 2.0 request, notification or response
// of the classes the property quantifies over.
func validEnv(e env) bool {
	if e.Version != "2.0" {
		return false
	}
	if e.HasMethod {
		_, objOK := e.Params.(map[string]any)
		_, arrOK := e.Params.([]any)
		return !e.HasResult && !e.HasError && (!e.HasParams || objOK || arrOK)
	}
	if !e.HasID || e.HasParams || e.HasResult == e.HasError {
		return false
	}
	return !e.HasError || (e.Code != "" && (!e.HasData || e.Data != nil))
}

func idClass(e env) string {
	switch {
	case !e.HasID:
		return "id:none"
	case e.IDIsString:
		if e.IDStr == "" {
			return "id:empty-string"
		}
		return "id:string"
	}
	n, err := strconv.ParseInt(e.IDNum, 10, 64)
	if err != nil {
		return "id:non-int64"
	}
	if n > two53 || n < -two53 {
		return "id:beyond-2^53"
	}
	return "id:int-small"
}

func envKind(e env) string {
	switch {
	case e.HasMethod && e.HasID:
		return "call"
	case e.HasMethod:
		return "notif"
	case e.HasError:
		return "error"
	}
	return "result"
}

// ---- prop "msg": API value -> encode -> decode -> encode ------------------------

type MsgScript struct {
	Msg MsgModel `json:"msg"`
}

var allKinds = []string{"call", "call", "notif", "result", "result", "error", "error"}

func genMsg(rt *rapid.T) MsgScript { return MsgScript{Msg: genMsgModel(rt, allKinds)} }

func runMsg(s MsgScript) (res vt.Result) {
	want := s.Msg.env()
	res.Desc = want.String()
	res.NonTrivial = s.Msg.ID.big()
	res.Class("kind:"+s.Msg.Kind, idClass(want))
	if d := max(jsonDepth(want.Params), jsonDepth(want.Result), jsonDepth(want.Data)); d >= 2 {
		res.Class("payload-depth>=2")
	}
	msg := s.Msg.build()
	b1, err := jsonrpc.EncodeMessage(msg)
	if err != nil {
		res.Failf("EncodeMessage of a valid %s failed: %v", s.Msg.Kind, err)
		return
	}
	got1, err := readEnv(b1)
	if err != nil {
		res.Failf("EncodeMessage produced bytes an independent JSON reader rejects: %v: %q", err, b1)
		return
	}
	if d := diffEnv(want, got1); d != "" {
		res.Failf("encoded message differs from the value that was encoded: %s\n wire: %s", d, b1)
		return
	}
	m2, err := jsonrpc.DecodeMessage(b1)
	if err != nil {
		res.Failf("DecodeMessage rejects the SDK's own encoding %s: %v", b1, err)
		return
	}
	if _, isReq := m2.(*jsonrpc.Request); isReq != (s.Msg.Kind == "call" || s.Msg.Kind == "notif") {
		res.Failf("a %s was encoded as %s and decoded as %T", s.Msg.Kind, b1, m2)
		return
	}
	got2, err := envOfMsg(m2)
	if err != nil {
		res.Failf("decoded message unusable: %v (wire %s)", err, b1)
		return
	}
	if d := diffEnv(want, got2); d != "" {
		res.Failf("encode->decode is not the identity: %s\n wire: %s", d, b1)
		return
	}
	b2, err := jsonrpc.EncodeMessage(m2)
	if err != nil {
		res.Failf("re-encoding the decoded message failed: %v", err)
		return
	}
	// a fixpoint in the message, not necessarily in the bytes (the encoder may spell a value differently)
	if got3, err := readEnv(b2); err != nil || diffEnv(want, got3) != "" {
		res.Failf("encode->decode->encode is not a fixpoint:\n first : %s\n second: %s", b1, b2)
	}
	return
}

var msgProp = vt.Register(&vt.Prop[MsgScript]{Property: "C19", Name: "msg", Gen: genMsg, Run: runMsg})

func TestC19_Msg(t *testing.T) { msgProp.Check(t) }

// ---- prop "wire": harness-written bytes -> decode -> encode -----------------------

// member is one member of a JSON object under construction.
type member struct {
	name  string
	value string
	sub   []member // if non-nil the value is an object made of these members
}

func renderMembers(ms []member, g *jgen, keyStyle int) string {
	var b strings.Builder
	b.WriteString("{" + g.sp())
	for i, m := range ms {
		if i > 0 {
			b.WriteString(g.sp() + "," + g.sp())
		}
		v := m.value
		if m.sub != nil {
			v = renderMembers(m.sub, g, keyStyle)
		}
		b.WriteString(encString(m.name, keyStyle) + g.sp() + ":" + g.sp() + v)
	}
	b.WriteString(g.sp() + "}")
	return b.String()
}

var extraNames = []string{"x", "extra", "_meta", "trace-id", "v", "meth", "i d", "jsonrpc2", "ids", "results", "err"}

// wireMembers lays the model out as object members in a drawn order with drawn extras.
func wireMembers(rt *rapid.T, m MsgModel, g *jgen) []member {
	esc := func(label string) int { return rapid.IntRange(0, 3).Draw(rt, label) }
	ms := []member{{name: "jsonrpc", value: `"2.0"`}}
	if m.ID.Kind != "" {
		ms = append(ms, member{name: "id", value: m.ID.token(esc("id_esc"))})
	}
	switch m.Kind {
	case "call", "notif":
		ms = append(ms, member{name: "method", value: encString(m.Method, esc("method_esc"))})
		if m.Params != "" {
			ms = append(ms, member{name: "params", value: m.Params})
		}
	case "result":
		ms = append(ms, member{name: "result", value: m.Result})
	default:
		sub := []member{{name: "code", value: strconv.FormatInt(m.Code, 10)}, {name: "message", value: encString(m.Message, esc("msg_esc"))}}
		if m.Data != "" {
			sub = append(sub, member{name: "data", value: m.Data})
		}
		sub = rapid.Permutation(sub).Draw(rt, "err_order")
		ms = append(ms, member{name: "error", sub: sub})
	}
	for i, n := 0, rapid.IntRange(0, 2).Draw(rt, "extras"); i < n; i++ {
		name := rapid.SampledFrom(extraNames).Draw(rt, "extra_name")
		dup := false
		for _, e := range ms {
			dup = dup || e.name == name
		}
		if !dup {
			ms = append(ms, member{name: name, value: g.value(1)})
		}
	}
	return rapid.Permutation(ms).Draw(rt, "order")
}

// recase returns a spelling of name that differs from it only in letter case.
func recase(name string, how int) string {
	r := []rune(name)
	switch how % 3 {
	case 0:
		r[0] = unicode.ToUpper(r[0])
	case 1:
		return strings.ToUpper(name)
	default:
		r[len(r)-1] = unicode.ToUpper(r[len(r)-1])
	}
	return string(r)
}

type WireScript struct {
	Model MsgModel `json:"model"` // what Wire was rendered from (description only; the oracle reads Wire)
	Wire  string   `json:"wire"`
	// Mut is Wire with one member name re-spelled in a different letter case
	// (CaseMode replace), or with an additional wrong-case decoy member next to
	// the real one (dup-before / dup-after). Empty if no case variant was drawn.
	Mut      string `json:"mut,omitempty"`
	CaseKey  string `json:"case_key,omitempty"`
	CaseAs   string `json:"case_as,omitempty"`
	CaseMode string `json:"case_mode,omitempty"`
}

func decoyFor(key string) string {
	switch key {
	case "jsonrpc":
		return `"1.0"`
	case "id":
		return `"decoy-id"`
	case "method":
		return `"decoy/method"`
	case "params":
		return `{"decoy":true}`
	case "result":
		return `"decoy-result"`
	case "error":
		return `{"code":7,"message":"decoy"}`
	case "code":
		return `7`
	case "message":
		return `"decoy-message"`
	}
	return `"decoy-data"`
}

func genWire(rt *rapid.T) WireScript {
	m := genMsgModel(rt, allKinds)
	g := &jgen{rt: rt, ws: rapid.IntRange(0, 2).Draw(rt, "wire_ws")}
	keyStyle := 0
	if rapid.IntRange(0, 7).Draw(rt, "key_style") == 0 {
		keyStyle = 2
	}
	ms := wireMembers(rt, m, g)
	s := WireScript{Model: m, Wire: renderMembers(ms, g, keyStyle)}
	if rapid.IntRange(0, 2).Draw(rt, "case_variant") == 0 {
		return s
	}
	// candidates: every real member; code/message only when their value is significant
	var cands []string
	for _, e := range ms {
		switch e.name {
		case "jsonrpc", "id", "method", "params", "result", "error":
			cands = append(cands, e.name)
		}
		for _, se := range e.sub {
			if (se.name == "code" && m.Code != 0) || (se.name == "message" && m.Message != "") || se.name == "data" {
				cands = append(cands, "error."+se.name)
			}
		}
	}
	s.CaseKey = rapid.SampledFrom(cands).Draw(rt, "case_key")
	s.CaseMode = rapid.SampledFrom([]string{"replace", "replace", "dup-before", "dup-after"}).Draw(rt, "case_mode")
	leaf := s.CaseKey[strings.LastIndex(s.CaseKey, ".")+1:]
	s.CaseAs = recase(leaf, rapid.IntRange(0, 2).Draw(rt, "case_how"))
	apply := func(list []member) []member {
		var out []member
		for _, e := range list {
			if e.name != leaf {
				out = append(out, e)
				continue
			}
			switch s.CaseMode {
			case "replace":
				e.name = s.CaseAs
				out = append(out, e)
			case "dup-before":
				out = append(out, member{name: s.CaseAs, value: decoyFor(leaf)}, e)
			default:
				out = append(out, e, member{name: s.CaseAs, value: decoyFor(leaf)})
			}
		}
		return out
	}
	var edited []member
	if strings.HasPrefix(s.CaseKey, "error.") {
		for _, e := range ms {
			if e.name == "error" {
				e.sub = apply(e.sub)
			}
			edited = append(edited, e)
		}
	} else {
		edited = apply(ms)
	}
	s.Mut = renderMembers(edited, g, 0)
	return s
}

// roundTripWire checks decode -> (fields) -> encode of wire against the independent reading want.
func roundTripWire(res *vt.Result, what string, wire []byte, want env) bool {
	msg, err := jsonrpc.DecodeMessage(wire)
	if err != nil {
		res.Failf("%s: DecodeMessage rejects a valid %s: %v\n wire: %s", what, envKind(want), err, wire)
		return false
	}
	if _, isReq := msg.(*jsonrpc.Request); isReq != want.HasMethod {
		res.Failf("%s: a %s was decoded as %T\n wire: %s", what, envKind(want), msg, wire)
		return false
	}
	got, err := envOfMsg(msg)
	if err != nil {
		res.Failf("%s: decoded message unusable: %v\n wire: %s", what, err, wire)
		return false
	}
	if d := diffEnv(want, got); d != "" {
		res.Failf("%s: decoded message differs from the wire message: %s\n wire: %s", what, d, wire)
		return false
	}
	out, err := jsonrpc.EncodeMessage(msg)
	if err != nil {
		res.Failf("%s: re-encoding the decoded message failed: %v\n wire: %s", what, err, wire)
		return false
	}
	got2, err := readEnv(out)
	if err != nil {
		res.Failf("%s: re-encoded bytes are rejected by an independent JSON reader: %v: %q", what, err, out)
		return false
	}
	if d := diffEnv(want, got2); d != "" {
		res.Failf("%s: decode->encode does not preserve the message: %s\n wire in : %s\n wire out: %s", what, d, wire, out)
		return false
	}
	return true
}

func runWire(s WireScript) (res vt.Result) {
	want, err := readEnv([]byte(s.Wire))
	if err != nil || !validEnv(want) {
		res.Failf("harness: generated wire message is not a valid message (%v): %s", err, s.Wire)
		return
	}
	res.Desc = s.Wire + "|" + s.Mut
	res.NonTrivial = idClass(want) == "id:beyond-2^53"
	res.Class("kind:"+envKind(want), idClass(want))
	if d := max(jsonDepth(want.Params), jsonDepth(want.Result), jsonDepth(want.Data)); d >= 2 {
		res.Class("payload-depth>=2")
	}
	if !roundTripWire(&res, "wire", []byte(s.Wire), want) {
		return
	}
	if s.Mut == "" {
		res.Class("case:none")
		return
	}
	// Case sensitivity. The independent reader matches member names exactly, so
	// its view of Mut is the message with the re-spelled member treated as unknown.
	mw, err := readEnv([]byte(s.Mut))
	if err != nil {
		res.Failf("harness: mutated wire unreadable: %v: %s", err, s.Mut)
		return
	}
	res.Class("case:" + s.CaseMode + ":" + s.CaseKey)
	if validEnv(mw) {
		res.Class("case:still-valid")
		roundTripWire(&res, fmt.Sprintf("member %q spelled %q (%s)", s.CaseKey, s.CaseAs, s.CaseMode), []byte(s.Mut), mw)
		return
	}
	// Without the member the message is not valid any more: the SDK may reject it
	// or read something else, but it must not read the correctly spelled message.
	res.Class("case:now-invalid")
	msg, err := jsonrpc.DecodeMessage([]byte(s.Mut))
	if err != nil {
		return
	}
	got, err := envOfMsg(msg)
	if err != nil {
		return
	}
	if s.CaseKey == "jsonrpc" && s.CaseMode == "replace" {
		// A decoder that does not insist on the version member reads the same message because the member is
		// optional for it, not because it matches names loosely (the decoy variants still tell).
		res.Class("case:jsonrpc-absent")
		return
	}
	if diffEnv(want, got) == "" {
		res.Failf("decoding is not case-sensitive: member %q spelled %q is read like the real one\n mutated wire: %s\n decodes like: %s", s.CaseKey, s.CaseAs, s.Mut, s.Wire)
	}
	return
}

var wireProp = vt.Register(&vt.Prop[WireScript]{Property: "C19", Name: "wire", Gen: genWire, Run: runWire})

func TestC19_Wire(t *testing.T) { wireProp.Check(t) }
